/-
  Helper lemmas for the custom-scalar imports of `client.py` (Model/ClientImports.lean): what
  `ArgumentsGenerator.generate` leaves in `_used_custom_scalars`.
-/
import AriadneModel.Model.ClientImports

set_option linter.unusedSimpArgs false
set_option linter.unusedVariables false

namespace Ariadne.C07Client
open Ariadne Ariadne.Scalars Ariadne.Gql Ariadne.Arguments Ariadne.ClientImports

/-- `used_custom_scalar` is only ever a key of `custom_scalars` -/
theorem parseNamed_custom (env : Env) (n : String) (nullable : Bool) (a : NAnn) (sc : String)
    (h : parseNamed env n nullable = .ok (a, .custom sc)) :
    sc = n ∧ ∃ d, lookupScalar env.scalars sc = some d ∧ a = .leaf (.name d.typeName) nullable := by
  unfold parseNamed at h
  cases hk : env.kind n with
  | none => simp [hk] at h
  | some k =>
    cases k <;> simp only [hk] at h
    all_goals first
      | (simp at h; done)
      | (cases hl : lookupScalar env.scalars n with
         | none => simp [hl] at h
         | some d =>
           simp only [hl, Except.ok.injEq, Prod.mk.injEq, Use.custom.injEq] at h
           obtain ⟨ha, hs⟩ := h
           subst hs
           exact ⟨rfl, d, hl, ha.symm⟩)

/-- the leaf under the list wrappers of an annotation -/
def baseLeaf : NAnn → Leaf
  | .leaf l _ => l
  | .list it _ => baseLeaf it

theorem parseTypeNode_custom (env : Env) (t : TypeRef) : ∀ (nullable : Bool) (a : NAnn) (sc : String),
    parseTypeNode env t nullable = .ok (a, .custom sc) →
      ∃ d, lookupScalar env.scalars sc = some d ∧ baseLeaf a = .name d.typeName := by
  induction t with
  | named n =>
    intro nullable a sc h
    obtain ⟨_, d, hd, ha⟩ := parseNamed_custom env n nullable a sc (by simpa [parseTypeNode] using h)
    exact ⟨d, hd, by rw [ha]; rfl⟩
  | list t ih =>
    intro nullable a sc h
    simp only [parseTypeNode] at h
    cases hr : parseTypeNode env t nullable with
    | error e => simp [hr] at h
    | ok p =>
      obtain ⟨sub, use⟩ := p
      simp only [hr, Except.ok.injEq, Prod.mk.injEq] at h
      obtain ⟨ha, hu⟩ := h
      subst hu
      obtain ⟨d, hd, hb⟩ := ih nullable sub sc hr
      exact ⟨d, hd, by rw [← ha]; exact hb⟩
  | nonNull t ih =>
    intro nullable a sc h
    exact ih false a sc (by simpa [parseTypeNode] using h)

/-- one loop iteration: a variable whose scalar is reported has a configured scalar, the parameter's
    annotation names its type and the dict value is `serialize(py)` exactly when `serialize` is configured -/
theorem item_custom (env : Env) (v : VarDef) (i : Item) (sc : String) (h : item env v = .ok i) (hu : i.use = .custom sc) :
    ∃ d, lookupScalar env.scalars sc = some d ∧ baseLeaf i.arg.ann = .name d.typeName ∧
      i.value = (match d.serializeName with | some f => .call f i.arg.py | none => .name i.arg.py) := by
  unfold item at h
  cases hp : parseTypeNode env v.type true with
  | error e => simp [hp] at h
  | ok p =>
    obtain ⟨ann, use⟩ := p
    simp only [hp, Except.ok.injEq] at h
    subst h
    simp only at hu
    subst hu
    obtain ⟨d, hd, hb⟩ := parseTypeNode_custom env v.type true ann sc hp
    exact ⟨d, hd, hb, by simp only [dictValue, hd]; cases d.serializeName <;> rfl⟩

theorem items_mem (env : Env) : ∀ (defs : List VarDef) (is : List Item), items env defs = .ok is →
    ∀ i ∈ is, ∃ v ∈ defs, item env v = .ok i := by
  intro defs
  induction defs with
  | nil => intro is h i hi; simp [items] at h; subst h; cases hi
  | cons v vs ih =>
    intro is h i hi
    simp only [items] at h
    cases h1 : item env v with
    | error e => simp [h1] at h
    | ok i1 =>
      cases h2 : items env vs with
      | error e => simp [h1, h2] at h
      | ok is2 =>
        simp only [h1, h2, Except.ok.injEq] at h
        subst h
        rcases List.mem_cons.mp hi with he | he
        · subst he; exact ⟨v, List.mem_cons_self, h1⟩
        · obtain ⟨w, hw, hiw⟩ := ih is2 h2 i he
          exact ⟨w, List.mem_cons_of_mem _ hw, hiw⟩

/-- `_used_custom_scalars` only grows -/
theorem record_mono (st : St) (u : Use) : ∀ sc ∈ st.usedScalars, sc ∈ (st.record u).usedScalars := by
  intro sc h
  cases u <;> simp [St.record, h]

theorem foldl_record_mono (is : List Item) : ∀ (st : St), ∀ sc ∈ st.usedScalars,
    sc ∈ (is.foldl (fun st i => st.record i.use) st).usedScalars := by
  induction is with
  | nil => intro st sc h; exact h
  | cons i is ih => intro st sc h; exact ih (st.record i.use) sc (record_mono st i.use sc h)

theorem foldl_record_mem (is : List Item) : ∀ (st : St), ∀ i ∈ is, ∀ sc, i.use = .custom sc →
    sc ∈ (is.foldl (fun st i => st.record i.use) st).usedScalars := by
  induction is with
  | nil => intro st i hi; cases hi
  | cons j is ih =>
    intro st i hi sc hu
    rcases List.mem_cons.mp hi with he | he
    · subst he
      exact foldl_record_mono is (st.record i.use) sc (by simp [St.record, hu])
    · exact ih (st.record j.use) i he sc hu

/-- everything in `_used_custom_scalars` is a key of `custom_scalars` (invariant of the loop) -/
theorem foldl_record_configured (cfg : ScalarCfg) (is : List Item) : ∀ (st : St),
    (∀ sc ∈ st.usedScalars, (lookupScalar cfg sc).isSome = true) →
    (∀ i ∈ is, ∀ sc, i.use = .custom sc → (lookupScalar cfg sc).isSome = true) →
    ∀ sc ∈ (is.foldl (fun st i => st.record i.use) st).usedScalars, (lookupScalar cfg sc).isSome = true := by
  induction is with
  | nil => intro st h _; exact h
  | cons j is ih =>
    intro st h hi
    apply ih (st.record j.use)
    · intro sc hsc
      cases hu : j.use with
      | plain => simp [St.record, hu] at hsc; exact h sc hsc
      | input n => simp [St.record, hu] at hsc; exact h sc hsc
      | enum n => simp [St.record, hu] at hsc; exact h sc hsc
      | custom n =>
        simp only [St.record, hu, List.mem_append, List.mem_singleton] at hsc
        rcases hsc with hsc | hsc
        · exact h sc hsc
        · subst hsc; exact hi j List.mem_cons_self _ hu
    · intro i hi' sc hu; exact hi i (List.mem_cons_of_mem _ hi') sc hu

theorem generate_configured (env : Env) (defs : List VarDef) (st st' : St) (out : Out)
    (h : Arguments.generate env defs st = .ok (out, st'))
    (hs : ∀ sc ∈ st.usedScalars, (lookupScalar env.scalars sc).isSome = true) :
    ∀ sc ∈ st'.usedScalars, (lookupScalar env.scalars sc).isSome = true := by
  unfold Arguments.generate at h
  cases hi : items env defs with
  | error e => simp [hi] at h
  | ok is =>
    simp only [hi, Except.ok.injEq, Prod.mk.injEq] at h
    rw [← h.2]
    apply foldl_record_configured env.scalars is st hs
    intro i hmem sc hu
    obtain ⟨v, _, hv⟩ := items_mem env defs is hi i hmem
    obtain ⟨d, hd, _⟩ := item_custom env v i sc hv hu
    simp [hd]

theorem generateAll_configured (env : Env) : ∀ (ops : List (List VarDef)) (st st' : St),
    generateAll env ops st = .ok st' → (∀ sc ∈ st.usedScalars, (lookupScalar env.scalars sc).isSome = true) →
    ∀ sc ∈ st'.usedScalars, (lookupScalar env.scalars sc).isSome = true := by
  intro ops
  induction ops with
  | nil => intro st st' h hs; simp [generateAll] at h; subst h; exact hs
  | cons defs rest ih =>
    intro st st' h hs
    simp only [generateAll] at h
    cases hg : Arguments.generate env defs st with
    | error e => simp [hg] at h
    | ok p =>
      obtain ⟨out, st1⟩ := p
      simp only [hg] at h
      exact ih st1 st' h (generate_configured env defs st st1 out hg hs)

theorem generateAll_mono (env : Env) : ∀ (ops : List (List VarDef)) (st st' : St),
    generateAll env ops st = .ok st' → ∀ sc ∈ st.usedScalars, sc ∈ st'.usedScalars := by
  intro ops
  induction ops with
  | nil => intro st st' h sc hsc; simp [generateAll] at h; subst h; exact hsc
  | cons defs rest ih =>
    intro st st' h sc hsc
    simp only [generateAll] at h
    cases hg : Arguments.generate env defs st with
    | error e => simp [hg] at h
    | ok p =>
      obtain ⟨out, st1⟩ := p
      simp only [hg] at h
      apply ih st1 st' h sc
      unfold Arguments.generate at hg
      cases hi : items env defs with
      | error e => simp [hi] at hg
      | ok is =>
        simp only [hi, Except.ok.injEq, Prod.mk.injEq] at hg
        rw [← hg.2]
        exact foldl_record_mono is st sc hsc

/-- every operation's scalar-typed variables are in the final list -/
theorem generateAll_mem (env : Env) : ∀ (ops : List (List VarDef)) (st st' : St),
    generateAll env ops st = .ok st' →
    ∀ defs ∈ ops, ∀ is, items env defs = .ok is → ∀ i ∈ is, ∀ sc, i.use = .custom sc → sc ∈ st'.usedScalars := by
  intro ops
  induction ops with
  | nil => intro st st' h defs hd; cases hd
  | cons d0 rest ih =>
    intro st st' h defs hd is his i hi sc hu
    simp only [generateAll] at h
    cases hg : Arguments.generate env d0 st with
    | error e => simp [hg] at h
    | ok p =>
      obtain ⟨out, st1⟩ := p
      simp only [hg] at h
      rcases List.mem_cons.mp hd with he | he
      · subst he
        apply generateAll_mono env rest st1 st' h sc
        unfold Arguments.generate at hg
        simp only [his, Except.ok.injEq, Prod.mk.injEq] at hg
        rw [← hg.2]
        exact foldl_record_mem is st i hi sc hu
      · exact ih st1 st' h defs he is his i hi sc hu

end Ariadne.C07Client
