/-
  Proofs/C08Monad.lean — reasoning about the generator monad `M = StateT St (Except GenErr)` of
  Model/ResultTypes.lean: what a successful run of `pure / bind / get / modify / err / liftExcept / for … in`
  looks like.  Used by the C08 proofs about `resolve`, `mixinBases`, `parseTypeDefinition`.  Core Lean only.
-/
import AriadneModel.Model.ResultTypes

set_option linter.unusedSimpArgs false
set_option linter.unusedVariables false

namespace Ariadne.ResultTypes

variable {α β : Type}

theorem ok_pure (a b : α) (s s' : St) : (pure a : M α) s = .ok (b, s') ↔ a = b ∧ s = s' := by
  show (Except.ok (a, s) : Except GenErr (α × St)) = .ok (b, s') ↔ _
  constructor
  · intro h; injection h with h; injection h with h1 h2; exact ⟨h1, h2⟩
  · rintro ⟨rfl, rfl⟩; rfl

theorem ok_bind (x : M α) (g : α → M β) (s s'' : St) (b : β) :
    (x >>= g) s = .ok (b, s'') ↔ ∃ a s', x s = .ok (a, s') ∧ g a s' = .ok (b, s'') := by
  show (StateT.bind x g) s = _ ↔ _
  unfold StateT.bind
  cases hx : x s with
  | error e => simp [bind, Except.bind]
  | ok p =>
    obtain ⟨a, s'⟩ := p
    simp only [bind, Except.bind, Except.ok.injEq, Prod.mk.injEq]
    constructor
    · intro h; exact ⟨a, s', ⟨rfl, rfl⟩, h⟩
    · rintro ⟨a1, s1, ⟨rfl, rfl⟩, h⟩; exact h

theorem ok_get (a s s' : St) : (get : M St) s = .ok (a, s') ↔ a = s ∧ s' = s := by
  show (Except.ok (s, s) : Except GenErr (St × St)) = .ok (a, s') ↔ _
  constructor
  · intro h; injection h with h; injection h with h1 h2; exact ⟨h1.symm, h2.symm⟩
  · rintro ⟨rfl, rfl⟩; rfl

theorem ok_modify (f : St → St) (u : PUnit) (s s' : St) : (modify f : M PUnit) s = .ok (u, s') ↔ s' = f s := by
  show (Except.ok (PUnit.unit, f s) : Except GenErr (PUnit × St)) = .ok (u, s') ↔ _
  constructor
  · intro h; injection h with h; injection h with h1 h2; exact h2.symm
  · rintro rfl; rfl

theorem ok_err (e : GenErr) (s : St) (p : α × St) : (err e : M α) s = .ok p ↔ False := by
  show (Except.error e : Except GenErr (α × St)) = .ok p ↔ False
  constructor
  · intro h; cases h
  · intro h; exact h.elim

theorem ok_liftExcept (e : Except GenErr α) (a : α) (s s' : St) : liftExcept e s = .ok (a, s') ↔ e = .ok a ∧ s' = s := by
  cases e with
  | error x =>
    show (Except.error x : Except GenErr (α × St)) = .ok (a, s') ↔ _
    constructor
    · intro h; cases h
    · rintro ⟨h, _⟩; cases h
  | ok v =>
    show (Except.ok (v, s) : Except GenErr (α × St)) = .ok (a, s') ↔ _
    constructor
    · intro h; injection h with h; injection h with h1 h2; exact ⟨by rw [h1], h2.symm⟩
    · rintro ⟨h, rfl⟩; injection h with h; rw [h]

def stepVal : ForInStep β → β
  | .yield b => b
  | .done b => b

/-- an invariant on (loop variable, state) kept by every iteration holds when the loop ends -/
theorem forIn_ok_inv {γ : Type} (P : β → St → Prop) (f : γ → β → M (ForInStep β)) :
    ∀ (l : List γ) (b : β) (s : St) (b' : β) (s' : St),
      (∀ a ∈ l, ∀ b s r s', P b s → f a b s = .ok (r, s') → P (stepVal r) s') →
      P b s → forIn l b f s = .ok (b', s') → P b' s'
  | [], b, s, b', s', _, hP, h => by
    rw [List.forIn_nil] at h
    obtain ⟨rfl, rfl⟩ := (ok_pure _ _ _ _).mp h
    exact hP
  | a :: l, b, s, b', s', hstep, hP, h => by
    rw [List.forIn_cons] at h
    obtain ⟨r, s1, h1, h2⟩ := (ok_bind _ _ _ _ _).mp h
    have hP1 := hstep a (List.mem_cons_self) b s r s1 hP h1
    cases r with
    | done b1 =>
      obtain ⟨rfl, rfl⟩ := (ok_pure _ _ _ _).mp h2
      exact hP1
    | yield b1 =>
      exact forIn_ok_inv P f l b1 s1 b' s' (fun a ha => hstep a (List.mem_cons_of_mem _ ha)) hP1 h2

/-- a property of the loop variable that one iteration establishes and every iteration keeps holds at
    the end, provided no iteration leaves the loop early -/
theorem forIn_ok_est {γ : Type} (Q : β → Prop) (f : γ → β → M (ForInStep β)) (a₀ : γ) :
    ∀ (l : List γ) (b : β) (s : St) (b' : β) (s' : St),
      a₀ ∈ l →
      (∀ a ∈ l, ∀ b s r s', f a b s = .ok (r, s') → ∃ b1, r = .yield b1 ∧ (Q b → Q b1)) →
      (∀ b s r s', f a₀ b s = .ok (r, s') → Q (stepVal r)) →
      forIn l b f s = .ok (b', s') → Q b'
  | [], _, _, _, _, hmem, _, _, _ => by cases hmem
  | a :: l, b, s, b', s', hmem, hstep, hest, h => by
    rw [List.forIn_cons] at h
    obtain ⟨r, s1, h1, h2⟩ := (ok_bind _ _ _ _ _).mp h
    obtain ⟨b1, rfl, hkeep⟩ := hstep a List.mem_cons_self b s r s1 h1
    have hrest : ∀ a' ∈ l, ∀ b s r s', f a' b s = .ok (r, s') → ∃ b1, r = .yield b1 ∧ (Q b → Q b1) :=
      fun a' ha' => hstep a' (List.mem_cons_of_mem _ ha')
    rcases List.mem_cons.mp hmem with rfl | hmem'
    · -- established here, kept afterwards
      have hQ : Q b1 := hest b s _ s1 h1
      have := forIn_ok_inv (fun b _ => Q b) f l b1 s1 b' s'
        (fun a' ha' b s r s' hb hr => by
          obtain ⟨b2, rfl, hk⟩ := hrest a' ha' b s r s' hr
          exact hk hb) hQ h2
      exact this
    · exact forIn_ok_est Q f a₀ l b1 s1 b' s' hmem' hrest hest h2

end Ariadne.ResultTypes
