/-
  Proofs/Order.lean — lemmas behind Properties/C10.lean (and the topological-order part of C08):
  stable insertion sort is determined by the multiset when keys do not tie; the fragments DFS.
  Core Lean only (`List.Perm` lives in core).
-/
import AriadneModel.Model.Order
import AriadneModel.Spec.Isort

set_option linter.unusedSimpArgs false
set_option linter.unusedVariables false

namespace Ariadne.Order
open List

/-! ### sortBy -/

structure TotalPreorder {α : Type} (le : α → α → Bool) : Prop where
  total : ∀ a b, le a b = true ∨ le b a = true
  trans : ∀ a b c, le a b = true → le b c = true → le a c = true

theorem insertBy_perm {α : Type} (le : α → α → Bool) (x : α) (l : List α) : (insertBy le x l).Perm (x :: l) := by
  induction l with
  | nil => simp [insertBy]
  | cons y ys ih =>
    unfold insertBy
    split
    · exact Perm.refl _
    · exact (Perm.cons y ih).trans (Perm.swap x y ys)

theorem sortBy_perm {α : Type} (le : α → α → Bool) (l : List α) : (sortBy le l).Perm l := by
  induction l with
  | nil => simp [sortBy]
  | cons x xs ih =>
    have : sortBy le (x :: xs) = insertBy le x (sortBy le xs) := rfl
    rw [this]
    exact (insertBy_perm le x _).trans (Perm.cons x ih)

theorem mem_sortBy {α : Type} (le : α → α → Bool) (l : List α) (a : α) : a ∈ sortBy le l ↔ a ∈ l :=
  (sortBy_perm le l).mem_iff

theorem insertBy_pairwise {α : Type} {le : α → α → Bool} (h : TotalPreorder le) (x : α) (l : List α)
    (hl : l.Pairwise (fun a b => le a b = true)) : (insertBy le x l).Pairwise (fun a b => le a b = true) := by
  induction l with
  | nil => simp [insertBy]
  | cons y ys ih =>
    unfold insertBy
    have hy := (pairwise_cons.mp hl)
    split
    · rename_i hxy
      refine pairwise_cons.mpr ⟨?_, hl⟩
      intro b hb
      rcases mem_cons.mp hb with rfl | hb
      · exact hxy
      · exact h.trans _ _ _ hxy (hy.1 b hb)
    · rename_i hxy
      have hyx : le y x = true := by
        rcases h.total x y with h1 | h1
        · exact absurd h1 hxy
        · exact h1
      refine pairwise_cons.mpr ⟨?_, ih hy.2⟩
      intro b hb
      have := (insertBy_perm le x ys).mem_iff.mp hb
      rcases mem_cons.mp this with rfl | hb'
      · exact hyx
      · exact hy.1 b hb'

theorem sortBy_pairwise {α : Type} {le : α → α → Bool} (h : TotalPreorder le) (l : List α) :
    (sortBy le l).Pairwise (fun a b => le a b = true) := by
  induction l with
  | nil => simp [sortBy]
  | cons x xs ih => exact insertBy_pairwise h x _ ih

/-- a stable sort forgets the input order as soon as distinct members never tie -/
theorem sortBy_eq_of_perm {α : Type} {le : α → α → Bool} (h : TotalPreorder le) {l₁ l₂ : List α}
    (anti : ∀ a b, a ∈ l₁ → b ∈ l₁ → le a b = true → le b a = true → a = b) (p : l₁.Perm l₂) :
    sortBy le l₁ = sortBy le l₂ := by
  apply Perm.eq_of_pairwise (le := fun a b => le a b = true)
  · intro a b ha hb hab hba
    exact anti a b ((mem_sortBy le l₁ a).mp ha) (p.mem_iff.mpr ((mem_sortBy le l₂ b).mp hb)) hab hba
  · exact sortBy_pairwise h l₁
  · exact sortBy_pairwise h l₂
  · exact (sortBy_perm le l₁).trans (p.trans (sortBy_perm le l₂).symm)

/-! ### lexLe -/

structure TotalOrder {α : Type} (le : α → α → Bool) : Prop extends TotalPreorder le where
  antisymm : ∀ a b, le a b = true → le b a = true → a = b

theorem lexLe_total {α : Type} [DecidableEq α] {le : α → α → Bool} (h : TotalOrder le) :
    ∀ a b : List α, lexLe le a b = true ∨ lexLe le b a = true
  | [], _ => by simp [lexLe]
  | _ :: _, [] => by simp [lexLe]
  | a :: as, b :: bs => by
    by_cases hab : a = b
    · subst hab; simpa [lexLe] using lexLe_total h as bs
    · have hba : ¬ b = a := fun e => hab e.symm
      simpa [lexLe, hab, hba] using h.total a b

theorem lexLe_antisymm {α : Type} [DecidableEq α] {le : α → α → Bool} (h : TotalOrder le) :
    ∀ a b : List α, lexLe le a b = true → lexLe le b a = true → a = b
  | [], [] => by simp
  | [], _ :: _ => by simp [lexLe]
  | _ :: _, [] => by simp [lexLe]
  | a :: as, b :: bs => by
    by_cases hab : a = b
    · subst hab
      intro h1 h2
      simp [lexLe] at h1 h2
      rw [lexLe_antisymm h as bs h1 h2]
    · have hba : ¬ b = a := fun e => hab e.symm
      intro h1 h2
      simp [lexLe, hab, hba] at h1 h2
      exact absurd (h.antisymm a b h1 h2) hab

theorem lexLe_trans {α : Type} [DecidableEq α] {le : α → α → Bool} (h : TotalOrder le) :
    ∀ a b c : List α, lexLe le a b = true → lexLe le b c = true → lexLe le a c = true
  | [], _, _ => by simp [lexLe]
  | _ :: _, [], _ => by simp [lexLe]
  | _ :: _, _ :: _, [] => by simp [lexLe]
  | a :: as, b :: bs, c :: cs => by
    intro h1 h2
    by_cases hab : a = b
    · subst hab
      by_cases hac : a = c
      · subst hac
        simp [lexLe] at h1 h2 ⊢
        exact lexLe_trans h as bs cs h1 h2
      · simp [lexLe, hac] at h1 h2 ⊢
        exact h2
    · by_cases hbc : b = c
      · subst hbc
        simp [lexLe, hab] at h1 h2 ⊢
        exact h1
      · simp [lexLe, hab, hbc] at h1 h2
        by_cases hac : a = c
        · subst hac
          exact absurd (h.antisymm a b h1 h2) hab
        · simp [lexLe, hac]
          exact h.trans a b c h1 h2

theorem lexLe_order {α : Type} [DecidableEq α] {le : α → α → Bool} (h : TotalOrder le) : TotalOrder (lexLe le) :=
  { total := lexLe_total h, trans := lexLe_trans h, antisymm := lexLe_antisymm h }

theorem strLe_order : TotalOrder strLe :=
  { total := by intro a b; simp [strLe]; exact String.le_total a b
    trans := by intro a b c; simp [strLe]; exact String.le_trans
    antisymm := by intro a b; simp [strLe]; exact String.le_antisymm }

theorem natBle_order : TotalOrder Nat.ble :=
  { total := by intro a b; simp [Nat.ble_eq]; omega
    trans := by intro a b c; simp [Nat.ble_eq]; omega
    antisymm := by intro a b; simp [Nat.ble_eq]; omega }

/-- `sorted(set)` on strings does not depend on the iteration order of the set -/
theorem pySorted_eq_of_perm {l₁ l₂ : List Name} (p : l₁.Perm l₂) : pySorted l₁ = pySorted l₂ :=
  sortBy_eq_of_perm strLe_order.toTotalPreorder (fun a b _ _ => strLe_order.antisymm a b) p

theorem mem_pySorted (l : List Name) (a : Name) : a ∈ pySorted l ↔ a ∈ l := mem_sortBy _ _ _

end Ariadne.Order

namespace Ariadne.Order
open List

/-! ### the fragments DFS -/

theorem foldlM_ok_cons {σ α ε : Type} (f : σ → α → Except ε σ) (x : α) (l : List α) (s s' : σ)
    (h : (x :: l).foldlM f s = .ok s') : ∃ s₁, f s x = .ok s₁ ∧ l.foldlM f s₁ = .ok s' := by
  simp only [List.foldlM_cons] at h
  cases hx : f s x with
  | error e => rw [hx] at h; cases h
  | ok s₁ => rw [hx] at h; exact ⟨s₁, rfl, h⟩

def Grey (st : St) (a : Name) : Prop := a ∈ st.visited ∧ a ∉ st.out
def Inv (st : St) : Prop := ∀ a, a ∈ st.out → a ∈ st.visited

/-- what one (possibly nested) series of visits does to the state, whatever the graph -/
structure Post (st st' : St) : Prop where
  ext : ∃ e, st'.out = st.out ++ e
  vis : ∀ a, a ∈ st.visited → a ∈ st'.visited
  inv : Inv st'
  grey : ∀ a, Grey st' a ↔ Grey st a

theorem Post.refl {st : St} (h : Inv st) : Post st st := ⟨⟨[], by simp⟩, fun _ h => h, h, fun _ => Iff.rfl⟩

theorem Post.trans {a b c : St} (h₁ : Post a b) (h₂ : Post b c) : Post a c := by
  obtain ⟨e₁, he₁⟩ := h₁.ext
  obtain ⟨e₂, he₂⟩ := h₂.ext
  exact ⟨⟨e₁ ++ e₂, by rw [he₂, he₁, List.append_assoc]⟩, fun x hx => h₂.vis x (h₁.vis x hx), h₂.inv,
    fun x => (h₂.grey x).trans (h₁.grey x)⟩

theorem Post.mem_out {a b : St} (h : Post a b) {x : Name} (hx : x ∈ a.out) : x ∈ b.out := by
  obtain ⟨e, he⟩ := h.ext
  rw [he]; exact List.mem_append_left _ hx

section dfs
variable (ord : List Name → List Name) (d : Deps)

theorem fold_spec (fuel : Nat)
    (step : ∀ x st st', Inv st → visit ord d fuel x st = .ok st' → Post st st' ∧ x ∈ st'.visited) :
    ∀ (l : List Name) (st st' : St), Inv st → l.foldlM (fun s x => visit ord d fuel x s) st = .ok st' →
      Post st st' ∧ ∀ x ∈ l, x ∈ st'.visited := by
  intro l
  induction l with
  | nil =>
    intro st st' hinv h
    simp [List.foldlM_nil, pure, Except.pure] at h
    subst h
    exact ⟨Post.refl hinv, by simp⟩
  | cons x xs ih =>
    intro st st' hinv h
    obtain ⟨s₁, h1, h2⟩ := foldlM_ok_cons _ x xs st st' h
    obtain ⟨p1, hx⟩ := step x st s₁ hinv h1
    obtain ⟨p2, hxs⟩ := ih s₁ st' p1.inv h2
    refine ⟨p1.trans p2, ?_⟩
    intro y hy
    rcases List.mem_cons.mp hy with rfl | hy
    · exact p2.vis _ hx
    · exact hxs y hy

theorem visit_spec : ∀ (fuel : Nat) (n : Name) (st st' : St), Inv st → visit ord d fuel n st = .ok st' →
    Post st st' ∧ n ∈ st'.visited := by
  intro fuel
  induction fuel with
  | zero =>
    intro n st st' hinv h
    unfold visit at h
    split at h
    · rename_i hv
      simp [pure, Except.pure] at h; subst h
      exact ⟨Post.refl hinv, hv⟩
    · cases h
  | succ fuel ih =>
    intro n st st' hinv h
    unfold visit at h
    split at h
    · rename_i hv
      simp [pure, Except.pure] at h; subst h
      exact ⟨Post.refl hinv, hv⟩
    · rename_i hv
      split at h
      · cases h
      · rename_i ds hds
        simp only [bind, Except.bind] at h
        split at h
        · cases h
        · rename_i st'' hfold
          simp [pure, Except.pure] at h; subst h
          have hinv1 : Inv { st with visited := n :: st.visited } := fun a ha => List.mem_cons_of_mem _ (hinv a ha)
          obtain ⟨p, _⟩ := fold_spec ord d fuel ih (ord ds) _ st'' hinv1 hfold
          have hn'' : n ∈ st''.visited := p.vis n (List.mem_cons_self)
          have hnout : n ∉ st.out := fun h => hv (hinv n h)
          obtain ⟨e, he⟩ := p.ext
          refine ⟨⟨⟨e ++ [n], by simp [he, List.append_assoc]⟩, ?_, ?_, ?_⟩, hn''⟩
          · intro a ha; exact p.vis a (List.mem_cons_of_mem _ ha)
          · intro a ha
            simp at ha
            rcases ha with ha | rfl
            · exact p.inv a ha
            · exact hn''
          · intro a
            show (a ∈ st''.visited ∧ a ∉ st''.out ++ [n]) ↔ (a ∈ st.visited ∧ a ∉ st.out)
            constructor
            · rintro ⟨h1, h2⟩
              have h2a : a ∉ st''.out := fun h => h2 (List.mem_append_left _ h)
              have h2b : a ≠ n := fun e => h2 (List.mem_append_right _ (by simp [e]))
              have hg := (p.grey a).mp ⟨h1, h2a⟩
              rcases List.mem_cons.mp hg.1 with e | h4
              · exact absurd e h2b
              · exact ⟨h4, hg.2⟩
            · rintro ⟨h1, h2⟩
              have hg := (p.grey a).mpr ⟨List.mem_cons_of_mem _ h1, h2⟩
              refine ⟨hg.1, ?_⟩
              intro h
              rcases List.mem_append.mp h with h | h
              · exact hg.2 h
              · have hn : a = n := by simpa using h
                exact hv (hn ▸ h1)

/-- `dependencies_dict[n]` as a list (empty when `n` is no key) -/
def depsOf (n : Name) : List Name := (lookup d n).getD []

/-- every fragment comes after all fragments its classes inherit from -/
def TopoOK (out : List Name) : Prop :=
  ∀ pre n post, out = pre ++ n :: post → ∀ m, m ∈ depsOf d n → m ∈ pre

theorem topoOK_nil : TopoOK d [] := by
  intro pre n post h; simp at h

theorem topoOK_snoc {out : List Name} {n : Name} (h : TopoOK d out) (hn : ∀ m, m ∈ depsOf d n → m ∈ out) :
    TopoOK d (out ++ [n]) := by
  intro pre x post heq m hm
  rcases List.eq_nil_or_concat post with rfl | ⟨post', z, rfl⟩
  · have h1 : out ++ [n] = pre ++ [x] := heq
    have := List.append_inj' h1 rfl
    obtain ⟨rfl, h2⟩ := this
    simp at h2; subst h2
    exact hn m hm
  · have h1 : out ++ [n] = (pre ++ x :: post') ++ [z] := by simpa [List.concat_eq_append, List.append_assoc] using heq
    have := List.append_inj' h1 rfl
    exact h pre x post' this.1 m hm

variable (rk : Name → Nat) (hrk : ∀ n ds m, lookup d n = some ds → m ∈ ds → rk m < rk n)
  (hord : ∀ ds x, x ∈ ord ds ↔ x ∈ ds)

theorem fold_topo (fuel : Nat)
    (step : ∀ x st st', Inv st → TopoOK d st.out → (∀ a, Grey st a → rk x < rk a) →
      visit ord d fuel x st = .ok st' → TopoOK d st'.out ∧ x ∈ st'.out) :
    ∀ (l : List Name) (st st' : St), Inv st → TopoOK d st.out → (∀ x ∈ l, ∀ a, Grey st a → rk x < rk a) →
      l.foldlM (fun s x => visit ord d fuel x s) st = .ok st' → TopoOK d st'.out ∧ ∀ x ∈ l, x ∈ st'.out := by
  intro l
  induction l with
  | nil =>
    intro st st' hinv ht hg h
    simp [List.foldlM_nil, pure, Except.pure] at h
    subst h
    exact ⟨ht, by simp⟩
  | cons x xs ih =>
    intro st st' hinv ht hg h
    obtain ⟨s₁, h1, h2⟩ := foldlM_ok_cons _ x xs st st' h
    obtain ⟨p1, _⟩ := visit_spec ord d fuel x st s₁ hinv h1
    obtain ⟨t1, hx⟩ := step x st s₁ hinv ht (hg x List.mem_cons_self) h1
    have hg' : ∀ y ∈ xs, ∀ a, Grey s₁ a → rk y < rk a := fun y hy a ha => hg y (List.mem_cons_of_mem _ hy) a ((p1.grey a).mp ha)
    obtain ⟨t2, hxs⟩ := ih s₁ st' p1.inv t1 hg' h2
    obtain ⟨p2, _⟩ := fold_spec ord d fuel (visit_spec ord d fuel) xs s₁ st' p1.inv h2
    refine ⟨t2, ?_⟩
    intro y hy
    rcases List.mem_cons.mp hy with rfl | hy
    · exact p2.mem_out hx
    · exact hxs y hy

include hrk hord in
theorem visit_topo : ∀ (fuel : Nat) (n : Name) (st st' : St), Inv st → TopoOK d st.out →
    (∀ a, Grey st a → rk n < rk a) → visit ord d fuel n st = .ok st' → TopoOK d st'.out ∧ n ∈ st'.out := by
  intro fuel
  induction fuel with
  | zero =>
    intro n st st' hinv ht hg h
    unfold visit at h
    split at h
    · rename_i hv
      simp [pure, Except.pure] at h; subst h
      refine ⟨ht, ?_⟩
      by_cases hno : n ∈ st.out
      · exact hno
      · exact absurd (hg n ⟨hv, hno⟩) (Nat.lt_irrefl _)
    · cases h
  | succ fuel ih =>
    intro n st st' hinv ht hg h
    unfold visit at h
    split at h
    · rename_i hv
      simp [pure, Except.pure] at h; subst h
      refine ⟨ht, ?_⟩
      by_cases hno : n ∈ st.out
      · exact hno
      · exact absurd (hg n ⟨hv, hno⟩) (Nat.lt_irrefl _)
    · rename_i hv
      split at h
      · cases h
      · rename_i ds hds
        simp only [bind, Except.bind] at h
        split at h
        · cases h
        · rename_i st'' hfold
          simp [pure, Except.pure] at h; subst h
          have hinv1 : Inv { st with visited := n :: st.visited } := fun a ha => List.mem_cons_of_mem _ (hinv a ha)
          have hg1 : ∀ x ∈ ord ds, ∀ a, Grey { st with visited := n :: st.visited } a → rk x < rk a := by
            intro x hx a ha
            have hxn : rk x < rk n := hrk n ds x hds ((hord ds x).mp hx)
            simp only [Grey, List.mem_cons] at ha
            rcases ha.1 with rfl | hav
            · exact hxn
            · exact Nat.lt_trans hxn (hg a ⟨hav, ha.2⟩)
          obtain ⟨t, hall⟩ := fold_topo ord d rk fuel ih (ord ds) _ st'' hinv1 ht hg1 hfold
          refine ⟨topoOK_snoc d t ?_, by simp⟩
          intro m hm
          have : depsOf d n = ds := by simp [depsOf, hds]
          rw [this] at hm
          exact hall m ((hord ds m).mpr hm)

end dfs

/-- visiting only ever looks at the dictionary through `lookup` -/
theorem visit_congr_deps (ord : List Name → List Name) {d₁ d₂ : Deps} (h : ∀ n, lookup d₁ n = lookup d₂ n) :
    ∀ fuel n st, visit ord d₁ fuel n st = visit ord d₂ fuel n st := by
  intro fuel
  induction fuel with
  | zero => intro n st; simp [visit]
  | succ fuel ih =>
    intro n st
    have : (fun s x => visit ord d₁ fuel x s) = (fun s x => visit ord d₂ fuel x s) := by
      funext s x; exact ih x s
    simp only [visit, h n, this]

theorem dfs_congr_deps (ord : List Name → List Name) {d₁ d₂ : Deps} (h : ∀ n, lookup d₁ n = lookup d₂ n)
    (hl : d₁.length = d₂.length) (roots : List Name) : dfs ord d₁ roots = dfs ord d₂ roots := by
  have : (fun s x => visit ord d₁ (d₁.length + 1) x s) = (fun s x => visit ord d₂ (d₂.length + 1) x s) := by
    funext s x; rw [hl]; exact visit_congr_deps ord h _ x s
  simp only [dfs, this]

end Ariadne.Order
