/-
  Proofs/C01UnpVal.lean — property C01, "unpacked fragments" tier, part (2): what a conformant executor answers for the
  document WITH the spreads is an answer for the INLINED document (`respOK_inl`: CollectFields resolves a spread of a fragment
  on an interface the object implements by collecting the fragment's selections), so the plain tier's round-trip theorem for
  the classes of the inlined document applies.
-/
import AriadneModel.Proofs.C01UnpGen
import AriadneModel.Proofs.C01Plain

set_option linter.unusedSimpArgs false
set_option linter.unusedVariables false

namespace Ariadne.C01Unp
open Ariadne Ariadne.Gql Ariadne.ResultTypes Ariadne.Util Ariadne.Pyd Ariadne.C01Plain

/-! ### the executor applies an interface fragment to an implementing object -/

theorem possible_of_subType {S : Schema} {a tn : String} (ha : S.kindOf? a = some .interface) (ht : S.kindOf? tn = some .object)
    (h : S.isSubType a tn = true) : tn ∈ S.possibleTypes a := by
  unfold Schema.kindOf? at ha ht
  cases hga : S.get? a with
  | none => simp [hga] at ha
  | some t =>
    have hk : t.kind = .interface := by simpa [hga] using ha
    cases hgt : S.get? tn with
    | none => simp [hgt] at ht
    | some st =>
      have hks : st.kind = .object := by simpa [hgt] using ht
      simp only [Schema.isSubType, hga, hk, hgt, Bool.and_eq_true] at h
      simp only [Schema.possibleTypes, hga, hk]
      have hmem : st ∈ S.types := List.mem_of_find?_eq_some hgt
      have hname : st.name = tn := by simpa using List.find?_some hgt
      refine List.mem_map.mpr ⟨st, List.mem_filter.mpr ⟨hmem, ?_⟩, hname⟩
      have := h.2
      simp only [hks, beq_self_eq_true, this, Bool.and_self]

theorem collect_succ' (S : Schema) (frags : List Fragment) (fuel : Nat) (rt : String) (cond : Bool) (sels : List Selection)
    (acc : List Exec.Collected) :
    Exec.collect S frags (fuel + 1) rt cond sels acc =
      sels.foldl (fun acc s =>
        match s with
        | .field alias name dirs _ sub =>
          Exec.addCollected acc { key := alias.getD name, name := name, subs := sub, conditional := cond || Exec.isConditional dirs }
        | .inline on dirs _ sub =>
          if Exec.applies S on rt then Exec.collect S frags fuel rt (cond || Exec.isConditional dirs) sub acc else acc
        | .spread n dirs =>
          match findFragment? frags n with
          | some f => if Exec.applies S (some f.on) rt then Exec.collect S frags fuel rt (cond || Exec.isConditional dirs) f.sel acc else acc
          | none => acc) acc := rfl

theorem uflatK_isField (env : ResultTypes.Env) : ∀ (k : Nat) (sel : List Selection), ∀ p ∈ uflatK env k sel, isField p.2 = true
  | 0, _, _, h => by simp [uflatK] at h
  | k + 1, sel, p, h => by
    rw [uflatK_succ] at h
    obtain ⟨s, _, hps⟩ := List.mem_flatMap.mp h
    cases s with
    | field a n d sid sub => simp only [List.mem_singleton] at hps; subst hps; rfl
    | inline on d sid ss => simp at hps
    | spread g d =>
      cases hf : findFragment? env.frags g with
      | none => simp [hf] at hps
      | some f =>
        simp only [hf] at hps
        exact uflatK_isField env k f.sel p hps

/-- CollectFields on a selection set with unpacked spreads: the field nodes, in order -/
theorem collect_unp (env : ResultTypes.Env) (tn : String) : ∀ (k fuel : Nat) (sels : List Selection) (acc : List Exec.Collected),
    k ≤ fuel → spreadsOK env k tn sels = true →
    ((uflatK env k sels).map (fun p => keyOf p.2)).Nodup →
    (∀ p ∈ uflatK env k sels, ∀ c ∈ acc, c.key ≠ keyOf p.2) →
    Exec.collect env.schema env.frags fuel tn false sels acc = acc ++ (uflatK env k sels).map (fun p => collOf p.2)
  | 0, _, _, _, _, h, _, _ => by simp [spreadsOK] at h
  | k + 1, fuel, sels, acc, hk, h, hnd, hdisj => by
    obtain ⟨fuel', rfl⟩ : ∃ fuel', fuel = fuel' + 1 := ⟨fuel - 1, by omega⟩
    have hkind := spreadsOK_kind h
    rw [collect_succ']
    revert acc h hnd hdisj
    induction sels with
    | nil => intro acc _ _ _; simp [uflatK_succ]
    | cons x rest ih =>
      intro acc h hnd hdisj
      have hrest : spreadsOK env (k + 1) tn rest = true := by
        rw [spreadsOK_succ] at h ⊢
        simp only [Bool.and_eq_true, List.all_cons] at h ⊢
        exact ⟨h.1, h.2.2⟩
      have hsplit : uflatK env (k + 1) (x :: rest) = uflatK env (k + 1) [x] ++ uflatK env (k + 1) rest := by
        simp [uflatK_succ]
      rw [hsplit, List.map_append, List.nodup_append] at hnd
      obtain ⟨hnd1, hnd2, hnd3⟩ := hnd
      rw [List.foldl_cons]
      cases x with
      | inline on d sid ss =>
        rw [spreadsOK_succ] at h
        simp [List.all_cons] at h
      | field alias name dirs sid sub =>
        have h1 : uflatK env (k + 1) [.field alias name dirs sid sub] = [(k, .field alias name dirs sid sub)] := by
          simp [uflatK_succ]
        rw [h1] at hnd3 hsplit
        simp only []
        rw [addCollected_fresh acc _ (by
          intro c hc
          exact hdisj (k, .field alias name dirs sid sub) (by rw [hsplit]; simp) c hc)]
        rw [ih _ hrest hnd2 (by
          intro p hp c hc
          rcases List.mem_append.mp hc with hc | hc
          · exact hdisj p (by rw [hsplit]; exact List.mem_append_right _ hp) c hc
          · have : c = collOf (.field alias name dirs sid sub) := by simpa [collOf] using hc
            subst this
            intro e'
            exact hnd3 (keyOf (.field alias name dirs sid sub)) (by simp) (keyOf p.2) (List.mem_map.mpr ⟨p, hp, rfl⟩) e')]
        rw [hsplit]
        simp [collOf, List.append_assoc]
      | spread g d =>
        obtain ⟨hcond, f, hf, hki, hsub, _, hrec⟩ := spreadsOK_spread h (g := g) (d := d) List.mem_cons_self
        have h1 : uflatK env (k + 1) [.spread g d] = uflatK env k f.sel := by simp [uflatK_succ, hf]
        rw [h1] at hnd1 hnd3 hsplit
        have happ : Exec.applies env.schema (some f.on) tn = true := by
          have := possible_of_subType hki hkind hsub
          simp [Exec.applies, this]
        have hc0 : Exec.isConditional d = false := hcond
        simp only [hf, happ, if_true, hc0, Bool.or_false]
        rw [collect_unp env tn k fuel' f.sel acc (by omega) hrec hnd1 (by
          intro p hp c hc
          exact hdisj p (by rw [hsplit]; exact List.mem_append_left _ hp) c hc)]
        rw [ih _ hrest hnd2 (by
          intro p hp c hc
          rcases List.mem_append.mp hc with hc | hc
          · exact hdisj p (by rw [hsplit]; exact List.mem_append_right _ hp) c hc
          · obtain ⟨q, hq, rfl⟩ := List.mem_map.mp hc
            rw [collOf_key (uflatK_isField env k f.sel q hq)]
            intro e'
            exact hnd3 (keyOf q.2) (List.mem_map.mpr ⟨q, hq, rfl⟩) (keyOf p.2) (List.mem_map.mpr ⟨p, hp, rfl⟩) e')]
        rw [hsplit]
        simp [List.append_assoc]

/-! ### answers for the document with spreads are answers for the inlined document -/

theorem complete_mono_base (P Q : String → J → Bool) (T : TypeRef) (h : ∀ v, P T.base v = true → Q T.base v = true) :
    ∀ (b : Bool) (v : J), Exec.complete P T b v = true → Exec.complete Q T b v = true := by
  induction T with
  | named n =>
    intro b v hc
    unfold Exec.complete at hc ⊢
    cases v <;> first | exact hc | exact h _ hc
  | list t ih =>
    intro b v hc
    unfold Exec.complete at hc ⊢
    cases v with
    | arr xs =>
      simp only [List.all_eq_true] at hc ⊢
      exact fun x hx => ih h true x (hc x hx)
    | null => exact hc
    | bool _ => exact hc
    | num _ _ => exact hc
    | str _ => exact hc
    | obj _ => exact hc
  | nonNull t ih =>
    intro b v hc
    unfold Exec.complete at hc ⊢
    exact ih h false v hc

theorem keyOf_inlNode (env : ResultTypes.Env) (p : Nat × Selection) : keyOf (inlNode env p) = keyOf p.2 := by
  obtain ⟨k, x⟩ := p
  cases x <;> rfl

theorem inl_keys (env : ResultTypes.Env) (k : Nat) (sel : List Selection) :
    (inl env k sel).map keyOf = (uflatK env k sel).map (fun p => keyOf p.2) := by
  rw [inl_eq, List.map_map]
  exact List.map_congr_left (fun p _ => keyOf_inlNode env p)

theorem inl_isField (env : ResultTypes.Env) (k : Nat) (sel : List Selection) : ∀ x ∈ inl env k sel, isField x = true := by
  intro x hx
  rw [inl_eq] at hx
  obtain ⟨p, hp, rfl⟩ := List.mem_map.mp hx
  have := uflatK_isField env k sel p hp
  obtain ⟨k', y⟩ := p
  cases y <;> simp [isField] at this
  rfl

/-- the judgement `Exec.respOK` passes on one collected group (sub-answers judged with fuel `e`) -/
def groupOK (S : Schema) (frags : List Fragment) (e : Nat) (rt : String) (kvs : List (String × J)) (g : Exec.Collected) : Bool :=
  match J.lookup g.key kvs with
  | none => g.conditional
  | some v =>
    if g.name == Tables.typenameFieldName then (match v with | .str s => s == rt | _ => false)
    else match S.fieldOf? rt g.name with
      | none => false
      | some fd =>
        Exec.complete (fun n v =>
          if g.subs.isEmpty then Exec.leafOk S n v
          else (Exec.runtimeTypes S n).any fun rt' => Exec.respOK S frags e rt' g.subs v) fd.type true v

theorem respOK_groups (S : Schema) (frags : List Fragment) (e : Nat) (rt : String) (sels : List Selection)
    (kvs : List (String × J)) :
    Exec.respOK S frags (e + 1) rt sels (.obj kvs) =
      (kvs.all (fun (k, _) => (Exec.collect S frags (e + 1) rt false sels []).any (·.key == k))
      && (Exec.collect S frags (e + 1) rt false sels []).all (groupOK S frags e rt kvs)) := by
  rfl

/-- a group with the same key / name / conditionality whose sub-selections accept at least as much -/
theorem groupOK_transfer (S : Schema) (frags : List Fragment) (e : Nat) (rt : String) (kvs : List (String × J))
    (key name : String) (cond : Bool) (subs subs' : List Selection)
    (h : ∀ fd, S.fieldOf? rt name = some fd → ∀ v,
      Exec.complete (fun n v => if subs.isEmpty then Exec.leafOk S n v
        else (Exec.runtimeTypes S n).any fun rt' => Exec.respOK S frags e rt' subs v) fd.type true v = true →
      Exec.complete (fun n v => if subs'.isEmpty then Exec.leafOk S n v
        else (Exec.runtimeTypes S n).any fun rt' => Exec.respOK S frags e rt' subs' v) fd.type true v = true)
    (hg : groupOK S frags e rt kvs ⟨key, name, subs, cond⟩ = true) : groupOK S frags e rt kvs ⟨key, name, subs', cond⟩ = true := by
  unfold groupOK at hg ⊢
  simp only at hg ⊢
  cases hlk : J.lookup key kvs with
  | none => rw [hlk] at hg; exact hg
  | some v =>
    rw [hlk] at hg
    simp only at hg ⊢
    cases htn : (name == Tables.typenameFieldName) with
    | true => simp only [htn, if_true] at hg ⊢; exact hg
    | false =>
      simp only [htn, Bool.false_eq_true, if_false] at hg ⊢
      cases hfo : S.fieldOf? rt name with
      | none => rw [hfo] at hg; cases hg
      | some fd =>
        rw [hfo] at hg
        exact h fd hfo v hg

/-- **an answer for the document with the spreads is an answer for the inlined document** -/
theorem respOK_inl (env : ResultTypes.Env) (marks : List Nat) : ∀ (e k : Nat) (cn tn : String) (sel : List Selection) (j : J),
    k ≤ e → spreadsOK env k tn sel = true → setOK env (inl env k sel) = true →
    plainLocal env marks cn tn (inl env k sel) = true →
    Exec.respOK env.schema env.frags e tn sel j = true → Exec.respOK env.schema env.frags e tn (inl env k sel) j = true
  | 0, _, _, _, _, _, _, _, _, _, h => by simp [Exec.respOK] at h
  | e + 1, k, cn, tn, sel, j, hk, hsp, hset, hloc, hresp => by
    obtain ⟨kvs, rfl⟩ := respOK_isObj _ _ _ _ _ _ hresp
    have hkeys := (setOK_spec hset).1
    have hkeysU : ((uflatK env k sel).map (fun p => keyOf p.2)).Nodup := by rw [← inl_keys]; exact hkeys
    rw [respOK_groups, collect_unp env tn k (e + 1) sel [] hk hsp hkeysU (by intro _ _ c hc; cases hc)] at hresp
    rw [respOK_groups, collect_fields env.schema env.frags e tn (inl env k sel) [] (inl_isField env k sel) hkeys (by simp)]
    simp only [List.nil_append, Bool.and_eq_true] at hresp ⊢
    obtain ⟨hr1, hr2⟩ := hresp
    have hnodes := spreadsOK_nodes env k tn sel hsp
    have hlocs := (plainLocal_iff env marks cn tn (inl env k sel)).mp hloc
    rw [inl_eq, List.map_map]
    constructor
    · -- the keys
      rw [List.all_eq_true] at hr1 ⊢
      intro p hp
      have := hr1 p hp
      rw [List.any_eq_true] at this ⊢
      obtain ⟨c, hc, he⟩ := this
      obtain ⟨q, hq, rfl⟩ := List.mem_map.mp hc
      refine ⟨_, List.mem_map.mpr ⟨q, hq, rfl⟩, ?_⟩
      have hqf := uflatK_isField env k sel q hq
      have h1 : (collOf (inlNode env q)).key = (collOf q.2).key := by
        obtain ⟨k', y⟩ := q
        cases y <;> simp [isField] at hqf
        rfl
      simp only [Function.comp]
      rw [h1]; exact he
    · -- the groups
      rw [List.all_eq_true] at hr2 ⊢
      intro c hc
      obtain ⟨q, hq, rfl⟩ := List.mem_map.mp hc
      have hg := hr2 _ (List.mem_map.mpr ⟨q, hq, rfl⟩)
      obtain ⟨hqk, a, nm, d, sid, sub, hq2, hsub⟩ := hnodes q hq
      obtain ⟨k', y⟩ := q
      simp only at hq2 hqk hsub
      subst hq2
      have hlq := hlocs (inlNode env (k', .field a nm d sid sub)) (by rw [inl_eq]; exact List.mem_map.mpr ⟨_, hq, rfl⟩)
      show groupOK env.schema env.frags e tn kvs ⟨a.getD nm, nm, inl env k' sub, false || Exec.isConditional d⟩ = true
      refine groupOK_transfer env.schema env.frags e tn kvs (a.getD nm) nm (false || Exec.isConditional d) sub (inl env k' sub) ?_ hg
      intro fd hfo v
      have hbase : fd.type.base = subType env tn nm := by simp [subType, fieldT, hfo]
      refine complete_mono_base _ _ fd.type ?_ true v
      intro v' hP
      rcases hsub with hse | ⟨hine, hsp'⟩
      · -- leaf
        have : inl env k' sub = [] := inl_of_empty env k' sub hse
        simp only [hse, if_true] at hP
        simp only [this, List.isEmpty_nil, if_true]
        exact hP
      · have hsne : sub.isEmpty = false := by
          cases hs : sub.isEmpty with
          | false => rfl
          | true => rw [inl_of_empty env k' sub hs] at hine; cases hine
        simp only [hsne, Bool.false_eq_true, if_false] at hP
        simp only [hine, Bool.false_eq_true, if_false]
        -- the sub-selection: object-typed, plain after inlining
        simp only [inlNode, plainLocal1, Bool.and_eq_true, hine, Bool.false_eq_true, if_false, beq_iff_eq] at hlq
        obtain ⟨_, ⟨⟨⟨hkindS, _⟩, hsetS⟩, hlocS⟩⟩ := hlq
        rw [List.any_eq_true] at hP ⊢
        obtain ⟨rt', hrt', hP'⟩ := hP
        refine ⟨rt', hrt', ?_⟩
        rw [hbase] at hrt'
        have hrt'' : rt' = subType env tn nm := by
          unfold Exec.runtimeTypes at hrt'
          rw [hkindS] at hrt'
          simpa using hrt'
        subst hrt''
        exact respOK_inl env marks e k' (subClass env cn a nm) (subType env tn nm) sub v' (by omega) hsp' hsetS hlocS hP'

end Ariadne.C01Unp
