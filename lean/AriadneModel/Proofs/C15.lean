/-
  Lemmas for Properties/C15.lean.
-/
import AriadneModel.Model.PluginFindings

set_option linter.unusedSimpArgs false
set_option linter.unusedVariables false

namespace Ariadne.C15
open Ariadne Ariadne.Py Ariadne.Plugins Ariadne.ClientSem

/-! ### `Except` plumbing -/

theorem bind_ok {ε α β} (a : α) (f : α → Except ε β) : (Except.ok a >>= f) = f a := rfl
theorem bind_error {ε α β} (e : ε) (f : α → Except ε β) : (Except.error e >>= f : Except ε β) = Except.error e := rfl
theorem pure_eq_ok {ε α} (a : α) : (pure a : Except ε α) = Except.ok a := rfl

/-! ### the plugin manager loop -/

/-- body of the `for plugin in self.plugins` loop -/
def loopBody {σ : Type} (step : Call → σ → Payload → M (σ × Payload)) (c : Call)
    (acc : List σ × Payload) (p : σ) : M (List σ × Payload) := do
  let (p', y) ← step c p acc.2
  pure (acc.1 ++ [p'], y)

theorem applyAll_eq_foldlM {σ : Type} (step : Call → σ → Payload → M (σ × Payload)) (c : Call)
    (ps : List σ) (x : Payload) : applyAll step c ps x = ps.foldlM (loopBody step c) ([], x) := rfl

theorem loop_prefix {σ : Type} (step : Call → σ → Payload → M (σ × Payload)) (c : Call)
    (ps : List σ) : ∀ (d : List σ) (x : Payload),
    ps.foldlM (loopBody step c) (d, x) =
      (ps.foldlM (loopBody step c) ([], x) >>= fun r => pure (d ++ r.1, r.2)) := by
  induction ps with
  | nil => intro d x; simp [List.foldlM, pure_eq_ok, bind_ok]
  | cons p ps ih =>
    intro d x
    simp only [List.foldlM_cons, loopBody]
    cases hs : step c p x with
    | error e => simp [bind_error, bind, Except.bind]
    | ok r =>
      obtain ⟨p', y⟩ := r
      simp only [bind_ok, pure_eq_ok, List.nil_append]
      rw [ih (d ++ [p']) y, ih [p'] y]
      cases hf : List.foldlM (loopBody step c) ([], y) ps with
      | error e => simp [bind_error, bind, Except.bind]
      | ok r' => simp [bind_ok, pure_eq_ok, List.append_assoc]

theorem applyAll_cons {σ : Type} (step : Call → σ → Payload → M (σ × Payload)) (c : Call)
    (p : σ) (ps : List σ) (x : Payload) :
    applyAll step c (p :: ps) x =
      (step c p x >>= fun r => applyAll step c ps r.2 >>= fun r' => pure (r.1 :: r'.1, r'.2)) := by
  simp only [applyAll_eq_foldlM, List.foldlM_cons, loopBody]
  cases hs : step c p x with
  | error e => simp [bind_error, bind, Except.bind]
  | ok r =>
    obtain ⟨p', y⟩ := r
    simp only [bind_ok, pure_eq_ok, List.nil_append]
    rw [loop_prefix step c ps [p'] y]
    cases hf : List.foldlM (loopBody step c) ([], y) ps with
    | error e => simp [bind_error, bind, Except.bind]
    | ok r' => simp [bind_ok, pure_eq_ok]

theorem applyAll_append {σ : Type} (step : Call → σ → Payload → M (σ × Payload)) (c : Call)
    (ps qs : List σ) (x : Payload) :
    applyAll step c (ps ++ qs) x =
      (applyAll step c ps x >>= fun r => applyAll step c qs r.2 >>= fun r' => pure (r.1 ++ r'.1, r'.2)) := by
  induction ps generalizing x with
  | nil =>
    simp only [List.nil_append]
    show _ = (Except.ok ([], x) >>= _)
    rw [bind_ok]
    cases applyAll step c qs x with
    | error e => rfl
    | ok r => rfl
  | cons p ps ih =>
    rw [List.cons_append, applyAll_cons, applyAll_cons]
    cases hs : step c p x with
    | error e => rfl
    | ok r =>
      simp only [bind_ok]
      rw [ih r.2]
      cases applyAll step c ps r.2 with
      | error e => rfl
      | ok r1 =>
        simp only [bind_ok, pure_eq_ok]
        cases applyAll step c qs r1.2 with
        | error e => rfl
        | ok r2 => simp [bind_ok, pure_eq_ok]


/-! ### shapes: the last statement of a generated body -/

/-- everything of `bodyOf s` except its last statement -/
def bodyPre (s : Shape) : List Stmt :=
  s.imports.map (fun i => Stmt.simple (.importFrom i)) ++ opStmts s ++
    [.simple (.annAssign (.name s.varsVar) s.varsAnn (some s.variables))] ++
    (match s.tail with
     | .call aw r d =>
       [.simple (.assign r (if aw then .await (execCall "execute" s) else execCall "execute" s)),
        .simple (.assign d (.call (.attr (.name "self") "get_data") [.name r] [] []))]
     | .sub _ _ _ => [])

def lastStmt (s : Shape) : Stmt :=
  match s.tail with
  | .call _ _ d => .simple (.ret (some (projExpr s.retClass d s.proj)))
  | .sub d l o => .asyncFor (.name d) (execCall "execute_ws" s) [.expr (.yield (projExpr s.retClass d s.proj))] l o

theorem bodyOf_eq (s : Shape) : bodyOf s = bodyPre s ++ [lastStmt s] := by
  unfold bodyOf bodyPre lastStmt tailStmts
  cases s.tail <;> simp [List.append_assoc]

theorem bodyOf_getLast (s : Shape) : (bodyOf s).getLast? = some (lastStmt s) := by
  rw [bodyOf_eq]; simp

theorem bodyOf_dropLast (s : Shape) : (bodyOf s).dropLast = bodyPre s := by
  rw [bodyOf_eq]; simp

theorem projExpr_snoc (c d : String) (fs : List String) (f : String) :
    projExpr c d (fs ++ [f]) = .attr (projExpr c d fs) f := by
  simp [projExpr, List.foldl_append]

theorem execCall_proj (callee : String) (s : Shape) (p : List String) :
    execCall callee { s with proj := p } = execCall callee s := rfl

theorem bodyPre_proj (s : Shape) (p : List String) : bodyPre { s with proj := p } = bodyPre s := by
  unfold bodyPre opStmts
  cases h : s.tail <;> simp [h, execCall, Shape.queryName]


/-! ### ShorterResults on a method of the generated shape -/

/-- the body ShorterResults leaves behind: one more attribute behind `model_validate`; for a
    subscription the rebuilt `async for` has a bare `Expr` body and no `orelse` -/
def shorterShape (s : Shape) (f : String) : Shape :=
  { s with proj := s.proj ++ [f],
           tail := match s.tail with
             | .call aw r d => .call aw r d
             | .sub d _ _ => .sub d false 0 }

theorem shorterShape_body_call (s : Shape) (f : String) (aw : Bool) (r d : String) (ht : s.tail = .call aw r d) :
    bodyOf (shorterShape s f) = bodyPre s ++ [.simple (.ret (some (.attr (projExpr s.retClass d s.proj) f)))] := by
  rw [bodyOf_eq]
  have h1 : bodyPre (shorterShape s f) = bodyPre s := by
    unfold shorterShape bodyPre opStmts
    simp [ht, execCall, Shape.queryName]
  have h2 : lastStmt (shorterShape s f) = .simple (.ret (some (.attr (projExpr s.retClass d s.proj) f))) := by
    unfold shorterShape lastStmt
    simp [ht, projExpr_snoc]
  rw [h1, h2]

theorem shorterShape_body_sub (s : Shape) (f : String) (d : String) (l : Bool) (o : Nat) (ht : s.tail = .sub d l o) :
    bodyOf (shorterShape s f) = bodyPre s ++
      [.asyncFor (.name d) (execCall "execute_ws" s) [.expr (.yield (.attr (projExpr s.retClass d s.proj) f))] false 0] := by
  rw [bodyOf_eq]
  have h1 : bodyPre (shorterShape s f) = bodyPre s := by
    unfold shorterShape bodyPre opStmts
    simp [ht, execCall, Shape.queryName]
  have h2 : lastStmt (shorterShape s f) =
      .asyncFor (.name d) (execCall "execute_ws" s) [.expr (.yield (.attr (projExpr s.retClass d s.proj) f))] false 0 := by
    unfold shorterShape lastStmt
    simp [ht, projExpr_snoc, execCall, Shape.queryName]
  rw [h1, h2]

/-- query / mutation methods -/
theorem shorter_call (st : ShorterState) (m : Method) (s : Shape) (aw : Bool) (r d cls : String)
    (hb : m.body = bodyOf s) (ht : s.tail = .call aw r d) (hr : m.returns = some (.name cls)) :
    shorterModifyMethod st m =
      (nodeAndClass st.classDict cls >>= fun x =>
        match x with
        | none => pure (st, m)
        | some (node, classes, f) =>
          pure (shorterUpdateImports st m.name classes,
            { m with returns := some node, body := bodyOf (shorterShape s f) })) := by
  unfold shorterModifyMethod
  rw [hb, bodyOf_getLast]
  simp only [lastStmt, ht]
  unfold shorterQueryMutation
  simp only [hr]
  cases hn : nodeAndClass st.classDict cls with
  | error e => rfl
  | ok x =>
    cases x with
    | none => rfl
    | some t =>
      obtain ⟨node, classes, f⟩ := t
      simp only [bind_ok, pure_eq_ok]
      rw [shorterShape_body_call s f aw r d ht, hb, bodyOf_dropLast]

/-- subscription methods (`l` = the `async for` body is a list, as client.py builds it; the bare `Expr`
    body ShorterResults itself leaves behind makes a second application die in `len(stmt.body)`) -/
theorem shorter_sub_any (st : ShorterState) (m : Method) (s : Shape) (d cls : String) (l : Bool) (o : Nat) (a : Ex)
    (hb : m.body = bodyOf s) (ht : s.tail = .sub d l o) (hr : m.returns = some (.sub a (.name cls))) :
    shorterModifyMethod st m =
      (nodeAndClass st.classDict cls >>= fun x =>
        match x with
        | none => pure (st, m)
        | some (node, classes, f) =>
          if l then
            pure (shorterUpdateImports st m.name classes,
              { m with returns := some (.sub (.name "AsyncIterator") node), body := bodyOf (shorterShape s f) })
          else throw "TypeError") := by
  unfold shorterModifyMethod
  rw [hb, bodyOf_getLast]
  simp only [lastStmt, ht]
  unfold shorterSubscription
  simp only [hr]
  cases hn : nodeAndClass st.classDict cls with
  | error e => rfl
  | ok x =>
    cases x with
    | none => rfl
    | some t =>
      obtain ⟨node, classes, f⟩ := t
      cases l with
      | false => rfl
      | true =>
        simp only [bind_ok, pure_eq_ok, Bool.not_true, Bool.false_eq_true, ↓reduceIte]
        rw [shorterShape_body_sub s f d true o ht, hb, bodyOf_dropLast]

theorem shorter_sub (st : ShorterState) (m : Method) (s : Shape) (d cls : String) (o : Nat) (a : Ex)
    (hb : m.body = bodyOf s) (ht : s.tail = .sub d true o) (hr : m.returns = some (.sub a (.name cls))) :
    shorterModifyMethod st m =
      (nodeAndClass st.classDict cls >>= fun x =>
        match x with
        | none => pure (st, m)
        | some (node, classes, f) =>
          pure (shorterUpdateImports st m.name classes,
            { m with returns := some (.sub (.name "AsyncIterator") node), body := bodyOf (shorterShape s f) })) := by
  rw [shorter_sub_any st m s d cls true o a hb ht hr]
  cases nodeAndClass st.classDict cls with
  | error e => rfl
  | ok x => cases x <;> rfl

/-- a return annotation that is not a plain class name (for instance the string constant
    ClientForwardRefs leaves behind) makes ShorterResults skip the method -/
theorem shorter_skips_non_name (st : ShorterState) (m : Method) (s : Shape) (aw : Bool) (r d : String)
    (hb : m.body = bodyOf s) (ht : s.tail = .call aw r d) (hr : ∀ id, m.returns ≠ some (.name id)) :
    shorterModifyMethod st m = pure (st, m) := by
  unfold shorterModifyMethod
  rw [hb, bodyOf_getLast]
  simp only [lastStmt, ht]
  unfold shorterQueryMutation
  split
  · rename_i id _ h2
    exact absurd h2 (hr _)
  · rfl

theorem shorter_skips_non_name_sub (st : ShorterState) (m : Method) (s : Shape) (d : String) (l : Bool) (o : Nat)
    (hb : m.body = bodyOf s) (ht : s.tail = .sub d l o) (hr : ∀ a id, m.returns ≠ some (.sub a (.name id))) :
    shorterModifyMethod st m = pure (st, m) := by
  unfold shorterModifyMethod
  rw [hb, bodyOf_getLast]
  simp only [lastStmt, ht]
  unfold shorterSubscription
  split
  · rename_i a id h2
    exact absurd h2 (hr _ _)
  · rfl

/-! ### `_return_or_yield_node_and_class`: exactly one field, inherited ones included -/

theorem nodeAndClass_some (dict : List (String × ClassDef)) (cls : String) (node : Ex) (classes : List String) (f : String) :
    nodeAndClass dict cls = .ok (some (node, classes, f)) ↔
      ∃ cd ann, alookup cls dict = some cd ∧
        getAllFields dict (dict.length + 1) cd = .ok [(.name f, ann)] ∧
        updateNode (ann.size + 1) ann = .ok (node, classes) := by
  unfold nodeAndClass
  cases hl : alookup cls dict with
  | none => simp [pure_eq_ok]
  | some cd =>
    simp only [Option.some.injEq, exists_and_left, exists_eq_left']
    cases hg : getAllFields dict (dict.length + 1) cd with
    | error e => simp [bind_error]
    | ok fields =>
      simp only [bind_ok]
      match fields with
      | [] => simp [pure_eq_ok]
      | [(t, ann)] =>
        cases t <;> simp [pure_eq_ok]
        rename_i id
        cases hu : updateNode (ann.size + 1) ann with
        | error e => simp [bind_error]; intro _ h; rw [hu] at h; cases h
        | ok r =>
          obtain ⟨n', c'⟩ := r
          simp [bind_ok, pure_eq_ok]
          constructor
          · rintro ⟨h1, h2, h3⟩
            exact ⟨ann, ⟨h3, rfl⟩, by rw [hu, h1, h2]⟩
          · rintro ⟨x, ⟨h3, h4⟩, h5⟩
            subst h4
            rw [hu] at h5
            simp at h5
            exact ⟨h5.1, h5.2, h3⟩
      | _ :: _ :: _ => simp [pure_eq_ok]


/-! ### semantics of the projection -/

theorem request_shorterShape (pkg : Pkg) (s : Shape) (f : String) : request pkg (shorterShape s f) = request pkg s := by
  unfold request shorterShape constValue resolveRuntime
  cases s.op <;> rfl

theorem respond_shorterShape {PyV : Type} (validate : String × String → J → Except String PyV)
    (getattr : String → PyV → PyV) (pkg : Pkg) (s : Shape) (f : String) (d : J) :
    respond validate getattr pkg (shorterShape s f) d = (respond validate getattr pkg s d).map (getattr f) := by
  unfold respond shorterShape resolveRuntime
  simp only
  cases alookup s.retClass (importBindings s.imports) with
  | some cls =>
    simp only
    cases validate cls d with
    | ok o => simp [Outcome.map, List.foldl_append]
    | error e => simp [Outcome.map]
  | none =>
    simp only
    cases alookup s.retClass (importBindings (topImports pkg.client)) with
    | some cls =>
      simp only
      cases validate cls d with
      | ok o => simp [Outcome.map, List.foldl_append]
      | error e => simp [Outcome.map]
    | none => simp [Outcome.map]

/-! ### ExtractOperations on a method of the generated shape -/

theorem replaceQueryKw_exec (v : Ex) (q o vv kw : Ex) :
    replaceQueryKw v [some "query", some "operation_name", some "variables", none] [q, o, vv, kw] = [v, o, vv, kw] := by
  simp [replaceQueryKw]

/-- `generate_client_method` of ExtractOperations on the method client.py built (no in-body imports
    yet, the operation inlined): the `query = gql(...)` statement is dropped and `query=` refers to
    the constant of this operation; nothing else changes. -/
theorem extract_method (st : ExtractState) (c : Call) (m : Method) (s : Shape) (q : String) (ls : List String)
    (op v : String)
    (hb : m.body = bodyOf s) (hi : s.imports = []) (ho : s.op = .inline q ls)
    (hn : c.opName = some op) (hv : alookup op st.vars = some v)
    (hk : match s.tail with
          | .call aw _ _ => c.opKind ≠ some "subscription" ∧ st.asyncClient = aw
          | .sub _ _ _ => c.opKind = some "subscription") :
    extractClientMethod st c m = .ok { m with body := bodyOf { s with op := .const v } } := by
  unfold extractClientMethod
  have hbody : m.body = .simple (.assign q (.call (.name "gql") [.strs ls] [] [])) ::
      .simple (.annAssign (.name s.varsVar) s.varsAnn (some s.variables)) :: tailStmts s := by
    rw [hb]; unfold bodyOf opStmts; simp [hi, ho]
  have hbody' : bodyOf { s with op := .const v } =
      .simple (.annAssign (.name s.varsVar) s.varsAnn (some s.variables)) :: tailStmts { s with op := .const v } := by
    unfold bodyOf opStmts; simp [hi]
  rw [hbody, hbody']
  cases ht : s.tail with
  | call aw r d =>
    rw [ht] at hk
    obtain ⟨hk1, hk2⟩ := hk
    cases aw with
    | true =>
      simp [tailStmts, ht, execCall, Shape.queryName, ho, hn, hv, hk2, List.drop, replaceQueryKw, bind, Except.bind, pure, Except.pure]
    | false =>
      simp [tailStmts, ht, execCall, Shape.queryName, ho, hn, hv, hk2, List.drop, replaceQueryKw, bind, Except.bind, pure, Except.pure]
  | sub d l o =>
    rw [ht] at hk
    simp [tailStmts, ht, execCall, Shape.queryName, ho, hn, hv, hk, List.drop, replaceQueryKw, bind, Except.bind, pure, Except.pure, List.set]


/-! ### association lists -/

theorem alookup_aset_self {β} (k : String) (v : β) (d : List (String × β)) : alookup k (aset k v d) = some v := by
  induction d with
  | nil => simp [aset, alookup]
  | cons kv rest ih =>
    obtain ⟨k', v'⟩ := kv
    by_cases h : k' = k
    · simp [aset, alookup, h]
    · simp [aset, alookup, h, ih]

theorem alookup_aset_other {β} (k k' : String) (v : β) (d : List (String × β)) (h : k ≠ k') :
    alookup k' (aset k v d) = alookup k' d := by
  induction d with
  | nil => simp [aset, alookup, h]
  | cons kv rest ih =>
    obtain ⟨k2, v2⟩ := kv
    by_cases h2 : k2 = k
    · subst h2; simp [aset, alookup, h]
    · by_cases h3 : k2 = k'
      · subst h3; simp [aset, alookup, h2]
      · simp [aset, alookup, h2, h3, ih]

theorem mem_of_alookup {β} (k : String) (v : β) (d : List (String × β)) (h : alookup k d = some v) : (k, v) ∈ d := by
  induction d with
  | nil => simp [alookup] at h
  | cons kv rest ih =>
    obtain ⟨k', v'⟩ := kv
    by_cases hk : k' = k
    · simp [alookup, hk] at h; simp [hk, h]
    · simp [alookup, hk] at h; simp [ih h]

theorem alookup_of_mem_nodup {β} (k : String) (v : β) (d : List (String × β)) (hm : (k, v) ∈ d)
    (hn : (d.map Prod.fst).Nodup) : alookup k d = some v := by
  induction d with
  | nil => simp at hm
  | cons kv rest ih =>
    obtain ⟨k', v'⟩ := kv
    simp only [List.map_cons, List.nodup_cons] at hn
    rcases List.mem_cons.mp hm with h | h
    · cases h; simp [alookup]
    · by_cases hk : k' = k
      · subst hk
        exact absurd (List.mem_map.mpr ⟨(k', v), h, rfl⟩) hn.1
      · simp [alookup, hk, ih h hn.2]

/-! ### ExtractOperations: bookkeeping and the operations module -/

theorem extract_opStr (st : ExtractState) (c : Call) (s op snake : String)
    (hn : c.opName = some op) (hs : c.opSnake = some snake) :
    extractOperationStr st c s =
      .ok { st with gqls := aset op s st.gqls, vars := aset op (gqlVarName snake) st.vars } := by
  unfold extractOperationStr; simp [hn, hs, pure_eq_ok]

theorem mapM_ok_mem {α β} (f : α → M β) : ∀ (xs : List α) (ys : List β), xs.mapM f = .ok ys →
    ∀ x ∈ xs, ∃ y ∈ ys, f x = .ok y := by
  intro xs
  induction xs with
  | nil => intro ys _ x hx; simp at hx
  | cons a as ih =>
    intro ys h x hx
    rw [List.mapM_cons] at h
    cases hfa : f a with
    | error e => rw [hfa] at h; cases h
    | ok b =>
      rw [hfa] at h
      simp only [bind_ok] at h
      cases hrest : as.mapM f with
      | error e => rw [hrest] at h; cases h
      | ok bs =>
        rw [hrest] at h
        simp only [bind_ok, pure_eq_ok, Except.ok.injEq] at h
        subst h
        rcases List.mem_cons.mp hx with rfl | hx'
        · exact ⟨b, by simp, hfa⟩
        · obtain ⟨y, hy, hfy⟩ := ih bs hrest x hx'
          exact ⟨y, by simp [hy], hfy⟩

/-- every recorded operation ends up in the written module as `NAME = <the lines of its string>` -/
theorem extract_opsFile_binds (st : ExtractState) (f : OpsFile) (h : extractOpsFile st = .ok f)
    (op g : String) (hg : (op, g) ∈ st.gqls) :
    ∃ v, alookup op st.vars = some v ∧ (v, pyLines g) ∈ f.assigns := by
  unfold extractOpsFile at h
  simp only [bind, Except.bind] at h
  split at h
  · cases h
  · rename_i assigns hm
    simp only [pure, Except.pure, Except.ok.injEq] at h
    subst h
    obtain ⟨y, hy, hfy⟩ := mapM_ok_mem _ _ _ hm (op, g) hg
    simp only at hfy
    cases hv : alookup op st.vars with
    | none => rw [hv] at hfy; cases hfy
    | some v =>
      rw [hv] at hfy
      simp only [pure, Except.pure, Except.ok.injEq] at hfy
      exact ⟨v, rfl, by rw [hfy]; exact hy⟩

/-! ### ClientForwardRefs on a method of the generated shape -/

theorem fwdImportClass_last (s : Shape) (hp : s.proj.length ≤ 1) : fwdImportClass (lastStmt s) = some s.retClass := by
  unfold lastStmt
  match hproj : s.proj with
  | [] => cases s.tail <;> simp [fwdImportClass, projExpr, fwdCallOf, fwdClassOfCall]
  | [f] => cases s.tail <;> simp [fwdImportClass, projExpr, fwdCallOf, fwdClassOfCall]
  | _ :: _ :: _ => rw [hproj] at hp; simp at hp

def withImport (s : Shape) (i : ImportFrom) : Shape := { s with imports := i :: s.imports }

theorem bodyOf_withImport (s : Shape) (i : ImportFrom) :
    bodyOf (withImport s i) = .simple (.importFrom i) :: bodyOf s := by
  unfold bodyOf withImport opStmts tailStmts
  cases h1 : s.op <;> cases h2 : s.tail <;> simp [execCall, Shape.queryName, h1]

/-- the rewritten signature of a method (string constants for locally imported classes) -/
def fwdSignature (st : FwdState) (m : Method) : List (String × Option Ex) × Option Ex × List String :=
  let r1 := fwdRewriteArgs st.importedClasses m.args st.inputAndReturnTypes
  match m.returns with
  | some r => let x := toConst st.importedClasses r r1.2; (r1.1, some x.1, x.2)
  | none => (r1.1, none, r1.2)

/-- `generate_client_module` of ClientForwardRefs on one method of the generated shape: the
    signature is rewritten, and the validated class is imported at the top of the body FROM THE
    MODULE RECORDED FOR IT (level 0, dotted module text) — nothing else in the body changes. -/
theorem fwd_method (st : FwdState) (m : Method) (s : Shape) (src : String)
    (hb : m.body = bodyOf s) (hp : s.proj.length ≤ 1) (hc : alookup s.retClass st.importedClasses = some src) :
    fwdMethod st m = .ok
      ({ st with inputAndReturnTypes := (fwdSignature st m).2.2,
                 importedInMethod := sadd s.retClass st.importedInMethod },
       { m with args := (fwdSignature st m).1, returns := (fwdSignature st m).2.1,
                body := bodyOf (withImport s { module := some src, names := [(s.retClass, none)], level := 0 }) }) := by
  unfold fwdMethod fwdSignature
  simp only [bind_ok, pure_eq_ok]
  cases hr : m.returns with
  | none =>
    simp only [hb, bodyOf_getLast, fwdImportClass_last s hp, hc, bodyOf_withImport]
  | some r =>
    simp only [hb, bodyOf_getLast, fwdImportClass_last s hp, hc, bodyOf_withImport]

/-- a validated class that was never imported by a local import: KeyError (finding C15-F5 is the
    instance `self.get_data(...)`, where the "class" is `self`) -/
theorem fwd_method_keyerror (st : FwdState) (m : Method) (last : Stmt) (cls : String)
    (hl : m.body.getLast? = some last) (hi : fwdImportClass last = some cls)
    (hc : alookup cls st.importedClasses = none) : fwdMethod st m = .error "KeyError" := by
  unfold fwdMethod
  simp only [bind_ok, pure_eq_ok]
  cases hr : m.returns <;> simp [hl, hi, hc, throw, throwThe, MonadExceptOf.throw]


/-! ### a plugin whose hooks all return their argument, anywhere in the list -/

theorem applyAll_insert {σ : Type} (step : Call → σ → Payload → M (σ × Payload)) (idp : σ)
    (hid : ∀ c x, step c idp x = .ok (idp, x)) (c : Call) (a b : List σ) (x : Payload) :
    applyAll step c (a ++ idp :: b) x =
      (applyAll step c a x >>= fun ra => applyAll step c b ra.2 >>= fun rb => pure (ra.1 ++ idp :: rb.1, rb.2)) := by
  rw [applyAll_append]
  cases applyAll step c a x with
  | error e => rfl
  | ok ra =>
    simp only [bind_ok]
    rw [applyAll_cons, hid]
    simp only [bind_ok]
    cases applyAll step c b ra.2 with
    | error e => rfl
    | ok rb => rfl

/-- plugin lists that differ by one inserted inert plugin -/
def InsertedAt {σ : Type} (idp : σ) (l1 l2 : List σ) : Prop := ∃ a b, l1 = a ++ idp :: b ∧ l2 = a ++ b

theorem applyAll_inserted {σ : Type} (step : Call → σ → Payload → M (σ × Payload)) (idp : σ)
    (hid : ∀ c x, step c idp x = .ok (idp, x)) (c : Call) (l1 l2 : List σ) (x : Payload)
    (h : InsertedAt idp l1 l2) :
    (∃ e, applyAll step c l1 x = .error e ∧ applyAll step c l2 x = .error e) ∨
    (∃ l1' l2' y, applyAll step c l1 x = .ok (l1', y) ∧ applyAll step c l2 x = .ok (l2', y) ∧ InsertedAt idp l1' l2') := by
  obtain ⟨a, b, rfl, rfl⟩ := h
  rw [applyAll_insert step idp hid, applyAll_append]
  cases applyAll step c a x with
  | error e => exact .inl ⟨e, rfl, rfl⟩
  | ok ra =>
    simp only [bind_ok]
    cases applyAll step c b ra.2 with
    | error e => exact .inl ⟨e, rfl, rfl⟩
    | ok rb => exact .inr ⟨_, _, _, rfl, rfl, ra.1, rb.1, rfl, rfl⟩

theorem identity_step (c : Call) (x : Payload) : PState.step c .identity x = .ok (.identity, x) := rfl

/-- pipeline states that differ only by an inserted identity plugin -/
def PipeRel (p1 p2 : PipeState) : Prop :=
  InsertedAt PState.identity p1.plugins p2.plugins ∧ p1.methodsOut = p2.methodsOut ∧ p1.importsOut = p2.importsOut ∧
  p1.gqlOut = p2.gqlOut ∧ p1.classOut = p2.classOut ∧ p1.initImports = p2.initImports ∧ p1.trace = p2.trace

theorem inputFor_rel (p1 p2 : PipeState) (e : Event) (h : PipeRel p1 p2) : inputFor p1 e = inputFor p2 e := by
  obtain ⟨_, h1, h2, h3, h4, h5, _⟩ := h
  unfold inputFor
  rw [h1, h2, h3, h4, h5]

theorem record_rel (p1 p2 : PipeState) (c : Call) (y : Payload) (h : PipeRel p1 p2) :
    PipeRel (record p1 c y) (record p2 c y) := by
  obtain ⟨h0, h1, h2, h3, h4, h5, h6⟩ := h
  unfold record
  split
  · exact ⟨h0, by simp [h1], h2, h3, h4, h5, h6⟩
  · rename_i i _
    by_cases hk : keepClientImport c i = true
    · simp only [hk, ↓reduceIte]; exact ⟨h0, h1, by simp [h2], h3, h4, h5, h6⟩
    · simp only [hk]; exact ⟨h0, h1, h2, h3, h4, h5, h6⟩
  · exact ⟨h0, h1, h2, by simp, h4, h5, h6⟩
  · exact ⟨h0, h1, h2, h3, by simp, h5, h6⟩
  · exact ⟨h0, h1, h2, h3, h4, by simp [h5], h6⟩
  · exact ⟨h0, h1, h2, h3, h4, h5, h6⟩

theorem stepEvent_rel (p1 p2 : PipeState) (e : Event) (h : PipeRel p1 p2) :
    (∃ err, stepEvent p1 e = .error err ∧ stepEvent p2 e = .error err) ∨
    (∃ q1 q2, stepEvent p1 e = .ok q1 ∧ stepEvent p2 e = .ok q2 ∧ PipeRel q1 q2) := by
  unfold stepEvent manager
  rw [inputFor_rel p1 p2 e h]
  dsimp only
  have h' := h
  obtain ⟨h0, h1, h2, h3, h4, h5, h6⟩ := h
  rcases applyAll_inserted PState.step .identity identity_step e.call p1.plugins p2.plugins (inputFor p2 e) h0 with
    ⟨err, e1, e2⟩ | ⟨l1, l2, y, e1, e2, hins⟩
  · left; exact ⟨err, by rw [e1]; rfl, by rw [e2]; rfl⟩
  · right
    rw [e1, e2]
    simp only [bind_ok, pure_eq_ok]
    refine ⟨_, _, rfl, rfl, ?_⟩
    apply record_rel
    exact ⟨hins, h1, h2, h3, h4, h5, by simp [h6]⟩

theorem runPipeline_rel (evs : List Event) : ∀ (p1 p2 : PipeState), PipeRel p1 p2 →
    (runPipeline p1 evs).2 = (runPipeline p2 evs).2 ∧ PipeRel (runPipeline p1 evs).1 (runPipeline p2 evs).1 := by
  induction evs with
  | nil => intro p1 p2 h; exact ⟨rfl, h⟩
  | cons e rest ih =>
    intro p1 p2 h
    unfold runPipeline
    rcases stepEvent_rel p1 p2 e h with ⟨err, e1, e2⟩ | ⟨q1, q2, e1, e2, hq⟩
    · rw [e1, e2]; exact ⟨rfl, h⟩
    · rw [e1, e2]; exact ih q1 q2 hq


/-! ### NoReimports -/

theorem noReimports_other_hooks (c : Call) (x : Payload) (h : c.hook ≠ "generate_init_module") :
    noReimportsStep c x = x := by
  unfold noReimportsStep
  split
  · rename_i h1; exact absurd h1 h
  · rfl

/-- once `__init__` is empty no bundled plugin puts anything back -/
theorem empty_init_stays_empty (c : Call) (hc : c.hook = "generate_init_module") (p p' : PState) (y : Payload)
    (h : PState.step c p (.module { body := [] }) = .ok (p', y)) : y = .module { body := [] } := by
  cases p with
  | shorter st =>
    simp only [PState.step, shorterStep, hc] at h
    simp [bind, Except.bind, pure, Except.pure] at h
    exact h.2.symm
  | extract st =>
    simp only [PState.step, extractStep, hc, extractInitModule] at h
    simp only [List.isEmpty_nil, ↓reduceIte, bind, Except.bind, pure, Except.pure] at h
    cases hf : extractOpsFile st with
    | error e => simp [hf] at h
    | ok f => simp [hf] at h; exact h.2.symm
  | fwd st =>
    simp only [PState.step, fwdStep, hc] at h
    simp [bind, Except.bind, pure, Except.pure] at h
    exact h.2.symm
  | noReimports =>
    simp only [PState.step, noReimportsStep, hc, pure, Except.pure, Except.ok.injEq, Prod.mk.injEq] at h
    exact h.2.symm
  | identity =>
    simp only [PState.step, pure, Except.pure, Except.ok.injEq, Prod.mk.injEq] at h
    exact h.2.symm

theorem empty_init_through_list (c : Call) (hc : c.hook = "generate_init_module") :
    ∀ (ps ps' : List PState) (y : Payload),
      applyAll PState.step c ps (.module { body := [] }) = .ok (ps', y) → y = .module { body := [] } := by
  intro ps
  induction ps with
  | nil => intro ps' y h; simp [applyAll, List.foldlM, pure, Except.pure] at h; exact h.2.symm
  | cons p rest ih =>
    intro ps' y h
    rw [applyAll_cons] at h
    cases hs : PState.step c p (.module { body := [] }) with
    | error e => rw [hs] at h; cases h
    | ok r =>
      rw [hs] at h
      simp only [bind_ok] at h
      have hy := empty_init_stays_empty c hc p r.1 r.2 (by rw [hs])
      rw [hy] at h
      cases hr : applyAll PState.step c rest (.module { body := [] }) with
      | error e => rw [hr] at h; cases h
      | ok r' =>
        rw [hr] at h
        simp only [bind_ok, pure_eq_ok, Except.ok.injEq, Prod.mk.injEq] at h
        rw [← h.2]
        exact ih r'.1 r'.2 (by rw [hr])

/-! ### ClientForwardRefs: annotations keep their meaning -/

mutual
  /-- read a string annotation as the name it quotes (where `_update_name_to_constant` can write one) -/
  def unconst : Ex → Ex
    | .const v => .name v
    | .sub v s => .sub v (unconst s)
    | .tuple es => .tuple (unconstList es)
    | e => e
  def unconstList : List Ex → List Ex
    | [] => []
    | e :: es => unconst e :: unconstList es
end

mutual
  theorem toConst_unconst (cls : List (String × String)) : ∀ (e : Ex) (s : List String),
      unconst (toConst cls e s).1 = unconst e
    | .name id, s => by
      unfold toConst
      split <;> simp [unconst]
    | .sub v sl, s => by
      simp only [toConst, unconst]
      rw [toConst_unconst cls sl s]
    | .tuple es, s => by
      simp only [toConst, unconst]
      rw [toConstList_unconst cls es s]
    | .const _, _ => by simp [toConst]
    | .attr _ _, _ => by simp [toConst]
    | .call _ _ _ _, _ => by simp [toConst]
    | .await _, _ => by simp [toConst]
    | .yield _, _ => by simp [toConst]
    | .yieldNone, _ => by simp [toConst]
    | .strs _, _ => by simp [toConst]
    | .other _ _, _ => by simp [toConst]
  theorem toConstList_unconst (cls : List (String × String)) : ∀ (es : List Ex) (s : List String),
      unconstList (toConstList cls es s).1 = unconstList es
    | [], s => by simp [toConstList, unconstList]
    | e :: es, s => by
      simp only [toConstList, unconstList]
      rw [toConst_unconst cls e s, toConstList_unconst cls es _]
end

theorem mem_sadd (x y : String) (s : List String) : y ∈ sadd x s ↔ y ∈ s ∨ y = x := by
  unfold sadd
  split
  · rename_i h
    constructor
    · intro hy; exact .inl hy
    · rintro (hy | rfl)
      · exact hy
      · exact List.contains_iff_mem.mp h |> fun h' => by simpa using h'
  · simp

mutual
  /-- every name `_update_name_to_constant` adds to `input_and_return_types` is a locally imported class -/
  theorem toConst_set (cls : List (String × String)) : ∀ (e : Ex) (s : List String) (n : String),
      n ∈ (toConst cls e s).2 → n ∈ s ∨ ahas n cls = true
    | .name id, s, n => by
      unfold toConst
      split
      · rename_i h
        intro hn
        rcases (mem_sadd id n s).mp hn with h1 | h1
        · exact .inl h1
        · subst h1; exact .inr h
      · intro hn; exact .inl hn
    | .sub v sl, s, n => by
      simp only [toConst]
      exact toConst_set cls sl s n
    | .tuple es, s, n => by
      simp only [toConst]
      exact toConstList_set cls es s n
    | .const _, _, _ => by simp [toConst]; exact .inl
    | .attr _ _, _, _ => by simp [toConst]; exact .inl
    | .call _ _ _ _, _, _ => by simp [toConst]; exact .inl
    | .await _, _, _ => by simp [toConst]; exact .inl
    | .yield _, _, _ => by simp [toConst]; exact .inl
    | .yieldNone, _, _ => by simp [toConst]; exact .inl
    | .strs _, _, _ => by simp [toConst]; exact .inl
    | .other _ _, _, _ => by simp [toConst]; exact .inl
  theorem toConstList_set (cls : List (String × String)) : ∀ (es : List Ex) (s : List String) (n : String),
      n ∈ (toConstList cls es s).2 → n ∈ s ∨ ahas n cls = true
    | [], s, n => by simp [toConstList]; exact .inl
    | e :: es, s, n => by
      simp only [toConstList]
      intro hn
      rcases toConstList_set cls es _ n hn with h | h
      · exact toConst_set cls e s n h
      · exact .inr h
end


/-! ### ClientForwardRefs: what ends up under `if TYPE_CHECKING:` -/

def tcStep (classes : List (String × String)) (acc : List (String × List String)) (cls : String) :
    M (List (String × List String)) :=
  match alookup cls classes with
  | none => throw "KeyError"
  | some mname => pure (aset mname ((alookup mname acc).getD [] ++ [cls]) acc)

theorem fwdTypeCheckingImports_eq (st : FwdState) :
    fwdTypeCheckingImports st = st.inputAndReturnTypes.foldlM (tcStep st.importedClasses) [] := rfl

theorem tc_fold (classes : List (String × String)) : ∀ (l : List String) (acc groups : List (String × List String)),
    l.foldlM (tcStep classes) acc = .ok groups →
      (∀ src names cls, alookup src acc = some names → cls ∈ names →
          ∃ names', alookup src groups = some names' ∧ cls ∈ names') ∧
      (∀ cls ∈ l, ∃ src names, alookup cls classes = some src ∧ alookup src groups = some names ∧ cls ∈ names) := by
  intro l
  induction l with
  | nil =>
    intro acc groups h
    simp [List.foldlM, pure, Except.pure] at h
    subst h
    exact ⟨fun src names cls h1 h2 => ⟨names, h1, h2⟩, fun cls hc => by simp at hc⟩
  | cons c rest ih =>
    intro acc groups h
    rw [List.foldlM_cons] at h
    cases hc : alookup c classes with
    | none => simp [tcStep, hc, bind, Except.bind, throw, throwThe, MonadExceptOf.throw] at h
    | some mname =>
      simp only [tcStep, hc, pure_eq_ok, bind_ok] at h
      obtain ⟨ih1, ih2⟩ := ih _ groups h
      constructor
      · intro src names cls h1 h2
        by_cases hs : mname = src
        · subst hs
          apply ih1 mname ((alookup mname acc).getD [] ++ [c]) cls (alookup_aset_self _ _ _)
          simp [h1, h2]
        · apply ih1 src names cls _ h2
          rw [alookup_aset_other mname src _ _ hs]; exact h1
      · intro cls hcls
        rcases List.mem_cons.mp hcls with rfl | hr
        · obtain ⟨names', hn1, hn2⟩ := ih1 mname ((alookup mname acc).getD [] ++ [cls]) cls (alookup_aset_self _ _ _) (by simp)
          exact ⟨mname, names', hc, hn1, hn2⟩
        · exact ih2 cls hr

/-- every class quoted in a signature is imported under `if TYPE_CHECKING:` from the module its
    module-level import named -/
theorem fwd_typechecking_complete (st : FwdState) (groups : List (String × List String))
    (h : fwdTypeCheckingImports st = .ok groups) (cls : String) (hc : cls ∈ st.inputAndReturnTypes) :
    ∃ src names, alookup cls st.importedClasses = some src ∧ alookup src groups = some names ∧ cls ∈ names := by
  rw [fwdTypeCheckingImports_eq] at h
  exact (tc_fold st.importedClasses st.inputAndReturnTypes [] groups h).2 cls hc

/-! ### configuration order: ClientForwardRefs before ShorterResults (finding C15-F3) -/

theorem toConst_name_imported (cls : List (String × String)) (id : String) (s : List String) (h : ahas id cls = true) :
    (toConst cls (.name id) s).1 = .const id := by
  unfold toConst; simp [h]

/-- what ClientForwardRefs leaves of a query/mutation method makes ShorterResults skip it, whatever
    ShorterResults knows about the result class -/
theorem shorter_after_fwd_method (stF : FwdState) (stS : ShorterState) (m : Method) (s : Shape) (aw : Bool)
    (r d cls src : String)
    (hb : m.body = bodyOf s) (ht : s.tail = .call aw r d) (hp : s.proj.length ≤ 1)
    (hr : m.returns = some (.name cls)) (hcls : ahas cls stF.importedClasses = true)
    (hc : alookup s.retClass stF.importedClasses = some src) :
    ∃ stF' m', fwdMethod stF m = .ok (stF', m') ∧ shorterModifyMethod stS m' = .ok (stS, m') := by
  refine ⟨_, _, fwd_method stF m s src hb hp hc, ?_⟩
  apply shorter_skips_non_name stS _ (withImport s { module := some src, names := [(s.retClass, none)], level := 0 }) aw r d rfl
  · simp [withImport, ht]
  · intro id h
    simp only [fwdSignature, hr] at h
    rw [toConst_name_imported _ _ _ hcls] at h
    cases h


/-! ### a module stays a module through the plugin manager -/

theorem step_keeps_module (c : Call) (p p' : PState) (m : Module) (y : Payload)
    (h : PState.step c p (.module m) = .ok (p', y)) : ∃ m', y = .module m' := by
  cases p with
  | shorter st =>
    simp only [PState.step, shorterStep] at h
    split at h
    all_goals (try (simp [bind, Except.bind, pure, Except.pure] at h; exact ⟨_, h.2.symm⟩))
    · rename_i hm
      cases hm
      cases hx : shorterClientModule st m with
      | error e => simp [hx, bind, Except.bind] at h
      | ok r => simp [hx, bind, Except.bind, pure, Except.pure] at h; exact ⟨_, h.2.symm⟩
  | extract st =>
    simp only [PState.step, extractStep] at h
    split at h
    · rename_i hm; cases hm
    · rename_i hm; cases hm
    · simp [bind, Except.bind, pure, Except.pure] at h; exact ⟨_, h.2.symm⟩
    · rename_i hm
      cases hm
      cases hx : extractInitModule st m with
      | error e => simp [hx, bind, Except.bind] at h
      | ok r => simp [hx, bind, Except.bind, pure, Except.pure] at h; exact ⟨_, h.2.symm⟩
    · simp [bind, Except.bind, pure, Except.pure] at h; exact ⟨_, h.2.symm⟩
  | fwd st =>
    simp only [PState.step, fwdStep] at h
    split at h
    · rename_i hm
      cases hm
      cases hx : fwdClientModule st m with
      | error e => simp [hx, bind, Except.bind] at h
      | ok r => simp [hx, bind, Except.bind, pure, Except.pure] at h; exact ⟨_, h.2.symm⟩
    · simp [bind, Except.bind, pure, Except.pure] at h; exact ⟨_, h.2.symm⟩
  | noReimports =>
    simp only [PState.step, pure, Except.pure, Except.ok.injEq, Prod.mk.injEq] at h
    rw [← h.2]
    unfold noReimportsStep
    split
    · exact ⟨_, rfl⟩
    · exact ⟨_, rfl⟩
  | identity =>
    simp only [PState.step, pure, Except.pure, Except.ok.injEq, Prod.mk.injEq] at h
    exact ⟨m, h.2.symm⟩

theorem applyAll_keeps_module (c : Call) : ∀ (ps l : List PState) (m : Module) (y : Payload),
    applyAll PState.step c ps (.module m) = .ok (l, y) → ∃ m', y = .module m' := by
  intro ps
  induction ps with
  | nil => intro l m y h; simp [applyAll, List.foldlM, pure, Except.pure] at h; exact ⟨m, h.2.symm⟩
  | cons p rest ih =>
    intro l m y h
    rw [applyAll_cons] at h
    cases hs : PState.step c p (.module m) with
    | error e => rw [hs] at h; cases h
    | ok r =>
      rw [hs] at h
      simp only [bind_ok] at h
      obtain ⟨m1, hm1⟩ := step_keeps_module c p r.1 m r.2 (by rw [hs])
      rw [hm1] at h
      cases hr : applyAll PState.step c rest (.module m1) with
      | error e => rw [hr] at h; cases h
      | ok r' =>
        rw [hr] at h
        simp only [bind_ok, pure_eq_ok, Except.ok.injEq, Prod.mk.injEq] at h
        rw [← h.2]
        exact ih r'.1 m1 r'.2 (by rw [hr])


/-! ### configurations made of the identity plugin and NoReimports only -/

def Inert (ps : List PState) : Prop := ∀ p ∈ ps, p = PState.identity ∨ p = PState.noReimports

theorem inert_manager (c : Call) : ∀ (ps : List PState), Inert ps → ∀ (x : Payload),
    ∃ y, applyAll PState.step c ps x = .ok (ps, y) ∧ (c.hook ≠ "generate_init_module" → y = x) := by
  intro ps
  induction ps with
  | nil => intro _ x; exact ⟨x, rfl, fun _ => rfl⟩
  | cons p rest ih =>
    intro hin x
    have hp := hin p (by simp)
    have hrest : Inert rest := fun q hq => hin q (by simp [hq])
    rw [applyAll_cons]
    rcases hp with rfl | rfl
    · obtain ⟨y, hy, hy2⟩ := ih hrest x
      refine ⟨y, ?_, hy2⟩
      show (Except.ok (PState.identity, x) >>= _) = _
      simp only [bind_ok, hy, pure_eq_ok]
    · obtain ⟨y, hy, hy2⟩ := ih hrest (noReimportsStep c x)
      refine ⟨y, ?_, fun hc => by rw [hy2 hc, noReimports_other_hooks c x hc]⟩
      show (Except.ok (PState.noReimports, noReimportsStep c x) >>= _) = _
      simp only [bind_ok, hy, pure_eq_ok]

def FinalRel (p1 p2 : PipeState) : Prop :=
  ∀ hook, hook ≠ "generate_init_module" → p1.finalOf hook = p2.finalOf hook

def InertRel (p1 p2 : PipeState) : Prop :=
  Inert p1.plugins ∧ p2.plugins = [] ∧ p1.methodsOut = p2.methodsOut ∧ p1.importsOut = p2.importsOut ∧
  p1.gqlOut = p2.gqlOut ∧ p1.classOut = p2.classOut ∧ p1.initImports = p2.initImports ∧ FinalRel p1 p2

def finalOfTrace (t : List (Call × Payload × Payload)) (hook : String) : Option Payload :=
  (t.reverse.find? (fun e => e.1.hook == hook)).map (·.2.2)

theorem finalOf_eq (ps : PipeState) (hook : String) : ps.finalOf hook = finalOfTrace ps.trace hook := rfl

theorem finalOfTrace_snoc (t : List (Call × Payload × Payload)) (c : Call) (x y : Payload) (hook : String) :
    finalOfTrace (t ++ [(c, x, y)]) hook = if c.hook == hook then some y else finalOfTrace t hook := by
  unfold finalOfTrace
  simp only [List.reverse_append, List.reverse_cons, List.reverse_nil, List.nil_append, List.cons_append, List.find?_cons]
  split <;> simp_all

theorem record_finalOf (ps : PipeState) (c : Call) (y : Payload) (hook : String) :
    (record ps c y).finalOf hook = ps.finalOf hook := by
  unfold record PipeState.finalOf
  split
  · rfl
  · split <;> rfl
  · rfl
  · rfl
  · rfl
  · rfl

theorem record_init (ps : PipeState) (c : Call) (hc : c.hook = "generate_init_module") (y : Payload) : record ps c y = ps := by
  unfold record
  split <;> simp_all

theorem record_fields (p1 p2 : PipeState) (c : Call) (y : Payload)
    (h1 : p1.methodsOut = p2.methodsOut) (h2 : p1.importsOut = p2.importsOut) (h3 : p1.gqlOut = p2.gqlOut)
    (h4 : p1.classOut = p2.classOut) (h5 : p1.initImports = p2.initImports) :
    (record p1 c y).plugins = p1.plugins ∧ (record p2 c y).plugins = p2.plugins ∧
    (record p1 c y).methodsOut = (record p2 c y).methodsOut ∧ (record p1 c y).importsOut = (record p2 c y).importsOut ∧
    (record p1 c y).gqlOut = (record p2 c y).gqlOut ∧ (record p1 c y).classOut = (record p2 c y).classOut ∧
    (record p1 c y).initImports = (record p2 c y).initImports := by
  unfold record
  split
  · simp [h1, h2, h3, h4, h5]
  · rename_i i _
    by_cases hk : keepClientImport c i = true <;> simp [hk, h1, h2, h3, h4, h5]
  · simp [h1, h2, h3, h4, h5]
  · simp [h1, h2, h3, h4, h5]
  · simp [h1, h2, h3, h4, h5]
  · simp [h1, h2, h3, h4, h5]

theorem stepEvent_inert (p1 p2 : PipeState) (e : Event) (h : InertRel p1 p2) :
    ∃ q1 q2, stepEvent p1 e = .ok q1 ∧ stepEvent p2 e = .ok q2 ∧ InertRel q1 q2 := by
  obtain ⟨hin, hnil, h1, h2, h3, h4, h5, hf⟩ := h
  have hinput : inputFor p1 e = inputFor p2 e := by unfold inputFor; rw [h1, h2, h3, h4, h5]
  obtain ⟨y, hy, hy2⟩ := inert_manager e.call p1.plugins hin (inputFor p2 e)
  unfold stepEvent manager
  rw [hinput, hnil]
  dsimp only
  rw [hy]
  simp only [bind_ok, pure_eq_ok]
  have hnilrun : applyAll PState.step e.call [] (inputFor p2 e) = .ok ([], inputFor p2 e) := rfl
  rw [hnilrun]
  simp only [bind_ok]
  refine ⟨_, _, rfl, rfl, ?_⟩
  by_cases hc : e.call.hook = "generate_init_module"
  · rw [record_init _ e.call hc, record_init _ e.call hc]
    refine ⟨hin, rfl, h1, h2, h3, h4, h5, ?_⟩
    intro hook hh
    rw [finalOf_eq, finalOf_eq]
    simp only [finalOfTrace_snoc]
    have : (e.call.hook == hook) = false := by rw [hc]; simp; exact fun h => hh h.symm
    simp only [this, Bool.false_eq_true, ↓reduceIte]
    have := hf hook hh
    rw [finalOf_eq, finalOf_eq] at this
    exact this
  · have hyx := hy2 hc
    subst hyx
    obtain ⟨g1, g2, g3, g4, g5, g6, g7⟩ := record_fields
      { p1 with trace := p1.trace ++ [(e.call, inputFor p2 e, inputFor p2 e)] }
      { plugins := [], methodsOut := p2.methodsOut, importsOut := p2.importsOut, gqlOut := p2.gqlOut, classOut := p2.classOut,
        initImports := p2.initImports, trace := p2.trace ++ [(e.call, inputFor p2 e, inputFor p2 e)] }
      e.call (inputFor p2 e) h1 h2 h3 h4 h5
    refine ⟨by rw [g1]; exact hin, by rw [g2], g3, g4, g5, g6, g7, ?_⟩
    intro hook hh
    rw [record_finalOf, record_finalOf, finalOf_eq, finalOf_eq]
    simp only [finalOfTrace_snoc]
    have := hf hook hh
    rw [finalOf_eq, finalOf_eq] at this
    rw [this]

theorem runPipeline_inert (evs : List Event) : ∀ (p1 p2 : PipeState), InertRel p1 p2 →
    (runPipeline p1 evs).2 = (runPipeline p2 evs).2 ∧ InertRel (runPipeline p1 evs).1 (runPipeline p2 evs).1 := by
  induction evs with
  | nil => intro p1 p2 h; exact ⟨rfl, h⟩
  | cons e rest ih =>
    intro p1 p2 h
    unfold runPipeline
    obtain ⟨q1, q2, e1, e2, hq⟩ := stepEvent_inert p1 p2 e h
    rw [e1, e2]
    exact ih q1 q2 hq

theorem inert_opsFile (ps : PipeState) (h : Inert ps.plugins) : ps.opsFile? = none := by
  unfold PipeState.opsFile?
  rw [List.findSome?_eq_none_iff]
  intro p hp
  rcases h p (by simpa using hp) with rfl | rfl <;> rfl

theorem inert_no_kind (ps : List PState) (h : Inert ps) :
    ps.any PState.isShorter = false ∧ ps.any PState.isExtract = false ∧ ps.any PState.isFwd = false := by
  refine ⟨?_, ?_, ?_⟩ <;>
  · rw [List.any_eq_false]
    intro p hp
    rcases h p hp with rfl | rfl <;> simp [PState.isShorter, PState.isExtract, PState.isFwd]

theorem outcome_map_id {α} (o : Outcome α) : o.map (fun a => a) = o := by cases o <;> rfl


/-! ### what ANY chain of bundled plugins can do to a method of the generated shape -/

/-- one rewriting step on a shape: a projection (ShorterResults) or an in-body import (ClientForwardRefs) -/
inductive ShapeStep : Shape → Shape → Prop where
  | proj (s : Shape) (f : String) : ShapeStep s (shorterShape s f)
  | imp (s : Shape) (i : ImportFrom) : ShapeStep s (withImport s i)

inductive ShapeEvolves : Shape → Shape → Prop where
  | refl (s : Shape) : ShapeEvolves s s
  | step {s t u : Shape} : ShapeEvolves s t → ShapeStep t u → ShapeEvolves s u

theorem ShapeEvolves.trans {s t u : Shape} (h1 : ShapeEvolves s t) (h2 : ShapeEvolves t u) : ShapeEvolves s u := by
  induction h2 with
  | refl => exact h1
  | step _ hs ih => exact .step ih hs

def sameKind : Tail → Tail → Prop
  | .call aw r d, .call aw' r' d' => aw = aw' ∧ r = r' ∧ d = d'
  | .sub d _ _, .sub d' _ _ => d = d'
  | _, _ => False

theorem sameKind_refl (t : Tail) : sameKind t t := by cases t <;> simp [sameKind]

theorem sameKind_trans {a b c : Tail} (h1 : sameKind a b) (h2 : sameKind b c) : sameKind a c := by
  cases a <;> cases b <;> cases c <;> simp_all [sameKind]

/-- what evolution cannot touch: the operation source, the operation name, the variables, the
    validated class, the kind of method; projections are only appended, imports only prepended -/
theorem ShapeEvolves.preserves {s s' : Shape} (h : ShapeEvolves s s') :
    s'.op = s.op ∧ s'.opName = s.opName ∧ s'.variables = s.variables ∧ s'.varsVar = s.varsVar ∧
    s'.retClass = s.retClass ∧ s'.kwargs = s.kwargs ∧ sameKind s.tail s'.tail ∧
    (∃ fs, s'.proj = s.proj ++ fs) ∧ (∃ is, s'.imports = is ++ s.imports) := by
  induction h with
  | refl => exact ⟨rfl, rfl, rfl, rfl, rfl, rfl, sameKind_refl _, ⟨[], by simp⟩, ⟨[], by simp⟩⟩
  | step _ hs ih =>
    obtain ⟨h1, h2, h3, h4, h5, h6, h7, ⟨fs, h8⟩, ⟨is, h9⟩⟩ := ih
    cases hs with
    | proj f =>
      rename_i t _
      refine ⟨h1, h2, h3, h4, h5, h6, ?_, ⟨fs ++ [f], ?_⟩, ⟨is, h9⟩⟩
      · apply sameKind_trans h7
        unfold shorterShape
        cases t.tail <;> simp [sameKind]
      · simp [shorterShape, h8]
    | imp i =>
      exact ⟨h1, h2, h3, h4, h5, h6, h7, ⟨fs, h8⟩, ⟨i :: is, by simp [withImport, h9]⟩⟩

/-- ShorterResults on a method of the generated shape, any state, any return annotation: the method
    is returned unchanged or with one more projection -/
theorem shorter_step_shape (st st' : ShorterState) (m m' : Method) (s : Shape) (hb : m.body = bodyOf s)
    (h : shorterModifyMethod st m = .ok (st', m')) :
    m'.name = m.name ∧ m'.args = m.args ∧ ∃ s', m'.body = bodyOf s' ∧ (s' = s ∨ ∃ f, s' = shorterShape s f) := by
  have same : ∀ {a b : ShorterState} {x y : Method}, (pure (a, x) : M (ShorterState × Method)) = .ok (b, y) → y = x := by
    intro a b x y hh; simp [pure, Except.pure] at hh; exact hh.2.symm
  cases ht : s.tail with
  | call aw r d =>
    by_cases hname : ∃ id, m.returns = some (.name id)
    · obtain ⟨id, hret⟩ := hname
      rw [shorter_call st m s aw r d id hb ht hret] at h
      cases hn : nodeAndClass st.classDict id with
      | error e => rw [hn] at h; cases h
      | ok x =>
        rw [hn] at h
        cases x with
        | none => have := same h; subst this; exact ⟨rfl, rfl, s, hb, .inl rfl⟩
        | some t =>
          obtain ⟨node, classes, f⟩ := t
          simp [bind_ok, pure_eq_ok] at h
          obtain ⟨_, rfl⟩ := h
          exact ⟨rfl, rfl, shorterShape s f, rfl, .inr ⟨f, rfl⟩⟩
    · rw [shorter_skips_non_name st m s aw r d hb ht (fun id hid => hname ⟨id, hid⟩)] at h
      have := same h; subst this; exact ⟨rfl, rfl, s, hb, .inl rfl⟩
  | sub d l o =>
    by_cases hname : ∃ a id, m.returns = some (.sub a (.name id))
    · obtain ⟨a, id, hret⟩ := hname
      rw [shorter_sub_any st m s d id l o a hb ht hret] at h
      cases hn : nodeAndClass st.classDict id with
      | error e => rw [hn] at h; cases h
      | ok x =>
        rw [hn] at h
        cases x with
        | none => have := same h; subst this; exact ⟨rfl, rfl, s, hb, .inl rfl⟩
        | some t =>
          obtain ⟨node, classes, f⟩ := t
          cases l with
          | false => simp [bind_ok, throw, throwThe, MonadExceptOf.throw] at h
          | true =>
            simp [bind_ok, pure_eq_ok] at h
            obtain ⟨_, rfl⟩ := h
            exact ⟨rfl, rfl, shorterShape s f, rfl, .inr ⟨f, rfl⟩⟩
    · rw [shorter_skips_non_name_sub st m s d l o hb ht (fun a id hid => hname ⟨a, id, hid⟩)] at h
      have := same h; subst this; exact ⟨rfl, rfl, s, hb, .inl rfl⟩

/-- ClientForwardRefs on a method of the generated shape, any state: the body is returned unchanged
    or with one import statement in front -/
theorem fwd_step_shape (st st' : FwdState) (m m' : Method) (s : Shape) (hb : m.body = bodyOf s)
    (h : fwdMethod st m = .ok (st', m')) :
    m'.name = m.name ∧ ∃ s', m'.body = bodyOf s' ∧ (s' = s ∨ ∃ i, s' = withImport s i) := by
  unfold fwdMethod at h
  simp only [bind_ok, pure_eq_ok] at h
  rw [hb, bodyOf_getLast] at h
  simp only at h
  cases hi : fwdImportClass (lastStmt s) with
  | none =>
    simp only [hi, Except.ok.injEq, Prod.mk.injEq] at h
    obtain ⟨_, rfl⟩ := h
    exact ⟨rfl, s, rfl, .inl rfl⟩
  | some cls =>
    simp only [hi] at h
    split at h
    · cases h
    · rename_i src hsrc
      simp only [Except.ok.injEq, Prod.mk.injEq] at h
      obtain ⟨_, rfl⟩ := h
      refine ⟨rfl, withImport s { module := some src, names := [(cls, none)], level := 0 }, ?_, .inr ⟨_, rfl⟩⟩
      simp only
      rw [bodyOf_withImport]


/-! ### lifting method steps to class bodies -/

inductive ItemsRel (R : Method → Method → Prop) : List ClassItem → List ClassItem → Prop where
  | nil : ItemsRel R [] []
  | method {m m' : Method} {rest rest' : List ClassItem} :
      R m m' → ItemsRel R rest rest' → ItemsRel R (.method m :: rest) (.method m' :: rest')
  | other {s : Simple} {rest rest' : List ClassItem} :
      ItemsRel R rest rest' → ItemsRel R (.stmt s :: rest) (.stmt s :: rest')

theorem ItemsRel.refl {R : Method → Method → Prop} (hR : ∀ m, R m m) : ∀ items, ItemsRel R items items
  | [] => .nil
  | .method m :: rest => .method (hR m) (ItemsRel.refl hR rest)
  | .stmt s :: rest => .other (ItemsRel.refl hR rest)

theorem ItemsRel.trans {R : Method → Method → Prop} (hR : ∀ a b c, R a b → R b c → R a c) :
    ∀ {x y z : List ClassItem}, ItemsRel R x y → ItemsRel R y z → ItemsRel R x z := by
  intro x y z h1
  induction h1 generalizing z with
  | nil => intro h2; cases h2; exact .nil
  | method hm _ ih => intro h2; cases h2 with | method hm' hr => exact .method (hR _ _ _ hm hm') (ih hr)
  | other _ ih => intro h2; cases h2 with | other hr => exact .other (ih hr)

theorem mapMethodsM_rel {σ : Type} (f : σ → Method → M (σ × Method)) (R : Method → Method → Prop)
    (hf : ∀ st st' m m', f st m = .ok (st', m') → R m m') :
    ∀ (items : List ClassItem) (st st' : σ) (items' : List ClassItem),
      mapMethodsM f st items = .ok (st', items') → ItemsRel R items items' := by
  intro items
  induction items with
  | nil =>
    intro st st' items' h
    simp [mapMethodsM, pure, Except.pure] at h
    obtain ⟨_, h2⟩ := h
    subst h2; exact ItemsRel.nil
  | cons it rest ih =>
    intro st st' items' h
    cases it with
    | method m =>
      simp only [mapMethodsM] at h
      cases hfm : f st m with
      | error e => rw [hfm] at h; cases h
      | ok r =>
        rw [hfm] at h
        simp only [bind_ok] at h
        cases hrest : mapMethodsM f r.1 rest with
        | error e => rw [hrest] at h; cases h
        | ok r2 =>
          rw [hrest] at h
          simp only [bind_ok, pure_eq_ok, Except.ok.injEq, Prod.mk.injEq] at h
          rw [← h.2]
          exact .method (hf st r.1 m r.2 (by rw [hfm])) (ih r.1 r2.1 r2.2 (by rw [hrest]))
    | stmt s =>
      simp only [mapMethodsM] at h
      cases hrest : mapMethodsM f st rest with
      | error e => rw [hrest] at h; cases h
      | ok r2 =>
        rw [hrest] at h
        simp only [bind_ok, pure_eq_ok, Except.ok.injEq, Prod.mk.injEq] at h
        rw [← h.2]
        exact .other (ih st r2.1 r2.2 (by rw [hrest]))

/-- a method evolves by ShorterResults / ClientForwardRefs steps -/
inductive MethodEvolves : Method → Method → Prop where
  | refl (m : Method) : MethodEvolves m m
  | shorter {m m' m'' : Method} (st st' : ShorterState) :
      MethodEvolves m m' → shorterModifyMethod st m' = .ok (st', m'') → MethodEvolves m m''
  | fwd {m m' m'' : Method} (st st' : FwdState) :
      MethodEvolves m m' → fwdMethod st m' = .ok (st', m'') → MethodEvolves m m''

theorem MethodEvolves.trans {a b c : Method} (h1 : MethodEvolves a b) (h2 : MethodEvolves b c) : MethodEvolves a c := by
  induction h2 with
  | refl => exact h1
  | shorter st st' _ hs ih => exact .shorter st st' ih hs
  | fwd st st' _ hs ih => exact .fwd st st' ih hs

/-- the semantic content of method evolution on a method of the generated shape -/
theorem MethodEvolves.shape {m m' : Method} (h : MethodEvolves m m') (s : Shape) (hb : m.body = bodyOf s) :
    m'.name = m.name ∧ ∃ s', m'.body = bodyOf s' ∧ ShapeEvolves s s' := by
  induction h with
  | refl => exact ⟨rfl, s, hb, .refl s⟩
  | shorter st st' _ hs ih =>
    obtain ⟨hn, s1, hb1, he1⟩ := ih
    obtain ⟨hn2, _, s2, hb2, hor⟩ := shorter_step_shape st st' _ _ s1 hb1 hs
    refine ⟨hn2.trans hn, s2, hb2, ?_⟩
    rcases hor with rfl | ⟨f, rfl⟩
    · exact he1
    · exact .step he1 (.proj s1 f)
  | fwd st st' _ hs ih =>
    obtain ⟨hn, s1, hb1, he1⟩ := ih
    obtain ⟨hn2, s2, hb2, hor⟩ := fwd_step_shape st st' _ _ s1 hb1 hs
    refine ⟨hn2.trans hn, s2, hb2, ?_⟩
    rcases hor with rfl | ⟨i, rfl⟩
    · exact he1
    · exact .step he1 (.imp s1 i)

def ClassRel (c c' : ClassDef) : Prop :=
  c'.name = c.name ∧ c'.bases = c.bases ∧ ItemsRel MethodEvolves c.body c'.body

theorem ClassRel.refl (c : ClassDef) : ClassRel c c := ⟨rfl, rfl, ItemsRel.refl MethodEvolves.refl _⟩

theorem ClassRel.trans {a b c : ClassDef} (h1 : ClassRel a b) (h2 : ClassRel b c) : ClassRel a c :=
  ⟨h2.1.trans h1.1, h2.2.1.trans h1.2.1, ItemsRel.trans (R := MethodEvolves) (fun _ _ _ hab hbc => MethodEvolves.trans hab hbc) h1.2.2 h2.2.2⟩


/-! ### the client module as `ClientGenerator.generate` assembles it: imports, `gql`, the class -/

def isImp : Top → Bool
  | .simple (.importFrom _) => true
  | .simple (.import_ _) => true
  | _ => false

def NoClass (pre : List Top) : Prop := ∀ t ∈ pre, t.classDef? = none
def HasImp (pre : List Top) : Prop := ∃ t ∈ pre, isImp t = true

/-- `generate_module(body=self._imports + [gql_func, self._class_def])`, possibly after plugins put
    further imports / an `if TYPE_CHECKING:` block in front of `gql` -/
def ClientInv (M : Module) (c : ClassDef) : Prop :=
  ∃ pre g, M.body = pre ++ [.funcDef g, .classDef c] ∧ NoClass pre ∧ HasImp pre

theorem noClass_cons {t : Top} {pre : List Top} (h : NoClass (t :: pre)) : t.classDef? = none ∧ NoClass pre :=
  ⟨h t (by simp), fun u hu => h u (by simp [hu])⟩

theorem firstClass_pre (g : Method) (c : ClassDef) : ∀ (pre : List Top), NoClass pre →
    ({ body := pre ++ [.funcDef g, .classDef c] } : Module).firstClass? = some c := by
  intro pre
  induction pre with
  | nil => intro _; simp [Module.firstClass?, List.findSome?, Top.classDef?]
  | cons t rest ih =>
    intro h
    obtain ⟨h1, h2⟩ := noClass_cons h
    have := ih h2
    simp only [Module.firstClass?, List.cons_append, List.findSome?_cons, h1] at this ⊢
    exact this

theorem firstClass_of_inv {M : Module} {c : ClassDef} (h : ClientInv M c) : M.firstClass? = some c := by
  obtain ⟨pre, g, hb, hn, _⟩ := h
  have := firstClass_pre g c pre hn
  cases M
  simp only at hb
  subst hb
  exact this

theorem mapFirstClassM_pre {σ : Type} (f : σ → ClassDef → M (σ × ClassDef)) (g : Method) (c : ClassDef) :
    ∀ (pre : List Top) (st : σ), NoClass pre →
      mapFirstClassM f st (pre ++ [.funcDef g, .classDef c]) =
        (f st c >>= fun r => pure (r.1, pre ++ [.funcDef g, .classDef r.2])) := by
  intro pre
  induction pre with
  | nil =>
    intro st _
    simp only [List.nil_append, mapFirstClassM]
    cases f st c with
    | error e => rfl
    | ok r => rfl
  | cons t rest ih =>
    intro st h
    obtain ⟨h1, h2⟩ := noClass_cons h
    cases t with
    | classDef cd => simp [Top.classDef?] at h1
    | simple sm =>
      simp only [List.cons_append, mapFirstClassM, ih st h2]
      cases f st c with
      | error e => rfl
      | ok r => rfl
    | funcDef fm =>
      simp only [List.cons_append, mapFirstClassM, ih st h2]
      cases f st c with
      | error e => rfl
      | ok r => rfl
    | ifStmt a b o =>
      simp only [List.cons_append, mapFirstClassM, ih st h2]
      cases f st c with
      | error e => rfl
      | ok r => rfl

/-- the import-extending loop of ShorterResults touches import statements only -/
theorem shorterExtend_pre (g : Method) (c : ClassDef) : ∀ (pre : List Top) (ext : List (String × List String)), NoClass pre →
    ∃ ext' pre', shorterExtendExisting ext (pre ++ [.funcDef g, .classDef c]) = (ext', pre' ++ [.funcDef g, .classDef c]) ∧
      NoClass pre' ∧ (HasImp pre → HasImp pre') := by
  intro pre
  induction pre with
  | nil =>
    intro ext _
    exact ⟨ext, [], by simp [shorterExtendExisting], fun t ht => by simp at ht, fun h => h⟩
  | cons t rest ih =>
    intro ext h
    obtain ⟨h1, h2⟩ := noClass_cons h
    cases t with
    | classDef cd => simp [Top.classDef?] at h1
    | funcDef fm =>
      obtain ⟨ext', pre', he, hn, hi⟩ := ih ext h2
      refine ⟨ext', .funcDef fm :: pre', by simp [shorterExtendExisting, he], ?_, ?_⟩
      · intro u hu; rcases List.mem_cons.mp hu with rfl | hu'; · rfl
        exact hn u hu'
      · rintro ⟨u, hu, hiu⟩
        rcases List.mem_cons.mp hu with rfl | hu'
        · simp [isImp] at hiu
        · obtain ⟨w, hw, hiw⟩ := hi ⟨u, hu', hiu⟩; exact ⟨w, by simp [hw], hiw⟩
    | ifStmt a b o =>
      obtain ⟨ext', pre', he, hn, hi⟩ := ih ext h2
      refine ⟨ext', .ifStmt a b o :: pre', by simp [shorterExtendExisting, he], ?_, ?_⟩
      · intro u hu; rcases List.mem_cons.mp hu with rfl | hu'; · rfl
        exact hn u hu'
      · rintro ⟨u, hu, hiu⟩
        rcases List.mem_cons.mp hu with rfl | hu'
        · simp [isImp] at hiu
        · obtain ⟨w, hw, hiw⟩ := hi ⟨u, hu', hiu⟩; exact ⟨w, by simp [hw], hiw⟩
    | simple sm =>
      have keep : ∀ (e : List (String × List String)) (t' : Top), t'.classDef? = none → isImp t' = isImp (.simple sm) →
          (∃ ext' pre', shorterExtendExisting e (rest ++ [.funcDef g, .classDef c]) = (ext', pre' ++ [.funcDef g, .classDef c]) ∧
            NoClass pre' ∧ (HasImp rest → HasImp pre')) →
          ∃ ext' pre', (let r := shorterExtendExisting e (rest ++ [.funcDef g, .classDef c]); (r.1, t' :: r.2)) =
              (ext', pre' ++ [.funcDef g, .classDef c]) ∧ NoClass pre' ∧ (HasImp (.simple sm :: rest) → HasImp pre') := by
        intro e t' ht' hit' ⟨ext', pre', he, hn, hi⟩
        refine ⟨ext', t' :: pre', by simp [he], ?_, ?_⟩
        · intro u hu; rcases List.mem_cons.mp hu with rfl | hu'; · exact ht'
          exact hn u hu'
        · rintro ⟨u, hu, hiu⟩
          rcases List.mem_cons.mp hu with rfl | hu'
          · exact ⟨t', by simp, by rw [hit']; exact hiu⟩
          · obtain ⟨w, hw, hiw⟩ := hi ⟨u, hu', hiu⟩; exact ⟨w, by simp [hw], hiw⟩
      cases sm with
      | importFrom i =>
        simp only [List.cons_append, shorterExtendExisting]
        cases hm : i.module with
        | none => exact keep ext _ rfl rfl (ih ext h2)
        | some mname =>
          simp only
          cases hl : alookup mname ext with
          | none => exact keep ext _ rfl rfl (ih ext h2)
          | some extra => exact keep (aerase mname ext) _ rfl rfl (ih (aerase mname ext) h2)
      | import_ d => simp only [List.cons_append, shorterExtendExisting]; exact keep ext _ rfl rfl (ih ext h2)
      | assign a b => simp only [List.cons_append, shorterExtendExisting]; exact keep ext _ rfl rfl (ih ext h2)
      | assignList a b => simp only [List.cons_append, shorterExtendExisting]; exact keep ext _ rfl rfl (ih ext h2)
      | annAssign a b v => simp only [List.cons_append, shorterExtendExisting]; exact keep ext _ rfl rfl (ih ext h2)
      | ret v => simp only [List.cons_append, shorterExtendExisting]; exact keep ext _ rfl rfl (ih ext h2)
      | expr v => simp only [List.cons_append, shorterExtendExisting]; exact keep ext _ rfl rfl (ih ext h2)
      | other a b => simp only [List.cons_append, shorterExtendExisting]; exact keep ext _ rfl rfl (ih ext h2)


theorem noClass_append {a b : List Top} (ha : NoClass a) (hb : NoClass b) : NoClass (a ++ b) := by
  intro t ht
  rcases List.mem_append.mp ht with h | h
  · exact ha t h
  · exact hb t h

theorem hasImp_append_right {a b : List Top} (hb : HasImp b) : HasImp (a ++ b) := by
  obtain ⟨t, ht, hi⟩ := hb; exact ⟨t, by simp [ht], hi⟩

/-- ShorterResults on the client module: the class keeps its place, its methods evolve -/
theorem shorter_module_inv (st st' : ShorterState) (M M' : Module) (c : ClassDef) (hinv : ClientInv M c)
    (h : shorterClientModule st M = .ok (st', M')) : ∃ c', ClientInv M' c' ∧ ClassRel c c' := by
  have hfc := firstClass_of_inv hinv
  obtain ⟨pre, g, hb, hn, hi⟩ := hinv
  unfold shorterClientModule at h
  rw [hfc] at h
  simp only at h
  rw [hb, mapFirstClassM_pre _ g c pre st hn] at h
  cases hm : mapMethodsM shorterModifyMethod st c.body with
  | error e => simp [hm, bind, Except.bind] at h
  | ok r =>
    have hrel : ItemsRel MethodEvolves c.body r.2 :=
      mapMethodsM_rel shorterModifyMethod MethodEvolves
        (fun a b m m' hs => .shorter a b (.refl m) hs) c.body st r.1 r.2 (by rw [hm])
    have hcr : ClassRel c { c with body := r.2 } := ⟨rfl, rfl, hrel⟩
    simp only [hm, bind_ok, pure_eq_ok] at h
    split at h
    · simp only [Except.ok.injEq, Prod.mk.injEq] at h
      obtain ⟨_, rfl⟩ := h
      exact ⟨_, ⟨pre, g, rfl, hn, hi⟩, hcr⟩
    · obtain ⟨ext', pre', he, hn', hi'⟩ := shorterExtend_pre g { c with body := r.2 } pre r.1.extendedImports hn
      simp only [he, Except.ok.injEq, Prod.mk.injEq] at h
      obtain ⟨_, rfl⟩ := h
      refine ⟨_, ⟨(ext'.map (fun x => Top.simple (.importFrom { module := some x.1, names := x.2.map (fun n => (n, none)), level := 0 }))).reverse ++ pre',
        g, by simp [List.append_assoc], ?_, hasImp_append_right (hi' hi)⟩, hcr⟩
      apply noClass_append _ hn'
      intro t ht
      simp only [List.mem_reverse, List.mem_map] at ht
      obtain ⟨x, _, rfl⟩ := ht
      rfl

/-- ExtractOperations on the client module: one more import in front -/
theorem extract_module_inv (st : ExtractState) (M : Module) (c : ClassDef) (hinv : ClientInv M c) :
    ClientInv { body := extractImport st :: M.body } c := by
  obtain ⟨pre, g, hb, hn, hi⟩ := hinv
  refine ⟨extractImport st :: pre, g, by simp [hb], ?_, ?_⟩
  · intro t ht
    rcases List.mem_cons.mp ht with rfl | h
    · rfl
    · exact hn t h
  · obtain ⟨t, ht, hit⟩ := hi; exact ⟨t, by simp [ht], hit⟩


/-! ### ClientForwardRefs on the client module: the import scan -/

/-- one iteration of the loop of `_update_existing_imports` -/
def scanStep (drop : List String) (acc : List Top × Nat) (i : Nat) (t : Top) : List Top × Nat :=
  match t with
  | .simple (.import_ _) => (acc.1 ++ [t], i)
  | .simple (.importFrom imp) =>
    if (imp.names.filter (fun n => !drop.contains n.1)).isEmpty then (acc.1, i)
    else (acc.1 ++ [.simple (.importFrom { imp with names := imp.names.filter (fun n => !drop.contains n.1) })], i)
  | _ => acc

theorem scan_cons (drop : List String) (t : Top) (rest : List Top) (i : Nat) (acc : List Top × Nat) :
    fwdScanImports drop (t :: rest) i acc = fwdScanImports drop rest (i + 1) (scanStep drop acc i t) := by
  obtain ⟨kept, last⟩ := acc
  cases t with
  | simple sm =>
    cases sm <;> simp only [fwdScanImports, scanStep]
    split <;> rfl
  | classDef _ => simp only [fwdScanImports, scanStep]
  | funcDef _ => simp only [fwdScanImports, scanStep]
  | ifStmt _ _ _ => simp only [fwdScanImports, scanStep]

theorem scanStep_nonimp (drop : List String) (acc : List Top × Nat) (i : Nat) (t : Top) (h : isImp t = false) :
    scanStep drop acc i t = acc := by
  cases t with
  | simple sm => cases sm <;> simp_all [isImp, scanStep]
  | classDef _ => rfl
  | funcDef _ => rfl
  | ifStmt _ _ _ => rfl

theorem scanStep_imp (drop : List String) (acc : List Top × Nat) (i : Nat) (t : Top) (h : isImp t = true) :
    (scanStep drop acc i t).2 = i ∧ ∀ u ∈ (scanStep drop acc i t).1, u ∈ acc.1 ∨ isImp u = true := by
  cases t with
  | simple sm =>
    cases sm with
    | importFrom imp =>
      simp only [scanStep]
      split
      · exact ⟨rfl, fun u hu => .inl hu⟩
      · refine ⟨rfl, fun u hu => ?_⟩
        rcases List.mem_append.mp hu with h1 | h1
        · exact .inl h1
        · simp only [List.mem_singleton] at h1; subst h1; exact .inr (by simp [isImp])
    | import_ d =>
      refine ⟨rfl, fun u hu => ?_⟩
      simp only [scanStep] at hu
      rcases List.mem_append.mp hu with h1 | h1
      · exact .inl h1
      · simp at h1; subst h1; exact .inr rfl
    | assign _ _ => simp [isImp] at h
    | assignList _ _ => simp [isImp] at h
    | annAssign _ _ _ => simp [isImp] at h
    | ret _ => simp [isImp] at h
    | expr _ => simp [isImp] at h
    | other _ _ => simp [isImp] at h
  | classDef _ => simp [isImp] at h
  | funcDef _ => simp [isImp] at h
  | ifStmt _ _ _ => simp [isImp] at h

theorem scan_nonimp (drop : List String) : ∀ (ys : List Top) (i : Nat) (acc : List Top × Nat),
    (∀ t ∈ ys, isImp t = false) → fwdScanImports drop ys i acc = acc := by
  intro ys
  induction ys with
  | nil => intro i acc _; obtain ⟨k, l⟩ := acc; simp [fwdScanImports]
  | cons t rest ih =>
    intro i acc h
    rw [scan_cons, scanStep_nonimp drop acc i t (h t (by simp))]
    exact ih (i + 1) acc (fun u hu => h u (by simp [hu]))

theorem scan_append (drop : List String) : ∀ (xs ys : List Top) (i : Nat) (acc : List Top × Nat),
    fwdScanImports drop (xs ++ ys) i acc = fwdScanImports drop ys (i + xs.length) (fwdScanImports drop xs i acc) := by
  intro xs
  induction xs with
  | nil => intro ys i acc; obtain ⟨k, l⟩ := acc; simp [fwdScanImports]
  | cons t rest ih =>
    intro ys i acc
    rw [List.cons_append, scan_cons, scan_cons, ih]
    simp [Nat.add_assoc, Nat.add_comm 1]

/-- the scan keeps import statements only, and reports the index of the last one -/
theorem scan_spec (drop : List String) : ∀ (xs : List Top) (i : Nat) (acc : List Top × Nat),
    (∀ u ∈ (fwdScanImports drop xs i acc).1, u ∈ acc.1 ∨ isImp u = true) ∧
    ((fwdScanImports drop xs i acc).2 = acc.2 ∨
      (i ≤ (fwdScanImports drop xs i acc).2 ∧ (fwdScanImports drop xs i acc).2 < i + xs.length)) ∧
    (HasImp xs → i ≤ (fwdScanImports drop xs i acc).2 ∧ (fwdScanImports drop xs i acc).2 < i + xs.length) := by
  intro xs
  induction xs with
  | nil =>
    intro i acc
    obtain ⟨k, l⟩ := acc
    simp only [fwdScanImports]
    exact ⟨fun u hu => .inl hu, by simp, fun ⟨t, ht, _⟩ => by simp at ht⟩
  | cons t rest ih =>
    intro i acc
    rw [scan_cons]
    obtain ⟨ih1, ih2, ih3⟩ := ih (i + 1) (scanStep drop acc i t)
    by_cases h : isImp t = true
    · obtain ⟨hl, hk⟩ := scanStep_imp drop acc i t h
      refine ⟨?_, ?_, ?_⟩
      · intro u hu
        rcases ih1 u hu with h1 | h1
        · exact hk u h1
        · exact .inr h1
      · right
        rcases ih2 with h2 | ⟨h2, h3⟩
        · rw [h2, hl]; simp
        · simp only [List.length_cons]; omega
      · intro _
        rcases ih2 with h2 | ⟨h2, h3⟩
        · rw [h2, hl]; simp
        · simp only [List.length_cons]; omega
    · have h' : isImp t = false := by simpa using h
      rw [scanStep_nonimp drop acc i t h'] at ih1 ih2 ih3 ⊢
      refine ⟨ih1, ?_, ?_⟩
      · rcases ih2 with h2 | ⟨h2, h3⟩
        · exact .inl h2
        · right; simp only [List.length_cons]; omega
      · rintro ⟨u, hu, hiu⟩
        rcases List.mem_cons.mp hu with rfl | hu'
        · rw [h'] at hiu; cases hiu
        · have := ih3 ⟨u, hu', hiu⟩
          simp only [List.length_cons]; omega

theorem isImp_noClass {t : Top} (h : isImp t = true) : t.classDef? = none := by
  cases t with
  | simple sm => rfl
  | classDef _ => simp [isImp] at h
  | funcDef _ => rfl
  | ifStmt _ _ _ => rfl

/-- `_update_imports` on the assembled client module -/
theorem fwdUpdateImports_inv (st : FwdState) (pre : List Top) (g : Method) (c : ClassDef) (M' : Module)
    (hn : NoClass pre) (hi : HasImp pre)
    (h : fwdUpdateImports st { body := pre ++ [.funcDef g, .classDef c] } = .ok M') :
    ∃ pre', M'.body = pre' ++ [.funcDef g, .classDef c] ∧ NoClass pre' ∧ HasImp pre' := by
  unfold fwdUpdateImports at h
  simp only [bind_ok, pure_eq_ok] at h
  split at h
  · simp only [Except.ok.injEq] at h
    subst h
    exact ⟨pre, rfl, hn, hi⟩
  · rename_i hdrop
    cases hg : fwdTypeCheckingImports st with
    | error e => simp [hg, bind, Except.bind] at h
    | ok groups =>
      simp only [hg, bind_ok, Except.ok.injEq] at h
      subst h
      generalize hd : (st.inputAndReturnTypes ++ st.importedInMethod.filter (fun n => !st.inputAndReturnTypes.contains n)) = drop
      have htail : ∀ t ∈ [Top.funcDef g, Top.classDef c], isImp t = false := by
        intro t ht; simp at ht; rcases ht with rfl | rfl <;> rfl
      have hscan : fwdScanImports drop (pre ++ [.funcDef g, .classDef c]) 0 ([], 0) = fwdScanImports drop pre 0 ([], 0) := by
        rw [scan_append, scan_nonimp drop _ _ _ htail]
      obtain ⟨hk, _, hl⟩ := scan_spec drop pre 0 ([], 0)
      have hlast := hl hi
      simp only [hscan]
      have hle : (fwdScanImports drop pre 0 ([], 0)).2 + 1 ≤ pre.length := by omega
      rw [List.drop_append_of_le_length hle]
      refine ⟨(fwdScanImports drop pre 0 ([], 0)).1 ++
          [.simple (.importFrom { module := some "typing", names := [("TYPE_CHECKING", none)], level := 0 }),
           .ifStmt (.name "TYPE_CHECKING") (groups.map (fun (g : String × List String) =>
              Simple.importFrom { module := some g.1, names := g.2.map (fun n => (n, none)), level := 0 })) 0] ++
          pre.drop ((fwdScanImports drop pre 0 ([], 0)).2 + 1), by simp [List.append_assoc], ?_, ?_⟩
      · intro t ht
        rcases List.mem_append.mp ht with h1 | h1
        · rcases List.mem_append.mp h1 with h2 | h2
          · rcases hk t h2 with h3 | h3
            · simp at h3
            · exact isImp_noClass h3
          · simp at h2; rcases h2 with rfl | rfl <;> rfl
        · exact hn t (List.mem_of_mem_drop h1)
      · exact ⟨.simple (.importFrom { module := some "typing", names := [("TYPE_CHECKING", none)], level := 0 }), by simp, rfl⟩


/-- ClientForwardRefs on the client module: the class keeps its place, its methods evolve -/
theorem fwd_module_inv (st st' : FwdState) (M M' : Module) (c : ClassDef) (hinv : ClientInv M c)
    (h : fwdClientModule st M = .ok (st', M')) : ∃ c', ClientInv M' c' ∧ ClassRel c c' := by
  have hfc := firstClass_of_inv hinv
  obtain ⟨pre, g, hb, hn, hi⟩ := hinv
  unfold fwdClientModule at h
  simp only [bind_ok, pure_eq_ok] at h
  rw [hfc] at h
  simp only at h
  rw [hb, mapFirstClassM_pre _ g c pre _ hn] at h
  cases hm : mapMethodsM fwdMethod (fwdStoreImported st (pre ++ [.funcDef g, .classDef c])) c.body with
  | error e => simp [hm, bind, Except.bind] at h
  | ok r =>
    have hrel : ItemsRel MethodEvolves c.body r.2 :=
      mapMethodsM_rel fwdMethod MethodEvolves
        (fun a b m m' hs => .fwd a b (.refl m) hs) c.body _ r.1 r.2 (by rw [hm])
    have hcr : ClassRel c { c with body := r.2 } := ⟨rfl, rfl, hrel⟩
    simp only [hm, bind_ok, pure_eq_ok] at h
    cases hu : fwdUpdateImports r.1 { body := pre ++ [.funcDef g, .classDef { c with body := r.2 }] } with
    | error e => simp [hu, bind, Except.bind] at h
    | ok M2 =>
      simp only [hu, bind_ok, Except.ok.injEq, Prod.mk.injEq] at h
      obtain ⟨_, rfl⟩ := h
      obtain ⟨pre', hb', hn', hi'⟩ := fwdUpdateImports_inv r.1 pre g _ M2 hn hi hu
      exact ⟨_, ⟨pre', g, hb', hn', hi'⟩, hcr⟩

/-- one bundled plugin on the hook `generate_client_module` -/
theorem step_client_module (c : Call) (hc : c.hook = "generate_client_module") (p p' : PState) (M : Module) (cls : ClassDef)
    (y : Payload) (hinv : ClientInv M cls) (h : PState.step c p (.module M) = .ok (p', y)) :
    ∃ M' cls', y = .module M' ∧ ClientInv M' cls' ∧ ClassRel cls cls' := by
  cases p with
  | shorter st =>
    simp only [PState.step, shorterStep, hc] at h
    cases hx : shorterClientModule st M with
    | error e => simp [hx, bind, Except.bind] at h
    | ok r =>
      simp [hx, bind, Except.bind, pure, Except.pure] at h
      obtain ⟨cls', h1, h2⟩ := shorter_module_inv st r.1 M r.2 cls hinv (by rw [hx])
      exact ⟨r.2, cls', h.2.symm, h1, h2⟩
  | extract st =>
    simp only [PState.step, extractStep, hc] at h
    simp [bind, Except.bind, pure, Except.pure] at h
    exact ⟨_, cls, h.2.symm, extract_module_inv st M cls hinv, ClassRel.refl cls⟩
  | fwd st =>
    simp only [PState.step, fwdStep, hc] at h
    cases hx : fwdClientModule st M with
    | error e => simp [hx, bind, Except.bind] at h
    | ok r =>
      simp [hx, bind, Except.bind, pure, Except.pure] at h
      obtain ⟨cls', h1, h2⟩ := fwd_module_inv st r.1 M r.2 cls hinv (by rw [hx])
      exact ⟨r.2, cls', h.2.symm, h1, h2⟩
  | noReimports =>
    simp only [PState.step, noReimportsStep, hc, pure, Except.pure, Except.ok.injEq, Prod.mk.injEq] at h
    exact ⟨M, cls, by rw [← h.2]; simp, hinv, ClassRel.refl cls⟩
  | identity =>
    simp only [PState.step, pure, Except.pure, Except.ok.injEq, Prod.mk.injEq] at h
    exact ⟨M, cls, h.2.symm, hinv, ClassRel.refl cls⟩

/-- any list of bundled plugins, in any order, with any state, on the hook `generate_client_module` -/
theorem chain_client_module (c : Call) (hc : c.hook = "generate_client_module") :
    ∀ (ps ps' : List PState) (M : Module) (cls : ClassDef) (y : Payload), ClientInv M cls →
      applyAll PState.step c ps (.module M) = .ok (ps', y) →
      ∃ M' cls', y = .module M' ∧ ClientInv M' cls' ∧ ClassRel cls cls' := by
  intro ps
  induction ps with
  | nil =>
    intro ps' M cls y hinv h
    simp [applyAll, List.foldlM, pure, Except.pure] at h
    exact ⟨M, cls, h.2.symm, hinv, ClassRel.refl cls⟩
  | cons p rest ih =>
    intro ps' M cls y hinv h
    rw [applyAll_cons] at h
    cases hs : PState.step c p (.module M) with
    | error e => rw [hs] at h; cases h
    | ok r =>
      rw [hs] at h
      simp only [bind_ok] at h
      obtain ⟨M1, cls1, hy1, hinv1, hrel1⟩ := step_client_module c hc p r.1 M cls r.2 hinv (by rw [hs])
      rw [hy1] at h
      cases hr : applyAll PState.step c rest (.module M1) with
      | error e => rw [hr] at h; cases h
      | ok r' =>
        rw [hr] at h
        simp only [bind_ok, pure_eq_ok, Except.ok.injEq, Prod.mk.injEq] at h
        obtain ⟨M2, cls2, hy2, hinv2, hrel2⟩ := ih r'.1 M1 cls1 r'.2 hinv1 (by rw [hr])
        exact ⟨M2, cls2, by rw [← h.2, hy2], hinv2, ClassRel.trans hrel1 hrel2⟩


theorem ItemsRel.mono {R R' : Method → Method → Prop} (h : ∀ m m', R m m' → R' m m') :
    ∀ {x y : List ClassItem}, ItemsRel R x y → ItemsRel R' x y := by
  intro x y hr
  induction hr with
  | nil => exact .nil
  | method hm _ ih => exact .method (h _ _ hm) ih
  | other _ ih => exact .other ih

/-- what a method of the generated shape can look like after any chain of bundled plugins ran over
    the client module: same name; same operation source, operation name, variables expression,
    validated class and kind; projections only appended, imports only prepended -/
def MethodPreserved (m m' : Method) : Prop :=
  m'.name = m.name ∧ ∀ s, m.body = bodyOf s → ∃ s', m'.body = bodyOf s' ∧
    s'.op = s.op ∧ s'.opName = s.opName ∧ s'.variables = s.variables ∧ s'.varsVar = s.varsVar ∧
    s'.retClass = s.retClass ∧ s'.kwargs = s.kwargs ∧ sameKind s.tail s'.tail ∧
    (∃ fs, s'.proj = s.proj ++ fs) ∧ (∃ is, s'.imports = is ++ s.imports)

theorem nodeAndClass_bind_name (st st' : ShorterState) (m m' : Method) (x : M (Option (Ex × List String × String)))
    (k : Ex → List String → String → M (ShorterState × Method))
    (hk : ∀ a b f s2 m2, k a b f = .ok (s2, m2) → m2.name = m.name)
    (h : (x >>= fun r => match r with
            | none => pure (st, m)
            | some (a, b, f) => k a b f) = .ok (st', m')) : m'.name = m.name := by
  cases x with
  | error e => cases h
  | ok r =>
    cases r with
    | none => simp [bind_ok, pure_eq_ok] at h; rw [← h.2]
    | some t => obtain ⟨a, b, f⟩ := t; exact hk a b f st' m' h

theorem shorter_keeps_name (st st' : ShorterState) (m m' : Method) (h : shorterModifyMethod st m = .ok (st', m')) :
    m'.name = m.name := by
  have same : ∀ {a b : ShorterState} {x y : Method}, (pure (a, x) : M (ShorterState × Method)) = .ok (b, y) → y.name = x.name := by
    intro a b x y hh; simp [pure, Except.pure] at hh; rw [← hh.2]
  unfold shorterModifyMethod at h
  split at h
  · unfold shorterQueryMutation at h
    split at h
    · refine nodeAndClass_bind_name st st' m m' _ _ ?_ h
      intro a b f s2 m2 hk
      simp [pure, Except.pure] at hk
      rw [← hk.2]
    · exact same h
  · unfold shorterSubscription at h
    split at h
    · refine nodeAndClass_bind_name st st' m m' _ _ ?_ h
      intro a b f s2 m2 hk
      split at hk
      · cases hk
      · split at hk
        · simp [pure, Except.pure] at hk; rw [← hk.2]
        · exact same hk
    · exact same h
  · exact same h

theorem fwd_keeps_name (st st' : FwdState) (m m' : Method) (h : fwdMethod st m = .ok (st', m')) : m'.name = m.name := by
  unfold fwdMethod at h
  simp only [bind_ok, pure_eq_ok] at h
  split at h
  · cases h
  · split at h
    · simp at h; rw [← h.2]
    · split at h
      · cases h
      · simp at h; rw [← h.2]

theorem MethodEvolves.name {m m' : Method} (h : MethodEvolves m m') : m'.name = m.name := by
  induction h with
  | refl => rfl
  | shorter st st' _ hs ih => exact (shorter_keeps_name st st' _ _ hs).trans ih
  | fwd st st' _ hs ih => exact (fwd_keeps_name st st' _ _ hs).trans ih

theorem MethodEvolves.preserved {m m' : Method} (h : MethodEvolves m m') : MethodPreserved m m' := by
  refine ⟨h.name, fun s hb => ?_⟩
  obtain ⟨_, s', hb', hev⟩ := h.shape s hb
  exact ⟨s', hb', hev.preserves⟩


/-! ### `_store_imported_classes`: the module text recorded for a locally imported name -/

/-- one statement of the loop -/
def storeStep (st : FwdState) (t : Top) : FwdState :=
  match t.importFrom? with
  | some i =>
    match i.module with
    | some mname =>
      if i.level != 1 && !startsWithDot mname then st
      else i.names.foldl (fun st (n : String × Option String) =>
        { st with importedClasses := aset n.1 (dotted i.level mname) st.importedClasses }) st
    | none => st
  | none => st

theorem fwdStoreImported_eq (st : FwdState) (body : List Top) : fwdStoreImported st body = body.foldl storeStep st := rfl

theorem names_fold_lookup (src : String) (n : String) : ∀ (names : List (String × Option String)) (st : FwdState),
    alookup n (names.foldl (fun st (x : String × Option String) =>
        { st with importedClasses := aset x.1 src st.importedClasses }) st).importedClasses =
      if names.any (fun x => x.1 == n) then some src else alookup n st.importedClasses := by
  intro names
  induction names with
  | nil => intro st; simp
  | cons x rest ih =>
    intro st
    simp only [List.foldl_cons, List.any_cons]
    rw [ih]
    by_cases hr : rest.any (fun x => x.1 == n) = true
    · simp [hr]
    · simp only [hr, Bool.or_false]
      by_cases hx : x.1 = n
      · subst hx; simp [alookup_aset_self]
      · have : (x.1 == n) = false := by simpa using hx
        simp [this, alookup_aset_other x.1 n _ _ hx]

/-- does this statement (re)bind `n` in `imported_classes`, and to which module text -/
def storeTarget (n : String) (t : Top) : Option String :=
  match t.importFrom? with
  | some i =>
    match i.module with
    | some mname =>
      if i.level != 1 && !startsWithDot mname then none
      else if i.names.any (fun x => x.1 == n) then some (dotted i.level mname) else none
    | none => none
  | none => none

theorem storeStep_lookup (n : String) (st : FwdState) (t : Top) :
    alookup n (storeStep st t).importedClasses = (storeTarget n t).orElse (fun _ => alookup n st.importedClasses) := by
  unfold storeStep storeTarget
  cases t.importFrom? with
  | none => simp
  | some i =>
    simp only
    cases hm : i.module with
    | none => simp
    | some mname =>
      simp only
      by_cases hc : (i.level != 1 && !startsWithDot mname) = true
      · simp [hc]
      · simp only [hc, Bool.false_eq_true, ↓reduceIte]
        rw [names_fold_lookup]
        by_cases ha : (i.names.any fun x => x.1 == n) = true <;> simp [ha]

/-- every local import statement that mentions `n` names the module text `src`, and at least one
    does: `imported_classes[n] = src` after `_store_imported_classes`, whatever was recorded before -/
theorem fwd_store_records (n src : String) : ∀ (body : List Top) (st : FwdState),
    (∀ t ∈ body, storeTarget n t = none ∨ storeTarget n t = some src) →
    (alookup n st.importedClasses = some src ∨ ∃ t ∈ body, storeTarget n t = some src) →
    alookup n (fwdStoreImported st body).importedClasses = some src := by
  intro body
  induction body with
  | nil =>
    intro st _ h
    rcases h with h | ⟨t, ht, _⟩
    · exact h
    · simp at ht
  | cons t rest ih =>
    intro st hall h
    rw [fwdStoreImported_eq, List.foldl_cons, ← fwdStoreImported_eq]
    apply ih (storeStep st t) (fun u hu => hall u (by simp [hu]))
    rw [storeStep_lookup]
    rcases hall t (by simp) with ht | ht
    · rw [ht]
      simp only [Option.orElse]
      rcases h with h | ⟨u, hu, hus⟩
      · exact .inl h
      · rcases List.mem_cons.mp hu with rfl | hu'
        · rw [ht] at hus; cases hus
        · exact .inr ⟨u, hu', hus⟩
    · rw [ht]; exact .inl rfl

end Ariadne.C15
