/-
  Lemmas for Properties/C15.lean.
-/
import AriadneModel.Model.PluginFindings

set_option linter.unusedSimpArgs false
set_option linter.unusedVariables false

namespace Ariadne.C15
open Ariadne Ariadne.Py Ariadne.Plugins Ariadne.ClientSem

/-! ### `Except` plumbing -/

theorem bind_ok {ε α β} (a : α) (f : α → Except ε β) : (Except.ok a >>= f) = f a := rfl
theorem bind_error {ε α β} (e : ε) (f : α → Except ε β) : (Except.error e >>= f : Except ε β) = Except.error e := rfl
theorem pure_eq_ok {ε α} (a : α) : (pure a : Except ε α) = Except.ok a := rfl

/-! ### the plugin manager loop -/

/-- body of the `for plugin in self.plugins` loop -/
def loopBody {σ : Type} (step : Call → σ → Payload → M (σ × Payload)) (c : Call)
    (acc : List σ × Payload) (p : σ) : M (List σ × Payload) := do
  let (p', y) ← step c p acc.2
  pure (acc.1 ++ [p'], y)

theorem applyAll_eq_foldlM {σ : Type} (step : Call → σ → Payload → M (σ × Payload)) (c : Call)
    (ps : List σ) (x : Payload) : applyAll step c ps x = ps.foldlM (loopBody step c) ([], x) := rfl

theorem loop_prefix {σ : Type} (step : Call → σ → Payload → M (σ × Payload)) (c : Call)
    (ps : List σ) : ∀ (d : List σ) (x : Payload),
    ps.foldlM (loopBody step c) (d, x) =
      (ps.foldlM (loopBody step c) ([], x) >>= fun r => pure (d ++ r.1, r.2)) := by
  induction ps with
  | nil => intro d x; simp [List.foldlM, pure_eq_ok, bind_ok]
  | cons p ps ih =>
    intro d x
    simp only [List.foldlM_cons, loopBody]
    cases hs : step c p x with
    | error e => simp [bind_error, bind, Except.bind]
    | ok r =>
      obtain ⟨p', y⟩ := r
      simp only [bind_ok, pure_eq_ok, List.nil_append]
      rw [ih (d ++ [p']) y, ih [p'] y]
      cases hf : List.foldlM (loopBody step c) ([], y) ps with
      | error e => simp [bind_error, bind, Except.bind]
      | ok r' => simp [bind_ok, pure_eq_ok, List.append_assoc]

theorem applyAll_cons {σ : Type} (step : Call → σ → Payload → M (σ × Payload)) (c : Call)
    (p : σ) (ps : List σ) (x : Payload) :
    applyAll step c (p :: ps) x =
      (step c p x >>= fun r => applyAll step c ps r.2 >>= fun r' => pure (r.1 :: r'.1, r'.2)) := by
  simp only [applyAll_eq_foldlM, List.foldlM_cons, loopBody]
  cases hs : step c p x with
  | error e => simp [bind_error, bind, Except.bind]
  | ok r =>
    obtain ⟨p', y⟩ := r
    simp only [bind_ok, pure_eq_ok, List.nil_append]
    rw [loop_prefix step c ps [p'] y]
    cases hf : List.foldlM (loopBody step c) ([], y) ps with
    | error e => simp [bind_error, bind, Except.bind]
    | ok r' => simp [bind_ok, pure_eq_ok]

theorem applyAll_append {σ : Type} (step : Call → σ → Payload → M (σ × Payload)) (c : Call)
    (ps qs : List σ) (x : Payload) :
    applyAll step c (ps ++ qs) x =
      (applyAll step c ps x >>= fun r => applyAll step c qs r.2 >>= fun r' => pure (r.1 ++ r'.1, r'.2)) := by
  induction ps generalizing x with
  | nil =>
    simp only [List.nil_append]
    show _ = (Except.ok ([], x) >>= _)
    rw [bind_ok]
    cases applyAll step c qs x with
    | error e => rfl
    | ok r => rfl
  | cons p ps ih =>
    rw [List.cons_append, applyAll_cons, applyAll_cons]
    cases hs : step c p x with
    | error e => rfl
    | ok r =>
      simp only [bind_ok]
      rw [ih r.2]
      cases applyAll step c ps r.2 with
      | error e => rfl
      | ok r1 =>
        simp only [bind_ok, pure_eq_ok]
        cases applyAll step c qs r1.2 with
        | error e => rfl
        | ok r2 => simp [bind_ok, pure_eq_ok]

end Ariadne.C15
