/-
  Lemmas for Properties/C15.lean.
-/
import AriadneModel.Model.PluginFindings

set_option linter.unusedSimpArgs false
set_option linter.unusedVariables false

namespace Ariadne.C15
open Ariadne Ariadne.Py Ariadne.Plugins Ariadne.ClientSem

/-! ### `Except` plumbing -/

theorem bind_ok {ε α β} (a : α) (f : α → Except ε β) : (Except.ok a >>= f) = f a := rfl
theorem bind_error {ε α β} (e : ε) (f : α → Except ε β) : (Except.error e >>= f : Except ε β) = Except.error e := rfl
theorem pure_eq_ok {ε α} (a : α) : (pure a : Except ε α) = Except.ok a := rfl

/-! ### the plugin manager loop -/

/-- body of the `for plugin in self.plugins` loop -/
def loopBody {σ : Type} (step : Call → σ → Payload → M (σ × Payload)) (c : Call)
    (acc : List σ × Payload) (p : σ) : M (List σ × Payload) := do
  let (p', y) ← step c p acc.2
  pure (acc.1 ++ [p'], y)

theorem applyAll_eq_foldlM {σ : Type} (step : Call → σ → Payload → M (σ × Payload)) (c : Call)
    (ps : List σ) (x : Payload) : applyAll step c ps x = ps.foldlM (loopBody step c) ([], x) := rfl

theorem loop_prefix {σ : Type} (step : Call → σ → Payload → M (σ × Payload)) (c : Call)
    (ps : List σ) : ∀ (d : List σ) (x : Payload),
    ps.foldlM (loopBody step c) (d, x) =
      (ps.foldlM (loopBody step c) ([], x) >>= fun r => pure (d ++ r.1, r.2)) := by
  induction ps with
  | nil => intro d x; simp [List.foldlM, pure_eq_ok, bind_ok]
  | cons p ps ih =>
    intro d x
    simp only [List.foldlM_cons, loopBody]
    cases hs : step c p x with
    | error e => simp [bind_error, bind, Except.bind]
    | ok r =>
      obtain ⟨p', y⟩ := r
      simp only [bind_ok, pure_eq_ok, List.nil_append]
      rw [ih (d ++ [p']) y, ih [p'] y]
      cases hf : List.foldlM (loopBody step c) ([], y) ps with
      | error e => simp [bind_error, bind, Except.bind]
      | ok r' => simp [bind_ok, pure_eq_ok, List.append_assoc]

theorem applyAll_cons {σ : Type} (step : Call → σ → Payload → M (σ × Payload)) (c : Call)
    (p : σ) (ps : List σ) (x : Payload) :
    applyAll step c (p :: ps) x =
      (step c p x >>= fun r => applyAll step c ps r.2 >>= fun r' => pure (r.1 :: r'.1, r'.2)) := by
  simp only [applyAll_eq_foldlM, List.foldlM_cons, loopBody]
  cases hs : step c p x with
  | error e => simp [bind_error, bind, Except.bind]
  | ok r =>
    obtain ⟨p', y⟩ := r
    simp only [bind_ok, pure_eq_ok, List.nil_append]
    rw [loop_prefix step c ps [p'] y]
    cases hf : List.foldlM (loopBody step c) ([], y) ps with
    | error e => simp [bind_error, bind, Except.bind]
    | ok r' => simp [bind_ok, pure_eq_ok]

theorem applyAll_append {σ : Type} (step : Call → σ → Payload → M (σ × Payload)) (c : Call)
    (ps qs : List σ) (x : Payload) :
    applyAll step c (ps ++ qs) x =
      (applyAll step c ps x >>= fun r => applyAll step c qs r.2 >>= fun r' => pure (r.1 ++ r'.1, r'.2)) := by
  induction ps generalizing x with
  | nil =>
    simp only [List.nil_append]
    show _ = (Except.ok ([], x) >>= _)
    rw [bind_ok]
    cases applyAll step c qs x with
    | error e => rfl
    | ok r => rfl
  | cons p ps ih =>
    rw [List.cons_append, applyAll_cons, applyAll_cons]
    cases hs : step c p x with
    | error e => rfl
    | ok r =>
      simp only [bind_ok]
      rw [ih r.2]
      cases applyAll step c ps r.2 with
      | error e => rfl
      | ok r1 =>
        simp only [bind_ok, pure_eq_ok]
        cases applyAll step c qs r1.2 with
        | error e => rfl
        | ok r2 => simp [bind_ok, pure_eq_ok]


/-! ### shapes: the last statement of a generated body -/

/-- everything of `bodyOf s` except its last statement -/
def bodyPre (s : Shape) : List Stmt :=
  s.imports.map (fun i => Stmt.simple (.importFrom i)) ++ opStmts s ++
    [.simple (.annAssign (.name s.varsVar) s.varsAnn (some s.variables))] ++
    (match s.tail with
     | .call aw r d =>
       [.simple (.assign r (if aw then .await (execCall "execute" s) else execCall "execute" s)),
        .simple (.assign d (.call (.attr (.name "self") "get_data") [.name r] [] []))]
     | .sub _ _ _ => [])

def lastStmt (s : Shape) : Stmt :=
  match s.tail with
  | .call _ _ d => .simple (.ret (some (projExpr s.retClass d s.proj)))
  | .sub d l o => .asyncFor (.name d) (execCall "execute_ws" s) [.expr (.yield (projExpr s.retClass d s.proj))] l o

theorem bodyOf_eq (s : Shape) : bodyOf s = bodyPre s ++ [lastStmt s] := by
  unfold bodyOf bodyPre lastStmt tailStmts
  cases s.tail <;> simp [List.append_assoc]

theorem bodyOf_getLast (s : Shape) : (bodyOf s).getLast? = some (lastStmt s) := by
  rw [bodyOf_eq]; simp

theorem bodyOf_dropLast (s : Shape) : (bodyOf s).dropLast = bodyPre s := by
  rw [bodyOf_eq]; simp

theorem projExpr_snoc (c d : String) (fs : List String) (f : String) :
    projExpr c d (fs ++ [f]) = .attr (projExpr c d fs) f := by
  simp [projExpr, List.foldl_append]

theorem execCall_proj (callee : String) (s : Shape) (p : List String) :
    execCall callee { s with proj := p } = execCall callee s := rfl

theorem bodyPre_proj (s : Shape) (p : List String) : bodyPre { s with proj := p } = bodyPre s := by
  unfold bodyPre opStmts
  cases h : s.tail <;> simp [h, execCall, Shape.queryName]


/-! ### ShorterResults on a method of the generated shape -/

/-- the body ShorterResults leaves behind: one more attribute behind `model_validate`; for a
    subscription the rebuilt `async for` has a bare `Expr` body and no `orelse` -/
def shorterShape (s : Shape) (f : String) : Shape :=
  { s with proj := s.proj ++ [f],
           tail := match s.tail with
             | .call aw r d => .call aw r d
             | .sub d _ _ => .sub d false 0 }

theorem shorterShape_body_call (s : Shape) (f : String) (aw : Bool) (r d : String) (ht : s.tail = .call aw r d) :
    bodyOf (shorterShape s f) = bodyPre s ++ [.simple (.ret (some (.attr (projExpr s.retClass d s.proj) f)))] := by
  rw [bodyOf_eq]
  have h1 : bodyPre (shorterShape s f) = bodyPre s := by
    unfold shorterShape bodyPre opStmts
    simp [ht, execCall, Shape.queryName]
  have h2 : lastStmt (shorterShape s f) = .simple (.ret (some (.attr (projExpr s.retClass d s.proj) f))) := by
    unfold shorterShape lastStmt
    simp [ht, projExpr_snoc]
  rw [h1, h2]

theorem shorterShape_body_sub (s : Shape) (f : String) (d : String) (l : Bool) (o : Nat) (ht : s.tail = .sub d l o) :
    bodyOf (shorterShape s f) = bodyPre s ++
      [.asyncFor (.name d) (execCall "execute_ws" s) [.expr (.yield (.attr (projExpr s.retClass d s.proj) f))] false 0] := by
  rw [bodyOf_eq]
  have h1 : bodyPre (shorterShape s f) = bodyPre s := by
    unfold shorterShape bodyPre opStmts
    simp [ht, execCall, Shape.queryName]
  have h2 : lastStmt (shorterShape s f) =
      .asyncFor (.name d) (execCall "execute_ws" s) [.expr (.yield (.attr (projExpr s.retClass d s.proj) f))] false 0 := by
    unfold shorterShape lastStmt
    simp [ht, projExpr_snoc, execCall, Shape.queryName]
  rw [h1, h2]

/-- query / mutation methods -/
theorem shorter_call (st : ShorterState) (m : Method) (s : Shape) (aw : Bool) (r d cls : String)
    (hb : m.body = bodyOf s) (ht : s.tail = .call aw r d) (hr : m.returns = some (.name cls)) :
    shorterModifyMethod st m =
      (nodeAndClass st.classDict cls >>= fun x =>
        match x with
        | none => pure (st, m)
        | some (node, classes, f) =>
          pure (shorterUpdateImports st m.name classes,
            { m with returns := some node, body := bodyOf (shorterShape s f) })) := by
  unfold shorterModifyMethod
  rw [hb, bodyOf_getLast]
  simp only [lastStmt, ht]
  unfold shorterQueryMutation
  simp only [hr]
  cases hn : nodeAndClass st.classDict cls with
  | error e => rfl
  | ok x =>
    cases x with
    | none => rfl
    | some t =>
      obtain ⟨node, classes, f⟩ := t
      simp only [bind_ok, pure_eq_ok]
      rw [shorterShape_body_call s f aw r d ht, hb, bodyOf_dropLast]

/-- subscription methods (the `async for` as client.py builds it: a list body) -/
theorem shorter_sub (st : ShorterState) (m : Method) (s : Shape) (d cls : String) (o : Nat) (a : Ex)
    (hb : m.body = bodyOf s) (ht : s.tail = .sub d true o) (hr : m.returns = some (.sub a (.name cls))) :
    shorterModifyMethod st m =
      (nodeAndClass st.classDict cls >>= fun x =>
        match x with
        | none => pure (st, m)
        | some (node, classes, f) =>
          pure (shorterUpdateImports st m.name classes,
            { m with returns := some (.sub (.name "AsyncIterator") node), body := bodyOf (shorterShape s f) })) := by
  unfold shorterModifyMethod
  rw [hb, bodyOf_getLast]
  simp only [lastStmt, ht]
  unfold shorterSubscription
  simp only [hr]
  cases hn : nodeAndClass st.classDict cls with
  | error e => rfl
  | ok x =>
    cases x with
    | none => rfl
    | some t =>
      obtain ⟨node, classes, f⟩ := t
      simp only [bind_ok, pure_eq_ok, Bool.not_true, Bool.false_eq_true, ↓reduceIte]
      rw [shorterShape_body_sub s f d true o ht, hb, bodyOf_dropLast]

/-- a return annotation that is not a plain class name (for instance the string constant
    ClientForwardRefs leaves behind) makes ShorterResults skip the method -/
theorem shorter_skips_non_name (st : ShorterState) (m : Method) (s : Shape) (aw : Bool) (r d : String)
    (hb : m.body = bodyOf s) (ht : s.tail = .call aw r d) (hr : ∀ id, m.returns ≠ some (.name id)) :
    shorterModifyMethod st m = pure (st, m) := by
  unfold shorterModifyMethod
  rw [hb, bodyOf_getLast]
  simp only [lastStmt, ht]
  unfold shorterQueryMutation
  split
  · rename_i id _ h2
    exact absurd h2 (hr _)
  · rfl

theorem shorter_skips_non_name_sub (st : ShorterState) (m : Method) (s : Shape) (d : String) (l : Bool) (o : Nat)
    (hb : m.body = bodyOf s) (ht : s.tail = .sub d l o) (hr : ∀ a id, m.returns ≠ some (.sub a (.name id))) :
    shorterModifyMethod st m = pure (st, m) := by
  unfold shorterModifyMethod
  rw [hb, bodyOf_getLast]
  simp only [lastStmt, ht]
  unfold shorterSubscription
  split
  · rename_i a id h2
    exact absurd h2 (hr _ _)
  · rfl

/-! ### `_return_or_yield_node_and_class`: exactly one field, inherited ones included -/

theorem nodeAndClass_some (dict : List (String × ClassDef)) (cls : String) (node : Ex) (classes : List String) (f : String) :
    nodeAndClass dict cls = .ok (some (node, classes, f)) ↔
      ∃ cd ann, alookup cls dict = some cd ∧
        getAllFields dict (dict.length + 1) cd = .ok [(.name f, ann)] ∧
        updateNode (ann.size + 1) ann = .ok (node, classes) := by
  unfold nodeAndClass
  cases hl : alookup cls dict with
  | none => simp [pure_eq_ok]
  | some cd =>
    simp only [Option.some.injEq, exists_and_left, exists_eq_left']
    cases hg : getAllFields dict (dict.length + 1) cd with
    | error e => simp [bind_error]
    | ok fields =>
      simp only [bind_ok]
      match fields with
      | [] => simp [pure_eq_ok]
      | [(t, ann)] =>
        cases t <;> simp [pure_eq_ok]
        rename_i id
        cases hu : updateNode (ann.size + 1) ann with
        | error e => simp [bind_error]; intro _ h; rw [hu] at h; cases h
        | ok r =>
          obtain ⟨n', c'⟩ := r
          simp [bind_ok, pure_eq_ok]
          constructor
          · rintro ⟨h1, h2, h3⟩
            exact ⟨ann, ⟨h3, rfl⟩, by rw [hu, h1, h2]⟩
          · rintro ⟨x, ⟨h3, h4⟩, h5⟩
            subst h4
            rw [hu] at h5
            simp at h5
            exact ⟨h5.1, h5.2, h3⟩
      | _ :: _ :: _ => simp [pure_eq_ok]


/-! ### semantics of the projection -/

theorem request_shorterShape (pkg : Pkg) (s : Shape) (f : String) : request pkg (shorterShape s f) = request pkg s := by
  unfold request shorterShape constValue resolveRuntime
  cases s.op <;> rfl

theorem respond_shorterShape {PyV : Type} (validate : String × String → J → Except String PyV)
    (getattr : String → PyV → PyV) (pkg : Pkg) (s : Shape) (f : String) (d : J) :
    respond validate getattr pkg (shorterShape s f) d = (respond validate getattr pkg s d).map (getattr f) := by
  unfold respond shorterShape resolveRuntime
  simp only
  cases alookup s.retClass (importBindings s.imports) with
  | some cls =>
    simp only
    cases validate cls d with
    | ok o => simp [Outcome.map, List.foldl_append]
    | error e => simp [Outcome.map]
  | none =>
    simp only
    cases alookup s.retClass (importBindings (topImports pkg.client)) with
    | some cls =>
      simp only
      cases validate cls d with
      | ok o => simp [Outcome.map, List.foldl_append]
      | error e => simp [Outcome.map]
    | none => simp [Outcome.map]

/-! ### ExtractOperations on a method of the generated shape -/

theorem replaceQueryKw_exec (v : Ex) (q o vv kw : Ex) :
    replaceQueryKw v [some "query", some "operation_name", some "variables", none] [q, o, vv, kw] = [v, o, vv, kw] := by
  simp [replaceQueryKw]

/-- `generate_client_method` of ExtractOperations on the method client.py built (no in-body imports
    yet, the operation inlined): the `query = gql(...)` statement is dropped and `query=` refers to
    the constant of this operation; nothing else changes. -/
theorem extract_method (st : ExtractState) (c : Call) (m : Method) (s : Shape) (q : String) (ls : List String)
    (op v : String)
    (hb : m.body = bodyOf s) (hi : s.imports = []) (ho : s.op = .inline q ls)
    (hn : c.opName = some op) (hv : alookup op st.vars = some v)
    (hk : match s.tail with
          | .call aw _ _ => c.opKind ≠ some "subscription" ∧ st.asyncClient = aw
          | .sub _ _ _ => c.opKind = some "subscription") :
    extractClientMethod st c m = .ok { m with body := bodyOf { s with op := .const v } } := by
  unfold extractClientMethod
  have hbody : m.body = .simple (.assign q (.call (.name "gql") [.strs ls] [] [])) ::
      .simple (.annAssign (.name s.varsVar) s.varsAnn (some s.variables)) :: tailStmts s := by
    rw [hb]; unfold bodyOf opStmts; simp [hi, ho]
  have hbody' : bodyOf { s with op := .const v } =
      .simple (.annAssign (.name s.varsVar) s.varsAnn (some s.variables)) :: tailStmts { s with op := .const v } := by
    unfold bodyOf opStmts; simp [hi]
  rw [hbody, hbody']
  cases ht : s.tail with
  | call aw r d =>
    rw [ht] at hk
    obtain ⟨hk1, hk2⟩ := hk
    cases aw with
    | true =>
      simp [tailStmts, ht, execCall, Shape.queryName, ho, hn, hv, hk2, List.drop, replaceQueryKw, bind, Except.bind, pure, Except.pure]
    | false =>
      simp [tailStmts, ht, execCall, Shape.queryName, ho, hn, hv, hk2, List.drop, replaceQueryKw, bind, Except.bind, pure, Except.pure]
  | sub d l o =>
    rw [ht] at hk
    simp [tailStmts, ht, execCall, Shape.queryName, ho, hn, hv, hk, List.drop, replaceQueryKw, bind, Except.bind, pure, Except.pure, List.set]


/-! ### association lists -/

theorem alookup_aset_self {β} (k : String) (v : β) (d : List (String × β)) : alookup k (aset k v d) = some v := by
  induction d with
  | nil => simp [aset, alookup]
  | cons kv rest ih =>
    obtain ⟨k', v'⟩ := kv
    by_cases h : k' = k
    · simp [aset, alookup, h]
    · simp [aset, alookup, h, ih]

theorem alookup_aset_other {β} (k k' : String) (v : β) (d : List (String × β)) (h : k ≠ k') :
    alookup k' (aset k v d) = alookup k' d := by
  induction d with
  | nil => simp [aset, alookup, h]
  | cons kv rest ih =>
    obtain ⟨k2, v2⟩ := kv
    by_cases h2 : k2 = k
    · subst h2; simp [aset, alookup, h]
    · by_cases h3 : k2 = k'
      · subst h3; simp [aset, alookup, h2]
      · simp [aset, alookup, h2, h3, ih]

theorem mem_of_alookup {β} (k : String) (v : β) (d : List (String × β)) (h : alookup k d = some v) : (k, v) ∈ d := by
  induction d with
  | nil => simp [alookup] at h
  | cons kv rest ih =>
    obtain ⟨k', v'⟩ := kv
    by_cases hk : k' = k
    · simp [alookup, hk] at h; simp [hk, h]
    · simp [alookup, hk] at h; simp [ih h]

theorem alookup_of_mem_nodup {β} (k : String) (v : β) (d : List (String × β)) (hm : (k, v) ∈ d)
    (hn : (d.map Prod.fst).Nodup) : alookup k d = some v := by
  induction d with
  | nil => simp at hm
  | cons kv rest ih =>
    obtain ⟨k', v'⟩ := kv
    simp only [List.map_cons, List.nodup_cons] at hn
    rcases List.mem_cons.mp hm with h | h
    · cases h; simp [alookup]
    · by_cases hk : k' = k
      · subst hk
        exact absurd (List.mem_map.mpr ⟨(k', v), h, rfl⟩) hn.1
      · simp [alookup, hk, ih h hn.2]

/-! ### ExtractOperations: bookkeeping and the operations module -/

theorem extract_opStr (st : ExtractState) (c : Call) (s op snake : String)
    (hn : c.opName = some op) (hs : c.opSnake = some snake) :
    extractOperationStr st c s =
      .ok { st with gqls := aset op s st.gqls, vars := aset op (gqlVarName snake) st.vars } := by
  unfold extractOperationStr; simp [hn, hs, pure_eq_ok]

theorem mapM_ok_mem {α β} (f : α → M β) : ∀ (xs : List α) (ys : List β), xs.mapM f = .ok ys →
    ∀ x ∈ xs, ∃ y ∈ ys, f x = .ok y := by
  intro xs
  induction xs with
  | nil => intro ys _ x hx; simp at hx
  | cons a as ih =>
    intro ys h x hx
    rw [List.mapM_cons] at h
    cases hfa : f a with
    | error e => rw [hfa] at h; cases h
    | ok b =>
      rw [hfa] at h
      simp only [bind_ok] at h
      cases hrest : as.mapM f with
      | error e => rw [hrest] at h; cases h
      | ok bs =>
        rw [hrest] at h
        simp only [bind_ok, pure_eq_ok, Except.ok.injEq] at h
        subst h
        rcases List.mem_cons.mp hx with rfl | hx'
        · exact ⟨b, by simp, hfa⟩
        · obtain ⟨y, hy, hfy⟩ := ih bs hrest x hx'
          exact ⟨y, by simp [hy], hfy⟩

/-- every recorded operation ends up in the written module as `NAME = <the lines of its string>` -/
theorem extract_opsFile_binds (st : ExtractState) (f : OpsFile) (h : extractOpsFile st = .ok f)
    (op g : String) (hg : (op, g) ∈ st.gqls) :
    ∃ v, alookup op st.vars = some v ∧ (v, pyLines g) ∈ f.assigns := by
  unfold extractOpsFile at h
  simp only [bind, Except.bind] at h
  split at h
  · cases h
  · rename_i assigns hm
    simp only [pure, Except.pure, Except.ok.injEq] at h
    subst h
    obtain ⟨y, hy, hfy⟩ := mapM_ok_mem _ _ _ hm (op, g) hg
    simp only at hfy
    cases hv : alookup op st.vars with
    | none => rw [hv] at hfy; cases hfy
    | some v =>
      rw [hv] at hfy
      simp only [pure, Except.pure, Except.ok.injEq] at hfy
      exact ⟨v, rfl, by rw [hfy]; exact hy⟩

/-! ### ClientForwardRefs on a method of the generated shape -/

theorem fwdImportClass_last (s : Shape) (hp : s.proj.length ≤ 1) : fwdImportClass (lastStmt s) = some s.retClass := by
  unfold lastStmt
  match hproj : s.proj with
  | [] => cases s.tail <;> simp [fwdImportClass, projExpr, fwdCallOf, fwdClassOfCall]
  | [f] => cases s.tail <;> simp [fwdImportClass, projExpr, fwdCallOf, fwdClassOfCall]
  | _ :: _ :: _ => rw [hproj] at hp; simp at hp

def withImport (s : Shape) (i : ImportFrom) : Shape := { s with imports := i :: s.imports }

theorem bodyOf_withImport (s : Shape) (i : ImportFrom) :
    bodyOf (withImport s i) = .simple (.importFrom i) :: bodyOf s := by
  unfold bodyOf withImport opStmts tailStmts
  cases h1 : s.op <;> cases h2 : s.tail <;> simp [execCall, Shape.queryName, h1]

/-- the rewritten signature of a method (string constants for locally imported classes) -/
def fwdSignature (st : FwdState) (m : Method) : List (String × Option Ex) × Option Ex × List String :=
  let r1 := fwdRewriteArgs st.importedClasses m.args st.inputAndReturnTypes
  match m.returns with
  | some r => let x := toConst st.importedClasses r r1.2; (r1.1, some x.1, x.2)
  | none => (r1.1, none, r1.2)

/-- `generate_client_module` of ClientForwardRefs on one method of the generated shape: the
    signature is rewritten, and the validated class is imported at the top of the body FROM THE
    MODULE RECORDED FOR IT (level 0, dotted module text) — nothing else in the body changes. -/
theorem fwd_method (st : FwdState) (m : Method) (s : Shape) (src : String)
    (hb : m.body = bodyOf s) (hp : s.proj.length ≤ 1) (hc : alookup s.retClass st.importedClasses = some src) :
    fwdMethod st m = .ok
      ({ st with inputAndReturnTypes := (fwdSignature st m).2.2,
                 importedInMethod := sadd s.retClass st.importedInMethod },
       { m with args := (fwdSignature st m).1, returns := (fwdSignature st m).2.1,
                body := bodyOf (withImport s { module := some src, names := [(s.retClass, none)], level := 0 }) }) := by
  unfold fwdMethod fwdSignature
  simp only [bind_ok, pure_eq_ok]
  cases hr : m.returns with
  | none =>
    simp only [hb, bodyOf_getLast, fwdImportClass_last s hp, hc, bodyOf_withImport]
  | some r =>
    simp only [hb, bodyOf_getLast, fwdImportClass_last s hp, hc, bodyOf_withImport]

/-- a validated class that was never imported by a local import: KeyError (finding C15-F5 is the
    instance `self.get_data(...)`, where the "class" is `self`) -/
theorem fwd_method_keyerror (st : FwdState) (m : Method) (last : Stmt) (cls : String)
    (hl : m.body.getLast? = some last) (hi : fwdImportClass last = some cls)
    (hc : alookup cls st.importedClasses = none) : fwdMethod st m = .error "KeyError" := by
  unfold fwdMethod
  simp only [bind_ok, pure_eq_ok]
  cases hr : m.returns <;> simp [hl, hi, hc, throw, throwThe, MonadExceptOf.throw]


/-! ### a plugin whose hooks all return their argument, anywhere in the list -/

theorem applyAll_insert {σ : Type} (step : Call → σ → Payload → M (σ × Payload)) (idp : σ)
    (hid : ∀ c x, step c idp x = .ok (idp, x)) (c : Call) (a b : List σ) (x : Payload) :
    applyAll step c (a ++ idp :: b) x =
      (applyAll step c a x >>= fun ra => applyAll step c b ra.2 >>= fun rb => pure (ra.1 ++ idp :: rb.1, rb.2)) := by
  rw [applyAll_append]
  cases applyAll step c a x with
  | error e => rfl
  | ok ra =>
    simp only [bind_ok]
    rw [applyAll_cons, hid]
    simp only [bind_ok]
    cases applyAll step c b ra.2 with
    | error e => rfl
    | ok rb => rfl

/-- plugin lists that differ by one inserted inert plugin -/
def InsertedAt {σ : Type} (idp : σ) (l1 l2 : List σ) : Prop := ∃ a b, l1 = a ++ idp :: b ∧ l2 = a ++ b

theorem applyAll_inserted {σ : Type} (step : Call → σ → Payload → M (σ × Payload)) (idp : σ)
    (hid : ∀ c x, step c idp x = .ok (idp, x)) (c : Call) (l1 l2 : List σ) (x : Payload)
    (h : InsertedAt idp l1 l2) :
    (∃ e, applyAll step c l1 x = .error e ∧ applyAll step c l2 x = .error e) ∨
    (∃ l1' l2' y, applyAll step c l1 x = .ok (l1', y) ∧ applyAll step c l2 x = .ok (l2', y) ∧ InsertedAt idp l1' l2') := by
  obtain ⟨a, b, rfl, rfl⟩ := h
  rw [applyAll_insert step idp hid, applyAll_append]
  cases applyAll step c a x with
  | error e => exact .inl ⟨e, rfl, rfl⟩
  | ok ra =>
    simp only [bind_ok]
    cases applyAll step c b ra.2 with
    | error e => exact .inl ⟨e, rfl, rfl⟩
    | ok rb => exact .inr ⟨_, _, _, rfl, rfl, ra.1, rb.1, rfl, rfl⟩

theorem identity_step (c : Call) (x : Payload) : PState.step c .identity x = .ok (.identity, x) := rfl

/-- pipeline states that differ only by an inserted identity plugin -/
def PipeRel (p1 p2 : PipeState) : Prop :=
  InsertedAt PState.identity p1.plugins p2.plugins ∧ p1.methodsOut = p2.methodsOut ∧ p1.importsOut = p2.importsOut ∧
  p1.gqlOut = p2.gqlOut ∧ p1.classOut = p2.classOut ∧ p1.initImports = p2.initImports ∧ p1.trace = p2.trace

theorem inputFor_rel (p1 p2 : PipeState) (e : Event) (h : PipeRel p1 p2) : inputFor p1 e = inputFor p2 e := by
  obtain ⟨_, h1, h2, h3, h4, h5, _⟩ := h
  unfold inputFor
  rw [h1, h2, h3, h4, h5]

theorem record_rel (p1 p2 : PipeState) (c : Call) (y : Payload) (h : PipeRel p1 p2) :
    PipeRel (record p1 c y) (record p2 c y) := by
  obtain ⟨h0, h1, h2, h3, h4, h5, h6⟩ := h
  unfold record
  split
  · exact ⟨h0, by simp [h1], h2, h3, h4, h5, h6⟩
  · rename_i i _
    by_cases hk : keepClientImport c i = true
    · simp only [hk, ↓reduceIte]; exact ⟨h0, h1, by simp [h2], h3, h4, h5, h6⟩
    · simp only [hk]; exact ⟨h0, h1, h2, h3, h4, h5, h6⟩
  · exact ⟨h0, h1, h2, by simp, h4, h5, h6⟩
  · exact ⟨h0, h1, h2, h3, by simp, h5, h6⟩
  · exact ⟨h0, h1, h2, h3, h4, by simp [h5], h6⟩
  · exact ⟨h0, h1, h2, h3, h4, h5, h6⟩

theorem stepEvent_rel (p1 p2 : PipeState) (e : Event) (h : PipeRel p1 p2) :
    (∃ err, stepEvent p1 e = .error err ∧ stepEvent p2 e = .error err) ∨
    (∃ q1 q2, stepEvent p1 e = .ok q1 ∧ stepEvent p2 e = .ok q2 ∧ PipeRel q1 q2) := by
  unfold stepEvent manager
  rw [inputFor_rel p1 p2 e h]
  dsimp only
  have h' := h
  obtain ⟨h0, h1, h2, h3, h4, h5, h6⟩ := h
  rcases applyAll_inserted PState.step .identity identity_step e.call p1.plugins p2.plugins (inputFor p2 e) h0 with
    ⟨err, e1, e2⟩ | ⟨l1, l2, y, e1, e2, hins⟩
  · left; exact ⟨err, by rw [e1]; rfl, by rw [e2]; rfl⟩
  · right
    rw [e1, e2]
    simp only [bind_ok, pure_eq_ok]
    refine ⟨_, _, rfl, rfl, ?_⟩
    apply record_rel
    exact ⟨hins, h1, h2, h3, h4, h5, by simp [h6]⟩

theorem runPipeline_rel (evs : List Event) : ∀ (p1 p2 : PipeState), PipeRel p1 p2 →
    (runPipeline p1 evs).2 = (runPipeline p2 evs).2 ∧ PipeRel (runPipeline p1 evs).1 (runPipeline p2 evs).1 := by
  induction evs with
  | nil => intro p1 p2 h; exact ⟨rfl, h⟩
  | cons e rest ih =>
    intro p1 p2 h
    unfold runPipeline
    rcases stepEvent_rel p1 p2 e h with ⟨err, e1, e2⟩ | ⟨q1, q2, e1, e2, hq⟩
    · rw [e1, e2]; exact ⟨rfl, h⟩
    · rw [e1, e2]; exact ih q1 q2 hq


/-! ### NoReimports -/

theorem noReimports_other_hooks (c : Call) (x : Payload) (h : c.hook ≠ "generate_init_module") :
    noReimportsStep c x = x := by
  unfold noReimportsStep
  split
  · rename_i h1; exact absurd h1 h
  · rfl

/-- once `__init__` is empty no bundled plugin puts anything back -/
theorem empty_init_stays_empty (c : Call) (hc : c.hook = "generate_init_module") (p p' : PState) (y : Payload)
    (h : PState.step c p (.module { body := [] }) = .ok (p', y)) : y = .module { body := [] } := by
  cases p with
  | shorter st =>
    simp only [PState.step, shorterStep, hc] at h
    simp [bind, Except.bind, pure, Except.pure] at h
    exact h.2.symm
  | extract st =>
    simp only [PState.step, extractStep, hc, extractInitModule] at h
    simp only [List.isEmpty_nil, ↓reduceIte, bind, Except.bind, pure, Except.pure] at h
    cases hf : extractOpsFile st with
    | error e => simp [hf] at h
    | ok f => simp [hf] at h; exact h.2.symm
  | fwd st =>
    simp only [PState.step, fwdStep, hc] at h
    simp [bind, Except.bind, pure, Except.pure] at h
    exact h.2.symm
  | noReimports =>
    simp only [PState.step, noReimportsStep, hc, pure, Except.pure, Except.ok.injEq, Prod.mk.injEq] at h
    exact h.2.symm
  | identity =>
    simp only [PState.step, pure, Except.pure, Except.ok.injEq, Prod.mk.injEq] at h
    exact h.2.symm

theorem empty_init_through_list (c : Call) (hc : c.hook = "generate_init_module") :
    ∀ (ps ps' : List PState) (y : Payload),
      applyAll PState.step c ps (.module { body := [] }) = .ok (ps', y) → y = .module { body := [] } := by
  intro ps
  induction ps with
  | nil => intro ps' y h; simp [applyAll, List.foldlM, pure, Except.pure] at h; exact h.2.symm
  | cons p rest ih =>
    intro ps' y h
    rw [applyAll_cons] at h
    cases hs : PState.step c p (.module { body := [] }) with
    | error e => rw [hs] at h; cases h
    | ok r =>
      rw [hs] at h
      simp only [bind_ok] at h
      have hy := empty_init_stays_empty c hc p r.1 r.2 (by rw [hs])
      rw [hy] at h
      cases hr : applyAll PState.step c rest (.module { body := [] }) with
      | error e => rw [hr] at h; cases h
      | ok r' =>
        rw [hr] at h
        simp only [bind_ok, pure_eq_ok, Except.ok.injEq, Prod.mk.injEq] at h
        rw [← h.2]
        exact ih r'.1 r'.2 (by rw [hr])

/-! ### ClientForwardRefs: annotations keep their meaning -/

mutual
  /-- read a string annotation as the name it quotes (where `_update_name_to_constant` can write one) -/
  def unconst : Ex → Ex
    | .const v => .name v
    | .sub v s => .sub v (unconst s)
    | .tuple es => .tuple (unconstList es)
    | e => e
  def unconstList : List Ex → List Ex
    | [] => []
    | e :: es => unconst e :: unconstList es
end

mutual
  theorem toConst_unconst (cls : List (String × String)) : ∀ (e : Ex) (s : List String),
      unconst (toConst cls e s).1 = unconst e
    | .name id, s => by
      unfold toConst
      split <;> simp [unconst]
    | .sub v sl, s => by
      simp only [toConst, unconst]
      rw [toConst_unconst cls sl s]
    | .tuple es, s => by
      simp only [toConst, unconst]
      rw [toConstList_unconst cls es s]
    | .const _, _ => by simp [toConst]
    | .attr _ _, _ => by simp [toConst]
    | .call _ _ _ _, _ => by simp [toConst]
    | .await _, _ => by simp [toConst]
    | .yield _, _ => by simp [toConst]
    | .yieldNone, _ => by simp [toConst]
    | .strs _, _ => by simp [toConst]
    | .other _ _, _ => by simp [toConst]
  theorem toConstList_unconst (cls : List (String × String)) : ∀ (es : List Ex) (s : List String),
      unconstList (toConstList cls es s).1 = unconstList es
    | [], s => by simp [toConstList, unconstList]
    | e :: es, s => by
      simp only [toConstList, unconstList]
      rw [toConst_unconst cls e s, toConstList_unconst cls es _]
end

theorem mem_sadd (x y : String) (s : List String) : y ∈ sadd x s ↔ y ∈ s ∨ y = x := by
  unfold sadd
  split
  · rename_i h
    constructor
    · intro hy; exact .inl hy
    · rintro (hy | rfl)
      · exact hy
      · exact List.contains_iff_mem.mp h |> fun h' => by simpa using h'
  · simp

mutual
  /-- every name `_update_name_to_constant` adds to `input_and_return_types` is a locally imported class -/
  theorem toConst_set (cls : List (String × String)) : ∀ (e : Ex) (s : List String) (n : String),
      n ∈ (toConst cls e s).2 → n ∈ s ∨ ahas n cls = true
    | .name id, s, n => by
      unfold toConst
      split
      · rename_i h
        intro hn
        rcases (mem_sadd id n s).mp hn with h1 | h1
        · exact .inl h1
        · subst h1; exact .inr h
      · intro hn; exact .inl hn
    | .sub v sl, s, n => by
      simp only [toConst]
      exact toConst_set cls sl s n
    | .tuple es, s, n => by
      simp only [toConst]
      exact toConstList_set cls es s n
    | .const _, _, _ => by simp [toConst]; exact .inl
    | .attr _ _, _, _ => by simp [toConst]; exact .inl
    | .call _ _ _ _, _, _ => by simp [toConst]; exact .inl
    | .await _, _, _ => by simp [toConst]; exact .inl
    | .yield _, _, _ => by simp [toConst]; exact .inl
    | .yieldNone, _, _ => by simp [toConst]; exact .inl
    | .strs _, _, _ => by simp [toConst]; exact .inl
    | .other _ _, _, _ => by simp [toConst]; exact .inl
  theorem toConstList_set (cls : List (String × String)) : ∀ (es : List Ex) (s : List String) (n : String),
      n ∈ (toConstList cls es s).2 → n ∈ s ∨ ahas n cls = true
    | [], s, n => by simp [toConstList]; exact .inl
    | e :: es, s, n => by
      simp only [toConstList]
      intro hn
      rcases toConstList_set cls es _ n hn with h | h
      · exact toConst_set cls e s n h
      · exact .inr h
end


/-! ### ClientForwardRefs: what ends up under `if TYPE_CHECKING:` -/

def tcStep (classes : List (String × String)) (acc : List (String × List String)) (cls : String) :
    M (List (String × List String)) :=
  match alookup cls classes with
  | none => throw "KeyError"
  | some mname => pure (aset mname ((alookup mname acc).getD [] ++ [cls]) acc)

theorem fwdTypeCheckingImports_eq (st : FwdState) :
    fwdTypeCheckingImports st = st.inputAndReturnTypes.foldlM (tcStep st.importedClasses) [] := rfl

theorem tc_fold (classes : List (String × String)) : ∀ (l : List String) (acc groups : List (String × List String)),
    l.foldlM (tcStep classes) acc = .ok groups →
      (∀ src names cls, alookup src acc = some names → cls ∈ names →
          ∃ names', alookup src groups = some names' ∧ cls ∈ names') ∧
      (∀ cls ∈ l, ∃ src names, alookup cls classes = some src ∧ alookup src groups = some names ∧ cls ∈ names) := by
  intro l
  induction l with
  | nil =>
    intro acc groups h
    simp [List.foldlM, pure, Except.pure] at h
    subst h
    exact ⟨fun src names cls h1 h2 => ⟨names, h1, h2⟩, fun cls hc => by simp at hc⟩
  | cons c rest ih =>
    intro acc groups h
    rw [List.foldlM_cons] at h
    cases hc : alookup c classes with
    | none => simp [tcStep, hc, bind, Except.bind, throw, throwThe, MonadExceptOf.throw] at h
    | some mname =>
      simp only [tcStep, hc, pure_eq_ok, bind_ok] at h
      obtain ⟨ih1, ih2⟩ := ih _ groups h
      constructor
      · intro src names cls h1 h2
        by_cases hs : mname = src
        · subst hs
          apply ih1 mname ((alookup mname acc).getD [] ++ [c]) cls (alookup_aset_self _ _ _)
          simp [h1, h2]
        · apply ih1 src names cls _ h2
          rw [alookup_aset_other mname src _ _ hs]; exact h1
      · intro cls hcls
        rcases List.mem_cons.mp hcls with rfl | hr
        · obtain ⟨names', hn1, hn2⟩ := ih1 mname ((alookup mname acc).getD [] ++ [cls]) cls (alookup_aset_self _ _ _) (by simp)
          exact ⟨mname, names', hc, hn1, hn2⟩
        · exact ih2 cls hr

/-- every class quoted in a signature is imported under `if TYPE_CHECKING:` from the module its
    module-level import named -/
theorem fwd_typechecking_complete (st : FwdState) (groups : List (String × List String))
    (h : fwdTypeCheckingImports st = .ok groups) (cls : String) (hc : cls ∈ st.inputAndReturnTypes) :
    ∃ src names, alookup cls st.importedClasses = some src ∧ alookup src groups = some names ∧ cls ∈ names := by
  rw [fwdTypeCheckingImports_eq] at h
  exact (tc_fold st.importedClasses st.inputAndReturnTypes [] groups h).2 cls hc

/-! ### configuration order: ClientForwardRefs before ShorterResults (finding C15-F3) -/

theorem toConst_name_imported (cls : List (String × String)) (id : String) (s : List String) (h : ahas id cls = true) :
    (toConst cls (.name id) s).1 = .const id := by
  unfold toConst; simp [h]

/-- what ClientForwardRefs leaves of a query/mutation method makes ShorterResults skip it, whatever
    ShorterResults knows about the result class -/
theorem shorter_after_fwd_method (stF : FwdState) (stS : ShorterState) (m : Method) (s : Shape) (aw : Bool)
    (r d cls src : String)
    (hb : m.body = bodyOf s) (ht : s.tail = .call aw r d) (hp : s.proj.length ≤ 1)
    (hr : m.returns = some (.name cls)) (hcls : ahas cls stF.importedClasses = true)
    (hc : alookup s.retClass stF.importedClasses = some src) :
    ∃ stF' m', fwdMethod stF m = .ok (stF', m') ∧ shorterModifyMethod stS m' = .ok (stS, m') := by
  refine ⟨_, _, fwd_method stF m s src hb hp hc, ?_⟩
  apply shorter_skips_non_name stS _ (withImport s { module := some src, names := [(s.retClass, none)], level := 0 }) aw r d rfl
  · simp [withImport, ht]
  · intro id h
    simp only [fwdSignature, hr] at h
    rw [toConst_name_imported _ _ _ hcls] at h
    cases h


/-! ### a module stays a module through the plugin manager -/

theorem step_keeps_module (c : Call) (p p' : PState) (m : Module) (y : Payload)
    (h : PState.step c p (.module m) = .ok (p', y)) : ∃ m', y = .module m' := by
  cases p with
  | shorter st =>
    simp only [PState.step, shorterStep] at h
    split at h
    all_goals (try (simp [bind, Except.bind, pure, Except.pure] at h; exact ⟨_, h.2.symm⟩))
    · rename_i hm
      cases hm
      cases hx : shorterClientModule st m with
      | error e => simp [hx, bind, Except.bind] at h
      | ok r => simp [hx, bind, Except.bind, pure, Except.pure] at h; exact ⟨_, h.2.symm⟩
  | extract st =>
    simp only [PState.step, extractStep] at h
    split at h
    · rename_i hm; cases hm
    · rename_i hm; cases hm
    · simp [bind, Except.bind, pure, Except.pure] at h; exact ⟨_, h.2.symm⟩
    · rename_i hm
      cases hm
      cases hx : extractInitModule st m with
      | error e => simp [hx, bind, Except.bind] at h
      | ok r => simp [hx, bind, Except.bind, pure, Except.pure] at h; exact ⟨_, h.2.symm⟩
    · simp [bind, Except.bind, pure, Except.pure] at h; exact ⟨_, h.2.symm⟩
  | fwd st =>
    simp only [PState.step, fwdStep] at h
    split at h
    · rename_i hm
      cases hm
      cases hx : fwdClientModule st m with
      | error e => simp [hx, bind, Except.bind] at h
      | ok r => simp [hx, bind, Except.bind, pure, Except.pure] at h; exact ⟨_, h.2.symm⟩
    · simp [bind, Except.bind, pure, Except.pure] at h; exact ⟨_, h.2.symm⟩
  | noReimports =>
    simp only [PState.step, pure, Except.pure, Except.ok.injEq, Prod.mk.injEq] at h
    rw [← h.2]
    unfold noReimportsStep
    split
    · exact ⟨_, rfl⟩
    · exact ⟨_, rfl⟩
  | identity =>
    simp only [PState.step, pure, Except.pure, Except.ok.injEq, Prod.mk.injEq] at h
    exact ⟨m, h.2.symm⟩

theorem applyAll_keeps_module (c : Call) : ∀ (ps l : List PState) (m : Module) (y : Payload),
    applyAll PState.step c ps (.module m) = .ok (l, y) → ∃ m', y = .module m' := by
  intro ps
  induction ps with
  | nil => intro l m y h; simp [applyAll, List.foldlM, pure, Except.pure] at h; exact ⟨m, h.2.symm⟩
  | cons p rest ih =>
    intro l m y h
    rw [applyAll_cons] at h
    cases hs : PState.step c p (.module m) with
    | error e => rw [hs] at h; cases h
    | ok r =>
      rw [hs] at h
      simp only [bind_ok] at h
      obtain ⟨m1, hm1⟩ := step_keeps_module c p r.1 m r.2 (by rw [hs])
      rw [hm1] at h
      cases hr : applyAll PState.step c rest (.module m1) with
      | error e => rw [hr] at h; cases h
      | ok r' =>
        rw [hr] at h
        simp only [bind_ok, pure_eq_ok, Except.ok.injEq, Prod.mk.injEq] at h
        rw [← h.2]
        exact ih r'.1 m1 r'.2 (by rw [hr])


/-! ### configurations made of the identity plugin and NoReimports only -/

def Inert (ps : List PState) : Prop := ∀ p ∈ ps, p = PState.identity ∨ p = PState.noReimports

theorem inert_manager (c : Call) : ∀ (ps : List PState), Inert ps → ∀ (x : Payload),
    ∃ y, applyAll PState.step c ps x = .ok (ps, y) ∧ (c.hook ≠ "generate_init_module" → y = x) := by
  intro ps
  induction ps with
  | nil => intro _ x; exact ⟨x, rfl, fun _ => rfl⟩
  | cons p rest ih =>
    intro hin x
    have hp := hin p (by simp)
    have hrest : Inert rest := fun q hq => hin q (by simp [hq])
    rw [applyAll_cons]
    rcases hp with rfl | rfl
    · obtain ⟨y, hy, hy2⟩ := ih hrest x
      refine ⟨y, ?_, hy2⟩
      show (Except.ok (PState.identity, x) >>= _) = _
      simp only [bind_ok, hy, pure_eq_ok]
    · obtain ⟨y, hy, hy2⟩ := ih hrest (noReimportsStep c x)
      refine ⟨y, ?_, fun hc => by rw [hy2 hc, noReimports_other_hooks c x hc]⟩
      show (Except.ok (PState.noReimports, noReimportsStep c x) >>= _) = _
      simp only [bind_ok, hy, pure_eq_ok]

def FinalRel (p1 p2 : PipeState) : Prop :=
  ∀ hook, hook ≠ "generate_init_module" → p1.finalOf hook = p2.finalOf hook

def InertRel (p1 p2 : PipeState) : Prop :=
  Inert p1.plugins ∧ p2.plugins = [] ∧ p1.methodsOut = p2.methodsOut ∧ p1.importsOut = p2.importsOut ∧
  p1.gqlOut = p2.gqlOut ∧ p1.classOut = p2.classOut ∧ p1.initImports = p2.initImports ∧ FinalRel p1 p2

def finalOfTrace (t : List (Call × Payload × Payload)) (hook : String) : Option Payload :=
  (t.reverse.find? (fun e => e.1.hook == hook)).map (·.2.2)

theorem finalOf_eq (ps : PipeState) (hook : String) : ps.finalOf hook = finalOfTrace ps.trace hook := rfl

theorem finalOfTrace_snoc (t : List (Call × Payload × Payload)) (c : Call) (x y : Payload) (hook : String) :
    finalOfTrace (t ++ [(c, x, y)]) hook = if c.hook == hook then some y else finalOfTrace t hook := by
  unfold finalOfTrace
  simp only [List.reverse_append, List.reverse_cons, List.reverse_nil, List.nil_append, List.cons_append, List.find?_cons]
  split <;> simp_all

theorem record_finalOf (ps : PipeState) (c : Call) (y : Payload) (hook : String) :
    (record ps c y).finalOf hook = ps.finalOf hook := by
  unfold record PipeState.finalOf
  split
  · rfl
  · split <;> rfl
  · rfl
  · rfl
  · rfl
  · rfl

theorem record_init (ps : PipeState) (c : Call) (hc : c.hook = "generate_init_module") (y : Payload) : record ps c y = ps := by
  unfold record
  split <;> simp_all

theorem record_fields (p1 p2 : PipeState) (c : Call) (y : Payload)
    (h1 : p1.methodsOut = p2.methodsOut) (h2 : p1.importsOut = p2.importsOut) (h3 : p1.gqlOut = p2.gqlOut)
    (h4 : p1.classOut = p2.classOut) (h5 : p1.initImports = p2.initImports) :
    (record p1 c y).plugins = p1.plugins ∧ (record p2 c y).plugins = p2.plugins ∧
    (record p1 c y).methodsOut = (record p2 c y).methodsOut ∧ (record p1 c y).importsOut = (record p2 c y).importsOut ∧
    (record p1 c y).gqlOut = (record p2 c y).gqlOut ∧ (record p1 c y).classOut = (record p2 c y).classOut ∧
    (record p1 c y).initImports = (record p2 c y).initImports := by
  unfold record
  split
  · simp [h1, h2, h3, h4, h5]
  · rename_i i _
    by_cases hk : keepClientImport c i = true <;> simp [hk, h1, h2, h3, h4, h5]
  · simp [h1, h2, h3, h4, h5]
  · simp [h1, h2, h3, h4, h5]
  · simp [h1, h2, h3, h4, h5]
  · simp [h1, h2, h3, h4, h5]

theorem stepEvent_inert (p1 p2 : PipeState) (e : Event) (h : InertRel p1 p2) :
    ∃ q1 q2, stepEvent p1 e = .ok q1 ∧ stepEvent p2 e = .ok q2 ∧ InertRel q1 q2 := by
  obtain ⟨hin, hnil, h1, h2, h3, h4, h5, hf⟩ := h
  have hinput : inputFor p1 e = inputFor p2 e := by unfold inputFor; rw [h1, h2, h3, h4, h5]
  obtain ⟨y, hy, hy2⟩ := inert_manager e.call p1.plugins hin (inputFor p2 e)
  unfold stepEvent manager
  rw [hinput, hnil]
  dsimp only
  rw [hy]
  simp only [bind_ok, pure_eq_ok]
  have hnilrun : applyAll PState.step e.call [] (inputFor p2 e) = .ok ([], inputFor p2 e) := rfl
  rw [hnilrun]
  simp only [bind_ok]
  refine ⟨_, _, rfl, rfl, ?_⟩
  by_cases hc : e.call.hook = "generate_init_module"
  · rw [record_init _ e.call hc, record_init _ e.call hc]
    refine ⟨hin, rfl, h1, h2, h3, h4, h5, ?_⟩
    intro hook hh
    rw [finalOf_eq, finalOf_eq]
    simp only [finalOfTrace_snoc]
    have : (e.call.hook == hook) = false := by rw [hc]; simp; exact fun h => hh h.symm
    simp only [this, Bool.false_eq_true, ↓reduceIte]
    have := hf hook hh
    rw [finalOf_eq, finalOf_eq] at this
    exact this
  · have hyx := hy2 hc
    subst hyx
    obtain ⟨g1, g2, g3, g4, g5, g6, g7⟩ := record_fields
      { p1 with trace := p1.trace ++ [(e.call, inputFor p2 e, inputFor p2 e)] }
      { plugins := [], methodsOut := p2.methodsOut, importsOut := p2.importsOut, gqlOut := p2.gqlOut, classOut := p2.classOut,
        initImports := p2.initImports, trace := p2.trace ++ [(e.call, inputFor p2 e, inputFor p2 e)] }
      e.call (inputFor p2 e) h1 h2 h3 h4 h5
    refine ⟨by rw [g1]; exact hin, by rw [g2], g3, g4, g5, g6, g7, ?_⟩
    intro hook hh
    rw [record_finalOf, record_finalOf, finalOf_eq, finalOf_eq]
    simp only [finalOfTrace_snoc]
    have := hf hook hh
    rw [finalOf_eq, finalOf_eq] at this
    rw [this]

theorem runPipeline_inert (evs : List Event) : ∀ (p1 p2 : PipeState), InertRel p1 p2 →
    (runPipeline p1 evs).2 = (runPipeline p2 evs).2 ∧ InertRel (runPipeline p1 evs).1 (runPipeline p2 evs).1 := by
  induction evs with
  | nil => intro p1 p2 h; exact ⟨rfl, h⟩
  | cons e rest ih =>
    intro p1 p2 h
    unfold runPipeline
    obtain ⟨q1, q2, e1, e2, hq⟩ := stepEvent_inert p1 p2 e h
    rw [e1, e2]
    exact ih q1 q2 hq

theorem inert_opsFile (ps : PipeState) (h : Inert ps.plugins) : ps.opsFile? = none := by
  unfold PipeState.opsFile?
  rw [List.findSome?_eq_none_iff]
  intro p hp
  rcases h p (by simpa using hp) with rfl | rfl <;> rfl

theorem inert_no_kind (ps : List PState) (h : Inert ps) :
    ps.any PState.isShorter = false ∧ ps.any PState.isExtract = false ∧ ps.any PState.isFwd = false := by
  refine ⟨?_, ?_, ?_⟩ <;>
  · rw [List.any_eq_false]
    intro p hp
    rcases h p hp with rfl | rfl <;> simp [PState.isShorter, PState.isExtract, PState.isFwd]

theorem outcome_map_id {α} (o : Outcome α) : o.map (fun a => a) = o := by cases o <;> rfl

end Ariadne.C15
