/-
  Proofs/C01BridgeMA.lean — property C01: the abstract-positions tier EXTENDED BY MIXIN FRAGMENTS (Proofs/C01Abs*.lean, whose
  region now admits spreads of named fragments at object-typed classes; the fragment classes are those of the mixin tier,
  Proofs/C01Mix*.lean) carried to the pipeline statement `claimB`:
      ValidInput inp → MixAbsInput inp → nodupKeys j → claimB inp k j = true.

  `MixAbsInput inp` (decidable), with the nesting fuel `K = maK = 200` and `F = fragNeed` (validation fuel of the fragment classes):
    * `schemaOK`; fragment names pairwise distinct;
    * the operations IN ORDER with the marks threaded (`absOpsOK … K F`, Proofs/C01BridgeAbs.lean): name, root type, no `@mixin`,
      `AbsOK` in the generator state left by the predecessors — interface / union / object positions, typed inline fragments,
      `__typename`, AND spreads `...G` of a fragment `G` defined on exactly the OBJECT type of the class the spread lands in
      (directly in an object-typed selection set, or inside an inline fragment `... on T { ...G }` with `G` on `T`) —,
      `NoShadowedImport`, the fuel bounds (`agfuel ≤ 100000`, `agfuel + K ≤ execFuel`, `avneed + 4 + F ≤ execFuel`);
    * per operation (`maOpOK`): the class names of the operation's module and of the fragments module together are pairwise
      distinct and `NoShadowedImport`; `fragDepth + 1 ≤` number of classes `+ 1` (pydantic's inheritance fuel);
    * every fragment definition (`maFragOK`): `fragOK … K` of the mixin tier (object type, plain content with mixin spreads — in
      particular NO abstract-typed field: finding C01-F4 —, no inline fragment, no `@mixin`, keys / Python names distinct over
      own and inherited fields), `fragGenOK`, and no selection set of the fragment carries a mark of ANY operation
      (`finalMarks`: selection-set ids are unique in a parsed document, so this only excludes ids shared by construction).
  In this region nothing is unpacked; the automatic `__typename` goes into the operations only (the fragments are sent as
  written); the fragments module holds the classes of ALL fragment definitions.
-/
import AriadneModel.Proofs.C01BridgeAbs
import AriadneModel.Proofs.C01BridgeMix

set_option linter.unusedSimpArgs false
set_option linter.unusedVariables false

namespace Ariadne.C01
open Ariadne Ariadne.Gql Ariadne.ResultTypes Ariadne.Util Ariadne.Pyd Ariadne.Triggers01 Ariadne.C01Plain Ariadne.C01Abs

theorem fragNeed_spec (env : ResultTypes.Env) (K : Nat) : ∀ f ∈ env.frags, C01Mix.mneed env K f.on f.sel + 1 ≤ fragNeed env K :=
  fun f hf => C01Mix.le_foldl_max_fn (fun f => C01Mix.mneed env K f.on f.sel + 1) env.frags 0 _ (Or.inr ⟨f, hf, Nat.le_refl _⟩)

/-! ### marks never touch the fragments -/

mutual
  theorem sidFree_mono {M M' : List Nat} (h : ∀ m ∈ M', m ∈ M) : ∀ sel : List Selection,
      C01Mix.sidFree M sel = true → C01Mix.sidFree M' sel = true
    | [], _ => by simp [C01Mix.sidFree]
    | s :: rest, hs => by
      simp only [C01Mix.sidFree, Bool.and_eq_true] at hs ⊢
      exact ⟨sidFree1_mono h s hs.1, sidFree_mono h rest hs.2⟩
  theorem sidFree1_mono {M M' : List Nat} (h : ∀ m ∈ M', m ∈ M) : ∀ s : Selection,
      C01Mix.sidFree1 M s = true → C01Mix.sidFree1 M' s = true
    | .field _ _ _ sid sub, hs => by
      simp only [C01Mix.sidFree1, Bool.and_eq_true, Bool.or_eq_true, Bool.not_eq_true'] at hs ⊢
      refine ⟨?_, sidFree_mono h sub hs.2⟩
      rcases hs.1 with h1 | h1
      · exact Or.inl h1
      · right
        cases hc : M'.contains sid with
        | false => rfl
        | true =>
          have : sid ∈ M := h sid (by simpa using hc)
          have : M.contains sid = true := by simpa using this
          rw [h1] at this; cases this
    | .spread _ _, _ => by simp [C01Mix.sidFree1]
    | .inline _ _ _ sub, hs => by
      simp only [C01Mix.sidFree1] at hs ⊢
      exact sidFree_mono h sub hs
end

mutual
  theorem applySels_free (M : List Nat) : ∀ sel : List Selection, C01Mix.sidFree M sel = true → Marks.applySels M sel = sel
    | [], _ => by simp [Marks.applySels]
    | s :: rest, hs => by
      simp only [C01Mix.sidFree, Bool.and_eq_true] at hs
      simp only [Marks.applySels, applySel_free M s hs.1, applySels_free M rest hs.2]
  theorem applySel_free (M : List Nat) : ∀ s : Selection, C01Mix.sidFree1 M s = true → Marks.applySel M s = s
    | .field alias name dirs sid sub, hs => by
      simp only [C01Mix.sidFree1, Bool.and_eq_true, Bool.or_eq_true, Bool.not_eq_true'] at hs
      simp only [Marks.applySel, applySels_free M sub hs.2]
      rcases hs.1 with h1 | h1
      · simp [h1]
      · simp only [h1, Bool.false_and, Bool.false_eq_true, if_false]
    | .spread _ _, _ => by simp [Marks.applySel]
    | .inline _ _ _ sub, hs => by
      simp only [C01Mix.sidFree1] at hs
      simp only [Marks.applySel, applySels_free M sub hs]
end

/-! ### all operations, all marks -/

theorem mem_opMarks_of (env : ResultTypes.Env) (o : Operation) (ms : List Nat) : ∀ m ∈ ms, m ∈ opMarks env o ms := by
  intro m hm
  unfold opMarks
  cases o.name with
  | none => exact hm
  | some n =>
    cases Validate.rootOf env.schema o with
    | none => exact hm
    | some tn => exact List.mem_append_left _ hm

theorem mem_finalMarks_of (env : ResultTypes.Env) : ∀ (ops : List Operation) (ms : List Nat), ∀ m ∈ ms, m ∈ finalMarks env ops ms
  | [], _, m, hm => hm
  | o :: rest, ms, m, hm => mem_finalMarks_of env rest _ m (mem_opMarks_of env o ms m hm)

theorem finalMarks_congr (env : ResultTypes.Env) : ∀ (ops : List Operation) (ms ms' : List Nat), (∀ m, m ∈ ms ↔ m ∈ ms') →
    ∀ m, m ∈ finalMarks env ops ms ↔ m ∈ finalMarks env ops ms'
  | [], _, _, h => h
  | o :: rest, ms, ms', h => finalMarks_congr env rest _ _ (opMarks_congr env o ms ms' h)

/-- every operation of the region generates; its marks are among `finalMarks`, it unpacks nothing -/
theorem runOps_final (env : ResultTypes.Env) (K F : Nat) (hfr : C01Mix.FragsOK env K) : ∀ (ops : List Operation) (ms msS : List Nat),
    (∀ m, m ∈ ms ↔ m ∈ msS) → absOpsOK env K F ops msS = true →
    ∀ r ∈ runOps env ops ms, ∃ out, r = .ok out ∧ (∀ m ∈ out.st.marks, m ∈ finalMarks env ops msS) ∧ out.st.unpacked = []
  | [], _, _, _, _, r, hr => by simp [runOps] at hr
  | o0 :: rest, ms, msS, hms, hok, r, hr => by
    simp only [absOpsOK, Bool.and_eq_true] at hok
    obtain ⟨hok0, hokr⟩ := hok
    have hok0' : absOpOK env K F o0 ms = true := by rw [absOpOK_congr env K F o0 ms msS hms]; exact hok0
    obtain ⟨n, tn, hn, hr', hmix, habs, _, hgf, _, _, hom⟩ := absOpOK_spec hok0'
    obtain ⟨out0, hgen, hmk0, _, hup0⟩ := generate_abs env K hfr o0 n tn ms hn hr' hmix habs _ hgf
    have hnext : ∀ m, m ∈ out0.st.marks ↔ m ∈ opMarks env o0 msS := by
      intro m
      rw [hmk0 m, ← hom]
      exact opMarks_congr env o0 ms msS hms m
    have hrun : runOps env (o0 :: rest) ms = .ok out0 :: runOps env rest out0.st.marks := by
      simp only [runOps, hgen]
    rw [hrun] at hr
    rcases List.mem_cons.mp hr with rfl | hr
    · refine ⟨out0, rfl, fun m hm => ?_, hup0⟩
      exact mem_finalMarks_of env rest _ m ((hnext m).mp hm)
    · exact runOps_final env K F hfr rest out0.st.marks (opMarks env o0 msS) hnext hokr r hr

theorem maOpOK_spec {env : ResultTypes.Env} {o : Operation} {n tn : String} (hn : o.name = some n)
    (hr : Validate.rootOf env.schema o = some tn) (h : maOpOK env o = true) :
    ((aClass env (pascal n) tn [] false o.sel ++ fragModule env).map (·.name)).Nodup ∧
    "BaseModel" ∉ (aClass env (pascal n) tn [] false o.sel ++ fragModule env).map (·.name) ∧
    C01Mix.fragDepth env + 1 ≤ (aClass env (pascal n) tn [] false o.sel ++ fragModule env).length + 1 := by
  unfold maOpOK at h
  simp only [hn, hr, Bool.and_eq_true, decide_eq_true_eq, nodupB_iff] at h
  exact ⟨h.1.1, NoShadowedImport_baseModel h.1.2, h.2⟩

/-- **the abstract-positions tier with mixin fragments, on the pipeline** -/
theorem claimB_mixabs (inp : Input) (k : Nat) (j : J) (hp : MixAbsInput inp) (hj : nodupKeys j = true) :
    claimB inp k j = true := by
  simp only [MixAbsInput, Bool.and_eq_true, List.all_eq_true, nodupB_iff] at hp
  obtain ⟨⟨⟨⟨hschema, hfnd⟩, hops⟩, hmaops⟩, hfrags⟩ := hp
  have hfragP : ∀ f ∈ inp.env.frags, C01Mix.fragOK inp.env (maK inp.env) f = true ∧ fragGenOK inp.env f = true ∧
      (finalMarks inp.env inp.ops []).contains f.sid = false ∧ C01Mix.sidFree (finalMarks inp.env inp.ops []) f.sel = true := by
    intro f hf
    have := hfrags f hf
    simp only [maFragOK, Bool.and_eq_true, Bool.not_eq_true'] at this
    exact ⟨this.1.1.1, this.1.1.2, this.1.2, this.2⟩
  have hfr : C01Mix.FragsOK inp.env (maK inp.env) := fun f hf => (hfragP f hf).1
  have hrunops : (run inp).ops = runOps inp.env inp.ops [] := rfl
  -- every operation generates, unpacks nothing, and leaves marks among `finalMarks`
  have hall := runOps_final inp.env _ _ hfr inp.ops [] [] (fun m => Iff.rfl) hops
  have hmarksSub : ∀ (rs : List (Except GenErr ModuleOut)), (∀ r ∈ rs, r ∈ runOps inp.env inp.ops []) →
      ∀ m ∈ marksAfter rs, m ∈ finalMarks inp.env inp.ops [] := by
    intro rs hrs m hm
    obtain ⟨out, ho, hmo⟩ := (mem_marksAfter rs m).mp hm
    obtain ⟨out', he, hsub, _⟩ := hall _ (hrs _ ho)
    cases he
    exact hsub m hmo
  have hunp : (okOuts (run inp).ops).foldl (fun acc o => setUnion acc o.st.unpacked) [] = [] := by
    apply unpacked_nil
    intro o' ho'
    unfold okOuts at ho'
    obtain ⟨r, hr', he⟩ := List.mem_filterMap.mp ho'
    obtain ⟨out', he', _, hu⟩ := hall r (by rw [← hrunops]; exact hr')
    rw [he'] at he
    simp only [Option.some.injEq] at he
    rw [← he]; exact hu
  -- the marks leave the fragments alone
  have hfreeOf : ∀ (Ms : List Nat), (∀ m ∈ Ms, m ∈ finalMarks inp.env inp.ops []) → ∀ f ∈ inp.env.frags,
      Ms.contains f.sid = false ∧ C01Mix.sidFree Ms f.sel = true := by
    intro Ms hMs f hf
    obtain ⟨_, _, h3, h4⟩ := hfragP f hf
    refine ⟨?_, sidFree_mono hMs f.sel h4⟩
    cases hc : Ms.contains f.sid with
    | false => rfl
    | true =>
      have : f.sid ∈ finalMarks inp.env inp.ops [] := hMs _ (by simpa using hc)
      have : (finalMarks inp.env inp.ops []).contains f.sid = true := by simpa using this
      rw [h3] at this; cases this
  -- the fragment generations
  have hfragGen : ∀ n ∈ sortStr (inp.env.frags.map (·.name)), ∃ f out, findFragment? inp.env.frags n = some f ∧
      generate inp.env Triggers01.fuel (.frag f) (marksAfter (run inp).ops) = .ok out ∧ out.classes = C01Mix.fragClassesOf inp.env f := by
    intro n hn
    obtain ⟨f, hf⟩ := find_of_name_mem inp.env.frags n ((C01Mix.mem_sortStr' n _).mp hn)
    have hfm := (C01Mix.find_mem hf).1
    have hg := (hfragP f hfm).2.1
    simp only [fragGenOK, Bool.and_eq_true, nodupB_iff, decide_eq_true_eq] at hg
    obtain ⟨h1, h2⟩ := hfreeOf (marksAfter (run inp).ops) (hmarksSub _ (fun r hr => by rw [← hrunops]; exact hr)) f hfm
    obtain ⟨out, h3, h4⟩ := generate_mix_frag inp.env _ hfr f hfm hg.1 _ hg.2 _ h1 h2
    exact ⟨f, out, hf, h3, h4⟩
  unfold claimB
  simp only []
  cases hk : inp.ops[k]? with
  | none =>
    have hlen : (runOps inp.env inp.ops []).length = inp.ops.length := by
      suffices H : ∀ (ops : List Operation) (ms : List Nat), (runOps inp.env ops ms).length = ops.length from H _ _
      intro ops
      induction ops with
      | nil => intro ms; rfl
      | cons o rest ih => intro ms; simp [runOps, ih]
    have : (run inp).ops[k]? = none := by
      rw [hrunops, List.getElem?_eq_none_iff, hlen]
      exact List.getElem?_eq_none_iff.mp hk
    simp only [this]
  | some o =>
    have ho : o ∈ inp.ops := List.mem_of_getElem? hk
    obtain ⟨out, mk, hk', hok, _, hmarks, hclass, _, hmono⟩ := runOps_abs inp.env _ _ hfr inp.ops [] [] (fun m => Iff.rfl) hops k o hk
    obtain ⟨n, tn, hn, hr, hmix, habs, _, hgf, hef, hvf, hom⟩ := absOpOK_spec hok
    obtain ⟨hnd, hbm, hdepth⟩ := maOpOK_spec hn hr (hmaops o ho)
    have hcl : out.classes = aClass inp.env (pascal n) tn [] false o.sel := hclass n tn hn hr
    have hM : ∀ m, m ∈ marksAfter ((run inp).ops.take (k + 1)) ↔ m ∈ sentMarks inp.env (pascal n) tn o.sel { marks := mk } := by
      intro m
      rw [hrunops, mem_marksAfter]
      unfold sentMarks
      simp only []
      rw [← hom, ← hmarks m]
      constructor
      · rintro ⟨out', ho', hm'⟩
        exact hmono _ ho' out' rfl m hm'
      · intro hm'
        refine ⟨out, ?_, hm'⟩
        apply List.mem_of_getElem? (i := k)
        rw [List.getElem?_take]
        simp [hk']
    -- the pydantic environment: the operation's classes and the fragments module
    have hpenvcls : (pydEnvOf inp (run inp) out).classes = aClass inp.env (pascal n) tn [] false o.sel ++ fragModule inp.env := by
      rw [pydEnvOf_classes, hunp, hcl]
      congr 1
      have := fragFold inp.env (marksAfter (run inp).ops) (sortStr (inp.env.frags.map (·.name))) [] hfragGen
      rw [List.nil_append] at this
      exact this
    have hhas : ∀ c ∈ aClass inp.env (pascal n) tn [] false o.sel ++ fragModule inp.env,
        (pydEnvOf inp (run inp) out).class? c.name = some c := by
      intro c hc
      unfold Pyd.Env.class?
      cases hf : (pydEnvOf inp (run inp) out).classes.find? (·.name == c.name) with
      | none =>
        have := List.find?_eq_none.mp hf c (by rw [hpenvcls]; exact hc)
        simp at this
      | some d =>
        have hd := List.mem_of_find?_eq_some hf
        have hdn := List.find?_some hf
        rw [hpenvcls] at hd
        rw [eq_of_nodup_names _ hnd c hc d hd (by simpa using hdn)]
    have hFragsIn : C01Mix.FragsIn inp.env (pydEnvOf inp (run inp) out) := by
      intro f hf c hc
      apply hhas
      apply List.mem_append_right
      unfold fragModule
      refine List.mem_flatMap.mpr ⟨f.name, (C01Mix.mem_sortStr' _ _).mpr (List.mem_map.mpr ⟨f, hf, rfl⟩), ?_⟩
      rw [find_self inp.env.frags f hfnd hf]
      exact hc
    have hG : GH inp.env (pydEnvOf inp (run inp) out) (maK inp.env) (fragNeed inp.env (maK inp.env)) :=
      ⟨hfr, envAgrees_of_schemaOK inp.env _ hschema rfl,
        by apply class?_none_of_not_mem; rw [hpenvcls]; exact hbm,
        hFragsIn,
        by show C01Mix.fragDepth inp.env + 1 ≤ (pydEnvOf inp (run inp) out).classes.length + 1; rw [hpenvcls]; exact hdepth,
        fragNeed_spec inp.env _⟩
    -- the fragments are sent as written
    have hfrs : inp.env.frags.map (Marks.applyFrag (marksAfter ((run inp).ops.take (k + 1)))) = inp.env.frags := by
      have hsubk : ∀ m ∈ marksAfter ((run inp).ops.take (k + 1)), m ∈ finalMarks inp.env inp.ops [] :=
        hmarksSub _ (fun r hr => by rw [← hrunops]; exact List.mem_of_mem_take hr)
      have : ∀ f ∈ inp.env.frags, Marks.applyFrag (marksAfter ((run inp).ops.take (k + 1))) f = f := by
        intro f hf
        obtain ⟨_, h2⟩ := hfreeOf _ hsubk f hf
        simp only [Marks.applyFrag, applySels_free _ f.sel h2]
      rw [List.map_congr_left (g := id) this]; simp
    rw [hrunops] at hM hfrs ⊢
    simp only [hk', hcl, aClass, List.head?_cons, hr, hfrs]
    cases hresp : Exec.respOK inp.env.schema inp.env.frags execFuel tn
        (Marks.applyOp (marksAfter ((runOps inp.env inp.ops []).take (k + 1))) o).sel j with
    | false => simp
    | true =>
      obtain ⟨v, hv, he⟩ := abs_roundtrip inp.env _ _ (pascal n) tn o.sid o.sel { marks := mk } habs _ hG
        (fun c hc => hhas c (List.mem_append_left _ hc))
        (marksAfter ((runOps inp.env inp.ops []).take (k + 1))) hM execFuel hef j hresp hj execFuel hvf
      simp only [Bool.not_true, Bool.false_or]
      have : Pyd.validate (pydEnvOf inp (run inp) out) execFuel (.cls (pascal n)) j = .ok v := hv
      rw [this]
      exact he

/-! ### a concrete input in the region

    query Q { node { id ... on User { ...UF } ... on Post { title author { ...UG } } }          # interface position
              me { ...UF pet { __typename id } } }                                             # object position with a mixin
    query R { again: node { ... on Post { author { ...UG pet { id } } } } }
    fragment UF on User { name friends { ...UG } }        fragment UG on User { id }
-/

def maSchema : Schema :=
  { types := [
      { name := "Query", kind := .object,
        fields := [{ name := "node", type := .named "Node" }, { name := "me", type := .named "User" }] },
      { name := "Node", kind := .interface, fields := [{ name := "id", type := .nonNull (.named "ID") }] },
      { name := "User", kind := .object, interfaces := ["Node"],
        fields := [{ name := "id", type := .nonNull (.named "ID") }, { name := "name", type := .named "String" },
                   { name := "friends", type := .nonNull (.list (.nonNull (.named "User"))) },
                   { name := "pet", type := .named "Node" }] },
      { name := "Post", kind := .object, interfaces := ["Node"],
        fields := [{ name := "id", type := .nonNull (.named "ID") }, { name := "title", type := .nonNull (.named "String") },
                   { name := "author", type := .nonNull (.named "User") }] }],
    query := some "Query" }

def maSel : List Selection :=
  [ fl "node" 2 [fl "id", .inline (some "User") [] 3 [.spread "UF" []],
                          .inline (some "Post") [] 5 [fl "title", fl "author" 6 [.spread "UG" []]]],
    fl "me" 11 [.spread "UF" [], fl "pet" 12 [fl "__typename", fl "id"]] ]

def maInp : Input :=
  { env := { schema := maSchema,
             frags := [{ name := "UF", on := "User", sid := 30, sel := [fl "name", fl "friends" 31 [.spread "UG" []]] },
                       { name := "UG", on := "User", sid := 32, sel := [fl "id"] }] },
    ops := [{ kind := .query, name := some "Q", sid := 1, sel := maSel },
            { kind := .query, name := some "R", sid := 20,
              sel := [.field (some "again") "node" [] 21
                [.inline (some "Post") [] 22 [fl "author" 23 [.spread "UG" [], fl "pet" 24 [fl "id"]]]]] }] }

def maResp : J :=
  .obj [("node", .obj [("__typename", .str "User"), ("id", .str "1"), ("name", .null), ("friends", .arr [.obj [("id", .str "2")]])]),
        ("me", .obj [("name", .str "n"), ("friends", .arr []), ("pet", .obj [("__typename", .str "Post"), ("id", .str "3")])])]

/-- non-vacuity: a mixin inside an inline fragment at an interface position (`QNodeUser(UF)`), a mixin at an object position
    below it (`QNodePostAuthor(UG)`), a mixin next to an interface-typed field (`QMe(UF)` with `pet`), a fragment spreading a
    fragment in a sub-selection (`UFFriends(UG)`); the marks accumulate over the two operations; the answer of the first is
    conformant for the document as sent and carries own, inherited and discriminated parts -/
theorem maInp_nonvacuous : ValidInput maInp ∧ MixAbsInput maInp ∧ Supported_01 maInp ∧ nodupKeys maResp = true
    ∧ ((run maInp).ops.map fun r => match r with
        | .ok out => out.classes.map (fun c => (c.name, c.bases))
        | .error _ => []) =
      [[("Q", ["BaseModel"]), ("QNodeNode", ["BaseModel"]), ("QNodePost", ["BaseModel"]), ("QNodePostAuthor", ["UG"]),
        ("QNodeUser", ["UF"]), ("QMe", ["UF"]), ("QMePet", ["BaseModel"])],
       [("R", ["BaseModel"]), ("RAgainNode", ["BaseModel"]), ("RAgainPost", ["BaseModel"]), ("RAgainPostAuthor", ["UG"]),
        ("RAgainPostAuthorPet", ["BaseModel"])]]
    ∧ (fragModule maInp.env).map (fun c => (c.name, c.bases)) = [("UF", ["BaseModel"]), ("UFFriends", ["UG"]), ("UG", ["BaseModel"])]
    ∧ marksAfter ((run maInp).ops.take 1) = [2] ∧ marksAfter ((run maInp).ops.take 2) = [2, 21, 24]
    ∧ Exec.respOK maSchema maInp.env.frags execFuel "Query" (Marks.applySels [2] maSel) maResp = true
    ∧ claimB maInp 0 maResp = true := by decide +kernel

/-! ### … and one in which response keys are reached several times

    query Q { node { id ... on User { id ...UF } } me { ...UF name } }        fragment UF on User { id name }

    `QNodeUser(UF)` declares `typename__`, `id`, `id` and inherits `id`, `name`; `QMe(UF)` declares `name` and inherits `id`, `name`. -/

def maDupSel : List Selection :=
  [ fl "node" 2 [fl "id", .inline (some "User") [] 3 [fl "id", .spread "UF" []]],
    fl "me" 11 [.spread "UF" [], fl "name"] ]

def maDupInp : Input :=
  { env := { schema := maSchema, frags := [{ name := "UF", on := "User", sid := 30, sel := [fl "id", fl "name"] }] },
    ops := [{ kind := .query, name := some "Q", sid := 1, sel := maDupSel }] }

def maDupResp : J :=
  .obj [("node", .obj [("__typename", .str "User"), ("id", .str "1"), ("name", .null)]),
        ("me", .obj [("id", .str "2"), ("name", .str "x")])]

theorem maDupInp_nonvacuous : ValidInput maDupInp ∧ MixAbsInput maDupInp ∧ Supported_01 maDupInp ∧ nodupKeys maDupResp = true
    ∧ ((run maDupInp).ops.map fun r => match r with
        | .ok out => out.classes.map (fun c => (c.name, c.bases, c.fields.map (·.py)))
        | .error _ => []) =
      [[("Q", ["BaseModel"], ["node", "me"]), ("QNodeNode", ["BaseModel"], ["typename__", "id"]),
        ("QNodeUser", ["UF"], ["typename__", "id", "id"]), ("QMe", ["UF"], ["name"])]]
    ∧ Exec.respOK maSchema maDupInp.env.frags execFuel "Query" (Marks.applySels [2] maDupSel) maDupResp = true
    ∧ claimB maDupInp 0 maDupResp = true := by decide +kernel

end Ariadne.C01
