/-
  Proofs/C01Unp.lean — property C01, "unpacked fragments" tier: the main theorems at class level.

  The plain tier (fields of leaf or object type, aliases, `@skip/@include`, any nesting) extended by spreads of NAMED FRAGMENTS
  THAT THE GENERATOR UNPACKS: `...F` in a selection set evaluated on the object type `T`, `F` defined on an INTERFACE `T`
  implements, `F` free of inline fragments; fragments spread fragments (all judged against the same `T`), the fields of a
  fragment may have object-typed sub-selections that spread fragments again, to any depth.

    (1) `unp_generation`: `_parse_type_definition` returns exactly the plain tier's classes of the INLINED document
        (`plainClasses env cn tn (inl env k sel)`: the fields of the fragments are merged into the class of the selection set, base
        class `BaseModel`), adds no mark, and records every fragment met in `_unpacked_fragments` (`reach`);
    (2) `unp_roundtrip`: every answer a conformant executor gives for the document WITH the spreads (it applies the interface
        fragment to the implementing object and collects its selections) is accepted by the class and dumped back.

  Hypothesis `UnpOK env k cn tn sid sel st` (decidable, Proofs/C01UnpDefs.lean): `spreadsOK` — no `@skip/@include` on a spread
  (finding C01-F3), the fragment exists, is on an interface, `schema.is_sub_type(interface, T)` (the generator's test; it
  implies that the executor applies the fragment), no inline fragment in the fragment (such a fragment is unpacked too, but
  its inline fragments are resolved against `T`: outside this tier), the fuel `k` bounds the nesting — and `PlainOK` for the
  inlined document: in particular the response keys / Python names of ALL fields merged into one class are pairwise distinct
  (`me { ...NF id }` with `id` in `NF` is outside the tier), fields exist on `T` itself (the class reads `T`'s field types, as the
  executor does), leaf / object kinds, fresh class names, no marked selection set.
-/
import AriadneModel.Proofs.C01UnpVal

set_option linter.unusedSimpArgs false
set_option linter.unusedVariables false

namespace Ariadne.C01Unp
open Ariadne Ariadne.Gql Ariadne.ResultTypes Ariadne.Util Ariadne.Pyd Ariadne.C01Plain

theorem UnpOK_spec {env : ResultTypes.Env} {k : Nat} {cn tn : String} {sid : Nat} {sel : List Selection} {st : St}
    (h : UnpOK env k cn tn sid sel st = true) :
    spreadsOK env k tn sel = true ∧ PlainOK env cn tn sid (inl env k sel) st = true := by
  simpa [UnpOK] using h

/-- **(1) generation = the plain classes of the inlined document; every fragment met is unpacked** -/
theorem unp_generation (env : ResultTypes.Env) (k : Nat) (cn tn : String) (sid : Nat) (sel : List Selection) (st : St)
    (h : UnpOK env k cn tn sid sel st = true) (tv : List String) (fuel : Nat) (hfuel : 2 * k + 2 ≤ fuel) :
    ∃ st', parseTypeDefinition env fuel cn tn sid sel false [] tv st = .ok (plainClasses env cn tn (inl env k sel), st') ∧
      st'.publicNames = st.publicNames ++ (plainClasses env cn tn (inl env k sel)).map (·.name) ∧ st'.marks = st.marks ∧
      (∀ n ∈ st.unpacked, n ∈ st'.unpacked) ∧ (∀ n ∈ reach env k sel, n ∈ st'.unpacked) := by
  obtain ⟨hsp, hpl⟩ := UnpOK_spec h
  obtain ⟨h1, _, h3, h4, h5⟩ := PlainOK_spec hpl
  exact gen_spec env k fuel cn tn sid sel tv st hfuel h1 hsp h3 h4 h5

/-- **(2) every conformant response is accepted and dumped back** -/
theorem unp_roundtrip (env : ResultTypes.Env) (k : Nat) (cn tn : String) (sid : Nat) (sel : List Selection) (st : St)
    (h : UnpOK env k cn tn sid sel st = true)
    (penv : Pyd.Env) (hp : PenvOK env penv (plainClasses env cn tn (inl env k sel)))
    (efuel : Nat) (hk : k ≤ efuel) (j : J)
    (hresp : Exec.respOK env.schema env.frags efuel tn sel j = true) (hj : nodupKeys j = true)
    (vfuel : Nat) (hv : vneed env tn (inl env k sel) + 1 ≤ vfuel) :
    ∃ v, Pyd.validate penv vfuel (.cls cn) j = .ok v ∧ J.eqv (Pyd.dump v) j = true := by
  obtain ⟨hsp, hpl⟩ := UnpOK_spec h
  obtain ⟨_, h2, h3, _, _⟩ := PlainOK_spec hpl
  exact plain_roundtrip env cn tn sid (inl env k sel) st hpl penv hp env.frags efuel j
    (respOK_inl env st.marks efuel k cn tn sel j hk hsp h2 h3 hresp) hj vfuel hv

/-! ### a concrete input satisfying `UnpOK`

    query Q { me { ...NF name bestFriend { ...NM ...NG } } }
    fragment NF on Node { id ...NG }      fragment NG on Node { rev }      fragment NM on Named { nick }
-/

def uxSchema : Schema :=
  { types := [
      { name := "Query", kind := .object, fields := [{ name := "me", type := .named "User" }] },
      { name := "Node", kind := .interface,
        fields := [{ name := "id", type := .nonNull (.named "ID") }, { name := "rev", type := .named "Int" }] },
      { name := "Named", kind := .interface, fields := [{ name := "nick", type := .named "String" }] },
      { name := "User", kind := .object, interfaces := ["Node", "Named"],
        fields := [{ name := "id", type := .nonNull (.named "ID") }, { name := "rev", type := .named "Int" },
                   { name := "nick", type := .named "String" },
                   { name := "name", type := .named "String" }, { name := "bestFriend", type := .named "User" }] }],
    query := some "Query" }

def uxEnv : ResultTypes.Env :=
  { schema := uxSchema,
    frags := [{ name := "NF", on := "Node", sid := 10, sel := [.field none "id" [] 0 [], .spread "NG" []] },
              { name := "NG", on := "Node", sid := 12, sel := [.field none "rev" [] 0 []] },
              { name := "NM", on := "Named", sid := 11, sel := [.field none "nick" [] 0 []] }] }

def uxSel : List Selection :=
  [.field none "me" [] 2 [.spread "NF" [], .field none "name" [] 0 [],
     .field none "bestFriend" [] 3 [.spread "NM" [], .spread "NG" []]]]

example : UnpOK uxEnv 5 "Q" "Query" 1 uxSel {} = true := by decide +kernel

example : (plainClasses uxEnv "Q" "Query" (inl uxEnv 5 uxSel)).map (fun c => (c.name, c.bases, c.fields.map (·.py))) =
    [("Q", ["BaseModel"], ["me"]), ("QMe", ["BaseModel"], ["id", "rev", "name", "best_friend"]),
     ("QMeBestFriend", ["BaseModel"], ["nick", "rev"])] := by decide +kernel

/-- the model of the generator, computed: the same classes, all three fragments unpacked -/
example :
    (match parseTypeDefinition uxEnv 20 "Q" "Query" 1 uxSel false [] [] {} with
     | .ok (cs, st) => (cs.map (·.name)) == ["Q", "QMe", "QMeBestFriend"] && st.unpacked == ["NF", "NG", "NM"] && st.mixins == []
     | .error _ => false) = true := by decide +kernel

end Ariadne.C01Unp
