/-
  Evaluated facts about the witness of C03-F9 and the non-vacuity input of the constructibility
  theorems (kept out of Properties/C03.lean so that the two files are checked in parallel).
-/
import AriadneModel.Proofs.ArgConstruct

set_option linter.unusedSimpArgs false
set_option linter.unusedVariables false

namespace Ariadne.ArgProofs.F9
open Ariadne Ariadne.Scalars Ariadne.Coerce Ariadne.ArgValues Ariadne.ArgSend Ariadne.PydInit Ariadne.ArgConstruct

/-- C03-F9: `input P { limit: Int! = 10, name: String }` obtained by introspection; the caller sets
    `name` and leaves `limit` to the server-side default -/
def f9Fields : List IField := [⟨"limit", .named "Int" true, some (.num 10 0)⟩, ⟨"name", .named "String" false, none⟩]
def f9Cfg : Cfg := { schema := ⟨[("P", .input f9Fields)]⟩, scalars := [], snake := true }
def f9Defs : List VarDecl := [⟨"p", .nonNull (.named "P"), none⟩]
def f9IDefs : List IField := f9Defs.map (·.toIField)
def f9Inst (limit : AV) : AV :=
  .model "P" [(fieldKeyOf f9Cfg ⟨"limit", .named "Int" true, some (.num 10 0)⟩, limit),
              (fieldKeyOf f9Cfg ⟨"name", .named "String" false, none⟩, .str "n")]

theorem f9_get (n : String) (fs : List IField) (h : f9Cfg.schema.get? n = some (.input fs)) : fs = f9Fields := by
  by_cases e : ("P" == n) = true
  · simp [f9Cfg, ISchema.get?, List.find?, e] at h
    exact h.symm
  · simp [f9Cfg, ISchema.get?, List.find?, e] at h

theorem f9_clean : ClassNamesClean f9Cfg := by
  intro n fs h
  rw [f9_get n fs h]; decide

theorem f9_hyp (fns : UserFns) (hser : ∀ f j, (fns.ser f j).isNull = false) : Hyp f9Cfg fns := by
  refine ⟨?_, by intro n d h; simp [f9Cfg, lookupScalar] at h, hser⟩
  intro n fs h
  rw [f9_get n fs h]; decide

theorem f9_inputTypes : ∀ d ∈ f9Defs, isInputType f9Cfg.schema d.type.base = true := by decide
theorem f9_varNames : (f9Defs.map (·.name)).Nodup := by decide

theorem f9_valid_unset : argsValid f9Cfg f9IDefs [f9Inst .unset] = true := by decide
theorem f9_valid_set : argsValid f9Cfg f9IDefs [f9Inst (.int 3)] = true := by decide
theorem f9_trig_unset : trigDefaultLostIntro .intro f9Cfg [f9Inst .unset] = true := by decide
theorem f9_trig_set : trigDefaultLostIntro .intro f9Cfg [f9Inst (.int 3)] = false := by decide

end Ariadne.ArgProofs.F9
