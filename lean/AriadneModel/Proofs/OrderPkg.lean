/-
  Proofs/OrderPkg.lean — operation imports, plugin import builders and the package composition of C10.
  Core Lean only.
-/
import AriadneModel.Proofs.OrderEmit

set_option linter.unusedSimpArgs false
set_option linter.unusedVariables false

namespace Ariadne.Order
open List Ariadne.Isort

theorem BlockNoTie.of_equiv {s₁ s₂ : List ImportFrom} (eq : BlockEquiv s₁ s₂) (h : BlockNoTie s₁) : BlockNoTie s₂ :=
  fun m => (h m).subset (fun a ha => (eq.2 m a).mpr ha)

theorem BlockEquiv.symm {s₁ s₂ : List ImportFrom} (eq : BlockEquiv s₁ s₂) : BlockEquiv s₂ s₁ :=
  ⟨fun m => (eq.1 m).symm, fun m a => (eq.2 m a).symm⟩

theorem BlockEquiv.trans {s₁ s₂ s₃ : List ImportFrom} (a : BlockEquiv s₁ s₂) (b : BlockEquiv s₂ s₃) : BlockEquiv s₁ s₃ :=
  ⟨fun m => (a.1 m).trans (b.1 m), fun m x => (a.2 m x).trans (b.2 m x)⟩

theorem BlockEquiv.refl (s : List ImportFrom) : BlockEquiv s s := ⟨fun _ => Iff.rfl, fun _ _ => Iff.rfl⟩

/-- replacing the names of one statement by another listing of the same set -/
theorem blockEquiv_mid (A C : List ImportFrom) (l : Nat) (m : String) {n₁ n₂ : List Name} (h : ∀ a, a ∈ n₁ ↔ a ∈ n₂) :
    BlockEquiv (A ++ ⟨l, m, n₁⟩ :: C) (A ++ ⟨l, m, n₂⟩ :: C) := by
  have key : ∀ (n₁ n₂ : List Name), (∀ a, a ∈ n₁ → a ∈ n₂) →
      (∀ mm, mm ∈ (A ++ ⟨l, m, n₁⟩ :: C).map modStr → mm ∈ (A ++ ⟨l, m, n₂⟩ :: C).map modStr) ∧
      (∀ mm a, a ∈ namesOf mm (A ++ ⟨l, m, n₁⟩ :: C) → a ∈ namesOf mm (A ++ ⟨l, m, n₂⟩ :: C)) := by
    intro n₁ n₂ h
    constructor
    · intro mm hmm
      simp only [List.map_append, List.map_cons, List.mem_append, List.mem_cons] at hmm ⊢
      rcases hmm with h1 | h1 | h1
      · exact Or.inl h1
      · exact Or.inr (Or.inl h1)
      · exact Or.inr (Or.inr h1)
    · intro mm a ha
      rw [mem_namesOf] at ha ⊢
      obtain ⟨x, hx, hxm, hxa⟩ := ha
      simp only [List.mem_append, List.mem_cons] at hx
      rcases hx with h1 | rfl | h1
      · exact ⟨x, by simp [h1], hxm, hxa⟩
      · exact ⟨⟨l, m, n₂⟩, by simp, hxm, h a hxa⟩
      · exact ⟨x, by simp [h1], hxm, hxa⟩
  exact ⟨fun mm => ⟨(key n₁ n₂ (fun a => (h a).mp)).1 mm, (key n₂ n₁ (fun a => (h a).mpr)).1 mm⟩,
    fun mm a => ⟨(key n₁ n₂ (fun a => (h a).mp)).2 mm a, (key n₂ n₁ (fun a => (h a).mpr)).2 mm a⟩⟩

/-! ### operation modules -/

theorem opImports_equiv (e₁ e₂ : EnumOracle) (he₁ : EnumOK e₁) (he₂ : EnumOK e₂) (pascal : Name → Name) (fm : String) (g : DefGen) :
    BlockEquiv (opImports e₁ pascal fm g) (opImports e₂ pascal fm g) := by
  unfold opImports
  split
  · exact BlockEquiv.refl _
  · apply blockEquiv_mid g.imports [] 1 fm
    intro a
    simp only [List.mem_map]
    constructor
    · rintro ⟨f, hf, rfl⟩; exact ⟨f, (he₂ _).mem_iff.mpr ((he₁ _).mem_iff.mp hf), rfl⟩
    · rintro ⟨f, hf, rfl⟩; exact ⟨f, (he₁ _).mem_iff.mpr ((he₂ _).mem_iff.mp hf), rfl⟩

theorem enumOK_id : EnumOK id := fun s => Perm.refl s

/-! ### __init__.py -/

theorem initAdd_equiv (before after : List ImportFrom) (fm : String) {n₁ n₂ : List Name} (p : n₁.Perm n₂) :
    BlockEquiv (initAdd before n₁ fm ++ after) (initAdd before n₂ fm ++ after) := by
  unfold initAdd
  have he : n₁.isEmpty = n₂.isEmpty := by
    cases n₁ with
    | nil => simp [p.symm.eq_nil] 
    | cons a as =>
      cases n₂ with
      | nil => exact absurd p.eq_nil (by simp)
      | cons b bs => rfl
  rw [he]
  split
  · exact BlockEquiv.refl _
  · simp only [List.append_assoc, List.singleton_append]
    exact blockEquiv_mid before after 1 fm (fun _ => p.mem_iff)

theorem initAll_eq (before after : List ImportFrom) (fm : String) {n₁ n₂ : List Name} (p : n₁.Perm n₂) :
    initAll (initAdd before n₁ fm ++ after) = initAll (initAdd before n₂ fm ++ after) := by
  unfold initAll initAdd
  have he : n₁.isEmpty = n₂.isEmpty := by
    cases n₁ with
    | nil => simp [p.symm.eq_nil]
    | cons a as =>
      cases n₂ with
      | nil => exact absurd p.eq_nil (by simp)
      | cons b bs => rfl
  rw [he]
  split
  · rfl
  · apply pySorted_eq_of_perm
    simp only [List.flatMap_append, List.flatMap_cons, List.flatMap_nil, List.append_nil]
    exact (Perm.append_left _ p).append_right _

/-! ### the package -/

def OptRel {α : Type} (R : α → α → Prop) : Option α → Option α → Prop
  | some a, some b => R a b
  | none, none => True
  | _, _ => False

theorem packageFrag_rel (e₁ e₂ : EnumOracle) (he₁ : EnumOK e₁) (he₂ : EnumOK e₂) (x : PkgIn) :
    ExceptRel (OptRel FragOutEquiv) (packageFrag e₁ x) (packageFrag e₂ x) := by
  have hex : ∀ a, a ∈ e₁ (x.ops.flatMap (·.unpacked)) ↔ a ∈ e₂ (x.ops.flatMap (·.unpacked)) :=
    fun a => ((he₁ _).mem_iff).trans ((he₂ _).mem_iff).symm
  unfold packageFrag
  simp only
  rw [filter_contains_congr hex]
  split
  · simp [ExceptRel, OptRel]
  · have rel := generateFragments_rel e₁ e₂ he₁ he₂ x.defs hex
    revert rel
    cases generateFragments e₁ x.defs (e₁ (x.ops.flatMap (·.unpacked))) <;>
      cases generateFragments e₂ x.defs (e₂ (x.ops.flatMap (·.unpacked))) <;>
      simp [ExceptRel, OptRel, Except.map]

end Ariadne.Order

namespace Ariadne.Order
open List Ariadne.Isort

theorem generateFromGens_ok_shape {e : EnumOracle} {names : List Name} {gens : List (Name × DefGen)} {o : FragOut}
    (h : generateFromGens e names gens = .ok o) :
    o.module.imports = gens.flatMap (·.2.imports) ∧ o.publicNames = gens.flatMap (·.2.publicNames) := by
  unfold generateFromGens at h
  simp only [bind, Except.bind] at h
  split at h
  · cases h
  · split at h
    · cases h
    · split at h
      · cases h
      · simp only [pure, Except.pure, Except.ok.injEq] at h
        subst h
        exact ⟨rfl, rfl⟩

theorem generateFragments_ok_shape {e : EnumOracle} (he : EnumOK e) {defs : List (Name × DefGen)} {ex : List Name} {o : FragOut}
    (h : generateFragments e defs ex = .ok o) :
    o.module.imports.Perm ((liveGens defs ex).flatMap (·.2.imports)) ∧ o.publicNames.Perm ((liveGens defs ex).flatMap (·.2.publicNames)) := by
  unfold generateFragments at h
  simp only [bind, Except.bind] at h
  rw [fragGens_eq defs _ (filter_subset_keys defs ex e he)] at h
  simp only at h
  obtain ⟨h1, h2⟩ := generateFromGens_ok_shape h
  rw [h1, h2]
  exact ⟨(loopGens_perm_live e he defs ex).flatMap_right _, (loopGens_perm_live e he defs ex).flatMap_right _⟩

theorem liveGens_congr (defs : List (Name × DefGen)) {ex₁ ex₂ : List Name} (h : ∀ a, a ∈ ex₁ ↔ a ∈ ex₂) :
    liveGens defs ex₁ = liveGens defs ex₂ := by
  unfold liveGens; rw [filter_contains_congr h]

def fragPublic (f : Option FragOut) : List Name := match f with | some o => o.publicNames | none => []
def fragEnums (f : Option FragOut) : List Name := match f with | some o => o.usedEnums | none => []

theorem fmtPkg_rawOf_eq (keep : Name → Bool) (e₁ e₂ : EnumOracle) (he₁ : EnumOK e₁) (he₂ : EnumOK e₂) (x : PkgIn)
    {f₁ f₂ : Option FragOut} (hf : OptRel FragOutEquiv f₁ f₂)
    (nops : ∀ o, o ∈ x.ops → BlockNoTie (opImports e₁ x.pascal x.fragmentsModule o.gen))
    (nfrag : ∀ o, f₁ = some o → BlockNoTie o.module.imports)
    (ninit : BlockNoTie (initAdd x.initBefore (fragPublic f₁) x.fragmentsModule ++ x.initAfter)) :
    fmtPkg keep (packageRawOf e₁ x f₁) = fmtPkg keep (packageRawOf e₂ x f₂) := by
  have hpub : (fragPublic f₁).Perm (fragPublic f₂) := by
    cases f₁ <;> cases f₂ <;> simp [OptRel, fragPublic] at hf ⊢
    exact hf.2.2.2.1
  have henum : (fragEnums f₁).Perm (fragEnums f₂) := by
    cases f₁ <;> cases f₂ <;> simp [OptRel, fragEnums] at hf ⊢
    exact hf.2.2.2.2
  have hops : x.ops.map (fun o => (o.module, summary keep (opImports e₁ x.pascal x.fragmentsModule o.gen)))
      = x.ops.map (fun o => (o.module, summary keep (opImports e₂ x.pascal x.fragmentsModule o.gen))) := by
    apply List.map_congr_left
    intro o ho
    rw [summary_eq_of_equiv keep (opImports_equiv e₁ e₂ he₁ he₂ _ _ _) (nops o ho)]
  have hfr : f₁.map (fun o => (summary keep o.module.imports, o.module.classes, o.module.rebuilds))
      = f₂.map (fun o => (summary keep o.module.imports, o.module.classes, o.module.rebuilds)) := by
    cases h1 : f₁ <;> cases h2 : f₂ <;> simp [OptRel, h1, h2] at hf ⊢
    obtain ⟨hi, hc, hr, _, _⟩ := hf
    exact ⟨summary_eq_of_equiv keep (BlockEquiv.of_perm hi) (nfrag _ h1), hc, hr⟩
  have henums : filterEnums x.schemaEnums (if x.includeAllEnums then none else some (x.otherUsedEnums ++ fragEnums f₁))
      = filterEnums x.schemaEnums (if x.includeAllEnums then none else some (x.otherUsedEnums ++ fragEnums f₂)) := by
    split
    · rfl
    · exact filterEnums_eq_of_mem _ (fun a => (Perm.append_left _ henum).mem_iff)
  have hinit := summary_eq_of_equiv (fun _ => true) (initAdd_equiv x.initBefore x.initAfter x.fragmentsModule hpub) ninit
  have hall := initAll_eq x.initBefore x.initAfter x.fragmentsModule hpub
  simp only [fmtPkg, packageRawOf, List.map_map, Function.comp_def]
  change ({ opModules := x.ops.map (fun o => (o.module, summary keep (opImports e₁ x.pascal x.fragmentsModule o.gen))),
            fragments := f₁.map (fun o => (summary keep o.module.imports, o.module.classes, o.module.rebuilds)),
            enums := filterEnums x.schemaEnums (if x.includeAllEnums then none else some (x.otherUsedEnums ++ fragEnums f₁)),
            init := summary (fun _ => true) (initAdd x.initBefore (fragPublic f₁) x.fragmentsModule ++ x.initAfter),
            all := initAll (initAdd x.initBefore (fragPublic f₁) x.fragmentsModule ++ x.initAfter) } : PkgIR) = _
  rw [hops, hfr, henums, hinit, hall]
  rfl

/-- the package as a whole: no emitted order depends on set iteration, unless isort keys tie -/
theorem emitPackage_independent (keep : Name → Bool) (e₁ e₂ : EnumOracle) (he₁ : EnumOK e₁) (he₂ : EnumOK e₂) (x : PkgIn)
    (ht : trigIsortTie x = false) : emitPackage keep e₁ x = emitPackage keep e₂ x := by
  simp only [trigIsortTie, Bool.or_eq_false_iff, List.any_eq_false] at ht
  obtain ⟨⟨t1, t2⟩, t3⟩ := ht
  have hU : ∀ a, a ∈ e₁ (x.ops.flatMap (·.unpacked)) ↔ a ∈ x.ops.flatMap (·.unpacked) := fun a => (he₁ _).mem_iff
  have nops : ∀ o, o ∈ x.ops → BlockNoTie (opImports e₁ x.pascal x.fragmentsModule o.gen) := by
    intro o ho
    apply BlockNoTie.of_equiv (opImports_equiv id e₁ enumOK_id he₁ _ _ _)
    exact blockNoTie_of_summaryTie_false (by simpa using t1 o ho)
  have rel := packageFrag_rel e₁ e₂ he₁ he₂ x
  unfold emitPackage packageRaw
  cases h1 : packageFrag e₁ x with
  | error err₁ =>
    cases h2 : packageFrag e₂ x with
    | error err₂ => rw [h1, h2] at rel; simp [ExceptRel] at rel; simp [Except.map, rel]
    | ok f₂ => rw [h1, h2] at rel; simp [ExceptRel] at rel
  | ok f₁ =>
    cases h2 : packageFrag e₂ x with
    | error err₂ => rw [h1, h2] at rel; simp [ExceptRel] at rel
    | ok f₂ =>
      rw [h1, h2] at rel
      simp only [ExceptRel] at rel
      simp only [Except.map]
      congr 1
      -- shape of the fragments module the first oracle produced
      have shape : ∀ o, f₁ = some o → o.module.imports.Perm ((liveGens x.defs (x.ops.flatMap (·.unpacked))).flatMap (·.2.imports))
          ∧ o.publicNames.Perm ((liveGens x.defs (x.ops.flatMap (·.unpacked))).flatMap (·.2.publicNames)) := by
        intro o ho
        subst ho
        unfold packageFrag at h1
        simp only at h1
        split at h1
        · cases h1
        · cases hg : generateFragments e₁ x.defs (e₁ (x.ops.flatMap (·.unpacked))) with
          | error err => rw [hg] at h1; cases h1
          | ok o' =>
            rw [hg] at h1
            simp [Except.map] at h1
            subst h1
            rw [← liveGens_congr x.defs hU]
            exact generateFragments_ok_shape he₁ hg
      apply fmtPkg_rawOf_eq keep e₁ e₂ he₁ he₂ x rel nops
      · intro o ho
        exact BlockNoTie.of_equiv (BlockEquiv.of_perm (shape o ho).1.symm) (blockNoTie_of_summaryTie_false (by simpa using t2))
      · have base := blockNoTie_of_summaryTie_false (s := initAdd x.initBefore
            ((liveGens x.defs (x.ops.flatMap (·.unpacked))).flatMap (·.2.publicNames)) x.fragmentsModule ++ x.initAfter) (by simpa using t3)
        cases hf1 : f₁ with
        | some o =>
          exact BlockNoTie.of_equiv (initAdd_equiv _ _ _ (shape o hf1).2.symm) base
        | none =>
          -- no fragments module: `live` is empty, so the canonical listing contributes no name either
          have hl : liveGens x.defs (x.ops.flatMap (·.unpacked)) = [] := by
            unfold packageFrag at h1
            simp only at h1
            split at h1
            · rename_i hemp
              rw [← liveGens_congr x.defs hU]
              simp only [liveGens]
              rw [List.isEmpty_iff.mp hemp]; rfl
            · cases hg : generateFragments e₁ x.defs (e₁ (x.ops.flatMap (·.unpacked))) with
              | error err => rw [hg] at h1; cases h1
              | ok o' => rw [hg] at h1; simp [Except.map, hf1] at h1
          simpa [hl, fragPublic] using base

end Ariadne.Order
