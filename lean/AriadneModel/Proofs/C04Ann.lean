/-
  Proofs/C04Ann.lean — what the annotation `parse_operation_field` builds mentions: names of `typing` / `pydantic`,
  Python's simple types, the enums and custom scalars it reports through the `FieldContext`, and — quoted — exactly the
  classes it reports as `related_classes`.  For every type, wrapper nesting, selection set and schema.
-/
import AriadneModel.Model.Package
import AriadneModel.Proofs.C08Classes

set_option linter.unusedSimpArgs false
set_option linter.unusedVariables false

namespace Ariadne.ResultTypes
open Ariadne Ariadne.Gql Ariadne.Util Ariadne.Package

/-- names every result module imports from `typing` / `pydantic`, and the builtins of `SIMPLE_TYPE_MAP` -/
def fixedNames : List String :=
  ["Optional", "Union", "Any", "List", "Literal", "Annotated", "Field", "BeforeValidator", "str", "int", "float", "bool"]

/-- a name an annotation evaluates, relative to what the field context reports -/
def NameIn (env : Env) (enums scalars : List String) (u : String) : Prop :=
  u ∈ fixedNames ∨ u ∈ enums ∨ ∃ n sc, n ∈ scalars ∧ scalarCfg? env n = some sc ∧ (u = sc.typeName ∨ sc.parseName = some u)

theorem NameIn.mono {env : Env} {e e' s s' : List String} (he : ∀ x ∈ e, x ∈ e') (hs : ∀ x ∈ s, x ∈ s') {u : String}
    (h : NameIn env e s u) : NameIn env e' s' u := by
  rcases h with h | h | ⟨n, sc, hn, hsc, hu⟩
  · exact Or.inl h
  · exact Or.inr (Or.inl (he u h))
  · exact Or.inr (Or.inr ⟨n, sc, hs n hn, hsc, hu⟩)

theorem annsUses_map_cls (ns : List String) : annsUses (ns.map Ann.cls) = [] := by
  induction ns with
  | nil => rfl
  | cons a rest ih => simp [annsUses, annUses, ih]

theorem annsFwd_map_cls (ns : List String) : annsFwd (ns.map Ann.cls) = ns := by
  induction ns with
  | nil => rfl
  | cons a rest ih => simp [annsFwd, annFwd, ih]

theorem annUses_optionalIf (b : Bool) (a : Ann) {u : String} (h : u ∈ annUses (optionalIf b a)) : u = "Optional" ∨ u ∈ annUses a := by
  cases b with
  | false => exact Or.inr h
  | true =>
    simp only [optionalIf, if_true, annUses, List.mem_cons] at h
    exact h

theorem annFwd_optionalIf (b : Bool) (a : Ann) : annFwd (optionalIf b a) = annFwd a := by
  cases b <;> rfl

theorem simpleTypes_fixed : ∀ v ∈ Tables.simpleTypeMap.map (·.2), v ∈ fixedNames := by decide

theorem lookupStr_values : ∀ (l : List (String × String)) (k v : String), lookupStr k l = some v → v ∈ l.map (·.2)
  | [], _, _, h => by simp [lookupStr] at h
  | (a, b) :: rest, k, v, h => by
    simp only [lookupStr] at h
    split at h
    · simp only [Option.some.injEq] at h; simp [h]
    · exact List.mem_cons_of_mem _ (lookupStr_values rest k v h)

/-- what `parse_operation_field_type` guarantees about the annotation and the context -/
structure TypeSpec (env : Env) (ctx ctx' : Ctx) (a : Ann) : Prop where
  enumsMono : ∀ x ∈ ctx.enums, x ∈ ctx'.enums
  scalarsMono : ∀ x ∈ ctx.customScalars, x ∈ ctx'.customScalars
  relatedMono : ∀ x ∈ ctx.related, x ∈ ctx'.related
  enumsKind : ∀ x ∈ ctx'.enums, x ∈ ctx.enums ∨ env.schema.kindOf? x = some .enum
  scalarsCfg : ∀ x ∈ ctx'.customScalars, x ∈ ctx.customScalars ∨ (scalarCfg? env x).isSome = true
  uses : ∀ u ∈ annUses a, NameIn env ctx'.enums ctx'.customScalars u
  fwd : ∀ x ∈ annFwd a, x ∈ ctx'.related.map (·.1)

theorem parseType_spec (env : Env) (fuel : Nat) (sel : List Selection) :
    ∀ (t : TypeRef) (nullable : Bool) (cn : String) (add : Bool) (ctx : Ctx) (a : Ann) (ctx' : Ctx),
      parseType env fuel sel t nullable cn add ctx = .ok (a, ctx') → TypeSpec env ctx ctx' a
  | .nonNull t, _, cn, _, ctx, a, ctx', h => by
    simp only [parseType] at h
    exact parseType_spec env fuel sel t false cn false ctx a ctx' h
  | .list t, nullable, cn, _, ctx, a, ctx', h => by
    simp only [parseType] at h
    cases hr : parseType env fuel sel t true cn false ctx with
    | error e => rw [hr] at h; simp [bind, Except.bind] at h
    | ok r =>
      obtain ⟨inner, c1⟩ := r
      rw [hr] at h
      simp only [bind, Except.bind, pure, Except.pure, Except.ok.injEq, Prod.mk.injEq] at h
      obtain ⟨rfl, rfl⟩ := h
      have sp := parseType_spec env fuel sel t true cn false ctx inner c1 hr
      refine ⟨sp.enumsMono, sp.scalarsMono, sp.relatedMono, sp.enumsKind, sp.scalarsCfg, ?_, ?_⟩
      · intro u hu
        rcases annUses_optionalIf _ _ hu with rfl | hu
        · exact Or.inl (by decide)
        · simp only [annUses, List.mem_cons] at hu
          rcases hu with rfl | hu
          · exact Or.inl (by decide)
          · exact sp.uses u hu
      · intro x hx
        rw [annFwd_optionalIf] at hx
        exact sp.fwd x (by simpa [annFwd] using hx)
  | .named n, nullable, cn, addTypeName, ctx, a, ctx', h => by
    simp only [parseType] at h
    -- the two class-producing shapes
    have single : ∀ (name : String), a = optionalIf nullable (.cls name) → ctx' = { ctx with related := ctx.related ++ [(name, n)] } →
        TypeSpec env ctx ctx' a := by
      intro name ha hc
      subst ha hc
      refine ⟨fun _ h => h, fun _ h => h, fun x h => List.mem_append_left _ h, fun x h => Or.inl h, fun x h => Or.inl h, ?_, ?_⟩
      · intro u hu
        rcases annUses_optionalIf _ _ hu with rfl | hu
        · exact Or.inl (by decide)
        · simp [annUses] at hu
      · intro x hx
        rw [annFwd_optionalIf] at hx
        have : x = name := by simpa [annFwd] using hx
        subst this
        simp
    cases hk : env.schema.kindOf? n with
    | none =>
      rw [hk] at h
      simp only at h
      -- scalars
      cases hl : lookupStr n Tables.simpleTypeMap with
      | some py =>
        rw [hl] at h
        simp only [pure, Except.pure, Except.ok.injEq, Prod.mk.injEq] at h
        obtain ⟨rfl, rfl⟩ := h
        refine ⟨fun _ h => h, fun _ h => h, fun _ h => h, fun x h => Or.inl h, fun x h => Or.inl h, ?_, ?_⟩
        · intro u hu
          rcases annUses_optionalIf _ _ hu with rfl | hu
          · exact Or.inl (by decide)
          · have : u = py := by simpa [annUses] using hu
            subst this
            exact Or.inl (simpleTypes_fixed _ (lookupStr_values _ _ _ hl))
        · intro x hx
          rw [annFwd_optionalIf] at hx
          simp [annFwd] at hx
      | none =>
        rw [hl] at h
        simp only at h
        cases hs : scalarCfg? env n with
        | none =>
          rw [hs] at h
          simp only [pure, Except.pure, Except.ok.injEq, Prod.mk.injEq] at h
          obtain ⟨rfl, rfl⟩ := h
          refine ⟨fun _ h => h, fun _ h => h, fun _ h => h, fun x h => Or.inl h, fun x h => Or.inl h, ?_, ?_⟩
          · intro u hu
            rcases annUses_optionalIf _ _ hu with rfl | hu
            · exact Or.inl (by decide)
            · have : u = "Any" := by simpa [annUses] using hu
              subst this
              exact Or.inl (by decide)
          · intro x hx
            rw [annFwd_optionalIf] at hx
            simp [annFwd] at hx
        | some sc =>
          rw [hs] at h
          simp only [pure, Except.pure, Except.ok.injEq, Prod.mk.injEq] at h
          obtain ⟨rfl, rfl⟩ := h
          refine ⟨fun _ h => h, fun x h => List.mem_append_left _ h, fun _ h => h, fun x h => Or.inl h, ?_, ?_, ?_⟩
          · intro x hx
            simp only [List.mem_append, List.mem_singleton] at hx
            rcases hx with hx | rfl
            · exact Or.inl hx
            · exact Or.inr (by simp [hs])
          · intro u hu
            rcases annUses_optionalIf _ _ hu with rfl | hu
            · exact Or.inl (by decide)
            · cases hp : sc.parseName with
              | none =>
                rw [hp] at hu
                have : u = sc.typeName := by simpa [annUses] using hu
                exact Or.inr (Or.inr ⟨n, sc, by simp, hs, Or.inl this⟩)
              | some p =>
                rw [hp] at hu
                simp only [annUses, List.mem_cons, List.mem_nil_iff, or_false] at hu
                rcases hu with rfl | rfl | rfl | rfl
                · exact Or.inl (by decide)
                · exact Or.inl (by decide)
                · exact Or.inr (Or.inr ⟨n, sc, by simp, hs, Or.inl rfl⟩)
                · exact Or.inr (Or.inr ⟨n, sc, by simp, hs, Or.inr hp⟩)
          · intro x hx
            rw [annFwd_optionalIf] at hx
            cases hp : sc.parseName with
            | none => rw [hp] at hx; simp [annFwd] at hx
            | some p => rw [hp] at hx; simp [annFwd] at hx
    | some k =>
      rw [hk] at h
      cases k with
      | object =>
        simp only [pure, Except.pure, Except.ok.injEq, Prod.mk.injEq] at h
        exact single _ h.1.symm h.2.symm
      | interface =>
        simp only at h
        cases hi : inlineFragmentConds env.frags fuel sel with
        | error e => rw [hi] at h; simp [bind, Except.bind] at h
        | ok inl =>
          rw [hi] at h
          simp only [bind, Except.bind] at h
          cases hsu : fragmentsOnSubtype env sel n with
          | error e => rw [hsu] at h; simp at h
          | ok subs =>
            rw [hsu] at h
            simp only at h
            split at h
            · split at h
              · cases h
              · simp only [pure, Except.pure, Except.ok.injEq, Prod.mk.injEq] at h
                obtain ⟨rfl, rfl⟩ := h
                refine ⟨fun _ h => h, fun _ h => h, fun x h => List.mem_append_left _ h, fun x h => Or.inl h, fun x h => Or.inl h, ?_, ?_⟩
                · intro u hu
                  rcases annUses_optionalIf _ _ hu with rfl | hu
                  · exact Or.inl (by decide)
                  · simp only [annUses, annsUses_map_cls, List.mem_cons, List.mem_nil_iff, or_false] at hu
                    subst hu
                    exact Or.inl (by decide)
                · intro x hx
                  rw [annFwd_optionalIf] at hx
                  simp only [annFwd, annsFwd_map_cls] at hx
                  simp only [List.map_append, List.map_cons, List.map_map, List.mem_append, List.mem_cons]
                  refine Or.inr ?_
                  rcases List.mem_cons.mp hx with rfl | hx
                  · exact Or.inl rfl
                  · refine Or.inr ?_
                    simpa [Function.comp] using hx
            · simp only [pure, Except.pure, Except.ok.injEq, Prod.mk.injEq] at h
              obtain ⟨rfl, rfl⟩ := h
              refine ⟨fun _ h => h, fun _ h => h, fun x h => List.mem_append_left _ h, fun x h => Or.inl h, fun x h => Or.inl h, ?_, ?_⟩
              · intro u hu
                rcases annUses_optionalIf _ _ hu with rfl | hu
                · exact Or.inl (by decide)
                · simp [annUses] at hu
              · intro x hx
                rw [annFwd_optionalIf] at hx
                have : x = (if addTypeName then cn ++ n else cn) := by simpa [annFwd] using hx
                subst this
                simp
      | «enum» =>
        simp only [pure, Except.pure, Except.ok.injEq, Prod.mk.injEq] at h
        obtain ⟨rfl, rfl⟩ := h
        refine ⟨fun x h => List.mem_append_left _ h, fun _ h => h, fun _ h => h, ?_, fun x h => Or.inl h, ?_, ?_⟩
        · intro x hx
          simp only [List.mem_append, List.mem_singleton] at hx
          rcases hx with hx | rfl
          · exact Or.inl hx
          · exact Or.inr hk
        · intro u hu
          rcases annUses_optionalIf _ _ hu with rfl | hu
          · exact Or.inl (by decide)
          · have : u = n := by simpa [annUses] using hu
            subst this
            exact Or.inr (Or.inl (by simp))
        · intro x hx
          rw [annFwd_optionalIf] at hx
          simp [annFwd] at hx
      | union =>
        simp only [pure, Except.pure, Except.ok.injEq, Prod.mk.injEq] at h
        obtain ⟨rfl, rfl⟩ := h
        refine ⟨fun _ h => h, fun _ h => h, fun x h => List.mem_append_left _ h, fun x h => Or.inl h, fun x h => Or.inl h, ?_, ?_⟩
        · intro u hu
          rcases annUses_optionalIf _ _ hu with rfl | hu
          · exact Or.inl (by decide)
          · have e : (List.map (fun m => Ann.cls (cn ++ m)) ((env.schema.get? n).map (·.members) |>.getD [])) =
                (((env.schema.get? n).map (·.members) |>.getD []).map (cn ++ ·)).map Ann.cls := by simp [Function.comp]
            simp only [annUses, e, annsUses_map_cls, List.mem_cons, List.mem_nil_iff, or_false] at hu
            subst hu
            exact Or.inl (by decide)
        · intro x hx
          rw [annFwd_optionalIf] at hx
          have e : (List.map (fun m => Ann.cls (cn ++ m)) ((env.schema.get? n).map (·.members) |>.getD [])) =
              (((env.schema.get? n).map (·.members) |>.getD []).map (cn ++ ·)).map Ann.cls := by simp [Function.comp]
          simp only [annFwd, e, annsFwd_map_cls] at hx
          simp only [List.map_append, List.map_map, List.mem_append]
          refine Or.inr ?_
          simpa [Function.comp] using hx
      | input => simp at h
      | scalar =>
        simp only at h
        -- a scalar listed in the schema: same as an unlisted one
        cases hl : lookupStr n Tables.simpleTypeMap with
        | some py =>
          rw [hl] at h
          simp only [pure, Except.pure, Except.ok.injEq, Prod.mk.injEq] at h
          obtain ⟨rfl, rfl⟩ := h
          refine ⟨fun _ h => h, fun _ h => h, fun _ h => h, fun x h => Or.inl h, fun x h => Or.inl h, ?_, ?_⟩
          · intro u hu
            rcases annUses_optionalIf _ _ hu with rfl | hu
            · exact Or.inl (by decide)
            · have : u = py := by simpa [annUses] using hu
              subst this
              exact Or.inl (simpleTypes_fixed _ (lookupStr_values _ _ _ hl))
          · intro x hx
            rw [annFwd_optionalIf] at hx
            simp [annFwd] at hx
        | none =>
          rw [hl] at h
          simp only at h
          cases hs : scalarCfg? env n with
          | none =>
            rw [hs] at h
            simp only [pure, Except.pure, Except.ok.injEq, Prod.mk.injEq] at h
            obtain ⟨rfl, rfl⟩ := h
            refine ⟨fun _ h => h, fun _ h => h, fun _ h => h, fun x h => Or.inl h, fun x h => Or.inl h, ?_, ?_⟩
            · intro u hu
              rcases annUses_optionalIf _ _ hu with rfl | hu
              · exact Or.inl (by decide)
              · have : u = "Any" := by simpa [annUses] using hu
                subst this
                exact Or.inl (by decide)
            · intro x hx
              rw [annFwd_optionalIf] at hx
              simp [annFwd] at hx
          | some sc =>
            rw [hs] at h
            simp only [pure, Except.pure, Except.ok.injEq, Prod.mk.injEq] at h
            obtain ⟨rfl, rfl⟩ := h
            refine ⟨fun _ h => h, fun x h => List.mem_append_left _ h, fun _ h => h, fun x h => Or.inl h, ?_, ?_, ?_⟩
            · intro x hx
              simp only [List.mem_append, List.mem_singleton] at hx
              rcases hx with hx | rfl
              · exact Or.inl hx
              · exact Or.inr (by simp [hs])
            · intro u hu
              rcases annUses_optionalIf _ _ hu with rfl | hu
              · exact Or.inl (by decide)
              · cases hp : sc.parseName with
                | none =>
                  rw [hp] at hu
                  have : u = sc.typeName := by simpa [annUses] using hu
                  exact Or.inr (Or.inr ⟨n, sc, by simp, hs, Or.inl this⟩)
                | some p =>
                  rw [hp] at hu
                  simp only [annUses, List.mem_cons, List.mem_nil_iff, or_false] at hu
                  rcases hu with rfl | rfl | rfl | rfl
                  · exact Or.inl (by decide)
                  · exact Or.inl (by decide)
                  · exact Or.inr (Or.inr ⟨n, sc, by simp, hs, Or.inl rfl⟩)
                  · exact Or.inr (Or.inr ⟨n, sc, by simp, hs, Or.inr hp⟩)
            · intro x hx
              rw [annFwd_optionalIf] at hx
              cases hp : sc.parseName with
              | none => rw [hp] at hx; simp [annFwd] at hx
              | some p => rw [hp] at hx; simp [annFwd] at hx

end Ariadne.ResultTypes
