/-
  Proofs/C04Bound.lean — generic lemmas about the per-module parts of `Spec.PyScope`:
    * which names a module binds before its first class statement (`preBound`): an imported name survives autoflake's
      pruning whenever the module mentions it;
    * `importsResolve` from "every import the generator wrote resolves" (`Resolves`);
    * `classesLoad` from "every base / evaluated name is a builtin, bound before the first class, or the name of an
      earlier class".
-/
import AriadneModel.Model.Package
import AriadneModel.Model.PackageTriggers
import AriadneModel.Spec.PyScope

set_option linter.unusedSimpArgs false
set_option linter.unusedVariables false

namespace Ariadne.C04Proofs
open Ariadne Ariadne.Util Ariadne.Package Ariadne.PackageTriggers Ariadne.Spec.PyScope

theorem normImport_names (i : Import) : (normImport i).names = i.names := rfl

/-! ### autoflake keeps what the module mentions -/

/-- the names autoflake will not remove from an import statement -/
def keptNames (m : ModuleIR) : List String := m.usedNames ++ m.classes.map (·.name) ++ m.funcs

theorem mem_effective_of_kept {m : ModuleIR} {i : Import} {n : String} (hi : i ∈ m.imports) (hn : n ∈ i.names)
    (hk : m.prune = true → n ∈ keptNames m) : n ∈ importedNames m.effectiveImports := by
  unfold ModuleIR.effectiveImports
  simp only
  split
  · rename_i hp
    have hk' := hk hp
    unfold importedNames
    refine List.mem_flatMap.mpr ⟨{ normImport i with names := (normImport i).names.filter (keptNames m).contains }, ?_, ?_⟩
    · refine List.mem_filter.mpr ⟨List.mem_map.mpr ⟨normImport i, List.mem_map.mpr ⟨i, hi, rfl⟩, rfl⟩, ?_⟩
      have : n ∈ (normImport i).names.filter (keptNames m).contains :=
        List.mem_filter.mpr ⟨hn, by simpa using hk'⟩
      cases hl : (normImport i).names.filter (keptNames m).contains with
      | nil => rw [hl] at this; cases this
      | cons a l => simp
    · exact List.mem_filter.mpr ⟨hn, by simpa using hk'⟩
  · unfold importedNames
    exact List.mem_flatMap.mpr ⟨normImport i, List.mem_map.mpr ⟨i, hi, rfl⟩, hn⟩

/-- a name is usable when a class statement / a method `def` executes -/
def BoundIn (m : ModuleIR) (u : String) : Prop := builtins.contains u = true ∨ u ∈ preBound m

theorem boundIn_of_import {m : ModuleIR} {i : Import} {u : String} (hi : i ∈ m.imports) (hn : u ∈ i.names)
    (hk : u ∈ m.usedNames) : BoundIn m u := by
  refine Or.inr (List.mem_append_left _ (mem_effective_of_kept hi hn fun _ => ?_))
  exact List.mem_append_left _ (List.mem_append_left _ hk)

theorem mem_usedNames_class {m : ModuleIR} {c : ClassIR} {u : String} (hc : c ∈ m.classes)
    (hu : u ∈ c.bases ++ c.uses ++ c.fwd ++ c.lazy) : u ∈ m.usedNames := by
  unfold ModuleIR.usedNames
  exact List.mem_append_left _ (List.mem_append_left _ (List.mem_flatMap.mpr ⟨c, hc, hu⟩))

theorem mem_usedNames_method {m : ModuleIR} {f : MethodIR} {u : String} (hf : f ∈ m.methods) (hu : u ∈ f.uses) : u ∈ m.usedNames := by
  unfold ModuleIR.usedNames
  exact List.mem_append_left _ (List.mem_append_right _ (List.mem_flatMap.mpr ⟨f, hf, hu⟩))

theorem boundIn_func {m : ModuleIR} {u : String} (h : u ∈ m.funcs) : BoundIn m u := Or.inr (List.mem_append_right _ h)

theorem boundIn_builtin {m : ModuleIR} {u : String} (h : builtins.contains u = true) : BoundIn m u := Or.inl h

/-! ### `importsResolve` -/

/-- an import as the generator wrote it (dots normalised) can be executed: absolute, or relative with one dot, naming a
    module of the package that defines every listed name (a user file: contents unknown) -/
def Resolves (p : PackageIR) (j : Import) : Prop :=
  j.level = 0 ∨ (j.level = 1 ∧ ∃ m', findModule p j.module = some m' ∧ ∀ ns, exported m' = some ns → ∀ n ∈ j.names, n ∈ ns)

theorem importsResolve_of {p : PackageIR} {m : ModuleIR} (h : ∀ i ∈ m.imports, Resolves p (normImport i)) : importsResolve p m = true := by
  unfold importsResolve
  refine List.all_eq_true.mpr ?_
  intro i' hi'
  -- every surviving import is a written one with (possibly) fewer names
  have hsrc : ∃ i ∈ m.imports, i'.level = (normImport i).level ∧ i'.module = (normImport i).module ∧ ∀ n ∈ i'.names, n ∈ (normImport i).names := by
    unfold ModuleIR.effectiveImports at hi'
    simp only at hi'
    split at hi'
    · obtain ⟨hmem, _⟩ := List.mem_filter.mp hi'
      obtain ⟨j, hj, rfl⟩ := List.mem_map.mp hmem
      obtain ⟨i, hi, rfl⟩ := List.mem_map.mp hj
      exact ⟨i, hi, rfl, rfl, fun n hn => (List.mem_filter.mp hn).1⟩
    · obtain ⟨i, hi, rfl⟩ := List.mem_map.mp hi'
      exact ⟨i, hi, rfl, rfl, fun n hn => hn⟩
  obtain ⟨i, hi, hl, hmod, hnames⟩ := hsrc
  rcases h i hi with h0 | ⟨h1, m', hfind, hex⟩
  · have : i'.level = 0 := by rw [hl]; exact h0
    simp [this]
  · have h1' : i'.level = 1 := by rw [hl]; exact h1
    have e10 : ((1 : Nat) == 0) = false := rfl
    have e11 : ((1 : Nat) == 1) = true := rfl
    simp only [h1', e10, e11, if_true, Bool.false_eq_true, if_false]
    rw [hmod, hfind]
    simp only
    cases hx : exported m' with
    | none => rfl
    | some ns =>
      simp only
      refine List.all_eq_true.mpr ?_
      intro n hn
      have := hex ns hx n (hnames n hn)
      simpa using this

/-! ### `classesLoad` -/

theorem classesLoadFrom_intro : ∀ (cs : List ClassIR) (bound : List String),
    (∀ pre c post, cs = pre ++ c :: post → ∀ u ∈ c.bases ++ c.uses,
      builtins.contains u = true ∨ u ∈ bound ∨ u ∈ pre.map (·.name)) → classesLoadFrom bound cs = true
  | [], _, _ => rfl
  | c :: rest, bound, h => by
    simp only [classesLoadFrom, Bool.and_eq_true]
    refine ⟨?_, ?_⟩
    · refine List.all_eq_true.mpr ?_
      intro u hu
      show (builtins.contains u || bound.contains u) = true
      rcases h [] c rest rfl u hu with h1 | h1 | h1
      · exact (Bool.or_eq_true _ _).mpr (Or.inl h1)
      · have : bound.contains u = true := by simpa using h1
        exact (Bool.or_eq_true _ _).mpr (Or.inr this)
      · cases h1
    · apply classesLoadFrom_intro rest (c.name :: bound)
      intro pre c' post heq u hu
      rcases h (c :: pre) c' post (by rw [heq]; rfl) u hu with h1 | h1 | h1
      · exact Or.inl h1
      · exact Or.inr (Or.inl (List.mem_cons_of_mem _ h1))
      · rcases List.mem_cons.mp h1 with h2 | h2
        · exact Or.inr (Or.inl (by rw [h2]; exact List.mem_cons_self))
        · exact Or.inr (Or.inr h2)

/-- every base and every evaluated name is a builtin, bound before the first class statement, or an earlier class -/
theorem classesLoad_of {m : ModuleIR}
    (hc : ∀ pre c post, m.classes = pre ++ c :: post → ∀ u ∈ c.bases ++ c.uses, BoundIn m u ∨ u ∈ pre.map (·.name))
    (hm : ∀ f ∈ m.methods, ∀ u ∈ f.uses, BoundIn m u) : classesLoad m = true := by
  unfold classesLoad
  simp only [Bool.and_eq_true]
  refine ⟨?_, ?_⟩
  · apply classesLoadFrom_intro
    intro pre c post heq u hu
    rcases hc pre c post heq u hu with (h | h) | h
    · exact Or.inl h
    · exact Or.inr (Or.inl h)
    · exact Or.inr (Or.inr h)
  · refine List.all_eq_true.mpr ?_
    intro f hf
    refine List.all_eq_true.mpr ?_
    intro u hu
    show (builtins.contains u || (preBound m).contains u) = true
    rcases hm f hf u hu with h | h
    · exact (Bool.or_eq_true _ _).mpr (Or.inl h)
    · have : (preBound m).contains u = true := by simpa using h
      exact (Bool.or_eq_true _ _).mpr (Or.inr this)

/-- the common case: nothing depends on the order of the class statements -/
theorem classesLoad_of_bound {m : ModuleIR} (hc : ∀ c ∈ m.classes, ∀ u ∈ c.bases ++ c.uses, BoundIn m u)
    (hm : ∀ f ∈ m.methods, ∀ u ∈ f.uses, BoundIn m u) : classesLoad m = true :=
  classesLoad_of (fun pre c post heq u hu => Or.inl (hc c (by rw [heq]; simp) u hu)) hm

theorem residualParts_of {p : PackageIR} {m : ModuleIR} (h1 : importsResolve p m = true) (h2 : classesLoad m = true)
    (h3 : forwardRefsOK m = true) (h4 : (m.rebuilds.all (m.classes.map (·.name)).contains) = true) : residualParts p m = true := by
  unfold residualParts
  rw [h1, h2, h3, h4]
  rfl

end Ariadne.C04Proofs
