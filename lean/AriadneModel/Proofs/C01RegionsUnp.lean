/-
  Proofs/C01RegionsUnp.lean — property C01: the decidable region predicate `UnpInput` of `C01_partial_unpacked` (core Lean only,
  evaluated by the compiled driver, op `regions`); the theorem is in Proofs/C01BridgeUnp.lean.
-/
import AriadneModel.Proofs.C01Regions
import AriadneModel.Proofs.C01UnpDefs

set_option linter.unusedSimpArgs false
set_option linter.unusedVariables false

namespace Ariadne.C01
open Ariadne Ariadne.Gql Ariadne.ResultTypes Ariadne.Util Ariadne.Pyd Ariadne.Triggers01 Ariadne.C01Plain Ariadne.C01Unp

/-- the fuel for the nesting of spreads and sub-selections used in the region predicate -/
def unpK (env : ResultTypes.Env) : Nat := 100

def unpOpOK (env : ResultTypes.Env) (o : Operation) : Bool :=
  match o.name, Validate.rootOf env.schema o with
  | some n, some tn =>
    !(o.dirs.any (·.name == Tables.mixinName))
    && UnpOK env (unpK env) (pascal n) tn o.sid o.sel {}
    && NoShadowedImport env (plainClasses env (pascal n) tn (inl env (unpK env) o.sel))
    && decide (vneed env tn (inl env (unpK env) o.sel) + 1 ≤ execFuel)
  | _, _ => false

/-- the region of `C01_partial_unpacked`: `schemaOK`; every operation has a name and a root type, no `@mixin`, satisfies `UnpOK`
    (spreads of fragments on interfaces its object types implement; the inlined document is plain) in the empty generator state,
    `NoShadowedImport`, the validation fuel bound; and every fragment definition is unpacked by some operation (so that the
    fragments module contributes no class: package.py excludes the classes of unpacked fragments) -/
def UnpInput (inp : Input) : Prop :=
  (schemaOK inp.env.schema && inp.ops.all (unpOpOK inp.env)
   && inp.env.frags.all (fun f => (inp.ops.flatMap fun o => reach inp.env (unpK inp.env) o.sel).contains f.name)) = true

instance (inp : Input) : Decidable (UnpInput inp) := by unfold UnpInput; infer_instance

end Ariadne.C01
