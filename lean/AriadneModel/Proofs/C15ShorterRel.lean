/-
  C15: ShorterResults inside a longer plugin list — the module-level theorem of Proofs/C15ShorterMain.lean relative
  to a FRAME: the module ShorterResults is handed (`M0`) may be followed by further import statements that
  later plugins put in front (`fr`, ExtractOperations' import), and the package may have an operations module
  (`ops`).  What is assumed of the package WITHOUT ShorterResults (`fr ++ M0`, `ops`) carries over to the
  package WITH it (`fr ++ M1`, `ops`).
-/
import AriadneModel.Proofs.C15ShorterMain

set_option linter.unusedSimpArgs false
set_option linter.unusedVariables false

namespace Ariadne.C15
open Ariadne Ariadne.Py Ariadne.Plugins Ariadne.ClientSem

/-! ### framing -/

def ImportsOnly (fr : List Top) : Prop := ∀ t ∈ fr, ∃ i, t = Top.simple (.importFrom i)

theorem importsOnly_noClass {fr : List Top} (h : ImportsOnly fr) : NoClass fr := by
  intro t ht
  obtain ⟨i, rfl⟩ := h t ht
  rfl

theorem firstClass_frame (fr : List Top) (h : ImportsOnly fr) (M : Module) :
    ({ body := fr ++ M.body } : Module).firstClass? = M.firstClass? := by
  unfold Module.firstClass?
  simp only [List.findSome?_append]
  have : fr.findSome? Top.classDef? = none := by
    rw [List.findSome?_eq_none_iff]
    intro t ht
    exact importsOnly_noClass h t ht
  rw [this]
  rfl

theorem ModuleFacts.frame {E : List (String × List String)} {M M' : Module} {c c' : ClassDef} (F : ModuleFacts E M M' c c')
    (fr : List Top) (hfr : ImportsOnly fr) :
    ModuleFacts E { body := fr ++ M.body } { body := fr ++ M'.body } c c' := by
  refine ⟨?_, ?_, ?_, ?_, ?_, ?_⟩
  · rw [firstClass_frame fr hfr]; exact F.firstClass
  · intro n hn
    rw [moduleNames_eq, namesOfTops_append] at hn ⊢
    rcases List.mem_append.mp hn with h | h
    · exact List.mem_append_left _ h
    · exact List.mem_append_right _ (F.names_mono n h)
  · intro cl hcl
    rw [moduleNames_eq, namesOfTops_append]
    exact List.mem_append_right _ (F.covered cl hcl)
  · intro n hn
    rw [topImports_eq, topImports_eq, importsOfTops_append, importsOfTops_append, importBindings_append, importBindings_append,
      alookup_append, alookup_append]
    have := F.bindings n hn
    rw [topImports_eq, topImports_eq] at this
    rw [this]
  · intro i' hi'
    rw [topImports_eq, importsOfTops_append] at hi'
    rw [topImports_eq, importsOfTops_append]
    rcases List.mem_append.mp hi' with h | h
    · exact .inl ⟨i', List.mem_append_left _ h, rfl, rfl⟩
    · rcases F.provenance i' h with ⟨i, hi, h1, h2⟩ | hx
      · exact .inl ⟨i, List.mem_append_right _ hi, h1, h2⟩
      · exact .inr hx
  · intro t' ht'
    rcases List.mem_append.mp ht' with h | h
    · exact .inr (.inl (List.mem_append_left _ h))
    · rcases F.tops t' h with h1 | h1 | h1
      · exact .inl h1
      · exact .inr (.inl (List.mem_append_right _ h1))
      · exact .inr (.inr h1)

/-! ### scoping with an operations module: nothing changes for a name whose binding is kept -/

theorem runtimeUnresolved_mono_bind (B0 B1 : Module) (ops : Option (String × OpsFile)) (md : Method)
    (hmono : ∀ n ∈ moduleNames B0, n ∈ moduleNames B1)
    (hbind : ∀ v c, shapeOf md = some v → v.op = .const c →
      alookup c (importBindings (topImports B1)) = alookup c (importBindings (topImports B0)))
    (h : runtimeUnresolved { client := B0, ops := ops } md = []) :
    runtimeUnresolved { client := B1, ops := ops } md = [] := by
  unfold runtimeUnresolved at h ⊢
  cases hs : shapeOf md with
  | none => rfl
  | some v =>
    simp only [hs] at h ⊢
    rw [List.append_eq_nil_iff] at h ⊢
    obtain ⟨h1, h2⟩ := h
    have hm1 : ∀ need : List String,
        need.filter (fun n => !((importBindings v.imports).map (·.1) ++ moduleNames B0 ++ builtinNames ++ md.args.map (·.1) ++ ["kwargs"]).contains n) = [] →
        need.filter (fun n => !((importBindings v.imports).map (·.1) ++ moduleNames B1 ++ builtinNames ++ md.args.map (·.1) ++ ["kwargs"]).contains n) = [] := by
      intro need hneed
      rw [List.filter_eq_nil_iff] at hneed ⊢
      intro a ha
      have h0 := hneed a ha
      have hc0 : ((importBindings v.imports).map (·.1) ++ moduleNames B0 ++ builtinNames ++ md.args.map (·.1) ++ ["kwargs"]).contains a = true := by
        cases hc : ((importBindings v.imports).map (·.1) ++ moduleNames B0 ++ builtinNames ++ md.args.map (·.1) ++ ["kwargs"]).contains a with
        | true => rfl
        | false => rw [hc] at h0; exact absurd rfl h0
      have hc1 : ((importBindings v.imports).map (·.1) ++ moduleNames B1 ++ builtinNames ++ md.args.map (·.1) ++ ["kwargs"]).contains a = true := by
        rw [List.contains_iff_mem] at hc0 ⊢
        simp only [List.mem_append] at hc0 ⊢
        rcases hc0 with (((h | h) | h) | h) | h
        · exact .inl (.inl (.inl (.inl h)))
        · exact .inl (.inl (.inl (.inr (hmono a h))))
        · exact .inl (.inl (.inr h))
        · exact .inl (.inr h)
        · exact .inr h
      rw [hc1]
      decide
    refine ⟨hm1 _ h1, ?_⟩
    rw [hm1 _ h1]
    rw [h1] at h2
    cases hop : v.op with
    | inline q ls => simp [hop]
    | const c =>
      have hcv : constValue { client := B1, ops := ops } v c = constValue { client := B0, ops := ops } v c := by
        unfold constValue resolveRuntime
        simp only [hbind v c hs hop]
      simp only [hop, hcv] at h2 ⊢
      exact h2

/-! ### the hypotheses and the conclusion, framed -/

structure ShorterHypsR (known : List String) (st : ShorterState) (fr : List Top) (ops : Option (String × OpsFile))
    (M0 : Module) (pre0 : List Top) (g : Method) (C0 : ClassDef) : Prop where
  frame : ImportsOnly fr
  body : M0.body = pre0 ++ [.funcDef g, .classDef C0]
  noclass : NoClass pre0
  extEmpty : st.extendedImports = []
  dictOK : ∀ kv ∈ st.classDict, ∃ r, nodeAndClass st.classDict kv.1 = .ok r
  kind : ∀ md ∈ C0.methods, (singleFieldOf st md).isSome = true → KindOK md
  ann : ∀ md ∈ C0.methods, ∀ f ann, singleFieldOf st md = some (f, ann) → ∀ n ∈ exNames (newReturns md ann),
    (n ∈ leavesOf ann ∧ (ahas n st.importedTypes = true ∨ ahas n st.classDict = true)) ∨
      n ∈ moduleNames ({ body := fr ++ M0.body } : Module) ∨ n ∈ builtinNames
  ret : ∀ md ∈ C0.methods, ∀ s, shapeOf md = some s → s.retClass ∉ leafPool st C0.methods
  const : ∀ md ∈ C0.methods, ∀ s c, shapeOf md = some s → s.op = .const c → c ∉ leafPool st C0.methods
  names : ∀ md ∈ C0.methods, startsWithDot md.name = false
  srcs : ∀ n ∈ leafPool st C0.methods, ∀ v, alookup n st.importedTypes = some v → startsWithDot v = true → v ∈ known
  fmt0 : formatOkB ({ body := fr ++ M0.body } : Module) = true
  ann0 : annScopedB ({ body := fr ++ M0.body } : Module) = true
  well0 : wellScopedB { client := ({ body := fr ++ M0.body } : Module), ops := ops } = true
  imp0 : ∀ i ∈ topImports ({ body := fr ++ M0.body } : Module), ∀ q, relModule i = some q → q ∈ known

structure ShorterConclR (known : List String) (st : ShorterState) (ops : Option (String × OpsFile)) (B0 B1 : Module) (C0 : ClassDef) : Prop where
  fmt : formatOkB B1 = true
  ann : annScopedB B1 = true
  well : wellScopedB { client := B1, ops := ops } = true
  imp : ∀ i ∈ topImports B1, ∀ q, relModule i = some q → q ∈ known
  names_mono : ∀ n ∈ moduleNames B0, n ∈ moduleNames B1
  cls : ∃ C1, B1.firstClass? = some C1 ∧ ItemsRel (PerMethod st) C0.body C1.body
  bindings : ∀ md ∈ C0.methods, ∀ s, shapeOf md = some s →
    alookup s.retClass (importBindings (topImports B1)) = alookup s.retClass (importBindings (topImports B0))
  const_bindings : ∀ md ∈ C0.methods, ∀ s c, shapeOf md = some s → s.op = .const c →
    alookup c (importBindings (topImports B1)) = alookup c (importBindings (topImports B0))

theorem shorter_no_crash_rel (known : List String) (st : ShorterState) (fr : List Top) (ops : Option (String × OpsFile))
    (M0 : Module) (pre0 : List Top) (g : Method) (C0 : ClassDef)
    (H : ShorterHypsR known st fr ops M0 pre0 g C0) : ∃ r, shorterClientModule st M0 = .ok r := by
  obtain ⟨r, hr⟩ := shorter_no_crash_methods st.classDict C0.body st rfl H.dictOK H.kind
  unfold shorterClientModule
  rw [firstClass_of_body M0 pre0 g C0 H.body H.noclass]
  simp only
  rw [H.body, mapFirstClassM_pre _ g C0 pre0 st H.noclass, hr]
  simp only [bind_ok, pure_eq_ok]
  split
  · exact ⟨_, rfl⟩
  · exact ⟨_, rfl⟩

theorem shorter_concl_rel (known : List String) (st st' : ShorterState) (fr : List Top) (ops : Option (String × OpsFile))
    (M0 M1 : Module) (pre0 : List Top) (g : Method) (C0 : ClassDef)
    (H : ShorterHypsR known st fr ops M0 pre0 g C0) (h : shorterClientModule st M0 = .ok (st', M1)) :
    ShorterConclR known st ops { body := fr ++ M0.body } { body := fr ++ M1.body } C0 := by
  obtain ⟨st1, items1, hmm, hbody1⟩ := shorterClientModule_form st st' M0 M1 pre0 g C0 H.body H.noclass h
  have F0 := module_facts st1.extendedImports M0 M1 pre0 g C0 { C0 with body := items1 } H.body H.noclass rfl hbody1
  have F := F0.frame fr H.frame
  obtain ⟨hro, _, hout, hwithin⟩ := shorter_methods_spec C0.body st st1 items1 hmm
  obtain ⟨_, halone⟩ := shorter_methods_history_free C0.body st st1 items1 hmm
  have hfc0 : ({ body := fr ++ M0.body } : Module).firstClass? = some C0 := by
    rw [firstClass_frame fr H.frame]; exact firstClass_of_body M0 pre0 g C0 H.body H.noclass
  -- the imports collected: keys are method names or recorded sources of pool classes, names are pool classes
  have hE : ExtWithin (C0.methods.map (·.name) ++ (leafPool st C0.methods).filterMap (fun n => alookup n st.importedTypes))
      (leafPool st C0.methods) st1.extendedImports := by
    apply hwithin
    · intro m hm; exact List.mem_append_left _ (List.mem_map.mpr ⟨m, hm, rfl⟩)
    · intro c hc v hv
      apply List.mem_append_right
      rw [List.mem_filterMap]
      exact ⟨c, hc, hv⟩
    · intro m hm cls node classes f hr hn cl hcl
      obtain ⟨ann, hs, _, rfl⟩ := nodeAndClass_single st m cls f node classes hr hn
      exact leafPool_mem st C0.methods m hm f ann hs cl hcl
    · rw [H.extEmpty]; intro x hx; simp at hx
  have hadded : ∀ n ∈ addedNames st1.extendedImports, n ∈ leafPool st C0.methods := by
    intro n hn
    unfold addedNames at hn
    rw [List.mem_flatMap] at hn
    obtain ⟨x, hx, hnx⟩ := hn
    exact (hE x hx).2 n hnx
  -- per method
  have hboth := ItemsRel.and hout halone
  have hper : ItemsRel (PerMethod st) C0.body items1 := by
    refine ItemsRel.imp ?_ (ItemsRel.and hboth (ItemsRel.with_mem hboth))
    rintro md md' ⟨⟨hmo, hal⟩, hmem⟩
    have hname : md'.name = md.name := by
      rcases hmo with rfl | ⟨_, _, _, _, _, _, hrw, _⟩
      · rfl
      · exact hrw.name
    have hargs : md'.args = md.args := by
      rcases hmo with rfl | ⟨_, _, _, _, _, _, hrw, _⟩
      · rfl
      · exact hrw.args
    refine ⟨hname, hargs, ?_⟩
    intro s0 hs0
    cases hsf : singleFieldOf st md with
    | none =>
      simp only
      rcases hmo with hmo | ⟨cls, node, classes, f, hr, hn, _, _⟩
      · exact hmo
      · obtain ⟨ann, hs, _, _⟩ := nodeAndClass_single st md cls f node classes hr hn
        rw [hsf] at hs; cases hs
    | some fa =>
      obtain ⟨f, ann⟩ := fa
      simp only
      rcases hmo with hmo | ⟨cls, node, classes, f', hr, hn, hrw, _⟩
      · -- "untouched" is impossible: alone, the plugin rewrites this method
        exfalso
        obtain ⟨s, hsh, _, hkind⟩ := H.kind md hmem (by rw [hsf]; rfl)
        have hb := shapeOf_sound md s hsh
        obtain ⟨cls, hrc, hsingle⟩ := singleFieldOf_some st md f ann hsf
        have h0 := hal st rfl
        cases hsm : shorterModifyMethod st md with
        | error e => rw [hsm] at h0; cases h0
        | ok r0 =>
          rw [hsm] at h0
          have hr0 : r0.2 = md := by rw [← hmo]; simpa [Except.map] using h0
          rcases hkind with ⟨aw, r, d, cls', ht, hret'⟩ | ⟨d, o, a', cls', ht, hret'⟩
          · have hcls : cls' = cls := by simp [returnClassOf, hret'] at hrc; exact hrc
            subst hcls
            have := (shorter_call_iff st r0.1 md r0.2 s aw r d cls' hb ht hret' (by rw [hsm])).2
            rw [hr0] at this
            exact (this.mp rfl) f ann hsingle
          · have hcls : cls' = cls := by simp [returnClassOf, hret'] at hrc; exact hrc
            subst hcls
            have := (shorter_sub_iff st r0.1 md r0.2 s d cls' o a' hb ht hret' (by rw [hsm])).2
            rw [hr0] at this
            exact (this.mp rfl) f ann hsingle
      · obtain ⟨ann', hs', _, _⟩ := nodeAndClass_single st md cls f' node classes hr hn
        rw [hsf] at hs'
        simp only [Option.some.injEq, Prod.mk.injEq] at hs'
        obtain ⟨rfl, _⟩ := hs'
        exact shapeOf_bodyOf md' _ (hrw.body s0 (shapeOf_sound md s0 hs0))
  have hC1methods : ∀ md' ∈ ({ C0 with body := items1 } : ClassDef).methods, ∃ md ∈ C0.methods,
      MethodOutcome st.classDict st.importedTypes st1.extendedImports md md' :=
    fun md' hmd' => ItemsRel.mem_right hout md' hmd'
  refine ⟨?_, ?_, ?_, ?_, F.names_mono, ⟨_, F.firstClass, hper⟩, ?_, ?_⟩
  · -- formatOkB
    have h0 := H.fmt0
    unfold formatOkB at h0 ⊢
    rw [List.all_eq_true] at h0 ⊢
    intro t' ht'
    rcases F.tops t' ht' with ⟨i, rfl⟩ | h | rfl
    · rfl
    · exact h0 t' h
    · rfl
  · -- annScopedB
    have h0 := H.ann0
    unfold annScopedB at h0 ⊢
    rw [hfc0] at h0
    rw [F.firstClass]
    simp only [List.all_eq_true, Bool.or_eq_true, List.contains_iff_mem] at h0 ⊢
    intro md' hmd' n hn
    obtain ⟨md, hmd, hmo⟩ := hC1methods md' hmd'
    rcases hmo with rfl | ⟨cls, node, classes, f, hr, hnc, hrw, hcov⟩
    · rcases h0 md' hmd n hn with h | h
      · exact .inl (F.names_mono n h)
      · exact .inr h
    · obtain ⟨ann, hs, hnode, hclasses⟩ := nodeAndClass_single st md cls f node classes hr hnc
      unfold defTimeNames at hn
      rw [hrw.args, hrw.rest] at hn
      simp only [List.mem_append] at hn
      rcases hn with (hn | hn) | hn
      · rcases h0 md hmd n (by unfold defTimeNames; simp only [List.mem_append]; exact .inl (.inl hn)) with h | h
        · exact .inl (F.names_mono n h)
        · exact .inr h
      · rcases h0 md hmd n (by unfold defTimeNames; simp only [List.mem_append]; exact .inl (.inr hn)) with h | h
        · exact .inl (F.names_mono n h)
        · exact .inr h
      · have hnew : n ∈ exNames (newReturns md ann) := by
          unfold newReturns
          rcases hrw.returns with ⟨c0, hm0, hm1⟩ | ⟨a, c0, hm0, hm1⟩
          · rw [hm1] at hn; rw [hm0]; simp only; rw [← hnode]; exact hn
          · rw [hm1] at hn; rw [hm0]; simp only; rw [← hnode]; exact hn
        rcases H.ann md hmd f ann hs n hnew with ⟨hleaf, hah⟩ | h | h
        · exact .inl (F.covered n (hcov n (by rw [hclasses]; exact hleaf) hah))
        · exact .inl (F.names_mono n h)
        · exact .inr h
  · -- wellScopedB
    have h0 := H.well0
    unfold wellScopedB unresolvedNames at h0 ⊢
    simp only [hfc0] at h0
    simp only [F.firstClass]
    rw [List.isEmpty_iff, List.flatMap_eq_nil_iff] at h0 ⊢
    intro md' hmd'
    obtain ⟨md, hmd, hmo⟩ := hC1methods md' hmd'
    have hmd0 := h0 md hmd
    have hbindc : ∀ v c, shapeOf md = some v → v.op = .const c →
        alookup c (importBindings (topImports ({ body := fr ++ M1.body } : Module))) =
          alookup c (importBindings (topImports ({ body := fr ++ M0.body } : Module))) := by
      intro v c hv hc
      apply F.bindings
      intro hcc
      exact H.const md hmd v c hv hc (hadded _ hcc)
    rcases hmo with rfl | ⟨cls, node, classes, f, hr, hnc, hrw, hcov⟩
    · exact runtimeUnresolved_mono_bind _ _ ops md' F.names_mono hbindc hmd0
    · obtain ⟨ann, hs, _, _⟩ := nodeAndClass_single st md cls f node classes hr hnc
      obtain ⟨s, hsh, _, _⟩ := H.kind md hmd (by rw [hs]; rfl)
      have hsh' : shapeOf md' = some (shorterShape s f) := shapeOf_bodyOf md' _ (hrw.body s (shapeOf_sound md s hsh))
      have h1 := runtimeUnresolved_mono_bind _ _ ops md F.names_mono hbindc hmd0
      unfold runtimeUnresolved at h1 ⊢
      simp only [hsh] at h1
      simp only [hsh', hrw.args]
      have e1 : (shorterShape s f).imports = s.imports := rfl
      have e2 : (shorterShape s f).op = s.op := rfl
      have e3 : (shorterShape s f).retClass = s.retClass := rfl
      have e4 : (shorterShape s f).variables = s.variables := rfl
      have e5 : ∀ c, constValue { client := ({ body := fr ++ M1.body } : Module), ops := ops } (shorterShape s f) c =
          constValue { client := ({ body := fr ++ M1.body } : Module), ops := ops } s c := by
        intro c; rfl
      simp only [e1, e2, e3, e4, e5]
      exact h1
  · -- every relative import finds its module
    intro i' hi' q hq
    rcases F.provenance i' hi' with ⟨i, hi, hm, hl⟩ | ⟨x, hx, rfl⟩
    · rw [relModule_congr i i' hm hl] at hq
      exact H.imp0 i hi q hq
    · unfold relModule at hq
      simp only [bne_self_eq_false, Bool.false_or] at hq
      split at hq
      · rename_i hdot
        simp only [Option.some.injEq] at hq
        rw [dotted_zero] at hq
        subst hq
        have hkey := (hE x hx).1
        rcases List.mem_append.mp hkey with hk | hk
        · obtain ⟨m, hm, hmn⟩ := List.mem_map.mp hk
          have := H.names m hm
          rw [hmn] at this
          rw [this] at hdot
          cases hdot
        · rw [List.mem_filterMap] at hk
          obtain ⟨n, hn, hv⟩ := hk
          exact H.srcs n hn x.1 hv hdot
      · cases hq
  · -- the validated classes resolve as before
    intro md hmd s hs
    apply F.bindings
    intro hc
    exact H.ret md hmd s hs (hadded _ hc)
  · -- and so do the operation constants
    intro md hmd s c hs hc
    apply F.bindings
    intro hcc
    exact H.const md hmd s c hs hc (hadded _ hcc)


end Ariadne.C15
