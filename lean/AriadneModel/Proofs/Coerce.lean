/-
  Helper lemmas about `Spec.Coerce` (used by C03): the "assemble" half of input-object / variable
  coercion on field lists with pairwise distinct names.
-/
import AriadneModel.Spec.Coerce

set_option linter.unusedSimpArgs false
set_option linter.unusedVariables false

namespace Ariadne.Coerce
open Ariadne

def names (fs : List IField) : List String := fs.map (·.name)

/-- the provided (already coerced) members, in field order: field i is provided iff `vs[i] = some _` -/
def provided : List IField → List (Option J) → List (String × J)
  | f :: fs, some v :: vs => (f.name, v) :: provided fs vs
  | _ :: fs, none :: vs => provided fs vs
  | _, _ => []

/-- what coercion must return: provided value, else the default, else nothing -/
def expected : List IField → List (Option J) → List (String × J)
  | f :: fs, some v :: vs => (f.name, v) :: expected fs vs
  | f :: fs, none :: vs =>
    match f.default with
    | some d => (f.name, d) :: expected fs vs
    | none => expected fs vs
  | _, _ => []

/-- an absent member is allowed: the field has a default or is nullable -/
def absentOK : List IField → List (Option J) → Bool
  | _ :: fs, some _ :: vs => absentOK fs vs
  | f :: fs, none :: vs => (f.default.isSome || !f.type.nonNull) && absentOK fs vs
  | [], [] => true
  | _, _ => false

theorem lookup_cons_ne {k k' : String} {v : J} {g : List (String × J)} (h : k' ≠ k) :
    J.lookup k ((k', v) :: g) = J.lookup k g := by
  simp [J.lookup, h]

theorem lookup_cons_eq {k : String} {v : J} {g : List (String × J)} :
    J.lookup k ((k, v) :: g) = some v := by
  simp [J.lookup]

theorem assemble_cons_notin (fs : List IField) (k : String) (x : J) (g : List (String × J))
    (h : k ∉ names fs) : assemble fs ((k, x) :: g) = assemble fs g := by
  induction fs with
  | nil => simp [assemble]
  | cons f fs ih =>
    have hk : k ≠ f.name := by
      intro e; apply h; simp [names, e]
    have hrest : k ∉ names fs := by
      intro m; apply h; simp [names] at m ⊢; exact Or.inr m
    simp only [assemble, lookup_cons_ne hk, ih hrest]

theorem provided_keys (fs : List IField) (vs : List (Option J)) :
    ∀ kv ∈ provided fs vs, kv.1 ∈ names fs := by
  induction fs generalizing vs with
  | nil => intro kv h; cases vs <;> simp [provided] at h
  | cons f fs ih =>
    intro kv h
    cases vs with
    | nil => simp [provided] at h
    | cons v vs =>
      cases v with
      | none =>
        simp only [provided] at h
        have := ih vs kv h
        simp [names] at this ⊢; exact Or.inr this
      | some v =>
        simp only [provided, List.mem_cons] at h
        cases h with
        | inl e => subst e; simp [names]
        | inr m => have := ih vs kv m; simp [names] at this ⊢; exact Or.inr this

theorem lookup_none_of_notin {k : String} {g : List (String × J)} (h : ∀ kv ∈ g, kv.1 ≠ k) :
    J.lookup k g = none := by
  induction g with
  | nil => simp [J.lookup]
  | cons kv g ih =>
    obtain ⟨k', v⟩ := kv
    have h1 : k' ≠ k := h (k', v) (by simp)
    simp only [J.lookup, h1, if_false]
    exact ih (fun kv m => h kv (by simp [m]))

/-- on distinct field names, assembling the provided members gives exactly `expected` -/
theorem assemble_provided (fs : List IField) (vs : List (Option J)) (hd : (names fs).Nodup)
    (ha : absentOK fs vs = true) : assemble fs (provided fs vs) = .ok (expected fs vs) := by
  induction fs generalizing vs with
  | nil => cases vs <;> simp [assemble, expected]
  | cons f fs ih =>
    have hnd : (names fs).Nodup := by simp [names] at hd ⊢; exact hd.2
    have hnot : f.name ∉ names fs := by
      simp only [names, List.map_cons, List.nodup_cons] at hd
      exact hd.1
    cases vs with
    | nil => simp [absentOK] at ha
    | cons v vs =>
      cases v with
      | some v =>
        simp only [absentOK] at ha
        simp only [provided, assemble, lookup_cons_eq, expected, assemble_cons_notin fs f.name v _ hnot, ih vs hnd ha]
      | none =>
        simp only [absentOK, Bool.and_eq_true] at ha
        have hl : J.lookup f.name (provided fs vs) = none := by
          apply lookup_none_of_notin
          intro kv m e
          exact hnot (e ▸ provided_keys fs vs kv m)
        simp only [provided, assemble, hl, expected]
        cases hdflt : f.default with
        | some d => simp [ih vs hnd ha.2]
        | none =>
          have : f.type.nonNull = false := by
            have := ha.1; simp [hdflt] at this; exact this
          simp [this, ih vs hnd ha.2]

theorem findField_of_mem (fs : List IField) (hd : (names fs).Nodup) (f : IField) (hm : f ∈ fs) :
    findField fs f.name = some f := by
  induction fs with
  | nil => cases hm
  | cons g fs ih =>
    simp only [names, List.map_cons, List.nodup_cons] at hd
    simp only [findField, List.find?]
    cases hm with
    | head => simp
    | tail _ hm' =>
      have hne : g.name ≠ f.name := by
        intro e; apply hd.1; rw [e]; exact List.mem_map_of_mem hm'
      have : (g.name == f.name) = false := by simp [hne]
      simp only [this]
      exact ih hd.2 hm'

end Ariadne.Coerce
