/-
  C14 helper lemmas, part 4: `get_formatted_variables` / `_combine_variables` over annotated trees.

  `get_formatted_variables` (since dfbc7ef) merges, recursively, the `formatted_variables` of EVERY object
  of the tree with `dict.update`.  Over a pristine store the result is a pure function of the annotated
  tree (`gfPure`: class-level leaves contribute nothing) and the fuel `to_ast` got by with is enough for
  it; when the variable names of the tree are pairwise distinct - which `to_ast` guarantees per top-level
  field, and ¬F5 across fields - that dict is just the pre-order concatenation `fmtAll`, at ANY depth.
  And a dict with distinct keys answers every lookup with the entry itself.
-/
import AriadneModel.Proofs.C14Bound

set_option linter.unusedSimpArgs false
set_option linter.unusedVariables false

namespace Ariadne.C14
open Ariadne Ariadne.Builder Ariadne.CustomGen Ariadne.BuilderDoc

def unames (l : List FVar) : List String := l.map (·.uname)

theorem unames_append (a b : List FVar) : unames (a ++ b) = unames a ++ unames b := by simp [unames]

theorem dictUpdate_fresh (d : List FVar) (x : FVar) (h : x.uname ∉ unames d) : dictUpdate d x = d ++ [x] := by
  unfold dictUpdate
  have : d.any (fun y => y.uname == x.uname) = false := by
    rw [List.any_eq_false]
    intro y hy
    simp only [beq_iff_eq]
    intro he
    exact h (by simp [unames]; exact ⟨y, hy, he⟩)
  simp [this]

theorem dictUpdateAll_fresh : ∀ (xs d : List FVar), (unames (d ++ xs)).Nodup → dictUpdateAll d xs = d ++ xs := by
  intro xs
  induction xs with
  | nil => intro d _; simp [dictUpdateAll]
  | cons x xs ih =>
    intro d h
    have hx : x.uname ∉ unames d := by
      rw [unames_append, List.nodup_append] at h
      intro hm
      exact h.2.2 _ hm x.uname (by simp [unames]) rfl
    have := ih (d ++ [x]) (by simpa [List.append_assoc] using h)
    simp only [dictUpdateAll, List.foldl_cons] at this ⊢
    rw [dictUpdate_fresh d x hx, this]
    simp

/-! ### `get_formatted_variables` as a pure function of the annotated tree -/

mutual
  /-- what `get_formatted_variables` returns for an annotated tree whose class-level leaves are pristine -/
  def gfPure : Node → List FVar
    | .obj r subs frags => gfPureFrags (gfPureList r.formatted subs) frags
    | .ref _ => []
  def gfPureList : List FVar → List Node → List FVar
    | d, [] => d
    | d, n :: ns => gfPureList (dictUpdateAll d (gfPure n)) ns
  def gfPureFrags : List FVar → List Frag → List FVar
    | d, [] => d
    | d, .mk _ ns :: fs => gfPureFrags (gfPureList d ns) fs
end

/-- the fact a visit with fuel `fuel` establishes about its annotated result -/
def Qg (fuel : Nat) (st : Store) (_ : Node) (_ : Sel) (n' : Node) : Prop :=
  getFormatted fuel st n' = .ok (gfPure n')

theorem gfvList_pure {g : GVisit} {Q : Node → Sel → Node → Prop} (hQ : ∀ n s n', Q n s n' → g n' = .ok (gfPure n')) :
    ∀ {ns ss ns'}, All3 Q ns ss ns' → ∀ d, gfvList g d ns' = .ok (gfPureList d ns') := by
  intro ns ss ns' h
  induction h with
  | nil => intro d; rfl
  | cons q _ ih =>
    intro d
    simp only [gfvList, hQ _ _ _ q, gfPureList, ih]

theorem gfvFrags_pure {g : GVisit} {Q : Node → Sel → Node → Prop} (hQ : ∀ n s n', Q n s n' → g n' = .ok (gfPure n')) :
    ∀ {fs ss fs'}, AllF Q fs ss fs' → ∀ d, gfvFrags g d fs' = .ok (gfPureFrags d fs') := by
  intro fs ss fs' h
  induction h with
  | nil => intro d; rfl
  | cons q _ ih =>
    intro d
    simp only [gfvFrags, gfvList_pure hQ q, gfPureFrags, ih]

/-- over a pristine store: whatever fuel `to_ast` succeeded with, `get_formatted_variables` on the
    annotated result succeeds with the same fuel and returns `gfPure` -/
theorem toAst_gf {st : Store} (hp : Pristine st) (idx : Nat) : ∀ fuel, VisitQ st (toAst fuel idx) (Qg fuel st) := by
  intro fuel
  induction fuel with
  | zero => intro used n s n' st' used' h; simp [toAst] at h
  | succ f ih =>
    intro used n s n' st' used' h
    cases n with
    | obj r subs frags =>
      unfold toAst at h
      split at h
      · simp at h
      · rename_i fv u1 h1
        split at h
        · simp at h
        · rename_i ss subs' st1 u2 h2
          obtain ⟨rfl, q2⟩ := mapAcc_all3 ih _ _ _ _ _ _ h2
          split at h
          · simp at h
          · rename_i fs frags' st2 u3 h3
            obtain ⟨rfl, q3⟩ := mapFrags_allF ih _ _ _ _ _ _ h3
            simp at h
            obtain ⟨rfl, rfl, rfl, -⟩ := h
            refine ⟨rfl, ?_⟩
            have hQ : ∀ n s n', Qg f st2 n s n' → getFormatted f st2 n' = .ok (gfPure n') := fun _ _ _ q => q
            simp only [Qg, getFormatted, gfvList_pure hQ q2, gfvFrags_pure hQ q3, gfPure]
    | ref id =>
      unfold toAst at h
      split at h
      · simp at h
      · rename_i n0 hn
        obtain ⟨r, rfl, hv, hf⟩ := hp id n0 hn
        split at h
        · simp at h
        · rename_i s1 n1 st1 u1 h1
          simp at h
          obtain ⟨rfl, rfl, rfl, -⟩ := h
          obtain ⟨rfl, -⟩ := ih _ _ _ _ _ _ h1
          obtain ⟨c0, fn0, g0, vars0, fm0, al0⟩ := r
          simp at hv hf
          subst hv hf
          cases f with
          | zero => simp [toAst] at h1
          | succ f' =>
            simp [toAst, collectVars_nil, mapAcc, mapFrags] at h1
            obtain ⟨rfl, rfl, -⟩ := h1
            refine ⟨set_self _ _ _ hn, ?_⟩
            simp [Qg, getFormatted, hn, gfvList, gfvFrags, gfPure]

/-! ### with pairwise distinct names the merged dict is the pre-order concatenation - at every depth -/

theorem nodup_prefix {a b : List FVar} (h : (unames (a ++ b)).Nodup) : (unames a).Nodup := by
  rw [unames_append] at h
  exact (List.nodup_append.mp h).1

theorem nodup_suffix {a b : List FVar} (h : (unames (a ++ b)).Nodup) : (unames b).Nodup := by
  rw [unames_append] at h
  exact (List.nodup_append.mp h).2.1

mutual
  theorem gfPure_eq : ∀ (n : Node), (unames (fmtAll n)).Nodup → gfPure n = fmtAll n
    | .obj r subs frags, h => by
      simp only [fmtAll] at h
      simp only [gfPure, fmtAll]
      rw [gfPureList_eq subs _ (nodup_prefix h), gfPureFrags_eq frags _ h]
    | .ref _, _ => rfl
  theorem gfPureList_eq : ∀ (ns : List Node) (d : List FVar), (unames (d ++ fmtAllList ns)).Nodup →
      gfPureList d ns = d ++ fmtAllList ns
    | [], d, _ => by simp [gfPureList, fmtAllList]
    | n :: ns, d, h => by
      simp only [fmtAllList, ← List.append_assoc] at h
      have h1 : (unames (d ++ fmtAll n)).Nodup := nodup_prefix h
      simp only [gfPureList, gfPure_eq n (nodup_suffix h1), dictUpdateAll_fresh _ _ h1]
      rw [gfPureList_eq ns _ h]
      simp [fmtAllList, List.append_assoc]
  theorem gfPureFrags_eq : ∀ (fs : List Frag) (d : List FVar), (unames (d ++ fmtAllFrags fs)).Nodup →
      gfPureFrags d fs = d ++ fmtAllFrags fs
    | [], d, _ => by simp [gfPureFrags, fmtAllFrags]
    | .mk ty ns :: fs, d, h => by
      simp only [fmtAllFrags, ← List.append_assoc] at h
      simp only [gfPureFrags]
      rw [gfPureList_eq ns d (nodup_prefix h), gfPureFrags_eq fs _ h]
      simp [fmtAllFrags, List.append_assoc]
end

/-- `_combine_variables` over the annotated top-level fields of one client call -/
theorem combine_pure {fuel : Nat} {st : Store} : ∀ {ns ss ns'}, All3 (Qg fuel st) ns ss ns' →
    combine fuel st ns' = .ok (gfPureList [] ns') := by
  intro ns ss ns' h
  exact gfvList_pure (fun _ _ _ q => q) h []

theorem combine_eq {fuel : Nat} {st : Store} {ns ss ns'} (h : All3 (Qg fuel st) ns ss ns')
    (hn : (unames (fmtAllList ns')).Nodup) : combine fuel st ns' = .ok (fmtAllList ns') := by
  rw [combine_pure h, gfPureList_eq ns' [] (by simpa using hn)]
  simp

/-- a dict with pairwise distinct keys answers every lookup with the entry itself -/
theorem lookup_of_nodup : ∀ (D : List FVar), (unames D).Nodup →
    LookOK (D.map fun v => (v.uname, v.ty)) (D.map fun v => (v.uname, v.value)) D := by
  intro D
  induction D with
  | nil => intro _ f hf; simp at hf
  | cons x xs ih =>
    intro h f hf
    simp only [unames, List.map_cons, List.nodup_cons] at h
    rcases List.mem_cons.mp hf with rfl | hm
    · simp [lookupS]
    · have hne : x.uname ≠ f.uname := by
        intro he
        exact h.1 (by rw [he]; exact List.mem_map_of_mem hm)
      have := ih h.2 f hm
      simp only [List.map_cons, lookupS, hne, if_false]
      exact this

/-- pairwise disjoint + each duplicate-free ⇒ the concatenation is duplicate-free -/
theorem nodup_of_crossClash : ∀ (ss : List Sel), crossClash ss = false → (∀ s ∈ ss, (selVars s).Nodup) →
    (selVarsList ss).Nodup := by
  intro ss
  induction ss with
  | nil => intro _ _; simp [selVarsList]
  | cons s ss ih =>
    intro hc hn
    simp only [crossClash, Bool.or_eq_false_iff] at hc
    simp only [selVarsList, List.nodup_append]
    refine ⟨hn s (by simp), ih hc.2 (fun t ht => hn t (by simp [ht])), ?_⟩
    intro a ha b hb hab
    subst hab
    have := hc.1
    rw [List.any_eq_false] at this
    have := this a ha
    simp at this
    exact this hb

end Ariadne.C14
