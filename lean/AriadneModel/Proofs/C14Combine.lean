/-
  C14 helper lemmas, part 4: `get_formatted_variables` / `_combine_variables` over annotated trees.

  When the variable names of the first two levels are pairwise distinct, the insertion-ordered dict
  the client assembles is just their concatenation; and a dict with distinct keys answers every lookup
  with the entry itself.
-/
import AriadneModel.Proofs.C14Bound

set_option linter.unusedSimpArgs false
set_option linter.unusedVariables false

namespace Ariadne.C14
open Ariadne Ariadne.Builder Ariadne.CustomGen Ariadne.BuilderDoc

def unames (l : List FVar) : List String := l.map (·.uname)

theorem unames_append (a b : List FVar) : unames (a ++ b) = unames a ++ unames b := by simp [unames]

theorem dictUpdate_fresh (d : List FVar) (x : FVar) (h : x.uname ∉ unames d) : dictUpdate d x = d ++ [x] := by
  unfold dictUpdate
  have : d.any (fun y => y.uname == x.uname) = false := by
    rw [List.any_eq_false]
    intro y hy
    simp only [beq_iff_eq]
    intro he
    exact h (by simp [unames]; exact ⟨y, hy, he⟩)
  simp [this]

theorem dictUpdateAll_fresh : ∀ (xs d : List FVar), (unames (d ++ xs)).Nodup → dictUpdateAll d xs = d ++ xs := by
  intro xs
  induction xs with
  | nil => intro d _; simp [dictUpdateAll]
  | cons x xs ih =>
    intro d h
    have hx : x.uname ∉ unames d := by
      rw [unames_append, List.nodup_append] at h
      intro hm
      exact h.2.2 _ hm x.uname (by simp [unames]) rfl
    have := ih (d ++ [x]) (by simpa [List.append_assoc] using h)
    simp only [dictUpdateAll, List.foldl_cons] at this ⊢
    rw [dictUpdate_fresh d x hx, this]
    simp

theorem nodeFormatted_eq {st : Store} (hp : Pristine st) : ∀ (c : Node), nodeFormatted st c = fmtDepth 1 c
  | .obj r subs frags => by
    simp [nodeFormatted, fmtDepth, fmtDepthList_zero, fmtDepthFrags_zero]
  | .ref id => by
    simp only [nodeFormatted, fmtDepth]
    cases hn : st[id]? with
    | none => rfl
    | some n =>
      obtain ⟨r, rfl, -, hf⟩ := hp id n hn
      simpa using hf

theorem foldSubs_eq {st : Store} (hp : Pristine st) : ∀ (subs : List Node) (d : List FVar),
    (unames (d ++ fmtDepthList 1 subs)).Nodup →
    subs.foldl (fun d c => dictUpdateAll d (nodeFormatted st c)) d = d ++ fmtDepthList 1 subs := by
  intro subs
  induction subs with
  | nil => intro d _; simp [fmtDepthList]
  | cons c cs ih =>
    intro d h
    simp only [fmtDepthList, ← List.append_assoc] at h
    have h1 : (unames (d ++ fmtDepth 1 c)).Nodup := by
      rw [unames_append] at h
      exact (List.nodup_append.mp h).1
    simp only [List.foldl_cons, nodeFormatted_eq hp c, dictUpdateAll_fresh _ _ h1]
    rw [ih _ h]
    simp [fmtDepthList, List.append_assoc]

theorem foldFrags_eq {st : Store} (hp : Pristine st) : ∀ (frags : List Frag) (d : List FVar),
    (unames (d ++ fmtDepthFrags 1 frags)).Nodup →
    frags.foldl (fun d f => (fragNodes f).foldl (fun d c => dictUpdateAll d (nodeFormatted st c)) d) d
      = d ++ fmtDepthFrags 1 frags := by
  intro frags
  induction frags with
  | nil => intro d _; simp [fmtDepthFrags]
  | cons fr fs ih =>
    intro d h
    cases fr with
    | mk ty ns =>
      simp only [fmtDepthFrags, ← List.append_assoc] at h
      have h1 : (unames (d ++ fmtDepthList 1 ns)).Nodup := by
        rw [unames_append] at h
        exact (List.nodup_append.mp h).1
      rw [List.foldl_cons]
      have e : fragNodes (Frag.mk ty ns) = ns := rfl
      rw [e, foldSubs_eq hp ns d h1, ih _ h]
      simp [fmtDepthFrags, List.append_assoc]

theorem getFormatted_eq {st : Store} (hp : Pristine st) : ∀ (n : Node),
    (unames (fmtDepth 2 n)).Nodup → getFormatted st n = fmtDepth 2 n
  | .obj r subs frags => by
    intro h
    simp only [fmtDepth] at h
    simp only [getFormatted, getFormattedOf, fmtDepth]
    have h1 : (unames (r.formatted ++ fmtDepthList 1 subs)).Nodup := by
      rw [unames_append] at h
      exact (List.nodup_append.mp h).1
    rw [foldSubs_eq hp subs _ h1, foldFrags_eq hp frags _ h]
  | .ref id => by
    intro _
    simp only [getFormatted, fmtDepth]
    cases hn : st[id]? with
    | none => rfl
    | some n =>
      obtain ⟨r, rfl, -, hf⟩ := hp id n hn
      simp [getFormattedOf, hf]

theorem combine_eq {st : Store} (hp : Pristine st) : ∀ (nodes : List Node) (d : List FVar),
    (unames (d ++ fmtDepthList 2 nodes)).Nodup →
    nodes.foldl (fun d n => dictUpdateAll d (getFormatted st n)) d = d ++ fmtDepthList 2 nodes := by
  intro nodes
  induction nodes with
  | nil => intro d _; simp [fmtDepthList]
  | cons n ns ih =>
    intro d h
    simp only [fmtDepthList, ← List.append_assoc] at h
    have h1 : (unames (d ++ fmtDepth 2 n)).Nodup := by
      rw [unames_append] at h
      exact (List.nodup_append.mp h).1
    have h0 : (unames (fmtDepth 2 n)).Nodup := by
      rw [unames_append] at h1
      exact (List.nodup_append.mp h1).2.1
    simp only [List.foldl_cons, getFormatted_eq hp n h0, dictUpdateAll_fresh _ _ h1]
    rw [ih _ h]
    simp [fmtDepthList, List.append_assoc]

/-- a dict with pairwise distinct keys answers every lookup with the entry itself -/
theorem lookup_of_nodup : ∀ (D : List FVar), (unames D).Nodup →
    LookOK (D.map fun v => (v.uname, v.ty)) (D.map fun v => (v.uname, v.value)) D := by
  intro D
  induction D with
  | nil => intro _ f hf; simp at hf
  | cons x xs ih =>
    intro h f hf
    simp only [unames, List.map_cons, List.nodup_cons] at h
    rcases List.mem_cons.mp hf with rfl | hm
    · simp [lookupS]
    · have hne : x.uname ≠ f.uname := by
        intro he
        exact h.1 (by rw [he]; exact List.mem_map_of_mem hm)
      have := ih h.2 f hm
      simp only [List.map_cons, lookupS, hne, if_false]
      exact this

/-- pairwise disjoint + each duplicate-free ⇒ the concatenation is duplicate-free -/
theorem nodup_of_crossClash : ∀ (ss : List Sel), crossClash ss = false → (∀ s ∈ ss, (selVars s).Nodup) →
    (selVarsList ss).Nodup := by
  intro ss
  induction ss with
  | nil => intro _ _; simp [selVarsList]
  | cons s ss ih =>
    intro hc hn
    simp only [crossClash, Bool.or_eq_false_iff] at hc
    simp only [selVarsList, List.nodup_append]
    refine ⟨hn s (by simp), ih hc.2 (fun t ht => hn t (by simp [ht])), ?_⟩
    intro a ha b hb hab
    subst hab
    have := hc.1
    rw [List.any_eq_false] at this
    have := this a ha
    simp at this
    exact this hb

end Ariadne.C14
