/-
  C14 helper lemmas, part 7: objects that OUTLIVE an operation (class-level objects, objects kept in python
  variables - Model/BuilderLet.lean) and are rendered again.

  `to_ast` never reads `formatted_variables` (`_collect_all_variables` starts from `{}`), so what earlier
  renderings left in the objects cannot influence a later document:

    * `Node.erase` forgets `formatted` everywhere; `to_ast` preserves the erased store and node
      (`toAst_erase`), i.e. rendering changes nothing but `formatted`;
    * two runs of `to_ast` from configurations that agree up to `formatted` produce the same selection, the
      same used-names, the SAME rendered node, and stores that agree - `formatted` included - on a set of
      object ids closed under references that contains everything the rendered node refers to (`toAst_sim`);
    * `get_formatted_variables` only looks at such a set (`getFormatted_agree`);
  hence `execOp_formatted_irrelevant`: the document of one client call does not depend on the `formatted`
  fields it finds.
-/
import AriadneModel.Proofs.C14Store
import AriadneModel.Model.BuilderLet

set_option linter.unusedSimpArgs false
set_option linter.unusedVariables false

namespace Ariadne.C14
open Ariadne Ariadne.Builder Ariadne.CustomGen Ariadne.BuilderDoc

/-! ### forgetting `formatted` -/

mutual
  def eraseN : Node → Node
    | .obj r subs frags => .obj { r with formatted := [] } (eraseL subs) (eraseF frags)
    | .ref id => .ref id
  def eraseL : List Node → List Node
    | [] => []
    | n :: ns => eraseN n :: eraseL ns
  def eraseF : List Frag → List Frag
    | [] => []
    | .mk ty ns :: fs => .mk ty (eraseL ns) :: eraseF fs
end

theorem eraseL_eq_map : ∀ l : List Node, eraseL l = l.map eraseN
  | [] => rfl
  | n :: ns => by simp [eraseL, eraseL_eq_map ns]

theorem eraseL_length (l : List Node) : (eraseL l).length = l.length := by
  simp [eraseL_eq_map]

theorem eraseL_getElem? (l : List Node) (i : Nat) : (eraseL l)[i]? = (l[i]?).map eraseN := by
  simp [eraseL_eq_map]

theorem eraseL_set (l : List Node) (i : Nat) (n : Node) : eraseL (l.set i n) = (eraseL l).set i (eraseN n) := by
  simp [eraseL_eq_map, List.map_set]

theorem eraseL_append (a b : List Node) : eraseL (a ++ b) = eraseL a ++ eraseL b := by
  simp [eraseL_eq_map]

/-- agreement up to `formatted` at one id -/
theorem erase_lookup {st1 st2 : Store} (h : eraseL st1 = eraseL st2) (id : Nat) :
    (st1[id]?).map eraseN = (st2[id]?).map eraseN := by
  rw [← eraseL_getElem?, ← eraseL_getElem?, h]

theorem erase_length {st1 st2 : Store} (h : eraseL st1 = eraseL st2) : st1.length = st2.length := by
  rw [← eraseL_length st1, ← eraseL_length st2, h]

mutual
  theorem size_erase : ∀ n : Node, Node.size (eraseN n) = Node.size n
    | .obj r subs frags => by simp [eraseN, Node.size, sizeList_erase subs, sizeFrags_erase frags]
    | .ref id => rfl
  theorem sizeList_erase : ∀ l : List Node, Node.sizeList (eraseL l) = Node.sizeList l
    | [] => rfl
    | n :: ns => by simp [eraseL, Node.sizeList, size_erase n, sizeList_erase ns]
  theorem sizeFrags_erase : ∀ l : List Frag, Frag.sizeList (eraseF l) = Frag.sizeList l
    | [] => rfl
    | .mk ty ns :: fs => by simp [eraseF, Frag.sizeList, sizeList_erase ns, sizeFrags_erase fs]
end

theorem sizeList_congr {a b : List Node} (h : eraseL a = eraseL b) : Node.sizeList a = Node.sizeList b := by
  rw [← sizeList_erase a, ← sizeList_erase b, h]

theorem opFuel_congr {st1 st2 : Store} {ns1 ns2 : List Node} (h : eraseL st1 = eraseL st2) (hn : eraseL ns1 = eraseL ns2) :
    opFuel st1 ns1 = opFuel st2 ns2 := by
  simp [opFuel, sizeList_congr h, sizeList_congr hn]

/-- two records that agree up to `formatted` -/
theorem rec_of_erase {r1 r2 : Rec} {s1 s2 : List Node} {f1 f2 : List Frag}
    (h : eraseN (.obj r1 s1 f1) = eraseN (.obj r2 s2 f2)) :
    r1.cls = r2.cls ∧ r1.fieldName = r2.fieldName ∧ r1.gqlName = r2.gqlName ∧ r1.vars = r2.vars ∧ r1.alias = r2.alias
      ∧ eraseL s1 = eraseL s2 ∧ eraseF f1 = eraseF f2 := by
  simp only [eraseN, Node.obj.injEq, Rec.mk.injEq] at h
  obtain ⟨⟨a, b, c, d, -, e⟩, f, g⟩ := h
  exact ⟨a, b, c, d, e, f, g⟩

theorem eraseL_isEmpty {a b : List Node} (h : eraseL a = eraseL b) : a.isEmpty = b.isEmpty := by
  have := congrArg List.length h
  rw [eraseL_length, eraseL_length] at this
  cases a <;> cases b <;> simp_all

theorem eraseF_isEmpty {a b : List Frag} (h : eraseF a = eraseF b) : a.isEmpty = b.isEmpty := by
  cases a with
  | nil => cases b with
    | nil => rfl
    | cons y ys => cases y; simp [eraseF] at h
  | cons x xs => cases b with
    | nil => cases x; simp [eraseF] at h
    | cons y ys => rfl

/-! ### rendering changes nothing but `formatted` -/

/-- a successful visit returns the store and the node it was given, up to `formatted` -/
def VisitErase (f : Visit) : Prop :=
  ∀ st used n s n' st' used', f st used n = .ok (s, n', st', used') → eraseL st' = eraseL st ∧ eraseN n' = eraseN n

theorem mapAcc_erase {f : Visit} (hf : VisitErase f) :
    ∀ (ns : List Node) (st : Store) (used : List String) ss ns' st' used',
      mapAcc f st used ns = .ok (ss, ns', st', used') → eraseL st' = eraseL st ∧ eraseL ns' = eraseL ns := by
  intro ns
  induction ns with
  | nil =>
    intro st used ss ns' st' used' h
    simp [mapAcc] at h
    obtain ⟨-, rfl, rfl, -⟩ := h
    exact ⟨rfl, rfl⟩
  | cons n ns ih =>
    intro st used ss ns' st' used' h
    unfold mapAcc at h
    split at h
    · simp at h
    · rename_i s n1 st1 u1 h1
      obtain ⟨e1, e2⟩ := hf _ _ _ _ _ _ _ h1
      split at h
      · simp at h
      · rename_i ss2 ns2 st2 u2 h2
        simp at h
        obtain ⟨-, rfl, rfl, -⟩ := h
        obtain ⟨e3, e4⟩ := ih _ _ _ _ _ _ h2
        exact ⟨e3.trans e1, by simp [eraseL, e2, e4]⟩

theorem mapFrags_erase {f : Visit} (hf : VisitErase f) :
    ∀ (fs : List Frag) (st : Store) (used : List String) ss fs' st' used',
      mapFrags f st used fs = .ok (ss, fs', st', used') → eraseL st' = eraseL st ∧ eraseF fs' = eraseF fs := by
  intro fs
  induction fs with
  | nil =>
    intro st used ss fs' st' used' h
    simp [mapFrags] at h
    obtain ⟨-, rfl, rfl, -⟩ := h
    exact ⟨rfl, rfl⟩
  | cons fr fs ih =>
    intro st used ss fs' st' used' h
    cases fr with
    | mk ty ns =>
      unfold mapFrags at h
      split at h
      · simp at h
      · rename_i ss1 ns1 st1 u1 h1
        obtain ⟨e1, e2⟩ := mapAcc_erase hf _ _ _ _ _ _ _ h1
        split at h
        · simp at h
        · rename_i rest fs2 st2 u2 h2
          simp at h
          obtain ⟨-, rfl, rfl, -⟩ := h
          obtain ⟨e3, e4⟩ := ih _ _ _ _ _ _ h2
          exact ⟨e3.trans e1, by simp [eraseF, e2, e4]⟩

/-- `to_ast` changes nothing but `formatted_variables`: the store and the rendered node are the ones it was
    given, up to `formatted` -/
theorem toAst_erase (idx : Nat) : ∀ fuel, VisitErase (toAst fuel idx) := by
  intro fuel
  induction fuel with
  | zero => intro st used n s n' st' used' h; simp [toAst] at h
  | succ f ih =>
    intro st used n s n' st' used' h
    cases n with
    | obj r subs frags =>
      unfold toAst at h
      split at h
      · simp at h
      · split at h
        · simp at h
        · rename_i ss subs' st1 u2 h2
          obtain ⟨a1, a2⟩ := mapAcc_erase ih _ _ _ _ _ _ _ h2
          split at h
          · simp at h
          · rename_i fs frags' st2 u3 h3
            obtain ⟨b1, b2⟩ := mapFrags_erase ih _ _ _ _ _ _ _ h3
            simp at h
            obtain ⟨-, rfl, rfl, -⟩ := h
            exact ⟨b1.trans a1, by simp [eraseN, a2, b2]⟩
    | ref id =>
      unfold toAst at h
      split at h
      · simp at h
      · rename_i n0 hn
        split at h
        · simp at h
        · rename_i s1 n1 st1 u1 h1
          simp at h
          obtain ⟨-, rfl, rfl, -⟩ := h
          obtain ⟨c1, c2⟩ := ih _ _ _ _ _ _ _ h1
          refine ⟨?_, rfl⟩
          rw [eraseL_set, c1, c2]
          exact set_self _ _ _ (by rw [eraseL_getElem?, hn]; rfl)

theorem buildSelections_erase (fuel : Nat) :
    ∀ (ns : List Node) (idx : Nat) (st : Store) sels ns' st',
      buildSelections fuel idx st ns = .ok (sels, ns', st') → eraseL st' = eraseL st ∧ eraseL ns' = eraseL ns := by
  intro ns
  induction ns with
  | nil =>
    intro idx st sels ns' st' h
    simp [buildSelections] at h
    obtain ⟨-, rfl, rfl⟩ := h
    exact ⟨rfl, rfl⟩
  | cons n ns ih =>
    intro idx st sels ns' st' h
    unfold buildSelections at h
    split at h
    · simp at h
    · rename_i s n1 st1 u1 h1
      obtain ⟨e1, e2⟩ := toAst_erase idx fuel _ _ _ _ _ _ _ h1
      split at h
      · simp at h
      · rename_i ss ns2 st2 h2
        simp at h
        obtain ⟨-, rfl, rfl⟩ := h
        obtain ⟨e3, e4⟩ := ih _ _ _ _ _ h2
        exact ⟨e3.trans e1, by simp [eraseL, e2, e4]⟩

/-- one client call changes nothing but `formatted_variables` -/
theorem execOp_erase {ty nm : String} {st : Store} {nodes : List Node} {d : Doc} {st' : Store}
    (h : execOp ty nm st nodes = .ok (d, st')) : eraseL st' = eraseL st := by
  unfold execOp at h
  split at h
  · simp at h
  · rename_i sels nodes' st1 hb
    split at h
    · simp at h
    · simp at h
      rw [← h.2]
      exact (buildSelections_erase _ _ _ _ _ _ _ hb).1

/-! ### two runs from configurations that agree up to `formatted` -/

mutual
  /-- every reference inside the node points into `A` -/
  def RefsIn (A : Nat → Prop) : Node → Prop
    | .obj _ subs frags => RefsInL A subs ∧ RefsInF A frags
    | .ref id => A id
  def RefsInL (A : Nat → Prop) : List Node → Prop
    | [] => True
    | n :: ns => RefsIn A n ∧ RefsInL A ns
  def RefsInF (A : Nat → Prop) : List Frag → Prop
    | [] => True
    | .mk _ ns :: fs => RefsInL A ns ∧ RefsInF A fs
end

mutual
  theorem refsIn_mono {A B : Nat → Prop} (h : ∀ i, A i → B i) : ∀ n, RefsIn A n → RefsIn B n
    | .obj r subs frags, hr => by
      simp only [RefsIn] at hr ⊢
      exact ⟨refsInL_mono h subs hr.1, refsInF_mono h frags hr.2⟩
    | .ref id, hr => by
      simp only [RefsIn] at hr ⊢
      exact h id hr
  theorem refsInL_mono {A B : Nat → Prop} (h : ∀ i, A i → B i) : ∀ ns, RefsInL A ns → RefsInL B ns
    | [], _ => by simp only [RefsInL]
    | n :: ns, hr => by
      simp only [RefsInL] at hr ⊢
      exact ⟨refsIn_mono h n hr.1, refsInL_mono h ns hr.2⟩
  theorem refsInF_mono {A B : Nat → Prop} (h : ∀ i, A i → B i) : ∀ fs, RefsInF A fs → RefsInF B fs
    | [], _ => by simp only [RefsInF]
    | .mk ty ns :: fs, hr => by
      simp only [RefsInF] at hr ⊢
      exact ⟨refsInL_mono h ns hr.1, refsInF_mono h fs hr.2⟩
end

/-- the two stores are IDENTICAL (`formatted` included) on the set `A` of object ids, and `A` is closed under
    the references found in its objects -/
structure Good (A : Nat → Prop) (st1 st2 : Store) : Prop where
  same : ∀ id, A id → st1[id]? = st2[id]?
  closed : ∀ id m, A id → st1[id]? = some m → RefsIn A m

theorem good_empty (st1 st2 : Store) : Good (fun _ => False) st1 st2 :=
  ⟨fun _ h => h.elim, fun _ _ h => h.elim⟩

mutual
  theorem refsIn_eraseN (F : Nat → Prop) : ∀ n, RefsIn F (eraseN n) ↔ RefsIn F n
    | .obj r subs frags => by
      simp only [eraseN, RefsIn, refsInL_eraseL F subs, refsInF_eraseF F frags]
    | .ref id => by simp only [eraseN]
  theorem refsInL_eraseL (F : Nat → Prop) : ∀ ns, RefsInL F (eraseL ns) ↔ RefsInL F ns
    | [] => by simp only [eraseL]
    | n :: ns => by simp only [eraseL, RefsInL, refsIn_eraseN F n, refsInL_eraseL F ns]
  theorem refsInF_eraseF (F : Nat → Prop) : ∀ fs, RefsInF F (eraseF fs) ↔ RefsInF F fs
    | [] => by simp only [eraseF]
    | .mk ty ns :: fs => by simp only [eraseF, RefsInF, refsInL_eraseL F ns, refsInF_eraseF F fs]
end

theorem refsIn_of_erase {F : Nat → Prop} {n m : Node} (h : eraseN n = eraseN m) (hr : RefsIn F n) : RefsIn F m := by
  rw [← refsIn_eraseN, ← h, refsIn_eraseN]; exact hr

theorem refsInL_of_erase {F : Nat → Prop} {n m : List Node} (h : eraseL n = eraseL m) (hr : RefsInL F n) : RefsInL F m := by
  rw [← refsInL_eraseL, ← h, refsInL_eraseL]; exact hr

theorem refsInF_of_erase {F : Nat → Prop} {n m : List Frag} (h : eraseF n = eraseF m) (hr : RefsInF F n) : RefsInF F m := by
  rw [← refsInF_eraseF, ← h, refsInF_eraseF]; exact hr

mutual
  theorem refsIn_true : ∀ n, RefsIn (fun _ => True) n
    | .obj r subs frags => by simp only [RefsIn]; exact ⟨refsInL_true subs, refsInF_true frags⟩
    | .ref id => by simp only [RefsIn]
  theorem refsInL_true : ∀ ns, RefsInL (fun _ => True) ns
    | [] => by simp only [RefsInL]
    | n :: ns => by simp only [RefsInL]; exact ⟨refsIn_true n, refsInL_true ns⟩
  theorem refsInF_true : ∀ fs, RefsInF (fun _ => True) fs
    | [] => by simp only [RefsInF]
    | .mk ty ns :: fs => by simp only [RefsInF]; exact ⟨refsInL_true ns, refsInF_true fs⟩
end

/-- FRAME: the two stores agree up to `formatted` on the set `F` of object ids, and `F` is closed under the
    references found in its objects (outside `F` the stores may differ arbitrarily: nothing that starts inside `F`
    ever looks there) -/
structure EraseAgree (F : Nat → Prop) (st1 st2 : Store) : Prop where
  len : st1.length = st2.length
  look : ∀ id, F id → (st1[id]?).map eraseN = (st2[id]?).map eraseN
  closed : ∀ id m, F id → st1[id]? = some m → RefsIn F m

theorem eraseAgree_of_eq {st1 st2 : Store} (h : eraseL st1 = eraseL st2) : EraseAgree (fun _ => True) st1 st2 :=
  ⟨erase_length h, fun id _ => erase_lookup h id, fun _ m _ _ => refsIn_true m⟩

/-- both runs changed nothing but `formatted`: the frame is still there -/
theorem EraseAgree.step {F : Nat → Prop} {st1 st2 t1 t2 : Store} (h : EraseAgree F st1 st2)
    (h1 : eraseL t1 = eraseL st1) (h2 : eraseL t2 = eraseL st2) : EraseAgree F t1 t2 := by
  refine ⟨?_, ?_, ?_⟩
  · rw [erase_length h1, erase_length h2]; exact h.len
  · intro id hid
    rw [erase_lookup h1 id, erase_lookup h2 id]
    exact h.look id hid
  · intro id m hid hm
    have hl := erase_lookup h1 id
    rw [hm] at hl
    cases hm0 : st1[id]? with
    | none => rw [hm0] at hl; simp at hl
    | some m0 =>
      rw [hm0] at hl
      simp at hl
      exact refsIn_of_erase hl.symm (h.closed id m0 hid hm0)

/-- outcome of the same visit in two runs: the same exception, or the same selection / rendered node / used
    names, and stores that are identical on a closed set (grown from `A`) containing everything the rendered node
    refers to -/
def Sim {σ ν : Type} (P : (Nat → Prop) → ν → Prop) (A : Nat → Prop)
    (r1 r2 : Except Err (σ × ν × Store × List String)) : Prop :=
  (∃ e, r1 = .error e ∧ r2 = .error e) ∨
  (∃ s n t1 t2 u, ∃ A' : Nat → Prop, r1 = .ok (s, n, t1, u) ∧ r2 = .ok (s, n, t2, u) ∧
      (∀ i, A i → A' i) ∧ Good A' t1 t2 ∧ P A' n)

theorem Sim.error {σ ν : Type} {P : (Nat → Prop) → ν → Prop} {A : Nat → Prop} {e : Err} :
    Sim (σ := σ) P A (.error e) (.error e) := Or.inl ⟨e, rfl, rfl⟩

theorem Sim.ok {σ ν : Type} {P : (Nat → Prop) → ν → Prop} {A A' : Nat → Prop} {s : σ} {n : ν} {t1 t2 : Store}
    {u : List String} (hA : ∀ i, A i → A' i) (hg : Good A' t1 t2) (hp : P A' n) :
    Sim P A (.ok (s, n, t1, u)) (.ok (s, n, t2, u)) := Or.inr ⟨s, n, t1, t2, u, A', rfl, rfl, hA, hg, hp⟩

def VisitSim (f : Visit) : Prop :=
  ∀ (F A : Nat → Prop) (st1 st2 : Store) (used : List String) (n1 n2 : Node),
    EraseAgree F st1 st2 → eraseN n1 = eraseN n2 → RefsIn F n1 → Good A st1 st2 →
    Sim RefsIn A (f st1 used n1) (f st2 used n2)

theorem mapAcc_sim {f : Visit} (he : VisitErase f) (hf : VisitSim f) :
    ∀ (ns1 ns2 : List Node) (F A : Nat → Prop) (st1 st2 : Store) (used : List String),
      EraseAgree F st1 st2 → eraseL ns1 = eraseL ns2 → RefsInL F ns1 → Good A st1 st2 →
      Sim RefsInL A (mapAcc f st1 used ns1) (mapAcc f st2 used ns2) := by
  intro ns1
  induction ns1 with
  | nil =>
    intro ns2 F A st1 st2 used hs hn hF hg
    cases ns2 with
    | nil =>
      simp only [mapAcc]
      exact Sim.ok (fun _ h => h) hg trivial
    | cons y ys => simp [eraseL] at hn
  | cons n1 ns1 ih =>
    intro ns2 F A st1 st2 used hs hn hF hg
    cases ns2 with
    | nil => simp [eraseL] at hn
    | cons n2 ns2 =>
      simp only [eraseL, List.cons.injEq] at hn
      obtain ⟨hn1, hn2⟩ := hn
      simp only [RefsInL] at hF
      simp only [mapAcc]
      rcases hf F A st1 st2 used n1 n2 hs hn1 hF.1 hg with ⟨e, h1, h2⟩ | ⟨s, m, t1, t2, u, A1, h1, h2, hA1, hg1, hr1⟩
      · rw [h1, h2]; exact Sim.error
      · rw [h1, h2]
        dsimp only
        have hs1 : EraseAgree F t1 t2 := hs.step (he _ _ _ _ _ _ _ h1).1 (he _ _ _ _ _ _ _ h2).1
        rcases ih ns2 F A1 t1 t2 u hs1 hn2 hF.2 hg1 with ⟨e, h3, h4⟩ | ⟨ss, ms, t1', t2', u', A2, h3, h4, hA2, hg2, hr2⟩
        · rw [h3, h4]; exact Sim.error
        · rw [h3, h4]
          exact Sim.ok (fun i h => hA2 i (hA1 i h)) hg2 ⟨refsIn_mono hA2 m hr1, hr2⟩

theorem mapFrags_sim {f : Visit} (he : VisitErase f) (hf : VisitSim f) :
    ∀ (fs1 fs2 : List Frag) (F A : Nat → Prop) (st1 st2 : Store) (used : List String),
      EraseAgree F st1 st2 → eraseF fs1 = eraseF fs2 → RefsInF F fs1 → Good A st1 st2 →
      Sim RefsInF A (mapFrags f st1 used fs1) (mapFrags f st2 used fs2) := by
  intro fs1
  induction fs1 with
  | nil =>
    intro fs2 F A st1 st2 used hs hn hF hg
    cases fs2 with
    | nil =>
      simp only [mapFrags]
      exact Sim.ok (fun _ h => h) hg trivial
    | cons y ys => cases y; simp [eraseF] at hn
  | cons x fs1 ih =>
    intro fs2 F A st1 st2 used hs hn hF hg
    cases x with
    | mk ty1 ns1 =>
      cases fs2 with
      | nil => simp [eraseF] at hn
      | cons y fs2 =>
        cases y with
        | mk ty2 ns2 =>
          simp only [eraseF, List.cons.injEq, Frag.mk.injEq] at hn
          obtain ⟨⟨rfl, hn1⟩, hn2⟩ := hn
          simp only [RefsInF] at hF
          simp only [mapFrags]
          rcases mapAcc_sim he hf ns1 ns2 F A st1 st2 used hs hn1 hF.1 hg with
            ⟨e, h1, h2⟩ | ⟨ss, ms, t1, t2, u, A1, h1, h2, hA1, hg1, hr1⟩
          · rw [h1, h2]; exact Sim.error
          · rw [h1, h2]
            dsimp only
            have hs1 : EraseAgree F t1 t2 :=
              hs.step (mapAcc_erase he _ _ _ _ _ _ _ h1).1 (mapAcc_erase he _ _ _ _ _ _ _ h2).1
            rcases ih fs2 F A1 t1 t2 u hs1 hn2 hF.2 hg1 with ⟨e, h3, h4⟩ | ⟨rest, fs', t1', t2', u', A2, h3, h4, hA2, hg2, hr2⟩
            · rw [h3, h4]; exact Sim.error
            · rw [h3, h4]
              exact Sim.ok (fun i h => hA2 i (hA1 i h)) hg2 ⟨refsInL_mono hA2 ms hr1, hr2⟩

/-- `to_ast` never reads `formatted_variables`: from two configurations that agree up to them it raises the
    same exception or produces the same selection, used names and rendered node, and leaves stores that are
    identical wherever the rendered node can lead `get_formatted_variables` -/
theorem toAst_sim (idx : Nat) : ∀ fuel, VisitSim (toAst fuel idx) := by
  intro fuel
  induction fuel with
  | zero =>
    intro F A st1 st2 used n1 n2 hs hn hF hg
    simp only [toAst]
    exact Sim.error
  | succ f ih =>
    intro F A st1 st2 used n1 n2 hs hn hF hg
    cases n1 with
    | obj r1 s1 f1 =>
      cases n2 with
      | ref id => simp [eraseN] at hn
      | obj r2 s2 f2 =>
        obtain ⟨hc, hfn, hgn, hv, hal, hsub, hfr⟩ := rec_of_erase hn
        obtain ⟨c1, fn1, g1, v1, fm1, al1⟩ := r1
        obtain ⟨c2, fn2, g2, v2, fm2, al2⟩ := r2
        simp only at hc hfn hgn hv hal
        subst hc hfn hgn hv hal
        simp only [RefsIn] at hF
        simp only [toAst]
        cases hcv : collectVars idx v1 used with
        | error e => exact Sim.error
        | ok x =>
          obtain ⟨fv, u1⟩ := x
          dsimp only
          rcases mapAcc_sim (toAst_erase idx f) ih s1 s2 F A st1 st2 u1 hs hsub hF.1 hg with
            ⟨e, h1, h2⟩ | ⟨ss, subs', t1, t2, u2, A1, h1, h2, hA1, hg1, hr1⟩
          · rw [h1, h2]; exact Sim.error
          · rw [h1, h2]
            dsimp only
            have hs1 : EraseAgree F t1 t2 :=
              hs.step (mapAcc_erase (toAst_erase idx f) _ _ _ _ _ _ _ h1).1
                (mapAcc_erase (toAst_erase idx f) _ _ _ _ _ _ _ h2).1
            rcases mapFrags_sim (toAst_erase idx f) ih f1 f2 F A1 t1 t2 u2 hs1 hfr hF.2 hg1 with
              ⟨e, h3, h4⟩ | ⟨fsel, frags', t1', t2', u3, A2, h3, h4, hA2, hg2, hr2⟩
            · rw [h3, h4]; exact Sim.error
            · rw [h3, h4]
              dsimp only
              rw [eraseL_isEmpty hsub, eraseF_isEmpty hfr]
              exact Sim.ok (fun i h => hA2 i (hA1 i h)) hg2 ⟨refsInL_mono hA2 subs' hr1, hr2⟩
    | ref id =>
      cases n2 with
      | obj r2 s2 f2 => simp [eraseN] at hn
      | ref id2 =>
        simp only [eraseN, Node.ref.injEq] at hn
        subst hn
        simp only [RefsIn] at hF
        simp only [toAst]
        have hl := hs.look id hF
        cases hm1 : st1[id]? with
        | none =>
          rw [hm1] at hl
          cases hm2 : st2[id]? with
          | none => exact Sim.error
          | some m2 => rw [hm2] at hl; simp at hl
        | some m1 =>
          rw [hm1] at hl
          cases hm2 : st2[id]? with
          | none => rw [hm2] at hl; simp at hl
          | some m2 =>
            rw [hm2] at hl
            simp at hl
            dsimp only
            rcases ih F A st1 st2 used m1 m2 hs hl (hs.closed id m1 hF hm1) hg with
              ⟨e, h1, h2⟩ | ⟨s, n', t1, t2, u1, A1, h1, h2, hA1, hg1, hr1⟩
            · rw [h1, h2]; exact Sim.error
            · rw [h1, h2]
              dsimp only
              have hs1 : EraseAgree F t1 t2 :=
                hs.step (toAst_erase idx f _ _ _ _ _ _ _ h1).1 (toAst_erase idx f _ _ _ _ _ _ _ h2).1
              have hlen := hs1.len
              refine Sim.ok (A' := fun j => j = id ∨ A1 j) (fun i h => Or.inr (hA1 i h)) ?_ (Or.inl rfl)
              constructor
              · intro j hj
                by_cases hji : id = j
                · subst hji
                  simp [List.getElem?_set, hlen]
                · rcases hj with rfl | hj
                  · exact absurd rfl hji
                  · rw [List.getElem?_set_ne hji, List.getElem?_set_ne hji]
                    exact hg1.same j hj
              · intro j m hj hm
                by_cases hji : id = j
                · subst hji
                  rw [List.getElem?_set] at hm
                  simp at hm
                  obtain ⟨-, rfl⟩ := hm
                  exact refsIn_mono (fun i h => Or.inr h) _ hr1
                · rcases hj with rfl | hj
                  · exact absurd rfl hji
                  · rw [List.getElem?_set_ne hji] at hm
                    exact refsIn_mono (fun i h => Or.inr h) _ (hg1.closed j m hj hm)

/-! ### `get_formatted_variables` only looks where the stores are identical -/

theorem gfvList_congr {f g : GVisit} {A : Nat → Prop} (h : ∀ n, RefsIn A n → f n = g n) :
    ∀ (ns : List Node) (d : List FVar), RefsInL A ns → gfvList f d ns = gfvList g d ns
  | [], d, _ => rfl
  | n :: ns, d, hr => by
    simp only [RefsInL] at hr
    simp only [gfvList]
    rw [h n hr.1]
    cases g n with
    | error e => rfl
    | ok x => exact gfvList_congr h ns _ hr.2

theorem gfvFrags_congr {f g : GVisit} {A : Nat → Prop} (h : ∀ n, RefsIn A n → f n = g n) :
    ∀ (fs : List Frag) (d : List FVar), RefsInF A fs → gfvFrags f d fs = gfvFrags g d fs
  | [], d, _ => rfl
  | .mk ty ns :: fs, d, hr => by
    simp only [RefsInF] at hr
    simp only [gfvFrags]
    rw [gfvList_congr h ns d hr.1]
    cases gfvList g d ns with
    | error e => rfl
    | ok d1 => exact gfvFrags_congr h fs _ hr.2

theorem getFormatted_agree {A : Nat → Prop} {st1 st2 : Store} (hg : Good A st1 st2) :
    ∀ (fuel : Nat) (n : Node), RefsIn A n → getFormatted fuel st1 n = getFormatted fuel st2 n := by
  intro fuel
  induction fuel with
  | zero => intro n _; rfl
  | succ f ih =>
    intro n hr
    cases n with
    | obj r subs frags =>
      simp only [RefsIn] at hr
      simp only [getFormatted]
      rw [gfvList_congr ih subs r.formatted hr.1]
      cases gfvList (getFormatted f st2) r.formatted subs with
      | error e => rfl
      | ok d1 => exact gfvFrags_congr ih frags d1 hr.2
    | ref id =>
      simp only [RefsIn] at hr
      simp only [getFormatted]
      rw [← hg.same id hr]
      cases hm : st1[id]? with
      | none => rfl
      | some m => exact ih m (hg.closed id m hr hm)

/-! ### one client call -/

theorem buildSelections_sim (fuel : Nat) :
    ∀ (ns1 ns2 : List Node) (idx : Nat) (F A : Nat → Prop) (st1 st2 : Store),
      EraseAgree F st1 st2 → eraseL ns1 = eraseL ns2 → RefsInL F ns1 → Good A st1 st2 →
      (∃ e, buildSelections fuel idx st1 ns1 = .error e ∧ buildSelections fuel idx st2 ns2 = .error e) ∨
      (∃ sels ns' t1 t2, ∃ A' : Nat → Prop, buildSelections fuel idx st1 ns1 = .ok (sels, ns', t1) ∧
          buildSelections fuel idx st2 ns2 = .ok (sels, ns', t2) ∧ (∀ i, A i → A' i) ∧ Good A' t1 t2 ∧
          RefsInL A' ns') := by
  intro ns1
  induction ns1 with
  | nil =>
    intro ns2 idx F A st1 st2 hs hn hF hg
    cases ns2 with
    | nil => exact Or.inr ⟨[], [], st1, st2, A, rfl, rfl, fun _ h => h, hg, trivial⟩
    | cons y ys => simp [eraseL] at hn
  | cons n1 ns1 ih =>
    intro ns2 idx F A st1 st2 hs hn hF hg
    cases ns2 with
    | nil => simp [eraseL] at hn
    | cons n2 ns2 =>
      simp only [eraseL, List.cons.injEq] at hn
      obtain ⟨hn1, hn2⟩ := hn
      simp only [RefsInL] at hF
      simp only [buildSelections]
      rcases toAst_sim idx fuel F A st1 st2 [] n1 n2 hs hn1 hF.1 hg with
        ⟨e, h1, h2⟩ | ⟨s, m, t1, t2, u, A1, h1, h2, hA1, hg1, hr1⟩
      · rw [h1, h2]; exact Or.inl ⟨e, rfl, rfl⟩
      · rw [h1, h2]
        dsimp only
        have hs1 : EraseAgree F t1 t2 :=
          hs.step (toAst_erase idx fuel _ _ _ _ _ _ _ h1).1 (toAst_erase idx fuel _ _ _ _ _ _ _ h2).1
        rcases ih ns2 (idx + 1) F A1 t1 t2 hs1 hn2 hF.2 hg1 with
          ⟨e, h3, h4⟩ | ⟨sels, ns', t1', t2', A2, h3, h4, hA2, hg2, hr2⟩
        · rw [h3, h4]; exact Or.inl ⟨e, rfl, rfl⟩
        · rw [h3, h4]
          exact Or.inr ⟨s :: sels, m :: ns', t1', t2', A2, rfl, rfl, fun i h => hA2 i (hA1 i h), hg2,
            refsIn_mono hA2 m hr1, hr2⟩

theorem combine_agree {A : Nat → Prop} {st1 st2 : Store} (hg : Good A st1 st2) (fuel : Nat) (ns : List Node)
    (hr : RefsInL A ns) : combine fuel st1 ns = combine fuel st2 ns :=
  gfvList_congr (getFormatted_agree hg fuel) ns [] hr

/-- outcome of one client call in two runs: the same exception, or the same document and processes that
    agree again up to `formatted` -/
def ExecAgree (r1 r2 : Except Err (Doc × Store)) : Prop :=
  (∃ e, r1 = .error e ∧ r2 = .error e) ∨
  (∃ d t1 t2, r1 = .ok (d, t1) ∧ r2 = .ok (d, t2) ∧ eraseL t1 = eraseL t2)

/-- the document of one client call does not depend on the `formatted_variables` it finds in the objects -/
theorem execOp_formatted_irrelevant (ty nm : String) {st1 st2 : Store} {ns1 ns2 : List Node}
    (hs : eraseL st1 = eraseL st2) (hn : eraseL ns1 = eraseL ns2) :
    ExecAgree (execOp ty nm st1 ns1) (execOp ty nm st2 ns2) := by
  unfold execOp
  rw [opFuel_congr hs hn]
  rcases buildSelections_sim (opFuel st2 ns2) ns1 ns2 0 _ _ st1 st2 (eraseAgree_of_eq hs) hn (refsInL_true ns1)
      (good_empty st1 st2) with
    ⟨e, h1, h2⟩ | ⟨sels, ns', t1, t2, A', h1, h2, -, hg, hr⟩
  · rw [h1, h2]; exact Or.inl ⟨e, rfl, rfl⟩
  · rw [h1, h2]
    dsimp only
    rw [combine_agree hg _ _ hr]
    cases combine (opFuel st2 ns2) t2 ns' with
    | error e => exact Or.inl ⟨e, rfl, rfl⟩
    | ok fv =>
      refine Or.inr ⟨_, t1, t2, rfl, rfl, ?_⟩
      rw [(buildSelections_erase _ _ _ _ _ _ _ h1).1, (buildSelections_erase _ _ _ _ _ _ _ h2).1, hs]

end Ariadne.C14
