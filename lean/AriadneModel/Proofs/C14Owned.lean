/-
  C14 helper lemmas, part 7: objects that OUTLIVE an operation (class-level objects, objects kept in python
  variables - Model/BuilderLet.lean) and are rendered again.

  `to_ast` never reads `formatted_variables` (`_collect_all_variables` starts from `{}`), so what earlier
  renderings left in the objects cannot influence a later document:

    * `Node.erase` forgets `formatted` everywhere; `to_ast` preserves the erased store and node
      (`toAst_erase`), i.e. rendering changes nothing but `formatted`;
    * two runs of `to_ast` from configurations that agree up to `formatted` produce the same selection, the
      same used-names, the SAME rendered node, and stores that agree - `formatted` included - on a set of
      object ids closed under references that contains everything the rendered node refers to (`toAst_sim`);
    * `get_formatted_variables` only looks at such a set (`getFormatted_agree`);
  hence `execOp_formatted_irrelevant`: the document of one client call does not depend on the `formatted`
  fields it finds.
-/
import AriadneModel.Proofs.C14Store
import AriadneModel.Model.BuilderLet

set_option linter.unusedSimpArgs false
set_option linter.unusedVariables false

namespace Ariadne.C14
open Ariadne Ariadne.Builder Ariadne.CustomGen Ariadne.BuilderDoc

/-! ### forgetting `formatted` -/

mutual
  def eraseN : Node → Node
    | .obj r subs frags => .obj { r with formatted := [] } (eraseL subs) (eraseF frags)
    | .ref id => .ref id
  def eraseL : List Node → List Node
    | [] => []
    | n :: ns => eraseN n :: eraseL ns
  def eraseF : List Frag → List Frag
    | [] => []
    | .mk ty ns :: fs => .mk ty (eraseL ns) :: eraseF fs
end

theorem eraseL_eq_map : ∀ l : List Node, eraseL l = l.map eraseN
  | [] => rfl
  | n :: ns => by simp [eraseL, eraseL_eq_map ns]

theorem eraseL_length (l : List Node) : (eraseL l).length = l.length := by
  simp [eraseL_eq_map]

theorem eraseL_getElem? (l : List Node) (i : Nat) : (eraseL l)[i]? = (l[i]?).map eraseN := by
  simp [eraseL_eq_map]

theorem eraseL_set (l : List Node) (i : Nat) (n : Node) : eraseL (l.set i n) = (eraseL l).set i (eraseN n) := by
  simp [eraseL_eq_map, List.map_set]

theorem eraseL_append (a b : List Node) : eraseL (a ++ b) = eraseL a ++ eraseL b := by
  simp [eraseL_eq_map]

/-- agreement up to `formatted` at one id -/
theorem erase_lookup {st1 st2 : Store} (h : eraseL st1 = eraseL st2) (id : Nat) :
    (st1[id]?).map eraseN = (st2[id]?).map eraseN := by
  rw [← eraseL_getElem?, ← eraseL_getElem?, h]

theorem erase_length {st1 st2 : Store} (h : eraseL st1 = eraseL st2) : st1.length = st2.length := by
  rw [← eraseL_length st1, ← eraseL_length st2, h]

mutual
  theorem size_erase : ∀ n : Node, Node.size (eraseN n) = Node.size n
    | .obj r subs frags => by simp [eraseN, Node.size, sizeList_erase subs, sizeFrags_erase frags]
    | .ref id => rfl
  theorem sizeList_erase : ∀ l : List Node, Node.sizeList (eraseL l) = Node.sizeList l
    | [] => rfl
    | n :: ns => by simp [eraseL, Node.sizeList, size_erase n, sizeList_erase ns]
  theorem sizeFrags_erase : ∀ l : List Frag, Frag.sizeList (eraseF l) = Frag.sizeList l
    | [] => rfl
    | .mk ty ns :: fs => by simp [eraseF, Frag.sizeList, sizeList_erase ns, sizeFrags_erase fs]
end

theorem sizeList_congr {a b : List Node} (h : eraseL a = eraseL b) : Node.sizeList a = Node.sizeList b := by
  rw [← sizeList_erase a, ← sizeList_erase b, h]

theorem opFuel_congr {st1 st2 : Store} {ns1 ns2 : List Node} (h : eraseL st1 = eraseL st2) (hn : eraseL ns1 = eraseL ns2) :
    opFuel st1 ns1 = opFuel st2 ns2 := by
  simp [opFuel, sizeList_congr h, sizeList_congr hn]

/-- two records that agree up to `formatted` -/
theorem rec_of_erase {r1 r2 : Rec} {s1 s2 : List Node} {f1 f2 : List Frag}
    (h : eraseN (.obj r1 s1 f1) = eraseN (.obj r2 s2 f2)) :
    r1.cls = r2.cls ∧ r1.fieldName = r2.fieldName ∧ r1.gqlName = r2.gqlName ∧ r1.vars = r2.vars ∧ r1.alias = r2.alias
      ∧ eraseL s1 = eraseL s2 ∧ eraseF f1 = eraseF f2 := by
  simp only [eraseN, Node.obj.injEq, Rec.mk.injEq] at h
  obtain ⟨⟨a, b, c, d, -, e⟩, f, g⟩ := h
  exact ⟨a, b, c, d, e, f, g⟩

theorem eraseL_isEmpty {a b : List Node} (h : eraseL a = eraseL b) : a.isEmpty = b.isEmpty := by
  have := congrArg List.length h
  rw [eraseL_length, eraseL_length] at this
  cases a <;> cases b <;> simp_all

theorem eraseF_isEmpty {a b : List Frag} (h : eraseF a = eraseF b) : a.isEmpty = b.isEmpty := by
  cases a with
  | nil => cases b with
    | nil => rfl
    | cons y ys => cases y; simp [eraseF] at h
  | cons x xs => cases b with
    | nil => cases x; simp [eraseF] at h
    | cons y ys => rfl

end Ariadne.C14
