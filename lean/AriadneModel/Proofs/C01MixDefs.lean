/-
  Proofs/C01MixDefs.lean — property C01, "mixin" tier: definitions (core Lean only).

  The tier extends the PLAIN tier (Proofs/C01PlainDefs.lean: fields of leaf or object type, aliases, `@skip/@include`) by
  NAMED FRAGMENTS USED AS MIXINS: a spread `...F` in a selection set evaluated on the object type `T`, where `F` is
  defined on exactly `T` and contains no inline fragment, is not unpacked — the class of the selection set INHERITS from the
  class generated for `F` in the fragments module.  Fragments may spread further fragments (on the same type) and contain
  composite fields whose sub-selections spread fragments again.

  * `mClass env cn tn sel`: the classes `_parse_type_definition` emits (bases = the fragments spread, sorted; own fields only).
  * `mflat env k cn tn sel`: all field nodes of the class, own and inherited, each with the class that declares it
    (`k` = fuel for the fragment nesting).
  * `mfull`, `mneed`: "fuel `k` suffices", and a bound for the executor / validation fuel.
  * `MixOK`: the decidable hypothesis for one class tree; `fragsOK`: for the fragment definitions.
-/
import AriadneModel.Proofs.C01PlainDefs

set_option linter.unusedSimpArgs false
set_option linter.unusedVariables false

namespace Ariadne.C01Mix
open Ariadne Ariadne.Gql Ariadne.ResultTypes Ariadne.Util Ariadne.C01Plain

/-! ### bases -/

def spreadName? : Selection → Option String
  | .spread n _ => some n
  | _ => none

/-- `fragments` of `_resolve_selection_set`: the names spread at the top level, first-seen order, no repetition -/
def spreadNames (sel : List Selection) : List String := (sel.filterMap spreadName?).foldl setAdd []

def basesOf (sel : List Selection) : List String :=
  if (spreadNames sel).isEmpty then ["BaseModel"] else (sortStr (spreadNames sel)).map pascal

/-! ### the clean generator -/

mutual
  def mExtra (env : Env) : String → String → List Selection → List ClassDecl
    | _, _, [] => []
    | cn, tn, s :: rest => mExtra1 env cn tn s ++ mExtra env cn tn rest
  def mExtra1 (env : Env) : String → String → Selection → List ClassDecl
    | cn, tn, .field alias name _ _ sub =>
      if sub.isEmpty then []
      else
        { name := subClass env cn alias name, bases := basesOf sub,
          fields := plainDecls env (subClass env cn alias name) (subType env tn name) sub }
          :: mExtra env (subClass env cn alias name) (subType env tn name) sub
    | _, _, _ => []
end

/-- **the clean generator**: own fields only; the fragments spread become base classes -/
def mClass (env : Env) (cn tn : String) (sel : List Selection) : List ClassDecl :=
  { name := cn, bases := basesOf sel, fields := plainDecls env cn tn sel } :: mExtra env cn tn sel

/-- the classes of the fragments module contributed by one fragment definition -/
def fragClassesOf (env : Env) (f : Fragment) : List ClassDecl := mClass env (pascal f.name) f.on f.sel

/-! ### all field nodes of a class, own and inherited -/

/-- (declaring class, field node) of every field the class `cn` (selection `sel`) has, in document order; `k` bounds the
    nesting of fragment spreads -/
def mflat (env : Env) : Nat → String → List Selection → List (String × Selection)
  | 0, _, _ => []
  | k + 1, cn, sel =>
    sel.flatMap fun s =>
      match s with
      | .field a n d sid sub => [(cn, .field a n d sid sub)]
      | .spread n _ =>
        match findFragment? env.frags n with
        | some f => mflat env k (pascal f.name) f.sel
        | none => []
      | _ => []

/-- fuel `k` suffices for everything reachable from `sel` (evaluated on `tn`): through sub-selections and spreads -/
def mfull (env : Env) : Nat → String → List Selection → Bool
  | 0, _, _ => false
  | k + 1, tn, sel =>
    sel.all fun s =>
      match s with
      | .field _ name _ _ sub => sub.isEmpty || mfull env k (subType env tn name) sub
      | .spread n _ =>
        match findFragment? env.frags n with
        | some f => mfull env k f.on f.sel
        | none => false
      | _ => false

/-- fuel `k` suffices for the nesting of fragment spreads alone (what `mflat` and pydantic's inheritance follow) -/
def mfullS (env : Env) : Nat → List Selection → Bool
  | 0, _ => false
  | k + 1, sel =>
    sel.all fun s =>
      match s with
      | .spread n _ =>
        match findFragment? env.frags n with
        | some f => mfullS env k f.sel
        | none => false
      | _ => true

/-- more fragment definitions than this cannot be nested without a cycle -/
def fragDepth (env : Env) : Nat := env.frags.length + 1

/-- a bound on the executor fuel and the validation fuel needed at the class of `sel`; strictly larger than the bound of
    every fragment spread and of every sub-selection -/
def mneed (env : Env) : Nat → String → List Selection → Nat
  | 0, _, _ => 0
  | k + 1, tn, sel =>
    sel.foldl (fun acc s => max acc
      (match s with
       | .field _ name _ _ sub =>
         wneed (fieldT env tn name) + 2 + (if sub.isEmpty then 0 else mneed env k (subType env tn name) sub + 1)
       | .spread n _ =>
         match findFragment? env.frags n with
         | some f => mneed env k f.on f.sel + 1
         | none => 0
       | _ => 0)) 2


/-! ### selection-set ids untouched by the automatic `__typename` -/

mutual
  /-- no selection set of a composite field anywhere below has its id in `M` (the marks): the generator finds no automatic
      `__typename` there, and `Marks.applySels M` leaves the selections as they are -/
  def sidFree (M : List Nat) : List Selection → Bool
    | [] => true
    | s :: rest => sidFree1 M s && sidFree M rest
  def sidFree1 (M : List Nat) : Selection → Bool
    | .field _ _ _ sid sub => (sub.isEmpty || !M.contains sid) && sidFree M sub
    | .spread _ _ => true
    | .inline _ _ _ sub => sidFree M sub
end

/-! ### the hypothesis -/

def isInlineSel : Selection → Bool
  | .inline .. => true
  | _ => false

/-- the conditions of the plain tier on response keys / Python names, for ALL field nodes of one class (own and inherited) -/
def msetOK (env : Env) (k : Nat) (cn : String) (sel : List Selection) : Bool :=
  setOK env ((mflat env k cn sel).map (·.2))

mutual
  /-- structural conditions on one selection set evaluated on the OBJECT type `tn`, class `cn`; `k` = fuel for the
      fragment nesting (`mflat`) -/
  def mLocal (env : Env) (k : Nat) : String → String → List Selection → Bool
    | _, _, [] => true
    | cn, tn, s :: rest => mLocal1 env k cn tn s && mLocal env k cn tn rest
  def mLocal1 (env : Env) (k : Nat) : String → String → Selection → Bool
    | cn, tn, .field alias name dirs _ sub =>
      name != typenameField
      && !(dirs.any (·.name == Tables.mixinName))
      && (env.schema.fieldOf? tn name).isSome
      && (if sub.isEmpty then isLeafName env (subType env tn name)
          else
            env.schema.kindOf? (subType env tn name) == some .object
            && msetOK env k (subClass env cn alias name) sub
            && mfullS env (fragDepth env) sub
            && mLocal env k (subClass env cn alias name) (subType env tn name) sub)
    | _, tn, .spread n dirs =>
      -- no `@skip/@include` on the spread (finding C01-F3); the fragment is defined on exactly this type
      !hasConditionalDirective dirs
      && (match findFragment? env.frags n with
          | some f => f.on == tn
          | none => false)
    | _, _, _ => false     -- inline fragments: outside this tier
end

/-- one fragment definition can serve as a mixin: defined on an object type, no `@mixin`, its selection set satisfies the
    tier's conditions for the class `pascal name` -/
def fragOK (env : Env) (k : Nat) (f : Fragment) : Bool :=
  env.schema.kindOf? f.on == some .object
  && !(f.dirs.any (·.name == Tables.mixinName))
  && msetOK env k (pascal f.name) f.sel
  && mLocal env k (pascal f.name) f.on f.sel
  && mfull env k f.on f.sel
  && mfullS env (fragDepth env) f.sel

/-- `MixOK`: the decidable hypothesis for the class tree of one selection set on the object type `tn` -/
def MixOK (env : Env) (k : Nat) (cn tn : String) (sel : List Selection) : Bool :=
  env.schema.kindOf? tn == some .object
  && msetOK env k cn sel && mLocal env k cn tn sel && mfull env k tn sel && mfullS env (fragDepth env) sel

end Ariadne.C01Mix
