/-
  C15: the client module that leaves `ShorterResultsPlugin.generate_client_module`, as a whole — its form, what it
  binds, where its import statements point, and how its methods relate to the methods that went in.
-/
import AriadneModel.Proofs.C15ShorterRun

set_option linter.unusedSimpArgs false
set_option linter.unusedVariables false

namespace Ariadne.C15
open Ariadne Ariadne.Py Ariadne.Plugins Ariadne.ClientSem

/-! ### utilities on pointwise related class bodies -/

theorem ItemsRel.and {R R' : Method → Method → Prop} : ∀ {x y : List ClassItem}, ItemsRel R x y → ItemsRel R' x y →
    ItemsRel (fun m m' => R m m' ∧ R' m m') x y := by
  intro x y h
  induction h with
  | nil => intro _; exact .nil
  | method hm _ ih => intro h'; cases h' with | method hm' hr => exact .method ⟨hm, hm'⟩ (ih hr)
  | other _ ih => intro h'; cases h' with | other hr => exact .other (ih hr)

theorem ItemsRel.mem_right {R : Method → Method → Prop} : ∀ {x y : List ClassItem}, ItemsRel R x y →
    ∀ m' ∈ y.filterMap ClassItem.method?, ∃ m ∈ x.filterMap ClassItem.method?, R m m' := by
  intro x y h
  induction h with
  | nil => intro m' hm'; simp at hm'
  | method hm _ ih =>
    intro m' hm'
    simp only [List.filterMap_cons, ClassItem.method?, List.mem_cons] at hm'
    rcases hm' with rfl | h
    · exact ⟨_, by simp [ClassItem.method?], hm⟩
    · obtain ⟨m0, h0, hr⟩ := ih m' h
      exact ⟨m0, by simp [ClassItem.method?, h0], hr⟩
  | other _ ih =>
    intro m' hm'
    simp only [List.filterMap_cons, ClassItem.method?] at hm'
    obtain ⟨m0, h0, hr⟩ := ih m' hm'
    exact ⟨m0, by simpa [ClassItem.method?] using h0, hr⟩

theorem ItemsRel.with_mem_aux {R : Method → Method → Prop} (l : List Method) : ∀ {x y : List ClassItem}, ItemsRel R x y →
    (∀ m ∈ x.filterMap ClassItem.method?, m ∈ l) → ItemsRel (fun m _ => m ∈ l) x y := by
  intro x y h
  induction h with
  | nil => intro _; exact .nil
  | @method m m' rest rest' hm _ ih =>
    intro hl
    exact .method (hl m (by simp [ClassItem.method?])) (ih (fun a ha => hl a (by simp [ClassItem.method?, ha])))
  | other _ ih =>
    intro hl
    exact .other (ih (fun a ha => hl a (by simpa [ClassItem.method?] using ha)))

theorem ItemsRel.with_mem {R : Method → Method → Prop} {x y : List ClassItem} (h : ItemsRel R x y) :
    ItemsRel (fun m _ => m ∈ x.filterMap ClassItem.method?) x y :=
  ItemsRel.with_mem_aux _ h (fun _ hm => hm)

/-- looking a method up by name on both sides of a name-preserving relation -/
theorem ItemsRel.find {R : Method → Method → Prop} (hname : ∀ m m', R m m' → m'.name = m.name) (n : String) :
    ∀ {x y : List ClassItem}, ItemsRel R x y →
      (((x.filterMap ClassItem.method?).find? (fun md => md.name == n) = none ∧
        (y.filterMap ClassItem.method?).find? (fun md => md.name == n) = none) ∨
       ∃ m m', (x.filterMap ClassItem.method?).find? (fun md => md.name == n) = some m ∧
        (y.filterMap ClassItem.method?).find? (fun md => md.name == n) = some m' ∧ R m m' ∧
        m ∈ x.filterMap ClassItem.method?) := by
  intro x y h
  induction h with
  | nil => exact .inl ⟨rfl, rfl⟩
  | @method m m' rest rest' hm _ ih =>
    have hn' : m'.name = m.name := hname m m' hm
    simp only [List.filterMap_cons, ClassItem.method?, List.find?_cons, hn']
    cases hk : (m.name == n) with
    | true =>
      simp only
      exact .inr ⟨m, m', rfl, rfl, hm, by simp⟩
    | false =>
      simp only
      rcases ih with ⟨h1, h2⟩ | ⟨a, a', h1, h2, h3, h4⟩
      · exact .inl ⟨h1, h2⟩
      · exact .inr ⟨a, a', h1, h2, h3, by simp [h4]⟩
  | other _ ih =>
    simp only [List.filterMap_cons, ClassItem.method?]
    exact ih

/-! ### the form of the module -/

theorem sx_nil_ext : ∀ l : List Top, shorterExtendExisting [] l = ([], l) := by
  intro l
  induction l with
  | nil => rfl
  | cons t rest ih =>
    rw [sx_cons_keep [] t rest (by rintro ⟨i, m, extra, _, _, h⟩; simp [alookup] at h), ih]

theorem shorterClientModule_form (st st' : ShorterState) (M M' : Module) (pre : List Top) (g : Method) (c : ClassDef)
    (hb : M.body = pre ++ [.funcDef g, .classDef c]) (hn : NoClass pre)
    (h : shorterClientModule st M = .ok (st', M')) :
    ∃ st1 items1, mapMethodsM shorterModifyMethod st c.body = .ok (st1, items1) ∧
      M'.body = freshImports (shorterExtendExisting st1.extendedImports pre).1 ++
        (shorterExtendExisting st1.extendedImports pre).2 ++ [.funcDef g, .classDef { c with body := items1 }] := by
  have hfc : M.firstClass? = some c := by
    have := firstClass_pre g c pre hn
    cases M; simp only at hb; subst hb; exact this
  unfold shorterClientModule at h
  rw [hfc] at h
  simp only at h
  rw [hb, mapFirstClassM_pre _ g c pre st hn] at h
  cases hm : mapMethodsM shorterModifyMethod st c.body with
  | error e => simp [hm, bind, Except.bind] at h
  | ok r =>
    refine ⟨r.1, r.2, rfl, ?_⟩
    simp only [hm, bind_ok, pure_eq_ok] at h
    split at h
    · rename_i hemp
      simp only [Except.ok.injEq, Prod.mk.injEq] at h
      obtain ⟨_, rfl⟩ := h
      have : r.1.extendedImports = [] := by simpa using hemp
      rw [this, sx_nil_ext]
      simp [freshImports]
    · simp only [shorterExtend_tail, Except.ok.injEq, Prod.mk.injEq] at h
      obtain ⟨_, rfl⟩ := h
      simp [freshImports, List.append_assoc]

/-! ### what the module binds, and where its imports point -/

structure ModuleFacts (E : List (String × List String)) (M M' : Module) (c c' : ClassDef) : Prop where
  firstClass : M'.firstClass? = some c'
  names_mono : ∀ n ∈ moduleNames M, n ∈ moduleNames M'
  covered : ∀ cl, Covered E cl → cl ∈ moduleNames M'
  bindings : ∀ n, n ∉ addedNames E →
    alookup n (importBindings (topImports M')) = alookup n (importBindings (topImports M))
  provenance : ∀ i' ∈ topImports M', (∃ i ∈ topImports M, i'.module = i.module ∧ i'.level = i.level) ∨
    (∃ x ∈ E, i' = { module := some x.1, names := x.2.map (fun n => (n, none)), level := 0 })
  tops : ∀ t' ∈ M'.body, (∃ i, t' = .simple (.importFrom i)) ∨ t' ∈ M.body ∨ t' = .classDef c'

theorem topImports_eq (M : Module) : topImports M = importsOfTops M.body := rfl

theorem moduleNames_eq (M : Module) : moduleNames M = namesOfTops M.body := rfl

theorem module_facts (E : List (String × List String)) (M M' : Module) (pre : List Top) (g : Method) (c c' : ClassDef)
    (hb : M.body = pre ++ [.funcDef g, .classDef c]) (hn : NoClass pre) (hname : c'.name = c.name)
    (hb' : M'.body = freshImports (shorterExtendExisting E pre).1 ++ (shorterExtendExisting E pre).2 ++ [.funcDef g, .classDef c']) :
    ModuleFacts E M M' c c' := by
  have s := shorterExtend_spec pre E
  have hnc : NoClass (freshImports (shorterExtendExisting E pre).1 ++ (shorterExtendExisting E pre).2) :=
    noClass_append (freshImports_noclass _) (s.noclass hn)
  have htail : ∀ cc : ClassDef, importsOfTops [Top.funcDef g, Top.classDef cc] = [] := fun _ => rfl
  refine ⟨?_, ?_, ?_, ?_, ?_, ?_⟩
  · have := firstClass_pre g c' _ hnc
    cases M'; simp only at hb'; subst hb'; exact this
  · intro n hnm
    rw [moduleNames_eq, hb, namesOfTops_append] at hnm
    rw [moduleNames_eq, hb', namesOfTops_append, namesOfTops_append]
    rcases List.mem_append.mp hnm with h | h
    · exact List.mem_append_left _ (List.mem_append_right _ (s.names_mono n h))
    · apply List.mem_append_right
      simp only [namesOfTops, moduleNames, List.flatMap_cons, List.flatMap_nil, List.append_nil, List.mem_append,
        List.mem_singleton] at h ⊢
      rw [hname]; exact h
  · rintro cl ⟨src, names, hl, hcl⟩
    rw [moduleNames_eq, hb', namesOfTops_append, namesOfTops_append]
    apply List.mem_append_left
    rcases s.covered src names cl hl hcl with h | h
    · exact List.mem_append_right _ h
    · apply List.mem_append_left
      rw [freshImports_names]
      exact addedNames_mem (mem_of_alookup src names _ h) hcl
  · intro n hnn
    rw [topImports_eq, topImports_eq, hb, hb', importsOfTops_append, importsOfTops_append, importsOfTops_append, htail, htail,
      List.append_nil, List.append_nil, importBindings_append, alookup_append]
    have hfresh : alookup n (importBindings (importsOfTops (freshImports (shorterExtendExisting E pre).1))) = none := by
      apply alookup_none_of_not_key
      intro kv hkv hc
      have h1 := freshImports_binding_keys _ kv hkv
      apply hnn
      unfold addedNames at h1 ⊢
      rw [List.mem_flatMap] at h1 ⊢
      obtain ⟨p, hp, hnp⟩ := h1
      exact ⟨p, s.leftover p hp, hc ▸ hnp⟩
    rw [hfresh]
    exact s.bindings n hnn
  · intro i' hi'
    rw [topImports_eq, hb', importsOfTops_append, importsOfTops_append, htail, List.append_nil] at hi'
    rw [topImports_eq, hb, importsOfTops_append, htail, List.append_nil]
    rcases List.mem_append.mp hi' with h | h
    · obtain ⟨x, hx, rfl⟩ := freshImports_imports _ i' h
      exact .inr ⟨x, s.leftover x hx, rfl⟩
    · exact .inl (s.provenance i' h)
  · intro t' ht'
    rw [hb'] at ht'
    rw [hb]
    simp only [List.mem_append, List.mem_cons, List.mem_singleton, List.not_mem_nil, or_false] at ht' ⊢
    rcases ht' with (h | h) | h | h
    · unfold freshImports at h
      simp only [List.mem_reverse, List.mem_map] at h
      obtain ⟨x, _, rfl⟩ := h
      exact .inl ⟨_, rfl⟩
    · rcases s.tops t' h with h' | h'
      · exact .inl h'
      · exact .inr (.inl (.inl h'))
    · exact .inr (.inl (.inr (.inl h)))
    · exact .inr (.inr h)

end Ariadne.C15
