/-
  Proofs/C05Strict.lean — property C05, plain-selections tier: THE GENERATED MODEL ACCEPTS ONLY WHAT THE SCHEMA ALLOWS.

  `strict_spec`: for a plain selection set (`plainLocal`, `setOK`; Proofs/C01PlainDefs.lean) whose classes
  (`plainClasses`) are in the pydantic environment, EVERY JSON value the root class accepts — with whatever validation
  fuel — is `laxResp`: at every depth, below every list / non-null wrapper, no selected unconditional key is missing, no
  `null` sits at a non-null unconditional position, every leaf value is in the lax table, every list is a list, every
  object position holds an object that is again accepted only if `laxResp`.  The converse of C01's `plain_roundtrip`.
  Induction on the validation fuel (it decreases at every class reference), inside a class over the fields, inside a
  field over the type's wrappers (`wrap_conv`).
-/
import AriadneModel.Proofs.C05StrictDefs
import AriadneModel.Proofs.C01PlainVal

set_option linter.unusedSimpArgs false
set_option linter.unusedVariables false

namespace Ariadne.C05Strict
open Ariadne Ariadne.Gql Ariadne.ResultTypes Ariadne.Util Ariadne.C01Plain Ariadne.Pyd

/-! ### small facts -/

theorem validate_zero (penv : Pyd.Env) (a : Ann) (j : J) : validate penv 0 a j = .error .fuel := by
  simp [validate]

theorem mapE_ok_mem {α β ε} (f : α → Except ε β) : ∀ (xs : List α) (ys : List β), mapE f xs = .ok ys →
    ∀ x ∈ xs, ∃ y, f x = .ok y
  | [], _, _, x, hx => by cases hx
  | a :: xs, ys, h, x, hx => by
    simp only [mapE] at h
    cases ha : f a with
    | error e => simp [ha] at h
    | ok b =>
      simp only [ha] at h
      cases hr : mapE f xs with
      | error e => simp [hr] at h
      | ok bs =>
        rcases List.mem_cons.mp hx with rfl | hx
        · exact ⟨b, ha⟩
        · exact mapE_ok_mem f xs bs hr x hx

theorem laxSel_iff (env : ResultTypes.Env) (lax : Lax) (tn : String) (kvs : List (String × J)) :
    ∀ sel : List Selection, laxSel env lax tn sel kvs = true ↔ ∀ s ∈ sel, laxSel1 env lax tn s kvs = true
  | [] => by simp [laxSel]
  | s :: rest => by simp [laxSel, laxSel_iff env lax tn kvs rest]

/-! ### through the list / non-null wrappers -/

/-- if the base annotation accepts only what `P` (resp. `anyNull`, for `null`) allows, the wrapped annotation accepts
    only complete values — for every fuel -/
theorem wrap_conv (penv : Pyd.Env) (base : Ann) (anyNull : Bool) (P : J → Bool) (G : Nat)
    (hbase : ∀ g, g ≤ G → ∀ x pv, validate penv g base x = .ok pv → (x = .null → anyNull = true) ∧ (x ≠ .null → P x = true))
    (T : TypeRef) :
    ∀ (nullable : Bool) (v : J) (fuel : Nat) (pv : PV), fuel ≤ G →
      validate penv fuel (wrapAnn base nullable T) v = .ok pv → completeLax anyNull P T nullable v = true := by
  induction T with
  | named n =>
    intro nullable v fuel pv hf h
    simp only [wrapAnn] at h
    unfold completeLax
    cases nullable with
    | true =>
      simp only [optionalIf, if_true] at h
      cases fuel with
      | zero => rw [validate_zero] at h; cases h
      | succ k =>
        rw [ResultLeaf.validate_optional_succ] at h
        cases v with
        | null => simp
        | bool b => exact (hbase k (by omega) _ pv h).2 (by simp)
        | num m e => exact (hbase k (by omega) _ pv h).2 (by simp)
        | str s => exact (hbase k (by omega) _ pv h).2 (by simp)
        | arr xs => exact (hbase k (by omega) _ pv h).2 (by simp)
        | obj kvs => exact (hbase k (by omega) _ pv h).2 (by simp)
    | false =>
      simp only [optionalIf, Bool.false_eq_true, if_false] at h
      have hb := hbase fuel hf v pv h
      cases v with
      | null => simpa using hb.1 rfl
      | bool b => exact hb.2 (by simp)
      | num m e => exact hb.2 (by simp)
      | str s => exact hb.2 (by simp)
      | arr xs => exact hb.2 (by simp)
      | obj kvs => exact hb.2 (by simp)
  | list t ih =>
    intro nullable v fuel pv hf h
    simp only [wrapAnn] at h
    have key : ∀ (b : Bool) (k : Nat) (pv : PV), k ≤ G → validate penv k (.list (wrapAnn base true t)) v = .ok pv →
        completeLax anyNull P (.list t) b v = true := by
      intro b k pv hk hv
      cases k with
      | zero => rw [validate_zero] at hv; cases hv
      | succ m =>
        rw [ResultLeaf.validate_list_succ] at hv
        cases v with
        | arr xs =>
          simp only [] at hv
          unfold completeLax
          simp only []
          cases hm : mapE (validate penv m (wrapAnn base true t)) xs with
          | error e => simp [hm] at hv
          | ok vs =>
            rw [List.all_eq_true]
            intro x hx
            obtain ⟨y, hy⟩ := mapE_ok_mem _ xs vs hm x hx
            exact ih true x m y (by omega) hy
        | null => simp at hv
        | bool b => simp at hv
        | num m' e => simp at hv
        | str s => simp at hv
        | obj kvs => simp at hv
    cases nullable with
    | true =>
      simp only [optionalIf, if_true] at h
      cases fuel with
      | zero => rw [validate_zero] at h; cases h
      | succ k =>
        rw [ResultLeaf.validate_optional_succ] at h
        cases v with
        | null => unfold completeLax; rfl
        | bool b => exact key true k pv (by omega) h
        | num m e => exact key true k pv (by omega) h
        | str s => exact key true k pv (by omega) h
        | arr xs => exact key true k pv (by omega) h
        | obj kvs => exact key true k pv (by omega) h
    | false =>
      simp only [optionalIf, Bool.false_eq_true, if_false] at h
      exact key false fuel pv hf h
  | nonNull t ih =>
    intro nullable v fuel pv hf h
    simp only [wrapAnn] at h
    unfold completeLax
    exact ih false v fuel pv hf h

/-! ### leaves: accepted ⇒ in the lax table, for EVERY fuel -/

theorem completeLax_leaf (S : Schema) (lax : Lax) (n : String) (T : TypeRef) (hT : T.base = n) : ∀ (nullable : Bool) (v : J),
    completeLax (ResultLeaf.isAnyLeaf S n) (ResultLeaf.leafOkLax S lax n) T nullable v = ResultLeaf.conformsLax S lax nullable T v := by
  induction T with
  | named m =>
    intro b v
    simp only [TypeRef.base] at hT
    subst hT
    unfold completeLax ResultLeaf.conformsLax
    cases v <;> rfl
  | list t ih =>
    intro b v
    simp only [TypeRef.base] at hT
    unfold completeLax ResultLeaf.conformsLax
    cases v <;> simp only []
    congr 1
    funext x
    exact ih hT true x
  | nonNull t ih =>
    intro b v
    simp only [TypeRef.base] at hT
    unfold completeLax ResultLeaf.conformsLax
    exact ih hT false v

/-- a leaf annotation accepts only lax-conformant values, whatever the fuel -/
theorem leaf_sound (env : ResultTypes.Env) (penv : Pyd.Env) (ha : ResultLeaf.EnvAgrees env penv) (T : TypeRef)
    (hl : ResultLeaf.LeafName env T.base) (nullable : Bool) (v : J) (fuel : Nat) (pv : PV)
    (h : validate penv fuel (ResultLeaf.leafAnn env nullable T) v = .ok pv) :
    ResultLeaf.conformsLax env.schema penv.lax nullable T v = true := by
  rw [leafAnn_eq_wrapAnn] at h
  rw [← completeLax_leaf env.schema penv.lax T.base T rfl]
  refine wrap_conv penv (ResultLeaf.leafBase env T.base) _ _ fuel ?_ T nullable v fuel pv (Nat.le_refl _) h
  intro g _ x pv' hx
  rw [ResultLeaf.leafBase_eq] at hx
  cases g with
  | zero => rw [validate_zero] at hx; cases hx
  | succ k =>
    rw [ResultLeaf.validate_name_succ] at hx
    have hb := ResultLeaf.validate_leafBase env penv ha T.base hl x
    rw [hx] at hb
    simp only [ResultLeaf.okB] at hb
    constructor
    · rintro rfl; exact hb.symm
    · intro hne
      cases x with
      | null => exact absurd rfl hne
      | bool b => exact hb.symm
      | num m e => exact hb.symm
      | str s => exact hb.symm
      | arr xs => exact hb.symm
      | obj kvs => exact hb.symm

/-! ### `@skip` / `@include` -/

theorem condAnn_conv (penv : Pyd.Env) (a : Ann) (dirs : List Directive) (v : J) (g : Nat) (pv : PV)
    (h : validate penv g (condAnn a dirs) v = .ok pv) :
    (hasConditionalDirective dirs = true ∧ v = .null) ∨ ∃ g' pv', g' ≤ g ∧ validate penv g' a v = .ok pv' := by
  unfold condAnn at h
  by_cases hc : hasConditionalDirective dirs = true
  · rw [if_pos hc] at h
    by_cases hn : isNullableAnn a = true
    · rw [if_pos hn] at h
      exact Or.inr ⟨g, pv, Nat.le_refl _, h⟩
    · rw [if_neg hn] at h
      cases g with
      | zero => rw [validate_zero] at h; cases h
      | succ k =>
        rw [ResultLeaf.validate_optional_succ] at h
        cases v with
        | null => exact Or.inl ⟨hc, rfl⟩
        | bool b => exact Or.inr ⟨k, pv, by omega, h⟩
        | num m e => exact Or.inr ⟨k, pv, by omega, h⟩
        | str s => exact Or.inr ⟨k, pv, by omega, h⟩
        | arr xs => exact Or.inr ⟨k, pv, by omega, h⟩
        | obj kvs => exact Or.inr ⟨k, pv, by omega, h⟩
  · rw [if_neg hc] at h
    exact Or.inr ⟨g, pv, Nat.le_refl _, h⟩

/-! ### one field of a generated class -/

theorem fieldWith_found' (penv : Pyd.Env) (cf : Nat) (rec : Ann → J → Except VErr PV) (kvs : List (String × J))
    (d : FieldDecl) (key : String) (hdisc : d.discriminator = false)
    (halias : d.alias = if d.py != key then some key else none) :
    fieldWith penv cf rec kvs d =
      (match (match J.lookup key kvs with | some v => some v | none => J.lookup d.py kvs) with
       | some v => (match rec d.ann v with
          | .ok pv => .ok (some (d.py, d.alias, pv))
          | .error e => .error e)
       | none => if d.defaultNone then .ok none else .error (.missing (d.alias.getD d.py))) := by
  unfold fieldWith
  by_cases hk : d.py = key
  · have ha : d.alias = none := by rw [halias]; simp [hk]
    subst hk
    simp only [ha, hdisc, Bool.false_eq_true, if_false]
    cases J.lookup d.py kvs with
    | none => rfl
    | some v => simp only []; cases rec d.ann v <;> rfl
  · have ha : d.alias = some key := by rw [halias]; simp [hk]
    simp only [ha, hdisc, Bool.false_eq_true, if_false]
    cases J.lookup key kvs with
    | none =>
      simp only []
      cases J.lookup d.py kvs with
      | none => rfl
      | some v => simp only []; cases rec d.ann v <;> rfl
    | some v => simp only []; cases rec d.ann v <;> rfl

theorem fieldWith_found (env : ResultTypes.Env) (penv : Pyd.Env) (cf : Nat) (rec : Ann → J → Except VErr PV)
    (kvs : List (String × J)) (cn tn : String) (alias : Option String) (name : String) (dirs : List Directive) (sub : List Selection) :
    fieldWith penv cf rec kvs (fieldDecl env cn tn alias name dirs sub) =
      (match found env (alias.getD name) kvs with
       | some v => (match rec (fieldDecl env cn tn alias name dirs sub).ann v with
          | .ok pv => .ok (some ((fieldDecl env cn tn alias name dirs sub).py, (fieldDecl env cn tn alias name dirs sub).alias, pv))
          | .error e => .error e)
       | none => if hasConditionalDirective dirs then .ok none
                 else .error (.missing ((fieldDecl env cn tn alias name dirs sub).alias.getD (fieldDecl env cn tn alias name dirs sub).py))) :=
  fieldWith_found' penv cf rec kvs (fieldDecl env cn tn alias name dirs sub) (alias.getD name) rfl rfl

/-! ### the theorem -/

/-- what the strictness theorem says about one class, for validation fuel `g` -/
def StrictSpec (env : ResultTypes.Env) (penv : Pyd.Env) (g : Nat) : Prop :=
  ∀ (marks : List Nat) (cn tn : String) (sel : List Selection) (j : J) (v : PV),
    setOK env sel = true → plainLocal env marks cn tn sel = true →
    (∀ c ∈ plainClasses env cn tn sel, penv.class? c.name = some c) →
    validate penv g (.cls cn) j = .ok v → laxResp env penv.lax tn sel j = true

theorem mem_plainDecls_of_mem (env : ResultTypes.Env) (cn tn : String) (sel : List Selection)
    (alias : Option String) (name : String) (dirs : List Directive) (sid : Nat) (sub : List Selection)
    (h : Selection.field alias name dirs sid sub ∈ sel) : fieldDecl env cn tn alias name dirs sub ∈ plainDecls env cn tn sel := by
  unfold plainDecls
  exact List.mem_flatMap.mpr ⟨_, h, by simp [plainDecl1]⟩

theorem class_strict (env : ResultTypes.Env) (penv : Pyd.Env) (ha : ResultLeaf.EnvAgrees env penv)
    (hbm : penv.class? "BaseModel" = none) (g : Nat) (IH : ∀ g', g' ≤ g → StrictSpec env penv g') :
    StrictSpec env penv (g + 1) := by
  intro marks cn tn sel j v hset hloc hcls hacc
  have hlocs := (plainLocal_iff env marks cn tn sel).mp hloc
  have hfields : ∀ x ∈ sel, isField x = true := fun x hx => plainLocal1_isField (hlocs x hx)
  obtain ⟨_, hpys, _⟩ := setOK_spec hset
  have hc0 : penv.class? cn = some { name := cn, bases := ["BaseModel"], fields := plainDecls env cn tn sel } :=
    hcls { name := cn, bases := ["BaseModel"], fields := plainDecls env cn tn sel } (by simp [plainClasses])
  have hall : allFields penv penv.clsFuel cn = plainDecls env cn tn sel :=
    allFields_plain penv ⟨cn, ["BaseModel"], plainDecls env cn tn sel⟩ hc0 rfl hbm (by
      show ((plainDecls env cn tn sel).map (·.py)).Nodup
      rw [plainDecls_map env cn tn (·.py) (pyFieldName env) (fun _ _ _ _ => rfl) sel hfields]
      exact hpys) penv.classes.length
  rw [validate_cls_succ] at hacc
  unfold modelWith at hacc
  simp only [hc0, hall] at hacc
  cases j with
  | null => simp at hacc
  | bool b => simp at hacc
  | num m e => simp at hacc
  | str s => simp at hacc
  | arr xs => simp at hacc
  | obj kvs =>
    simp only [] at hacc
    cases hm : mapE (fieldWith penv penv.clsFuel (validate penv g) kvs) (plainDecls env cn tn sel) with
    | error e => simp [hm] at hacc
    | ok fs =>
      show laxSel env penv.lax tn sel kvs = true
      rw [laxSel_iff]
      intro s hs
      have hls := hlocs s hs
      cases s with
      | spread n d => simp [plainLocal1] at hls
      | inline on d sid sub => simp [plainLocal1] at hls
      | field alias name dirs sid sub =>
        obtain ⟨y, hy⟩ := mapE_ok_mem _ _ fs hm _ (mem_plainDecls_of_mem env cn tn sel alias name dirs sid sub hs)
        rw [fieldWith_found] at hy
        simp only [laxSel1]
        cases hf : found env (alias.getD name) kvs with
        | none =>
          simp only [hf] at hy ⊢
          by_cases hc : hasConditionalDirective dirs = true
          · exact hc
          · rw [if_neg hc] at hy; cases hy
        | some x =>
          simp only [hf] at hy ⊢
          cases hv : validate penv g (fieldDecl env cn tn alias name dirs sub).ann x with
          | error e => simp [hv] at hy
          | ok pv =>
            have hv' : validate penv g (condAnn (wrapAnn
                (if sub.isEmpty then ResultLeaf.leafBase env (fieldT env tn name).base else .cls (subClass env cn alias name))
                true (fieldT env tn name)) dirs) x = .ok pv := hv
            rcases condAnn_conv penv _ dirs x g pv hv' with ⟨hc, rfl⟩ | ⟨g1, pv1, hg1, hw⟩
            · simp [hc, J.isNull]
            · simp only [plainLocal1, Bool.and_eq_true] at hls
              obtain ⟨_, hcase⟩ := hls
              rw [Bool.or_eq_true]
              right
              by_cases hsub : sub.isEmpty = true
              · rw [if_pos hsub] at hcase hw ⊢
                rw [← leafAnn_eq_wrapAnn] at hw
                exact leaf_sound env penv ha (fieldT env tn name) (isLeafName_spec hcase) true x g1 pv1 hw
              · rw [if_neg hsub] at hcase hw ⊢
                have hsub' : sub.isEmpty = false := by simpa using hsub
                simp only [Bool.and_eq_true, beq_iff_eq] at hcase
                obtain ⟨⟨⟨_, _⟩, hset'⟩, hrec⟩ := hcase
                have hcls' : ∀ c ∈ plainClasses env (subClass env cn alias name) (subType env tn name) sub, penv.class? c.name = some c := by
                  intro c hc
                  refine hcls c (List.mem_cons_of_mem _ (mem_plainExtra hs c ?_))
                  rw [plainExtra1_sub _ _ _ _ _ _ _ _ hsub']
                  exact hc
                refine wrap_conv penv (.cls (subClass env cn alias name)) false _ g1 ?_ (fieldT env tn name) true x g1 pv1 (Nat.le_refl _) hw
                intro g2 hg2 x2 pv2 hx2
                have hlr := IH g2 (by omega) marks (subClass env cn alias name) (subType env tn name) sub x2 pv2 hset' hrec hcls' hx2
                unfold laxResp at hlr
                cases x2 with
                | obj kvs2 => exact ⟨fun h => (by cases h), fun _ => hlr⟩
                | null => cases hlr
                | bool b => cases hlr
                | num m e => cases hlr
                | str s => cases hlr
                | arr xs => cases hlr

/-- **accepted ⇒ conformant (up to the lax table), every fuel** -/
theorem strict_spec (env : ResultTypes.Env) (penv : Pyd.Env) (ha : ResultLeaf.EnvAgrees env penv)
    (hbm : penv.class? "BaseModel" = none) : ∀ g, ∀ g', g' ≤ g → StrictSpec env penv g'
  | 0, g', hg' => by
    have : g' = 0 := by omega
    subst this
    intro marks cn tn sel j v _ _ _ hacc
    rw [validate_zero] at hacc; cases hacc
  | g + 1, g', hg' => by
    by_cases h : g' ≤ g
    · exact strict_spec env penv ha hbm g g' h
    · have : g' = g + 1 := by omega
      subst this
      exact class_strict env penv ha hbm g (strict_spec env penv ha hbm g)

end Ariadne.C05Strict
