/-
  Proofs/C04WitnessD.lean — kernel-evaluated facts about concrete inputs (`decide +kernel` through the whole package model):
  finding witnesses of `C04_full_false` and non-vacuity examples of Properties/C04.lean, restated there.
-/
import AriadneModel.Proofs.C04Defs

namespace Ariadne.C04.Witness
open Ariadne Ariadne.Gql Ariadne.Util Ariadne.Package Ariadne.PackageTriggers Ariadne.PackageValid Ariadne.Spec.PyScope Ariadne.C04

theorem ex1 : leafNamesOK W.leafAmbiguous = false ∧ Valid {} W.leafAmbiguous ∧ Supported_04 {} W.leafAmbiguous ∧ Proved_04 {} W.leafAmbiguous := by
  decide +kernel

theorem ex2 : Valid W.syncCfg W.okInput ∧ Supported_04 W.syncCfg W.okInput ∧ Proved_04 W.syncCfg W.okInput := by
  decide +kernel

theorem ex3 : W.anonymousRefused := by
  decide +kernel

theorem ex4 : leafNamesOK W.okInput = true := by
  decide +kernel

theorem F25_fails_in_model : Valid {} W.danglingRef ∧ ¬ Holds (modelRun {} W.danglingRef) ∧ ¬ Supported_04 {} W.danglingRef ∧
    leafNamesOK W.danglingRef = false := by
  decide +kernel

end Ariadne.C04.Witness
