/-
  Proofs/C01PlainVal.lean — property C01, "plain selections" tier, part (2): the classes `plainClasses`
  accept every response a conformant executor can give for the selection set, and dump it back
  (up to the order of object members).
-/
import AriadneModel.Proofs.C01PlainGen

set_option linter.unusedSimpArgs false
set_option linter.unusedVariables false

namespace Ariadne.C01Plain
open Ariadne Ariadne.Gql Ariadne.ResultTypes Ariadne.Util Ariadne.Pyd

/-! ### JSON objects -/

theorem lookup_mem {k : String} {v : J} : ∀ {kvs : List (String × J)}, J.lookup k kvs = some v → (k, v) ∈ kvs
  | [], h => by simp [J.lookup] at h
  | (k', v') :: rest, h => by
    simp only [J.lookup] at h
    split at h
    · rename_i hk; simp at h; subst hk; subst h; exact List.mem_cons_self
    · exact List.mem_cons_of_mem _ (lookup_mem h)

theorem hasKey_iff (k : String) : ∀ kvs : List (String × J), J.hasKey k kvs = true ↔ k ∈ kvs.map (·.1)
  | [] => by simp [J.hasKey, J.lookup]
  | (k', v') :: rest => by
    have ih := hasKey_iff k rest
    simp only [J.hasKey] at ih ⊢
    simp only [J.lookup, List.map_cons, List.mem_cons]
    by_cases hk : k' = k
    · simp [hk]
    · simp only [hk, if_false, ih]
      constructor
      · exact Or.inr
      · rintro (h | h)
        · exact absurd h.symm hk
        · exact h

theorem lookup_none_iff (k : String) (kvs : List (String × J)) : J.lookup k kvs = none ↔ k ∉ kvs.map (·.1) := by
  rw [← hasKey_iff]; simp [J.hasKey]

theorem nodupKvs_spec : ∀ kvs : List (String × J), nodupKvs kvs = true →
    (kvs.map (·.1)).Nodup ∧ (∀ p ∈ kvs, nodupKeys p.2 = true) ∧ (∀ p ∈ kvs, J.lookup p.1 kvs = some p.2)
  | [], _ => by simp
  | (k, v) :: rest, h => by
    simp only [nodupKvs, Bool.and_eq_true, Bool.not_eq_true'] at h
    obtain ⟨⟨hk, hv⟩, hr⟩ := h
    obtain ⟨ih1, ih2, ih3⟩ := nodupKvs_spec rest hr
    have hk' : k ∉ rest.map (·.1) := by
      rw [← hasKey_iff]; simp [hk]
    refine ⟨by simp only [List.map_cons, List.nodup_cons]; exact ⟨hk', ih1⟩, ?_, ?_⟩
    · intro p hp
      rcases List.mem_cons.mp hp with rfl | hp
      · exact hv
      · exact ih2 p hp
    · intro p hp
      rcases List.mem_cons.mp hp with rfl | hp
      · simp [J.lookup]
      · have : k ≠ p.1 := by
          intro e; apply hk'; rw [e]; exact List.mem_map.mpr ⟨p, hp, rfl⟩
        simp only [J.lookup, this, if_false]
        exact ih3 p hp

theorem nodupKeysList_mem : ∀ (xs : List J), nodupKeysList xs = true → ∀ x ∈ xs, nodupKeys x = true
  | [], _, x, hx => by cases hx
  | y :: ys, h, x, hx => by
    simp only [nodupKeysList, Bool.and_eq_true] at h
    rcases List.mem_cons.mp hx with rfl | hx
    · exact h.1
    · exact nodupKeysList_mem ys h.2 x hx

mutual
  theorem eqv_refl : ∀ j : J, nodupKeys j = true → J.eqv j j = true
    | .null, _ => by simp [J.eqv]
    | .bool b, _ => by simp [J.eqv]
    | .num m e, _ => by simp [J.eqv]
    | .str s, _ => by simp [J.eqv]
    | .arr xs, h => by
      simp only [nodupKeys] at h
      simp only [J.eqv]
      exact eqvList_refl xs h
    | .obj kvs, h => by
      simp only [nodupKeys] at h
      obtain ⟨_, h2, h3⟩ := nodupKvs_spec kvs h
      simp only [J.eqv, beq_self_eq_true, Bool.true_and]
      exact eqvKvs_refl kvs kvs h2 h3
  theorem eqvList_refl : ∀ xs : List J, nodupKeysList xs = true → J.eqvList xs xs = true
    | [], _ => by simp [J.eqvList]
    | x :: xs, h => by
      simp only [nodupKeysList, Bool.and_eq_true] at h
      simp only [J.eqvList, Bool.and_eq_true]
      exact ⟨eqv_refl x h.1, eqvList_refl xs h.2⟩
  theorem eqvKvs_refl : ∀ (xs ys : List (String × J)), (∀ p ∈ xs, nodupKeys p.2 = true) →
      (∀ p ∈ xs, J.lookup p.1 ys = some p.2) → J.eqvKvs xs ys = true
    | [], _, _, _ => by simp [J.eqvKvs]
    | (k, x) :: xs, ys, h1, h2 => by
      have hl := h2 (k, x) List.mem_cons_self
      simp only at hl
      simp only [J.eqvKvs, hl, Bool.and_eq_true]
      exact ⟨eqv_refl x (h1 (k, x) List.mem_cons_self),
        eqvKvs_refl xs ys (fun p hp => h1 p (List.mem_cons_of_mem _ hp)) (fun p hp => h2 p (List.mem_cons_of_mem _ hp))⟩
end

/-! ### round trips -/

/-- the validation result `r` is a value whose dump equals `j` up to member order -/
def RT (r : Except VErr PV) (j : J) : Prop := ∃ v, r = .ok v ∧ J.eqv (dump v) j = true

theorem RT_none : RT (.ok .none) .null := ⟨_, rfl, by simp [dump, J.eqv]⟩

theorem mapE_rt (f : J → Except VErr PV) : ∀ (xs : List J), (∀ x ∈ xs, RT (f x) x) →
    ∃ vs, mapE f xs = .ok vs ∧ J.eqvList (dumpList vs) xs = true
  | [], _ => ⟨[], rfl, by simp [dumpList, J.eqvList]⟩
  | x :: xs, h => by
    obtain ⟨v, hv, he⟩ := h x List.mem_cons_self
    obtain ⟨vs, hvs, hes⟩ := mapE_rt f xs (fun y hy => h y (List.mem_cons_of_mem _ hy))
    exact ⟨v :: vs, by simp [mapE, hv, hvs], by simp [dumpList, J.eqvList, he, hes]⟩

theorem validate_list_arr_rt (penv : Pyd.Env) (g : Nat) (a : Ann) (xs : List J)
    (h : ∀ x ∈ xs, RT (validate penv g a x) x) : RT (validate penv (g + 1) (.list a) (.arr xs)) (.arr xs) := by
  obtain ⟨vs, hvs, hes⟩ := mapE_rt (validate penv g a) xs h
  rw [ResultLeaf.validate_list_succ]
  exact ⟨.list vs, by simp [hvs], by simp [dump, J.eqv, hes]⟩

/-- lifting a round trip of the base annotation through the list / non-null wrappers -/
theorem wrap_rt (penv : Pyd.Env) (base : Ann) (P : String → J → Bool) (B : Nat) (T : TypeRef)
    (hbase : ∀ g, B ≤ g → ∀ v, nodupKeys v = true → P T.base v = true → RT (validate penv g base v) v) :
    ∀ (nullable : Bool) (v : J) (fuel : Nat), B + wneed T ≤ fuel → nodupKeys v = true →
      Exec.complete P T nullable v = true → RT (validate penv fuel (wrapAnn base nullable T) v) v := by
  induction T with
  | named n =>
    intro nullable v fuel hf hnd hc
    simp only [wneed] at hf
    simp only [TypeRef.base] at hbase
    obtain ⟨g, rfl⟩ : ∃ g, fuel = g + 1 := ⟨fuel - 1, by omega⟩
    unfold Exec.complete at hc
    simp only [wrapAnn]
    cases nullable with
    | true =>
      simp only [optionalIf, if_true]
      rw [ResultLeaf.validate_optional_succ]
      cases v with
      | null => exact RT_none
      | bool b => exact hbase g (by omega) _ hnd (by simpa using hc)
      | num m e => exact hbase g (by omega) _ hnd (by simpa using hc)
      | str x => exact hbase g (by omega) _ hnd (by simpa using hc)
      | arr xs => exact hbase g (by omega) _ hnd (by simpa using hc)
      | obj kvs => exact hbase g (by omega) _ hnd (by simpa using hc)
    | false =>
      simp only [optionalIf, Bool.false_eq_true, if_false]
      cases v with
      | null => simp at hc
      | bool b => exact hbase _ (by omega) _ hnd (by simpa using hc)
      | num m e => exact hbase _ (by omega) _ hnd (by simpa using hc)
      | str x => exact hbase _ (by omega) _ hnd (by simpa using hc)
      | arr xs => exact hbase _ (by omega) _ hnd (by simpa using hc)
      | obj kvs => exact hbase _ (by omega) _ hnd (by simpa using hc)
  | list t ih =>
    intro nullable v fuel hf hnd hc
    simp only [wneed] at hf
    simp only [TypeRef.base] at hbase
    obtain ⟨g, rfl⟩ : ∃ g, fuel = g + 2 := ⟨fuel - 2, by omega⟩
    have key : ∀ (g' : Nat) (xs : List J), B + wneed t ≤ g' → nodupKeysList xs = true →
        xs.all (Exec.complete P t true) = true →
        RT (validate penv (g' + 1) (.list (wrapAnn base true t)) (.arr xs)) (.arr xs) := by
      intro g' xs hg' hxs hall
      apply validate_list_arr_rt
      intro x hx
      exact ih hbase true x g' hg' (nodupKeysList_mem xs hxs x hx) (by simpa using (List.all_eq_true.mp hall) x hx)
    unfold Exec.complete at hc
    simp only [wrapAnn]
    cases nullable with
    | true =>
      simp only [optionalIf, if_true]
      rw [ResultLeaf.validate_optional_succ]
      cases v with
      | null => exact RT_none
      | arr xs => exact key g xs (by omega) (by simpa [nodupKeys] using hnd) (by simpa using hc)
      | bool b => simp at hc
      | num m e => simp at hc
      | str x => simp at hc
      | obj kvs => simp at hc
    | false =>
      simp only [optionalIf, Bool.false_eq_true, if_false]
      cases v with
      | arr xs => exact key (g + 1) xs (by omega) (by simpa [nodupKeys] using hnd) (by simpa using hc)
      | null => simp at hc
      | bool b => simp at hc
      | num m e => simp at hc
      | str x => simp at hc
      | obj kvs => simp at hc
  | nonNull t ih =>
    intro nullable v fuel hf hnd hc
    simp only [wneed] at hf
    simp only [TypeRef.base] at hbase
    unfold Exec.complete at hc
    simp only [wrapAnn]
    exact ih hbase false v fuel hf hnd hc

/-- `@skip` / `@include`: the extra `Optional[..]` does no harm -/
theorem condAnn_rt (penv : Pyd.Env) (a : Ann) (dirs : List Directive) (v : J) (g : Nat)
    (h : ∀ fuel, g ≤ fuel → RT (validate penv fuel a v) v) :
    ∀ fuel, g + 1 ≤ fuel → RT (validate penv fuel (condAnn a dirs) v) v := by
  intro fuel hf
  unfold condAnn
  split
  · split
    · exact h fuel (by omega)
    · obtain ⟨k, rfl⟩ : ∃ k, fuel = k + 1 := ⟨fuel - 1, by omega⟩
      rw [ResultLeaf.validate_optional_succ]
      cases v with
      | null => exact RT_none
      | bool b => exact h k (by omega)
      | num m e => exact h k (by omega)
      | str x => exact h k (by omega)
      | arr xs => exact h k (by omega)
      | obj kvs => exact h k (by omega)
  · exact h fuel (by omega)

/-- CompleteValue with the leaf judgement is `Exec.conforms` -/
theorem complete_leaf (S : Schema) (T : TypeRef) : ∀ (nullable : Bool) (v : J),
    Exec.complete (fun n v => Exec.leafOk S n v) T nullable v = Exec.conforms S nullable T v := by
  induction T with
  | named n => intro b v; unfold Exec.complete Exec.conforms; rfl
  | list t ih =>
    intro b v
    unfold Exec.complete Exec.conforms
    cases v <;> simp only []
    congr 1
    funext x
    exact ih true x
  | nonNull t ih => intro b v; unfold Exec.complete Exec.conforms; exact ih false v

theorem need_eq_wneed (T : TypeRef) : ResultLeaf.need T = wneed T + 1 := by
  induction T with
  | named n => rfl
  | list t ih => simp [ResultLeaf.need, wneed, ih]
  | nonNull t ih => simp [ResultLeaf.need, wneed, ih]

/-! ### pydantic: the fields of a generated class -/

theorem addDecl_fresh (acc : List FieldDecl) (g : FieldDecl) (h : ∀ f ∈ acc, f.py ≠ g.py) : addDecl acc g = acc ++ [g] := by
  unfold addDecl
  have : (acc.any fun f => f.py == g.py) = false := by
    rw [List.any_eq_false]
    intro f hf
    simpa using h f hf
  simp [this]

theorem mergeDup_foldl : ∀ (fs acc : List FieldDecl), ((acc ++ fs).map (·.py)).Nodup → fs.foldl addDecl acc = acc ++ fs
  | [], acc, _ => by simp
  | g :: fs, acc, h => by
    have hfresh : ∀ f ∈ acc, f.py ≠ g.py := by
      intro f hf e
      simp only [List.map_append, List.map_cons] at h
      have := (List.nodup_append.mp h).2.2 f.py (List.mem_map.mpr ⟨f, hf, rfl⟩) g.py List.mem_cons_self
      exact this e
    simp only [List.foldl_cons, addDecl_fresh acc g hfresh]
    rw [mergeDup_foldl fs (acc ++ [g]) (by simpa [List.append_assoc] using h)]
    simp [List.append_assoc]

theorem mergeDup_nodup (fs : List FieldDecl) (h : (fs.map (·.py)).Nodup) : mergeDup fs = fs := by
  unfold mergeDup
  rw [mergeDup_foldl fs [] (by simpa using h)]
  simp

theorem allFields_none (penv : Pyd.Env) (n : String) (h : penv.class? n = none) : ∀ k, allFields penv k n = []
  | 0 => rfl
  | k + 1 => by simp [allFields, h]

theorem allFields_plain (penv : Pyd.Env) (c : ClassDecl) (hc : penv.class? c.name = some c)
    (hb : c.bases = ["BaseModel"]) (hbm : penv.class? "BaseModel" = none) (hnd : (c.fields.map (·.py)).Nodup) (k : Nat) :
    allFields penv (k + 1) c.name = c.fields := by
  simp [allFields, hc, hb, allFields_none penv "BaseModel" hbm, mergeDup_nodup c.fields hnd]

theorem validate_cls_succ (penv : Pyd.Env) (g : Nat) (n : String) (j : J) :
    validate penv (g + 1) (.cls n) j = modelWith penv penv.clsFuel (validate penv g) n j := rfl

/-- validating the fields of a model one by one, each either absent (with default) or round-tripping -/
theorem mapE_fields (F : FieldDecl → Except VErr (Option (String × Option String × PV))) (kvs : List (String × J))
    (keyf : FieldDecl → String) : ∀ (ds : List FieldDecl),
    (∀ d ∈ ds, (J.lookup (keyf d) kvs = none ∧ F d = .ok none) ∨
      (∃ v pv al py, J.lookup (keyf d) kvs = some v ∧ F d = .ok (some (py, al, pv)) ∧ al.getD py = keyf d ∧
        J.eqv (dump pv) v = true)) →
    ∃ fs, mapE F ds = .ok fs ∧ J.eqvKvs (dumpFields (fs.filterMap id)) kvs = true ∧
      (dumpFields (fs.filterMap id)).map (·.1) = (ds.map keyf).filter (fun k => J.hasKey k kvs)
  | [], _ => ⟨[], rfl, by simp [dumpFields, J.eqvKvs], by simp [dumpFields]⟩
  | d :: ds, h => by
    obtain ⟨fs, hfs, he, hk⟩ := mapE_fields F kvs keyf ds (fun x hx => h x (List.mem_cons_of_mem _ hx))
    rcases h d List.mem_cons_self with ⟨hl, hF⟩ | ⟨v, pv, al, py, hl, hF, hal, hev⟩
    · refine ⟨none :: fs, by simp [mapE, hF, hfs], by simpa using he, ?_⟩
      have : J.hasKey (keyf d) kvs = false := by simp [J.hasKey, hl]
      simp [List.filter_cons, this, hk]
    · refine ⟨some (py, al, pv) :: fs, by simp [mapE, hF, hfs], ?_, ?_⟩
      · simp only [List.filterMap_cons, id, dumpFields, J.eqvKvs, hal, hl, hev, Bool.true_and]
        exact he
      · have : J.hasKey (keyf d) kvs = true := by simp [J.hasKey, hl]
        simp only [List.filterMap_cons, id, dumpFields, List.map_cons, hal, List.filter_cons, this, if_true, hk]

/-! ### CollectFields on a list of field nodes with distinct response keys -/

def collOf : Selection → Exec.Collected
  | .field alias name dirs _ sub =>
    { key := alias.getD name, name := name, subs := sub, conditional := false || Exec.isConditional dirs }
  | _ => { key := "", name := "", subs := [], conditional := false }

theorem addCollected_fresh (acc : List Exec.Collected) (c : Exec.Collected) (h : ∀ x ∈ acc, x.key ≠ c.key) :
    Exec.addCollected acc c = acc ++ [c] := by
  unfold Exec.addCollected
  have : (acc.any fun x => x.key == c.key) = false := by
    rw [List.any_eq_false]
    intro x hx
    simpa using h x hx
  simp [this]

theorem collect_fields (S : Schema) (frags : List Fragment) (fuel : Nat) (rt : String) :
    ∀ (sels : List Selection) (acc : List Exec.Collected),
      (∀ x ∈ sels, isField x = true) → (sels.map keyOf).Nodup →
      (∀ x ∈ sels, ∀ c ∈ acc, c.key ≠ keyOf x) →
      Exec.collect S frags (fuel + 1) rt false sels acc = acc ++ sels.map collOf := by
  intro sels
  induction sels with
  | nil => intro acc _ _ _; simp [Exec.collect]
  | cons x rest ih =>
    intro acc hf hnd hdisj
    have hx := hf x List.mem_cons_self
    cases x with
    | spread n d => simp [isField] at hx
    | inline on d sid sub => simp [isField] at hx
    | field alias name dirs sid sub =>
      simp only [List.map_cons, List.nodup_cons] at hnd
      have ih' := ih (acc ++ [collOf (.field alias name dirs sid sub)])
        (fun y hy => hf y (List.mem_cons_of_mem _ hy)) hnd.2
        (by
          intro y hy c hc
          rcases List.mem_append.mp hc with hc | hc
          · exact hdisj y (List.mem_cons_of_mem _ hy) c hc
          · have : c = collOf (.field alias name dirs sid sub) := by simpa using hc
            subst this
            intro e
            apply hnd.1
            have : keyOf (.field alias name dirs sid sub) = keyOf y := e
            rw [this]
            exact List.mem_map.mpr ⟨y, hy, rfl⟩)
      unfold Exec.collect at ih' ⊢
      simp only [List.foldl_cons]
      rw [addCollected_fresh acc _ (by
        intro c hc
        exact hdisj _ List.mem_cons_self c hc)]
      have e : ({ key := alias.getD name, name := name, subs := sub, conditional := false || Exec.isConditional dirs } : Exec.Collected)
          = collOf (.field alias name dirs sid sub) := rfl
      rw [e, ih']
      simp [List.append_assoc]

theorem respOK_obj (S : Schema) (frags : List Fragment) (fuel : Nat) (rt : String) (sels : List Selection)
    (kvs : List (String × J)) :
    Exec.respOK S frags (fuel + 1) rt sels (.obj kvs) =
      (kvs.all (fun (k, _) => (Exec.collect S frags (fuel + 1) rt false sels []).any (·.key == k))
      && (Exec.collect S frags (fuel + 1) rt false sels []).all (fun g =>
        match J.lookup g.key kvs with
        | none => g.conditional
        | some v =>
          if g.name == Tables.typenameFieldName then (match v with | .str s => s == rt | _ => false)
          else match S.fieldOf? rt g.name with
            | none => false
            | some fd =>
              Exec.complete (fun n v =>
                if g.subs.isEmpty then Exec.leafOk S n v
                else (Exec.runtimeTypes S n).any fun rt' => Exec.respOK S frags fuel rt' g.subs v) fd.type true v)) := by
  rfl

theorem respOK_isObj (S : Schema) (frags : List Fragment) (fuel : Nat) (rt : String) (sels : List Selection) (j : J)
    (h : Exec.respOK S frags fuel rt sels j = true) : ∃ kvs, j = .obj kvs := by
  cases fuel with
  | zero => simp [Exec.respOK] at h
  | succ f =>
    cases j with
    | obj kvs => exact ⟨kvs, rfl⟩
    | null => simp [Exec.respOK] at h
    | bool b => simp [Exec.respOK] at h
    | num m e => simp [Exec.respOK] at h
    | str s => simp [Exec.respOK] at h
    | arr xs => simp [Exec.respOK] at h

/-! ### one field -/

theorem fieldWith_plain (penv : Pyd.Env) (cf : Nat) (rec : Ann → J → Except VErr PV) (kvs : List (String × J))
    (d : FieldDecl) (key : String) (hdisc : d.discriminator = false)
    (halias : d.alias = if d.py != key then some key else none)
    (hpy : d.py = key ∨ J.lookup d.py kvs = none) :
    fieldWith penv cf rec kvs d = (match J.lookup key kvs with
      | some v => (match rec d.ann v with
        | .ok pv => .ok (some (d.py, d.alias, pv))
        | .error e => .error e)
      | none => if d.defaultNone then .ok none else .error (.missing (d.alias.getD d.py))) := by
  unfold fieldWith
  by_cases hk : d.py = key
  · have ha : d.alias = none := by rw [halias]; simp [hk]
    subst hk
    simp only [ha, hdisc, Bool.false_eq_true, if_false]
    cases J.lookup d.py kvs <;> rfl
  · have ha : d.alias = some key := by rw [halias]; simp [hk]
    have hn : J.lookup d.py kvs = none := by
      rcases hpy with h | h
      · exact absurd h hk
      · exact h
    simp only [ha, hdisc, Bool.false_eq_true, if_false]
    cases hl : J.lookup key kvs with
    | none => simp only [hn]
    | some v => rfl

/-- what part (2) says about one class, for executor fuel `ef` -/
def ValSpec (env : ResultTypes.Env) (penv : Pyd.Env) (frags : List Fragment) (ef : Nat) : Prop :=
  ∀ (marks : List Nat) (cn tn : String) (sel : List Selection) (j : J),
    setOK env sel = true → plainLocal env marks cn tn sel = true →
    (∀ c ∈ plainClasses env cn tn sel, penv.class? c.name = some c) →
    Exec.respOK env.schema frags ef tn sel j = true → nodupKeys j = true →
    ∀ vfuel, vneed env tn sel + 1 ≤ vfuel → RT (validate penv vfuel (.cls cn) j) j

theorem field_rt (env : ResultTypes.Env) (penv : Pyd.Env) (frags : List Fragment) (ef : Nat) (ha : ResultLeaf.EnvAgrees env penv)
    (IH : ValSpec env penv frags ef) (marks : List Nat) (cn tn : String)
    (alias : Option String) (name : String) (dirs : List Directive) (sid : Nat) (sub : List Selection) (v : J)
    (hl : plainLocal1 env marks cn tn (.field alias name dirs sid sub) = true)
    (hcls : ∀ c ∈ plainExtra1 env cn tn (.field alias name dirs sid sub), penv.class? c.name = some c)
    (hnd : nodupKeys v = true)
    (hc : Exec.complete (fun n v =>
        if sub.isEmpty then Exec.leafOk env.schema n v
        else (Exec.runtimeTypes env.schema n).any fun rt' => Exec.respOK env.schema frags ef rt' sub v)
        (fieldT env tn name) true v = true) :
    ∀ g, vneed1 env tn (.field alias name dirs sid sub) ≤ g →
      RT (validate penv g (fieldDecl env cn tn alias name dirs sub).ann v) v := by
  simp only [plainLocal1, Bool.and_eq_true] at hl
  obtain ⟨⟨⟨hname, hmix⟩, hfd⟩, hcase⟩ := hl
  intro g hg
  simp only [vneed1] at hg
  show RT (validate penv g (condAnn (wrapAnn _ true (fieldT env tn name)) dirs) v) v
  by_cases hsub : sub.isEmpty = true
  · -- leaf
    rw [if_pos hsub] at hcase
    simp only [hsub, if_true] at hc hg ⊢
    rw [complete_leaf] at hc
    refine condAnn_rt penv _ dirs v (wneed (fieldT env tn name) + 1) ?_ g (by omega)
    intro fuel hfuel
    rw [← leafAnn_eq_wrapAnn]
    obtain ⟨pv, hpv, hd⟩ := ResultLeaf.validate_leaf_dump env penv ha (fieldT env tn name) (isLeafName_spec hcase)
      true v fuel (by rw [need_eq_wneed]; exact hfuel) hc
    exact ⟨pv, hpv, by rw [hd]; exact eqv_refl v hnd⟩
  · -- object
    have hsub' : sub.isEmpty = false := by simpa using hsub
    rw [if_neg hsub] at hcase
    simp only [Bool.and_eq_true, beq_iff_eq] at hcase
    obtain ⟨⟨⟨hkind, _⟩, hset⟩, hrec⟩ := hcase
    simp only [hsub', Bool.false_eq_true, if_false] at hc hg ⊢
    rw [plainExtra1_sub _ _ _ _ _ _ _ _ hsub'] at hcls
    refine condAnn_rt penv _ dirs v (vneed env (subType env tn name) sub + 1 + wneed (fieldT env tn name)) ?_ g (by omega)
    intro fuel hfuel
    refine wrap_rt penv (.cls (subClass env cn alias name)) _ (vneed env (subType env tn name) sub + 1)
      (fieldT env tn name) ?_ true v fuel hfuel hnd hc
    intro g' hg' v' hnd' hP
    have hrt : Exec.runtimeTypes env.schema (subType env tn name) = [subType env tn name] := by
      unfold Exec.runtimeTypes; rw [hkind]
    have hP' : Exec.respOK env.schema frags ef (subType env tn name) sub v' = true := by
      have : (fieldT env tn name).base = subType env tn name := rfl
      rw [this, hrt] at hP
      simpa using hP
    exact IH marks (subClass env cn alias name) (subType env tn name) sub v' hset hrec hcls hP' hnd' g' hg'

/-! ### one class -/

theorem mem_plainDecls {env : ResultTypes.Env} {cn tn : String} {sel : List Selection} {d : FieldDecl}
    (h : d ∈ plainDecls env cn tn sel) :
    ∃ alias name dirs sid sub, Selection.field alias name dirs sid sub ∈ sel ∧ d = fieldDecl env cn tn alias name dirs sub := by
  unfold plainDecls at h
  obtain ⟨x, hx, hd⟩ := List.mem_flatMap.mp h
  cases x with
  | field alias name dirs sid sub =>
    simp only [plainDecl1, List.mem_singleton] at hd
    exact ⟨alias, name, dirs, sid, sub, hx, hd⟩
  | spread n d' => simp [plainDecl1] at hd
  | inline on d' sid sub => simp [plainDecl1] at hd

theorem plainDecls_map (env : ResultTypes.Env) (cn tn : String) {β : Type} (φ : FieldDecl → β) (ψ : String → β)
    (hφ : ∀ alias name dirs sub, φ (fieldDecl env cn tn alias name dirs sub) = ψ (alias.getD name)) :
    ∀ (sel : List Selection), (∀ x ∈ sel, isField x = true) →
      (plainDecls env cn tn sel).map φ = (sel.map keyOf).map ψ := by
  intro sel
  induction sel with
  | nil => intro _; simp [plainDecls]
  | cons x rest ih =>
    intro h
    have hx := h x List.mem_cons_self
    cases x with
    | field alias name dirs sid sub =>
      rw [plainDecls_cons_field]
      simp only [List.map_cons, hφ, keyOf]
      rw [ih (fun y hy => h y (List.mem_cons_of_mem _ hy))]
    | spread n d => simp [isField] at hx
    | inline on d sid sub => simp [isField] at hx

theorem fieldDecl_key (env : ResultTypes.Env) (cn tn : String) (alias : Option String) (name : String) (dirs : List Directive)
    (sub : List Selection) :
    (fieldDecl env cn tn alias name dirs sub).alias.getD (fieldDecl env cn tn alias name dirs sub).py = alias.getD name := by
  simp only [fieldDecl]
  by_cases h : pyFieldName env (alias.getD name) = alias.getD name
  · simp [h]
  · simp [h]

theorem mem_plainExtra {env : ResultTypes.Env} {cn tn : String} {x : Selection} : ∀ {sel : List Selection}, x ∈ sel →
    ∀ c ∈ plainExtra1 env cn tn x, c ∈ plainExtra env cn tn sel
  | [], h, _, _ => by cases h
  | y :: rest, h, c, hc => by
    simp only [plainExtra]
    rcases List.mem_cons.mp h with rfl | h
    · exact List.mem_append_left _ hc
    · exact List.mem_append_right _ (mem_plainExtra h c hc)

theorem length_of_keys (D kvs : List (String × J)) (keys : List String)
    (hk : D.map (·.1) = keys.filter (fun k => J.hasKey k kvs)) (hnd : keys.Nodup)
    (hkn : (kvs.map (·.1)).Nodup) (hsub : ∀ k ∈ kvs.map (·.1), k ∈ keys) : D.length = kvs.length := by
  have h1 : D.length = (keys.filter (fun k => J.hasKey k kvs)).length := by rw [← hk]; simp
  have h2 : kvs.length = (kvs.map (·.1)).length := by simp
  rw [h1, h2]
  apply List.Perm.length_eq
  rw [List.perm_ext_iff_of_nodup (hnd.sublist List.filter_sublist) hkn]
  intro a
  rw [List.mem_filter, hasKey_iff]
  constructor
  · exact fun h => h.2
  · exact fun h => ⟨hsub a h, h⟩

theorem setOK_spec {env : ResultTypes.Env} {sel : List Selection} (h : setOK env sel = true) :
    (sel.map keyOf).Nodup ∧ ((sel.map keyOf).map (pyFieldName env)).Nodup ∧
    ∀ k ∈ sel.map keyOf, pyFieldName env k = k ∨ pyFieldName env k ∉ sel.map keyOf := by
  simp only [setOK, Bool.and_eq_true, nodupB_iff, List.all_eq_true, Bool.or_eq_true, beq_iff_eq,
    Bool.not_eq_true', List.contains_eq_mem, decide_eq_false_iff_not] at h
  exact ⟨h.1.1, h.1.2, h.2⟩

theorem collOf_key {x : Selection} (h : isField x = true) : (collOf x).key = keyOf x := by
  cases x <;> simp [isField] at h <;> rfl

theorem vneed_mem (env : ResultTypes.Env) (tn : String) (sel : List Selection) (s : Selection) (h : s ∈ sel) :
    vneed1 env tn s ≤ vneed env tn sel := by
  induction sel with
  | nil => cases h
  | cons x rest ih =>
    simp only [vneed]
    rcases List.mem_cons.mp h with rfl | h
    · omega
    · have := ih h; omega

theorem class_rt (env : ResultTypes.Env) (penv : Pyd.Env) (frags : List Fragment) (ef : Nat)
    (ha : ResultLeaf.EnvAgrees env penv) (hbm : penv.class? "BaseModel" = none)
    (IH : ValSpec env penv frags ef) : ValSpec env penv frags (ef + 1) := by
  intro marks cn tn sel j hset hloc hcls hresp hndj vfuel hvf
  obtain ⟨kvs, rfl⟩ := respOK_isObj _ _ _ _ _ _ hresp
  obtain ⟨g, rfl⟩ : ∃ g, vfuel = g + 1 := ⟨vfuel - 1, by omega⟩
  have hlocs := (plainLocal_iff env marks cn tn sel).mp hloc
  have hfields : ∀ x ∈ sel, isField x = true := fun x hx => plainLocal1_isField (hlocs x hx)
  obtain ⟨hkeys, hpys, hpk⟩ := setOK_spec hset
  rw [respOK_obj, collect_fields env.schema frags ef tn sel [] hfields hkeys (by simp)] at hresp
  simp only [List.nil_append, Bool.and_eq_true] at hresp
  obtain ⟨hr1, hr2⟩ := hresp
  have hsubkeys : ∀ k ∈ kvs.map (·.1), k ∈ sel.map keyOf := by
    intro k hk
    obtain ⟨p, hp, rfl⟩ := List.mem_map.mp hk
    have h1 := List.all_eq_true.mp hr1 p hp
    obtain ⟨c, hc, he⟩ := List.any_eq_true.mp h1
    obtain ⟨y, hy, rfl⟩ := List.mem_map.mp hc
    rw [collOf_key (hfields y hy)] at he
    have : keyOf y = p.1 := by simpa using he
    rw [← this]
    exact List.mem_map.mpr ⟨y, hy, rfl⟩
  obtain ⟨hkn, hkv, hklk⟩ := nodupKvs_spec kvs (by simpa [nodupKeys] using hndj)
  have hc0 : penv.class? cn = some { name := cn, bases := ["BaseModel"], fields := plainDecls env cn tn sel } :=
    hcls { name := cn, bases := ["BaseModel"], fields := plainDecls env cn tn sel } (by simp [plainClasses])
  have hall : allFields penv penv.clsFuel cn = plainDecls env cn tn sel :=
    allFields_plain penv ⟨cn, ["BaseModel"], plainDecls env cn tn sel⟩ hc0 rfl hbm (by
      show ((plainDecls env cn tn sel).map (·.py)).Nodup
      rw [plainDecls_map env cn tn (·.py) (pyFieldName env) (fun _ _ _ _ => rfl) sel hfields]
      exact hpys) penv.classes.length
  obtain ⟨fs, hfs, heq, hkeysD⟩ := mapE_fields (fieldWith penv penv.clsFuel (validate penv g) kvs) kvs
    (fun d => d.alias.getD d.py) (plainDecls env cn tn sel) (by
    intro d hd
    obtain ⟨alias, name, dirs, sid, sub, hx, rfl⟩ := mem_plainDecls hd
    have hkeymem : alias.getD name ∈ sel.map keyOf := List.mem_map.mpr ⟨_, hx, rfl⟩
    have hlx := hlocs _ hx
    have hfw := fieldWith_plain penv penv.clsFuel (validate penv g) kvs (fieldDecl env cn tn alias name dirs sub)
      (alias.getD name) rfl rfl (by
        rcases hpk _ hkeymem with h | h
        · exact Or.inl h
        · exact Or.inr ((lookup_none_iff _ _).mpr (fun hm => h (hsubkeys _ hm))))
    have hg := List.all_eq_true.mp hr2 (collOf (.field alias name dirs sid sub)) (List.mem_map.mpr ⟨_, hx, rfl⟩)
    simp only [collOf] at hg
    simp only [fieldDecl_key]
    cases hlk : J.lookup (alias.getD name) kvs with
    | none =>
      left
      refine ⟨rfl, ?_⟩
      rw [hlk] at hg
      have hd : (fieldDecl env cn tn alias name dirs sub).defaultNone = true := by
        simpa [fieldDecl, Exec.isConditional, hasConditionalDirective] using hg
      rw [hfw]
      simp only [hlk, hd, if_true]
    | some v =>
      right
      rw [hlk] at hg
      have hlx' := hlx
      simp only [plainLocal1, Bool.and_eq_true] at hlx'
      obtain ⟨⟨⟨hname, _⟩, hfd⟩, _⟩ := hlx'
      have hname' : (name == Tables.typenameFieldName) = false := by simpa [typenameField] using hname
      obtain ⟨fd, hfd'⟩ := Option.isSome_iff_exists.mp hfd
      have hT : fieldT env tn name = fd.type := by simp [fieldT, hfd']
      simp only [hname', Bool.false_eq_true, if_false, hfd', ← hT] at hg
      obtain ⟨pv, hpv, hev⟩ := field_rt env penv frags ef ha IH marks cn tn alias name dirs sid sub v hlx
        (fun c hc => hcls c (List.mem_cons_of_mem _ (mem_plainExtra hx c hc)))
        (hkv _ (lookup_mem hlk)) hg g (by have := vneed_mem env tn sel _ hx; omega)
      refine ⟨v, pv, _, _, rfl, ?_, fieldDecl_key env cn tn alias name dirs sub, hev⟩
      rw [hfw]
      simp only [hlk, hpv])
  have hkD : (dumpFields (fs.filterMap id)).map (·.1) = (sel.map keyOf).filter (fun k => J.hasKey k kvs) := by
    rw [hkeysD, plainDecls_map env cn tn (fun d => d.alias.getD d.py) id (fun a n d s => fieldDecl_key env cn tn a n d s) sel hfields]
    simp
  refine ⟨.model cn (fs.filterMap id), ?_, ?_⟩
  · rw [validate_cls_succ]
    unfold modelWith
    simp only [hc0, hall, hfs]
  · simp only [dump, J.eqv, Bool.and_eq_true, beq_iff_eq]
    exact ⟨length_of_keys _ kvs (sel.map keyOf) hkD hkeys hkn hsubkeys, heq⟩

/-- **part (2), all executor fuels** -/
theorem val_spec (env : ResultTypes.Env) (penv : Pyd.Env) (frags : List Fragment)
    (ha : ResultLeaf.EnvAgrees env penv) (hbm : penv.class? "BaseModel" = none) : ∀ ef, ValSpec env penv frags ef
  | 0 => by
    intro marks cn tn sel j _ _ _ hresp
    simp [Exec.respOK] at hresp
  | ef + 1 => class_rt env penv frags ef ha hbm (val_spec env penv frags ha hbm ef)

end Ariadne.C01Plain
