/-
  Proofs/C01AbsGen.lean — property C01, "abstract positions" tier (extended by mixin fragments), part (1): on input satisfying
  `aSels` the generator succeeds and returns exactly `aClass` (base classes = the mixin fragments spread in the class, `aBases`);
  the marks it adds are exactly `needSids`; nothing is unpacked.
-/
import AriadneModel.Proofs.C01AbsDefs
import AriadneModel.Proofs.C01PlainGen
import AriadneModel.Proofs.C01MixGen

set_option linter.unusedSimpArgs false
set_option linter.unusedVariables false

namespace Ariadne.C01Abs
open Ariadne Ariadne.Gql Ariadne.ResultTypes Ariadne.Util Ariadne.C01Plain

/-! ### shapes -/

/-- a field, or an inline fragment with type condition -/
def shapeOK : Selection → Bool
  | .field .. => true
  | .inline (some _) _ _ _ => true
  | _ => false

theorem aSels_iff (env : Env) (mk : Nat → Bool) (cn tn : String) (rts : List String) (sel : List Selection) :
    aSels env mk cn tn rts sel = true ↔ ∀ s ∈ sel, aSel1 env mk cn tn rts s = true := by
  induction sel with
  | nil => simp [aSels]
  | cons s rest ih => simp [aSels, ih]

theorem aSel1_shape' {env : Env} {mk : Nat → Bool} {cn tn : String} {rts : List String} {s : Selection}
    (h : aSel1 env mk cn tn rts s = true) : shapeOK s = true ∨ isSpreadSel s = true := by
  cases s with
  | field a n d sid sub => exact Or.inl rfl
  | spread n d => exact Or.inr rfl
  | inline on d sid ss =>
    cases on with
    | none => simp [aSel1] at h
    | some c => exact Or.inl rfl

/-- what the tier demands of a spread: a mixin fragment on exactly the (object) type of the class -/
theorem aSel1_spread {env : Env} {mk : Nat → Bool} {cn tn : String} {rts : List String} {n : String} {d : List Directive}
    (h : aSel1 env mk cn tn rts (.spread n d) = true) :
    hasConditionalDirective d = false ∧ env.schema.kindOf? tn = some .object ∧ (∀ rt ∈ rts, rt = tn) ∧
    ∃ f, findFragment? env.frags n = some f ∧ f.on = tn := by
  simp only [aSel1, Bool.and_eq_true, Bool.not_eq_true', beq_iff_eq, List.all_eq_true] at h
  obtain ⟨⟨⟨h1, h2⟩, h3⟩, h4⟩ := h
  refine ⟨h1, h2, h3, ?_⟩
  cases hf : findFragment? env.frags n with
  | none => simp [hf] at h4
  | some f => exact ⟨f, rfl, by simpa [hf] using h4⟩

/-- a class on a type that is not an object type has no spreads -/
theorem aSel1_shape {env : Env} {mk : Nat → Bool} {cn tn : String} {rts : List String} {s : Selection}
    (hk : env.schema.kindOf? tn ≠ some .object) (h : aSel1 env mk cn tn rts s = true) : shapeOK s = true := by
  rcases aSel1_shape' h with h1 | h1
  · exact h1
  · cases s with
    | spread n d => exact absurd (aSel1_spread h).2.1 hk
    | field a n d sid sub => simp [isSpreadSel] at h1
    | inline on d sid ss => simp [isSpreadSel] at h1

/-- what the tier demands of a merged inline fragment -/
theorem aSel1_inline {env : Env} {mk : Nat → Bool} {cn tn : String} {rts : List String} {c : String} {d : List Directive}
    {sid : Nat} {ss : List Selection} (h : aSel1 env mk cn tn rts (.inline (some c) d sid ss) = true)
    (hi : incl env c tn = true) :
    hasConditionalDirective d = false ∧
    (∀ y ∈ ss, notTnField y = true ∨ (isSpreadSel y = true ∧ c = tn)) ∧ aSels env mk cn tn rts ss = true := by
  simp only [aSel1, hi, Bool.not_true, Bool.false_or, Bool.and_eq_true, List.all_eq_true, Bool.not_eq_true',
    Bool.or_eq_true, beq_iff_eq] at h
  exact ⟨h.1.1, h.2.1, h.2.2⟩

theorem notTnField_isField {s : Selection} (h : notTnField s = true) : isField s = true := by
  cases s <;> simp [notTnField, isField] at h ⊢

/-- every field node of the class satisfies the per-field conditions -/
theorem aSels_flat {env : Env} {mk : Nat → Bool} {cn tn : String} {rts : List String} {sel : List Selection}
    (h : aSels env mk cn tn rts sel = true) :
    ∀ x ∈ flatG env tn sel, isField x = true ∧ aSel1 env mk cn tn rts x = true := by
  intro x hx
  obtain ⟨s, hs, hxs⟩ := List.mem_flatMap.mp hx
  have h1 := (aSels_iff env mk cn tn rts sel).mp h s hs
  cases s with
  | field a n d sid sub =>
    simp only [flat1, List.mem_singleton] at hxs
    subst hxs
    exact ⟨rfl, h1⟩
  | spread n d => simp [flat1] at hxs
  | inline on d sid ss =>
    cases on with
    | none => simp [flat1] at hxs
    | some c =>
      simp only [flat1] at hxs
      by_cases hi : incl env c tn = true
      · simp only [hi, if_true] at hxs
        obtain ⟨_, _, hss⟩ := aSel1_inline h1 hi
        obtain ⟨hxm, hxf⟩ := List.mem_filter.mp hxs
        exact ⟨hxf, (aSels_iff env mk cn tn rts ss).mp hss x hxm⟩
      · simp [hi] at hxs

theorem flatG_explicit {env : Env} {mk : Nat → Bool} {cn tn : String} {rts : List String} {sel : List Selection}
    (h : aSels env mk cn tn rts sel = true) : (flatG env tn sel).any isTnSel = explicitTn sel := by
  unfold explicitTn flatG
  induction sel with
  | nil => rfl
  | cons s rest ih =>
    have h' := (aSels_iff env mk cn tn rts (s :: rest)).mp h
    have ihr := ih ((aSels_iff env mk cn tn rts rest).mpr (fun y hy => h' y (List.mem_cons_of_mem _ hy)))
    simp only [List.flatMap_cons, List.any_append, List.any_cons, ihr]
    congr 1
    have h1 := h' s List.mem_cons_self
    cases s with
    | field a n d sid sub => simp [flat1]
    | spread n d => simp [flat1, isTnSel]
    | inline on d sid ss =>
      cases on with
      | none => simp [flat1, isTnSel]
      | some c =>
        simp only [flat1, isTnSel]
        by_cases hi : incl env c tn = true
        · simp only [hi, if_true]
          obtain ⟨_, hnt, _⟩ := aSel1_inline h1 hi
          rw [List.any_eq_false]
          intro x hx
          obtain ⟨hxm, hxf⟩ := List.mem_filter.mp hx
          have := hnt x hxm
          cases x <;> simp_all [notTnField, isTnSel, isSpreadSel, isField]
        · simp [hi]

/-! ### fuel -/

theorem agfuel_ge (sel : List Selection) : 2 ≤ agfuel sel := by
  induction sel with
  | nil => simp [agfuel]
  | cons s rest ih => simp only [agfuel]; omega

theorem agfuel_mem (sel : List Selection) (s : Selection) (h : s ∈ sel) : agfuel1 s ≤ agfuel sel := by
  induction sel with
  | nil => cases h
  | cons x rest ih =>
    simp only [agfuel]
    rcases List.mem_cons.mp h with rfl | h
    · omega
    · have := ih h; omega

theorem agfuel_flat (env : Env) (tn : String) (sel : List Selection) (x : Selection) (h : x ∈ flatG env tn sel) :
    agfuel1 x ≤ agfuel sel := by
  obtain ⟨s, hs, hxs⟩ := List.mem_flatMap.mp h
  have h1 := agfuel_mem sel s hs
  cases s with
  | field a n d sid sub =>
    simp only [flat1, List.mem_singleton] at hxs
    subst hxs; exact h1
  | spread n d => simp [flat1] at hxs
  | inline on d sid ss =>
    cases on with
    | none => simp [flat1] at hxs
    | some c =>
      simp only [flat1] at hxs
      split at hxs
      · have := agfuel_mem ss x (List.mem_filter.mp hxs).1
        simp only [agfuel1] at h1
        omega
      · cases hxs

/-! ### `get_inline_fragments_from_selection_set`, `get_fragments_on_subtype` without spreads -/

def condStep (frags : List Fragment) (fuel : Nat) (acc : List (Option String)) (s : Selection) :
    Except GenErr (List (Option String)) :=
  match s with
  | .inline on _ _ _ => pure (acc ++ [on])
  | .spread n _ =>
    match findFragment? frags n with
    | none => .error (.internal "KeyError")
    | some f => do
      let inner ← inlineFragmentConds frags fuel f.sel
      pure (acc ++ inner)
  | .field .. => pure acc

theorem inlineFragmentConds_succ (frags : List Fragment) (fuel : Nat) (sels : List Selection) :
    inlineFragmentConds frags (fuel + 1) sels = sels.foldlM (condStep frags fuel) [] := rfl

theorem inlineCondsLoop (frags : List Fragment) (fuel : Nat) : ∀ (sels : List Selection) (acc : List (Option String)),
    (∀ s ∈ sels, shapeOK s = true) →
    sels.foldlM (condStep frags fuel) acc = .ok (acc ++ (inlConds sels).map some) := by
  intro sels
  induction sels with
  | nil => intro acc _; simp [inlConds, pure, Except.pure]
  | cons s rest ih =>
    intro acc h
    have hs := h s List.mem_cons_self
    have hr := fun y hy => h y (List.mem_cons_of_mem _ hy)
    rw [List.foldlM_cons]
    cases s with
    | field a n d sid sub =>
      have e : condStep frags fuel acc (.field a n d sid sub) = .ok acc := rfl
      simp only [e, bind, Except.bind]
      rw [ih acc hr]
      simp [inlConds, List.filterMap_cons, inlCond?]
    | spread n d => simp [shapeOK] at hs
    | inline on d sid ss =>
      cases on with
      | none => simp [shapeOK] at hs
      | some c =>
        have e : condStep frags fuel acc (.inline (some c) d sid ss) = .ok (acc ++ [some c]) := rfl
        simp only [e, bind, Except.bind]
        rw [ih (acc ++ [some c]) hr]
        simp [inlConds, List.filterMap_cons, inlCond?, List.append_assoc]

theorem inlineFragmentConds_ok (frags : List Fragment) (fuel : Nat) (sels : List Selection)
    (h : ∀ s ∈ sels, shapeOK s = true) :
    inlineFragmentConds frags (fuel + 1) sels = .ok ((inlConds sels).map some) := by
  rw [inlineFragmentConds_succ, inlineCondsLoop frags fuel sels [] h]
  simp

def subStep (env : Env) (root : String) (acc : List String) (s : Selection) : Except GenErr (List String) :=
  match s with
  | .spread n _ =>
    match findFragment? env.frags n with
    | none => .error (.internal "KeyError")
    | some f =>
      if (env.schema.get? f.on).isSome && env.schema.isSubType root f.on then pure (acc ++ [f.on]) else pure acc
  | _ => pure acc

theorem fragmentsOnSubtype_eq (env : Env) (sels : List Selection) (root : String) :
    fragmentsOnSubtype env sels root =
      if sels.isEmpty || !env.schema.isAbstract root then pure [] else sels.foldlM (subStep env root) [] := rfl

theorem subLoop (env : Env) (root : String) : ∀ (sels : List Selection) (acc : List String),
    (∀ s ∈ sels, shapeOK s = true) → sels.foldlM (subStep env root) acc = .ok acc := by
  intro sels
  induction sels with
  | nil => intro acc _; rfl
  | cons s rest ih =>
    intro acc h
    have hs := h s List.mem_cons_self
    have hr := fun y hy => h y (List.mem_cons_of_mem _ hy)
    rw [List.foldlM_cons]
    cases s with
    | field a n d sid sub =>
      have e : subStep env root acc (.field a n d sid sub) = .ok acc := rfl
      simp only [e, bind, Except.bind]
      exact ih acc hr
    | spread n d => simp [shapeOK] at hs
    | inline on d sid ss =>
      have e : subStep env root acc (.inline on d sid ss) = .ok acc := rfl
      simp only [e, bind, Except.bind]
      exact ih acc hr

theorem fragmentsOnSubtype_nil (env : Env) (sels : List Selection) (root : String)
    (h : ∀ s ∈ sels, shapeOK s = true) : fragmentsOnSubtype env sels root = .ok [] := by
  rw [fragmentsOnSubtype_eq]
  split
  · rfl
  · exact subLoop env root sels [] h

/-! ### `parse_operation_field_type` on a composite type -/

def ctxAfter (env : Env) (ctx : Ctx) (cn n : String) (sub : List Selection) : Ctx :=
  { ctx with related := ctx.related ++ relatedOf env cn n sub,
             abstract := if env.schema.isAbstract n then true else ctx.abstract }

theorem filterMap_id_map_some (l : List String) : (l.map some).filterMap id = l := by
  induction l with
  | nil => rfl
  | cons x xs ih => simp [ih]

theorem parseType_comp (env : Env) (fuel : Nat) (sub : List Selection)
    (T : TypeRef) (hk : isCompositeKind env T.base = true)
    (hshape : env.schema.kindOf? T.base = some .interface → ∀ s ∈ sub, shapeOK s = true) :
    ∀ (nullable : Bool) (cn : String) (ctx : Ctx),
      parseType env (fuel + 1) sub T nullable cn false ctx =
        .ok (wrapAnn (baseAnnOf env cn T.base sub) nullable T, ctxAfter env ctx cn T.base sub) := by
  induction T with
  | named n =>
    intro nullable cn ctx
    simp only [TypeRef.base] at hk hshape ⊢
    unfold parseType
    unfold isCompositeKind at hk
    cases hkind : env.schema.kindOf? n with
    | none => simp [hkind] at hk
    | some k =>
      cases k with
      | scalar => simp [hkind] at hk
      | enum => simp [hkind] at hk
      | input => simp [hkind] at hk
      | object =>
        simp only [wrapAnn, baseAnnOf, isMulti, hkind, ctxAfter, relatedOf, Schema.isAbstract, pure, Except.pure]
        simp
      | union =>
        simp only [wrapAnn, baseAnnOf, isMulti, hkind, ctxAfter, relatedOf, Schema.isAbstract, pure, Except.pure]
        simp [List.map_map, Function.comp_def]
      | interface =>
        have hshape := hshape hkind
        simp only [hkind, inlineFragmentConds_ok env.frags fuel sub hshape, fragmentsOnSubtype_nil env sub n hshape,
          bind, Except.bind, wrapAnn, baseAnnOf, isMulti, ctxAfter, relatedOf, Schema.isAbstract, pure, Except.pure]
        by_cases he : (inlConds sub).isEmpty = true
        · simp [he]
        · have he' : (inlConds sub).isEmpty = false := by simpa using he
          have hany : ((inlConds sub).map some).any (·.isNone) = false := by
            rw [List.any_eq_false]; intro x hx; obtain ⟨y, _, rfl⟩ := List.mem_map.mp hx; simp
          simp [he', hany, filterMap_id_map_some, List.map_map, Function.comp_def]
  | list t ih =>
    intro nullable cn ctx
    simp only [TypeRef.base] at hk hshape
    unfold parseType
    simp [ih hk hshape true cn ctx, bind, Except.bind, pure, Except.pure, wrapAnn, TypeRef.base]
  | nonNull t ih =>
    intro nullable cn ctx
    simp only [TypeRef.base] at hk hshape
    unfold parseType
    simp only [wrapAnn, TypeRef.base]
    exact ih hk hshape false cn ctx

/-- `parse_operation_field` for a field of composite type -/
theorem parseOperationField_comp (env : Env) (fuel : Nat) (name : String) (dirs : List Directive) (sub : List Selection)
    (T : TypeRef) (hshape : env.schema.kindOf? T.base = some .interface → ∀ s ∈ sub, shapeOK s = true)
    (cn : String) (tv : List String) (hn : (name == typenameField) = false)
    (hk : isCompositeKind env T.base = true) :
    parseOperationField env (fuel + 1) name dirs sub T cn tv =
      .ok (condAnn (annotateTop (wrapAnn (baseAnnOf env cn T.base sub) true T)) dirs, hasConditionalDirective dirs,
           { related := relatedOf env cn T.base sub, abstract := env.schema.isAbstract T.base }) := by
  unfold parseOperationField
  simp only [hn, Bool.false_and, Bool.false_eq_true, if_false, parseType_comp env fuel sub T hk hshape, bind, Except.bind,
    parseDirectives_eq, pure, Except.pure, ctxAfter]
  simp

/-- `parse_operation_field` for `__typename` in a class with typename values -/
theorem parseOperationField_tn (env : Env) (fuel : Nat) (name : String) (dirs : List Directive) (sub : List Selection)
    (T : TypeRef) (cn : String) (tv : List String) (hn : (name == typenameField) = true) (htv : tv.isEmpty = false) :
    ∃ ctx, parseOperationField env fuel name dirs sub T cn tv = .ok (.literal (sortStr tv), false, ctx) := by
  unfold parseOperationField
  exact ⟨{}, by simp [hn, htv, pure, Except.pure]⟩

theorem fieldTypeFromSchema_tn (env : Env) (tn name : String) (hn : (name == typenameField) = true) :
    ∃ t, fieldTypeFromSchema env tn name = .ok t := by
  unfold fieldTypeFromSchema
  cases env.schema.fieldOf? tn name with
  | some fd => exact ⟨_, rfl⟩
  | none => simp [hn, pure, Except.pure]

theorem rootTnOK_spec {env : Env} {tn : String} (h : rootTnOK env tn = true) :
    env.schema.fieldOf? tn typenameField = none ∧ isLeafName env "String" = true ∧
    (env.schema.kindOf? "String" = none ∨ env.schema.kindOf? "String" = some .scalar) := by
  simp only [rootTnOK, Bool.and_eq_true, Option.isNone_iff_eq_none] at h
  obtain ⟨⟨h1, h2⟩, h3⟩ := h
  refine ⟨h1, ?_, ?_⟩
  · unfold isLeafName
    cases hk : env.schema.kindOf? "String" with
    | none => simp [h3]
    | some k => cases k <;> simp_all
  · cases hk : env.schema.kindOf? "String" with
    | none => exact Or.inl rfl
    | some k => cases k <;> simp_all

theorem fieldTypeFromSchema_root (env : Env) (tn : String) (h : env.schema.fieldOf? tn typenameField = none) :
    fieldTypeFromSchema env tn typenameField = .ok tnT := by
  unfold fieldTypeFromSchema
  simp [h, pure, Except.pure, tnT]

/-- `parse_operation_field` for a leaf when the `__typename` shortcut does not apply -/
theorem parseOperationField_leaf' (env : Env) (fuel : Nat) (name : String) (dirs : List Directive) (sub : List Selection)
    (T : TypeRef) (cn : String) (tv : List String) (h0 : (name == typenameField && !tv.isEmpty) = false)
    (hl : isLeafName env T.base = true) :
    ∃ ctx, parseOperationField env fuel name dirs sub T cn tv =
      .ok (condAnn (wrapAnn (ResultLeaf.leafBase env T.base) true T) dirs, hasConditionalDirective dirs, ctx) := by
  obtain ⟨ctx, h⟩ := ResultLeaf.parseType_leaf env fuel sub T (isLeafName_spec hl) true cn false {}
  refine ⟨ctx, ?_⟩
  unfold parseOperationField
  simp only [h0, Bool.false_eq_true, if_false, h, bind, Except.bind, parseDirectives_eq,
    leafAnn_eq_wrapAnn, pure, Except.pure]
  rw [annotateTop_wrapAnn _ (by rw [ResultLeaf.leafBase_eq]; exact Or.inl ⟨_, rfl⟩)]

/-! ### flat views of the recursive definitions -/

theorem aExtra_eq (env : Env) (cn tn : String) : ∀ sel : List Selection,
    aExtra env cn tn sel = sel.flatMap (aExtra1 env cn tn)
  | [] => by simp [aExtra]
  | s :: rest => by simp [aExtra, aExtra_eq env cn tn rest]

theorem needSids_eq (env : Env) (cn tn : String) : ∀ sel : List Selection,
    needSids env cn tn sel = sel.flatMap (needSids1 env cn tn)
  | [] => by simp [needSids]
  | s :: rest => by simp [needSids, needSids_eq env cn tn rest]

/-- the content of every merged inline fragment consists of fields and spreads (no nested inline fragment) -/
def contentOK (env : Env) (tn : String) : Selection → Prop
  | .inline (some c) _ _ ss => incl env c tn = true → ∀ y ∈ ss, isField y = true ∨ isSpreadSel y = true
  | _ => True

theorem aSel1_contentOK {env : Env} {mk : Nat → Bool} {cn tn : String} {rts : List String} {s : Selection}
    (h : aSel1 env mk cn tn rts s = true) : contentOK env tn s := by
  cases s with
  | field a n d sid sub => trivial
  | spread n d => trivial
  | inline on d sid ss =>
    cases on with
    | none => trivial
    | some c =>
      intro hi y hy
      rcases (aSel1_inline h hi).2.1 y hy with h1 | h1
      · exact Or.inl (notTnField_isField h1)
      · exact Or.inr h1.1

theorem aSels_contentOK {env : Env} {mk : Nat → Bool} {cn tn : String} {rts : List String} {sel : List Selection}
    (h : aSels env mk cn tn rts sel = true) : ∀ s ∈ sel, contentOK env tn s :=
  fun s hs => aSel1_contentOK ((aSels_iff env mk cn tn rts sel).mp h s hs)

/-- a function that yields nothing for spreads does not see them -/
theorem flatMap_filter_field {β : Type} (g : Selection → List β) (hg : ∀ n d, g (.spread n d) = []) :
    ∀ (ss : List Selection), (∀ y ∈ ss, isField y = true ∨ isSpreadSel y = true) →
      ss.flatMap g = (ss.filter isField).flatMap g
  | [], _ => rfl
  | y :: rest, h => by
    have ih := flatMap_filter_field g hg rest (fun z hz => h z (List.mem_cons_of_mem _ hz))
    have hy := h y List.mem_cons_self
    cases y with
    | field a n d sid sub => simp [List.filter_cons, isField, ih]
    | spread n d => simp [List.filter_cons, isField, hg, ih]
    | inline on d sid ss' => simp [isField, isSpreadSel] at hy

theorem aExtra_flat (env : Env) (cn tn : String) (sel : List Selection) (hc : ∀ s ∈ sel, contentOK env tn s) :
    aExtra env cn tn sel = (flatG env tn sel).flatMap (aExtra1 env cn tn) := by
  rw [aExtra_eq, flatG, List.flatMap_assoc]
  apply C01Mix.flatMap_congr'
  intro s hs
  have hcs := hc s hs
  cases s with
  | field a n d sid sub => simp [flat1]
  | spread n d => simp [flat1, aExtra1]
  | inline on d sid ss =>
    cases on with
    | none => simp [flat1, aExtra1]
    | some c =>
      simp only [flat1, aExtra1]
      split
      · rename_i hi
        rw [aExtra_eq]
        exact flatMap_filter_field _ (fun n d => by simp [aExtra1]) ss (hcs hi)
      · simp

theorem needSids_flat (env : Env) (cn tn : String) (sel : List Selection) (hc : ∀ s ∈ sel, contentOK env tn s) :
    needSids env cn tn sel = (flatG env tn sel).flatMap (needSids1 env cn tn) := by
  rw [needSids_eq, flatG, List.flatMap_assoc]
  apply C01Mix.flatMap_congr'
  intro s hs
  have hcs := hc s hs
  cases s with
  | field a n d sid sub => simp [flat1]
  | spread n d => simp [flat1, needSids1]
  | inline on d sid ss =>
    cases on with
    | none => simp [flat1, needSids1]
    | some c =>
      simp only [flat1, needSids1]
      split
      · rename_i hi
        rw [needSids_eq]
        exact flatMap_filter_field _ (fun n d => by simp [needSids1]) ss (hcs hi)
      · simp

theorem aExtra1_tn (env : Env) (cn tn : String) : aExtra1 env cn tn Marks.typenameSel = [] := by
  simp [Marks.typenameSel, aExtra1]

theorem needSids1_tn (env : Env) (cn tn : String) : needSids1 env cn tn Marks.typenameSel = [] := by
  simp [Marks.typenameSel, needSids1]

theorem rflat_extra (env : Env) (cn tn : String) (a : Bool) (sel : List Selection) (hc : ∀ s ∈ sel, contentOK env tn s) :
    (rflat a env tn sel).flatMap (aExtra1 env cn tn) = aExtra env cn tn sel := by
  rw [aExtra_flat env cn tn sel hc]
  unfold rflat
  split <;> simp [aExtra1_tn]

theorem rflat_need (env : Env) (cn tn : String) (a : Bool) (sel : List Selection) (hc : ∀ s ∈ sel, contentOK env tn s) :
    (rflat a env tn sel).flatMap (needSids1 env cn tn) = needSids env cn tn sel := by
  rw [needSids_flat env cn tn sel hc]
  unfold rflat
  split <;> simp [needSids1_tn]

/-! ### `_resolve_selection_set` with inline fragments -/

theorem setUnion_nil (s : List String) : setUnion s [] = s := rfl

theorem rootType_self {env : Env} {c rt : String} (h : inlineFragmentRootType env c c = some rt) : rt = c := by
  unfold inlineFragmentRootType at h
  cases hg : env.schema.get? c with
  | none => simp [hg] at h
  | some t =>
    simp only [hg] at h
    split at h
    · exact (Option.some.inj h).symm
    · simp at h; exact h.symm

/-- `_resolve_selection_set` on fields and mixin spreads (the content of a merged inline fragment, or a plain set) -/
theorem resolveLoop_fs (env : Env) (K : Nat) (hfr : C01Mix.FragsOK env K) (fuel : Nat) (root : String) :
    ∀ (sels : List Selection) (acc : Acc) (s : St),
      (∀ x ∈ sels, isField x = true ∨ ∃ n d f, x = Selection.spread n d ∧ findFragment? env.frags n = some f ∧ f.on = root ∧
          env.schema.kindOf? root = some .object) →
      forIn sels acc (resolveBody env fuel root) s =
        .ok ((acc.1 ++ (sels.filter isField).map toR, (sels.filterMap C01Mix.spreadName?).foldl setAdd acc.2), s) := by
  intro sels
  induction sels with
  | nil => intro acc s _; simp [List.forIn_nil]; rfl
  | cons x rest ih =>
    intro acc s h
    have hx := h x List.mem_cons_self
    have hr := fun y hy => h y (List.mem_cons_of_mem _ hy)
    rw [List.forIn_cons]
    rcases hx with hx | ⟨n, d, f, rfl, hf, hon, hroot⟩
    · cases x with
      | field alias name dirs sid sub =>
        refine run_bind (a := .yield (acc.1 ++ [⟨alias, name, dirs, sid, sub⟩], acc.2)) (s' := s) rfl ?_
        simp only []
        rw [ih _ _ hr]
        simp [isField, toR, C01Mix.spreadName?, List.filter_cons, List.filterMap_cons, List.append_assoc]
      | spread n d => simp [isField] at hx
      | inline on d sid ss => simp [isField] at hx
    · have hnu := (C01Mix.not_unpacked hfr hf).1
      rw [hon] at hnu
      refine run_bind (a := .yield (acc.1, setAdd acc.2 n)) (s' := s) ?_ ?_
      · have h1 : (env.schema.get? root).isNone = false := by
          have := C01Mix.get_of_kind hroot; cases hg : env.schema.get? root <;> simp_all
        have h2 : (env.schema.get? f.on).isNone = false := by rw [hon]; exact h1
        simp only [resolveBody, hf, h1, h2, hnu, Bool.false_eq_true, if_false, Bool.not_false, if_true]
        rfl
      · simp only []
        rw [ih _ _ hr]
        simp [isField, C01Mix.spreadName?, List.filter_cons, List.filterMap_cons]

theorem resolve_fs (env : Env) (K : Nat) (hfr : C01Mix.FragsOK env K) (fuel : Nat) (root : String) (sels : List Selection) (st : St)
    (h : ∀ x ∈ sels, isField x = true ∨ ∃ n d f, x = Selection.spread n d ∧ findFragment? env.frags n = some f ∧ f.on = root ∧
          env.schema.kindOf? root = some .object) :
    resolve env (fuel + 1) sels root st =
      .ok (((sels.filter isField).map toR, C01Mix.spreadNames sels),
           { st with mixins := setUnion st.mixins (C01Mix.spreadNames sels) }) := by
  rw [resolve_succ]
  refine run_bind (resolveLoop_fs env K hfr fuel root sels ([], []) st h) ?_
  refine run_bind (run_modify _ _) ?_
  simp [run_pure, C01Mix.spreadNames]

theorem resolveLoop_abs (env : Env) (K : Nat) (hfr : C01Mix.FragsOK env K) (k : Nat) (root : String) {mk : Nat → Bool} {cn : String}
    {rts : List String} :
    ∀ (sels : List Selection) (acc : Acc) (s : St), (∀ x ∈ sels, aSel1 env mk cn root rts x = true) →
      ∃ s', forIn sels acc (resolveBody env (k + 1) root) s =
          .ok ((acc.1 ++ (flatG env root sels).map toR, sels.foldl (gSpreadStep env root) acc.2), s') ∧
        s'.publicNames = s.publicNames ∧ s'.marks = s.marks ∧ s'.unpacked = s.unpacked := by
  intro sels
  induction sels with
  | nil => intro acc s _; exact ⟨s, by simp [List.forIn_nil, flatG]; rfl, rfl, rfl, rfl⟩
  | cons x rest ih =>
    intro acc s h
    have hx := h x List.mem_cons_self
    have hr := fun y hy => h y (List.mem_cons_of_mem _ hy)
    rw [List.forIn_cons]
    cases x with
    | field alias name dirs sid sub =>
      obtain ⟨s', hrest, h1, h2, h3⟩ := ih (acc.1 ++ [⟨alias, name, dirs, sid, sub⟩], acc.2) s hr
      refine ⟨s', ?_, h1, h2, h3⟩
      refine run_bind (a := .yield (acc.1 ++ [⟨alias, name, dirs, sid, sub⟩], acc.2)) (s' := s) rfl ?_
      simp only []
      rw [hrest]
      simp [flatG, flat1, toR, gSpreadStep, List.append_assoc]
    | spread n d =>
      obtain ⟨_, hroot, _, f, hf, hon⟩ := aSel1_spread hx
      have hnu := (C01Mix.not_unpacked hfr hf).1
      rw [hon] at hnu
      obtain ⟨s', hrest, h1, h2, h3⟩ := ih (acc.1, setAdd acc.2 n) s hr
      refine ⟨s', ?_, h1, h2, h3⟩
      refine run_bind (a := .yield (acc.1, setAdd acc.2 n)) (s' := s) ?_ ?_
      · have h1' : (env.schema.get? root).isNone = false := by
          have := C01Mix.get_of_kind hroot; cases hg : env.schema.get? root <;> simp_all
        have h2' : (env.schema.get? f.on).isNone = false := by rw [hon]; exact h1'
        simp only [resolveBody, hf, h1', h2', hnu, Bool.false_eq_true, if_false, Bool.not_false, if_true]
        rfl
      · simp only []
        rw [hrest]
        simp [flatG, flat1, gSpreadStep]
    | inline on d sid ss =>
      cases on with
      | none => simp [aSel1] at hx
      | some c =>
        by_cases hi : incl env c root = true
        · obtain ⟨rt, hrt⟩ := Option.isSome_iff_exists.mp hi
          obtain ⟨_, hcont, hss⟩ := aSel1_inline hx hi
          have hssl := (aSels_iff env mk cn root rts ss).mp hss
          have hfs : ∀ y ∈ ss, isField y = true ∨ ∃ n d f, y = Selection.spread n d ∧ findFragment? env.frags n = some f ∧
              f.on = rt ∧ env.schema.kindOf? rt = some .object := by
            intro y hy
            rcases hcont y hy with h1 | ⟨h1, hc⟩
            · exact Or.inl (notTnField_isField h1)
            · right
              cases y with
              | field a n d' sid' sub => simp [isSpreadSel] at h1
              | inline on' d' sid' ss' => simp [isSpreadSel] at h1
              | spread n d' =>
                obtain ⟨_, hroot, _, f, hf, hon⟩ := aSel1_spread (hssl _ hy)
                subst hc
                have hrte := rootType_self hrt
                subst hrte
                exact ⟨n, d', f, rfl, hf, hon, hroot⟩
          obtain ⟨s', hrest, h1, h2, h3⟩ := ih (acc.1 ++ (ss.filter isField).map toR, setUnion acc.2 (C01Mix.spreadNames ss))
            { s with mixins := setUnion s.mixins (C01Mix.spreadNames ss) } hr
          refine ⟨s', ?_, h1, h2, h3⟩
          refine run_bind (a := .yield (acc.1 ++ (ss.filter isField).map toR, setUnion acc.2 (C01Mix.spreadNames ss)))
            (s' := { s with mixins := setUnion s.mixins (C01Mix.spreadNames ss) }) ?_ ?_
          · simp only [resolveBody, hrt]
            refine run_bind (resolve_fs env K hfr k rt ss s hfs) ?_
            simp [run_pure]
          · simp only []
            rw [hrest]
            simp [flatG, flat1, hi, gSpreadStep, List.append_assoc]
        · have hi' : inlineFragmentRootType env c root = none := by
            simpa [incl] using hi
          have hi'' : incl env c root = false := by simpa using hi
          obtain ⟨s', hrest, h1, h2, h3⟩ := ih (acc.1, acc.2) { s with dropped := s.dropped ++ [(c, root)] } hr
          refine ⟨s', ?_, h1, h2, h3⟩
          refine run_bind (a := .yield (acc.1, acc.2)) (s' := { s with dropped := s.dropped ++ [(c, root)] }) ?_ ?_
          · simp only [resolveBody, hi']
            refine run_bind (run_modify _ _) ?_
            rfl
          · simp only []
            rw [hrest]
            simp [flatG, flat1, hi'', gSpreadStep]

theorem resolve_abs (env : Env) (K : Nat) (hfr : C01Mix.FragsOK env K) (k : Nat) (root : String) {mk : Nat → Bool} {cn : String}
    {rts : List String} (sels : List Selection) (st : St) (h : ∀ x ∈ sels, aSel1 env mk cn root rts x = true) :
    ∃ st', resolve env (k + 2) sels root st = .ok (((flatG env root sels).map toR, gSpreads env root sels), st') ∧
      st'.publicNames = st.publicNames ∧ st'.marks = st.marks ∧ st'.unpacked = st.unpacked := by
  obtain ⟨s', hloop, h1, h2, h3⟩ := resolveLoop_abs env K hfr k root sels ([], []) st h
  refine ⟨{ s' with mixins := setUnion s'.mixins (gSpreads env root sels) }, ?_, h1, h2, h3⟩
  rw [resolve_succ]
  refine run_bind hloop ?_
  refine run_bind (run_modify _ _) ?_
  simp [run_pure, gSpreads]

theorem any_toR (fl : List Selection) (h : ∀ x ∈ fl, isField x = true) :
    (fl.map toR).any (·.name == typenameField) = fl.any isTnSel := by
  induction fl with
  | nil => rfl
  | cons x rest ih =>
    have hx := h x List.mem_cons_self
    simp only [List.map_cons, List.any_cons, ih (fun y hy => h y (List.mem_cons_of_mem _ hy))]
    congr 1
    cases x <;> simp [isField] at hx <;> rfl

/-! ### the induction -/

/-- what part (1) says about one call of `_parse_type_definition`, for fuel `f`; `B` = the marks of the document as it
    will be sent -/
def GenSpec (env : Env) (B : List Nat) (f : Nat) : Prop :=
  ∀ (cn tn : String) (rts : List String) (sid : Nat) (sel : List Selection) (a : Bool) (tv : List String) (st : St),
    agfuel sel ≤ f → aSels env B.contains cn tn rts sel = true →
    ((rflat a env tn sel).any isTnSel = true → tv.isEmpty = true → rootTnOK env tn = true) →
    B.contains sid = autoTn a sel →
    (∀ m ∈ st.marks, m ∈ B) →
    ((aClass env cn tn tv a sel).map (·.name)).Nodup →
    (∀ n ∈ (aClass env cn tn tv a sel).map (·.name), n ∉ st.publicNames) →
    ∃ st', parseTypeDefinition env f cn tn sid sel a [] tv st = .ok (aClass env cn tn tv a sel, st') ∧
      st'.publicNames = st.publicNames ++ (aClass env cn tn tv a sel).map (·.name) ∧
      (∀ m ∈ st'.marks, m ∈ B) ∧ (∀ m ∈ st.marks, m ∈ st'.marks) ∧
      (autoTn a sel = true → sid ∈ st'.marks) ∧ (∀ m ∈ needSids env cn tn sel, m ∈ st'.marks) ∧
      st'.unpacked = st.unpacked

/-- the variant classes of one composite position -/
def variantClasses (env : Env) (rel : List (String × String)) (abs : Bool) (sub : List Selection)
    (ps : List (String × String)) : List ClassDecl :=
  ps.flatMap fun p => aClass env p.1 p.2 (tvOf env rel p.2) abs sub

theorem aExtra1_field (env : Env) (cn tn : String) (alias : Option String) (name : String) (dirs : List Directive)
    (sid : Nat) (sub : List Selection) (h1 : sub.isEmpty = false) (h2 : (name == typenameField) = false) :
    aExtra1 env cn tn (.field alias name dirs sid sub) =
      variantClasses env (relatedOf env (subClass env cn alias name) (subType env tn name) sub)
        (env.schema.isAbstract (subType env tn name)) sub
        (relatedOf env (subClass env cn alias name) (subType env tn name) sub) := by
  simp [aExtra1, h1, h2, variantClasses, aClass]

theorem needSids1_field (env : Env) (cn tn : String) (alias : Option String) (name : String) (dirs : List Directive)
    (sid : Nat) (sub : List Selection) (h1 : sub.isEmpty = false) (h2 : (name == typenameField) = false) :
    needSids1 env cn tn (.field alias name dirs sid sub) =
      (if autoTn (env.schema.isAbstract (subType env tn name)) sub then [sid] else [])
      ++ (relatedOf env (subClass env cn alias name) (subType env tn name) sub).flatMap fun p => needSids env p.1 p.2 sub := by
  simp [needSids1, h1, h2]

theorem relatedLoop (env : Env) (B : List Nat) (f : Nat) (IH : GenSpec env B f) (sid : Nat) (sub : List Selection)
    (rel : List (String × String)) (abs : Bool) (rtsOf : String × String → List String)
    (hfu : agfuel sub ≤ f) (hB : B.contains sid = autoTn abs sub) :
    ∀ (ps : List (String × String)) (acc : List ClassDecl) (s : St),
      (∀ p ∈ ps, aSels env B.contains p.1 p.2 (rtsOf p) sub = true ∧
        ((rflat abs env p.2 sub).any isTnSel = true → (tvOf env rel p.2).isEmpty = true → rootTnOK env p.2 = true)) →
      ((variantClasses env rel abs sub ps).map (·.name)).Nodup →
      (∀ n ∈ (variantClasses env rel abs sub ps).map (·.name), n ∉ s.publicNames) →
      (∀ m ∈ s.marks, m ∈ B) →
      ∃ s', forIn ps acc (relatedBody env f sid sub { related := rel, abstract := abs } []) s =
          .ok (acc ++ variantClasses env rel abs sub ps, s') ∧
        s'.publicNames = s.publicNames ++ (variantClasses env rel abs sub ps).map (·.name) ∧
        (∀ m ∈ s'.marks, m ∈ B) ∧ (∀ m ∈ s.marks, m ∈ s'.marks) ∧
        (ps ≠ [] → autoTn abs sub = true → sid ∈ s'.marks) ∧
        (∀ p ∈ ps, ∀ m ∈ needSids env p.1 p.2 sub, m ∈ s'.marks) ∧ s'.unpacked = s.unpacked := by
  intro ps
  induction ps with
  | nil =>
    intro acc s _ _ _ hm
    exact ⟨s, by simp [variantClasses]; rfl, by simp [variantClasses], hm, fun m h => h, fun h => absurd rfl h,
      (fun p hp => by cases hp), rfl⟩
  | cons p rest ih =>
    intro acc s hps hnd hfresh hm
    simp only [variantClasses, List.flatMap_cons, List.map_append] at hnd hfresh
    obtain ⟨hnd1, hnd2, hdisj⟩ := List.nodup_append.mp hnd
    obtain ⟨hp1, hp2⟩ := hps p List.mem_cons_self
    obtain ⟨s1, hrun, hpn1, hB1, hmono1, hsid1, hneed1, hup1⟩ := IH p.1 p.2 (rtsOf p) sid sub abs (tvOf env rel p.2) s hfu hp1 hp2 hB hm
      hnd1 (fun n hn => hfresh n (List.mem_append_left _ hn))
    obtain ⟨s2, hrest, hpn2, hB2, hmono2, hsid2, hneed2, hup2⟩ := ih (acc ++ aClass env p.1 p.2 (tvOf env rel p.2) abs sub) s1
      (fun q hq => hps q (List.mem_cons_of_mem _ hq)) hnd2
      (fun n hn => by
        rw [hpn1]
        intro hmem
        rcases List.mem_append.mp hmem with h | h
        · exact hfresh n (List.mem_append_right _ hn) h
        · exact hdisj _ h _ hn rfl) hB1
    refine ⟨s2, ?_, ?_, hB2, fun m h => hmono2 m (hmono1 m h), ?_, ?_, by rw [hup2, hup1]⟩
    · rw [List.forIn_cons]
      refine run_bind (a := .yield (acc ++ aClass env p.1 p.2 (tvOf env rel p.2) abs sub)) (s' := s1) ?_ ?_
      · unfold relatedBody
        exact run_bind hrun rfl
      · simp only []
        rw [hrest]
        simp [variantClasses, List.append_assoc]
    · rw [hpn2, hpn1]; simp [variantClasses, List.append_assoc]
    · intro _ ha
      exact hmono2 _ (hsid1 ha)
    · intro q hq m hmq
      rcases List.mem_cons.mp hq with rfl | hq
      · exact hmono2 m (hneed1 m hmq)
      · exact hneed2 q hq m hmq

theorem aDecl_leaf_ann (env : Env) (T : TypeRef) (dirs : List Directive) :
    condAnn (annotateTop (wrapAnn (ResultLeaf.leafBase env T.base) true T)) dirs =
      condAnn (wrapAnn (ResultLeaf.leafBase env T.base) true T) dirs := by
  rw [annotateTop_wrapAnn _ (by rw [ResultLeaf.leafBase_eq]; exact Or.inl ⟨_, rfl⟩)]

theorem fieldBody_abs (env : Env) (B : List Nat) (f : Nat) (IH : GenSpec env B f) (cn tn : String) (rts tv : List String)
    (alias : Option String) (name : String) (dirs : List Directive) (sid : Nat) (sub : List Selection)
    (acc : FAcc) (s : St)
    (hl : aSel1 env B.contains cn tn rts (.field alias name dirs sid sub) = true)
    (htv : (name == typenameField) = true → tv.isEmpty = true → rootTnOK env tn = true)
    (hfuel : agfuel1 (.field alias name dirs sid sub) ≤ f + 2)
    (hnd : ((aExtra1 env cn tn (.field alias name dirs sid sub)).map (·.name)).Nodup)
    (hfresh : ∀ n ∈ (aExtra1 env cn tn (.field alias name dirs sid sub)).map (·.name), n ∉ s.publicNames)
    (hm : ∀ m ∈ s.marks, m ∈ B) :
    ∃ s', fieldBody env (f + 1) cn tn tv ⟨alias, name, dirs, sid, sub⟩ acc s =
        .ok (.yield (acc.1 ++ [aDecl env cn tn tv alias name dirs sub],
                     acc.2 ++ aExtra1 env cn tn (.field alias name dirs sid sub)), s') ∧
      s'.publicNames = s.publicNames ++ (aExtra1 env cn tn (.field alias name dirs sid sub)).map (·.name) ∧
      (∀ m ∈ s'.marks, m ∈ B) ∧ (∀ m ∈ s.marks, m ∈ s'.marks) ∧
      (∀ m ∈ needSids1 env cn tn (.field alias name dirs sid sub), m ∈ s'.marks) ∧ s'.unpacked = s.unpacked := by
  simp only [aSel1, Bool.and_eq_true] at hl
  obtain ⟨hmix, hcase⟩ := hl
  have hmix' : (dirs.any (·.name == Tables.mixinName)) = false := by simpa using hmix
  by_cases hname : (name == typenameField) = true
  · -- `__typename`
    rw [if_pos hname] at hcase
    simp only [Bool.and_eq_true, Option.isNone_iff_eq_none, Bool.not_eq_true'] at hcase
    obtain ⟨⟨halias, _⟩, hsub⟩ := hcase
    have hex : aExtra1 env cn tn (.field alias name dirs sid sub) = [] := by simp [aExtra1, hname]
    have hns : needSids1 env cn tn (.field alias name dirs sid sub) = [] := by simp [needSids1, hname]
    -- what `_get_field_from_schema` and `parse_operation_field` return, in both cases
    have hboth : ∃ t ann dflt ctx, fieldTypeFromSchema env tn name = .ok t ∧
        parseOperationField env (f + 1 + 1) name dirs sub t (subClass env cn alias name) tv = .ok (ann, dflt, ctx) ∧
        ({ py := pyFieldName env (alias.getD name), ann := ann,
           alias := if pyFieldName env (alias.getD name) != alias.getD name then some (alias.getD name) else none,
           discriminator := isUnionAnn ann, defaultNone := dflt } : FieldDecl) = aDecl env cn tn tv alias name dirs sub := by
      by_cases hte : tv.isEmpty = true
      · obtain ⟨hfo, hleaf, _⟩ := rootTnOK_spec (htv hname hte)
        have hne : name = typenameField := by simpa using hname
        subst hne
        obtain ⟨ctx, hpo⟩ := parseOperationField_leaf' env (f + 1 + 1) typenameField dirs sub tnT (subClass env cn alias typenameField) tv
          (by simp [hte]) hleaf
        refine ⟨tnT, _, _, ctx, fieldTypeFromSchema_root env tn hfo, hpo, ?_⟩
        simp only [aDecl, beq_self_eq_true, hte, Bool.not_true, Bool.and_false, Bool.false_eq_true, if_false, if_true, hsub,
          aDecl_leaf_ann]
      · have hte' : tv.isEmpty = false := by simpa using hte
        obtain ⟨t, hT⟩ := fieldTypeFromSchema_tn env tn name hname
        obtain ⟨ctx, hpo⟩ := parseOperationField_tn env (f + 1 + 1) name dirs sub t (subClass env cn alias name) tv hname hte'
        refine ⟨t, _, _, ctx, hT, hpo, ?_⟩
        simp only [aDecl, hname, hte', Bool.not_false, Bool.and_self, if_true, isUnionAnn]
    obtain ⟨t, ann, dflt, ctx, hT, hpo, hdecl⟩ := hboth
    refine ⟨bump s ctx, ?_, ?_, hm, fun m h => h, ?_, rfl⟩
    · unfold fieldBody
      refine run_bind (a := t) (s' := s) (by show ResultTypes.liftExcept (fieldTypeFromSchema env tn name) s = _; rw [hT]; rfl) ?_
      refine run_bind (s' := s) (by
        show ResultTypes.liftExcept (parseOperationField env (f + 1 + 1) name dirs sub t (subClass env cn alias name) tv) s = _
        rw [hpo]; rfl) ?_
      refine run_bind (mixinBases_none dirs s hmix') ?_
      refine run_bind (a := []) (s' := s) (by
        show parseFieldSelectionSetTypes env (f + 1) sid sub ctx [] s = _
        rw [parseFieldSelectionSetTypes_succ, if_pos hsub]; rfl) ?_
      refine run_bind (run_modify _ _) ?_
      rw [run_pure, hex, ← hdecl]
      rfl
    · rw [hex]; simp [bump]
    · rw [hns]; intro m h; cases h
  · have hname' : (name == typenameField) = false := by simpa using hname
    have hnameP : (name != typenameField) = true := by simp [bne, hname']
    rw [if_neg hname] at hcase
    simp only [Bool.and_eq_true] at hcase
    obtain ⟨⟨hfd, _⟩, hcase⟩ := hcase
    have hT := fieldTypeFromSchema_some env tn name hfd
    by_cases hsub : sub.isEmpty = true
    · -- leaf
      rw [if_pos hsub] at hcase
      obtain ⟨ctx, hpo⟩ := parseOperationField_leaf env (f + 1 + 1) name dirs sub (fieldT env tn name)
        (subClass env cn alias name) tv hnameP hcase
      have hex : aExtra1 env cn tn (.field alias name dirs sid sub) = [] := by simp [aExtra1, hsub]
      have hns : needSids1 env cn tn (.field alias name dirs sid sub) = [] := by simp [needSids1, hsub]
      refine ⟨bump s ctx, ?_, ?_, hm, fun m h => h, ?_, rfl⟩
      · unfold fieldBody
        refine run_bind (a := fieldT env tn name) (s' := s) (by show ResultTypes.liftExcept (fieldTypeFromSchema env tn name) s = _; rw [hT]; rfl) ?_
        refine run_bind (s' := s) (by
          show ResultTypes.liftExcept (parseOperationField env (f + 1 + 1) name dirs sub (fieldT env tn name) (subClass env cn alias name) tv) s = _
          rw [hpo]; rfl) ?_
        refine run_bind (mixinBases_none dirs s hmix') ?_
        refine run_bind (a := []) (s' := s) (by
          show parseFieldSelectionSetTypes env (f + 1) sid sub ctx [] s = _
          rw [parseFieldSelectionSetTypes_succ, if_pos hsub]; rfl) ?_
        refine run_bind (run_modify _ _) ?_
        rw [run_pure, hex]
        simp only [aDecl, hname', hsub, if_true, RField.key, List.append_nil, Bool.false_and, Bool.false_eq_true, if_false, aDecl_leaf_ann]
        rfl
      · rw [hex]; simp [bump]
      · rw [hns]; intro m h; cases h
    · -- composite
      have hsub' : sub.isEmpty = false := by simpa using hsub
      rw [if_neg hsub] at hcase
      simp only [Bool.and_eq_true, List.all_eq_true, beq_iff_eq] at hcase
      obtain ⟨⟨⟨⟨hkind, hmk⟩, hne⟩, _⟩, hvars⟩ := hcase
      have hfu : agfuel sub ≤ f := by simp only [agfuel1, hsub', Bool.false_eq_true, if_false] at hfuel; omega
      have hvars' : ∀ p ∈ relatedOf env (subClass env cn alias name) (subType env tn name) sub,
          aSels env B.contains p.1 p.2
            ((Exec.runtimeTypes env.schema (subType env tn name)).filter
              (tvOf env (relatedOf env (subClass env cn alias name) (subType env tn name) sub) p.2).contains) sub = true ∧
          ((rflat (env.schema.isAbstract (subType env tn name)) env p.2 sub).any isTnSel = true →
            (tvOf env (relatedOf env (subClass env cn alias name) (subType env tn name) sub) p.2).isEmpty = true →
            rootTnOK env p.2 = true) := by
        intro p hp
        have := hvars p hp
        simp only [Bool.and_eq_true, Bool.not_eq_true'] at this
        exact ⟨this.2, fun _ hte => by rw [this.1.1] at hte; cases hte⟩
      -- at an interface position the sub-selection has no spreads: the interface itself is a variant
      have hshape : env.schema.kindOf? (fieldT env tn name).base = some .interface → ∀ x ∈ sub, shapeOK x = true := by
        intro hki
        have hki' : env.schema.kindOf? (subType env tn name) = some .interface := hki
        have hp : ∃ p ∈ relatedOf env (subClass env cn alias name) (subType env tn name) sub, p.2 = subType env tn name := by
          unfold relatedOf
          rw [hki']
          by_cases he : (inlConds sub).isEmpty = true
          · simp only [he, if_true]
            exact ⟨(_, _), List.mem_singleton.mpr rfl, rfl⟩
          · simp only [he]
            exact ⟨(_, _), List.mem_cons_self, rfl⟩
        obtain ⟨p, hp, hp2⟩ := hp
        have := (hvars' p hp).1
        intro x hx
        exact aSel1_shape (by rw [hp2, hki']; simp) ((aSels_iff _ _ _ _ _ _).mp this x hx)
      have hpo := parseOperationField_comp env (f + 1) name dirs sub (fieldT env tn name) hshape
        (subClass env cn alias name) tv hname' hkind
      rw [aExtra1_field _ _ _ _ _ _ _ _ hsub' hname'] at hnd hfresh ⊢
      rw [needSids1_field _ _ _ _ _ _ _ _ hsub' hname']
      obtain ⟨s1, hloop, hpn, hB1, hmono, hsid, hneed, hup⟩ := relatedLoop env B f IH sid sub
        (relatedOf env (subClass env cn alias name) (subType env tn name) sub)
        (env.schema.isAbstract (subType env tn name))
        (fun p => (Exec.runtimeTypes env.schema (subType env tn name)).filter
              (tvOf env (relatedOf env (subClass env cn alias name) (subType env tn name) sub) p.2).contains)
        hfu hmk
        (relatedOf env (subClass env cn alias name) (subType env tn name) sub) [] s hvars' hnd hfresh hm
      refine ⟨bump s1 { related := relatedOf env (subClass env cn alias name) (subType env tn name) sub,
                        abstract := env.schema.isAbstract (subType env tn name) }, ?_, hpn, hB1, hmono, ?_, hup⟩
      · unfold fieldBody
        refine run_bind (a := fieldT env tn name) (s' := s) (by show ResultTypes.liftExcept (fieldTypeFromSchema env tn name) s = _; rw [hT]; rfl) ?_
        refine run_bind (s' := s) (by
          show ResultTypes.liftExcept (parseOperationField env (f + 1 + 1) name dirs sub (fieldT env tn name) (subClass env cn alias name) tv) s = _
          rw [hpo]; rfl) ?_
        refine run_bind (mixinBases_none dirs s hmix') ?_
        refine run_bind (s' := s1) (by
          show parseFieldSelectionSetTypes env (f + 1) sid sub _ [] s = _
          rw [parseFieldSelectionSetTypes_succ, if_neg hsub]
          exact run_bind hloop rfl) ?_
        refine run_bind (run_modify _ _) ?_
        rw [run_pure]
        simp only [aDecl, hname', hsub', RField.key, Bool.false_and, Bool.false_eq_true, if_false, List.nil_append]
        rfl
      · intro m hm'
        rcases List.mem_append.mp hm' with h | h
        · split at h
          · rename_i ha
            have : m = sid := by simpa using h
            subst this
            refine hsid ?_ ha
            intro e; simp [e] at hne
          · cases h
        · obtain ⟨p, hp, hmp⟩ := List.mem_flatMap.mp h
          exact hneed p hp m hmp

theorem aSel1_tn (env : Env) (mk : Nat → Bool) (cn tn : String) (rts : List String) :
    aSel1 env mk cn tn rts Marks.typenameSel = true := by
  simp [Marks.typenameSel, aSel1, hasConditionalDirective]

theorem fieldLoop_abs (env : Env) (B : List Nat) (f : Nat) (IH : GenSpec env B f) (cn tn : String) (rts tv : List String) :
    ∀ (fl : List Selection) (acc : FAcc) (s : St),
      (∀ x ∈ fl, isField x = true ∧ aSel1 env B.contains cn tn rts x = true) →
      (fl.any isTnSel = true → tv.isEmpty = true → rootTnOK env tn = true) →
      (∀ x ∈ fl, agfuel1 x ≤ f + 2) →
      ((fl.flatMap (aExtra1 env cn tn)).map (·.name)).Nodup →
      (∀ n ∈ (fl.flatMap (aExtra1 env cn tn)).map (·.name), n ∉ s.publicNames) →
      (∀ m ∈ s.marks, m ∈ B) →
      ∃ s', forIn (fl.map toR) acc (fieldBody env (f + 1) cn tn tv) s =
          .ok ((acc.1 ++ fl.flatMap (aDecl1 env cn tn tv), acc.2 ++ fl.flatMap (aExtra1 env cn tn)), s') ∧
        s'.publicNames = s.publicNames ++ (fl.flatMap (aExtra1 env cn tn)).map (·.name) ∧
        (∀ m ∈ s'.marks, m ∈ B) ∧ (∀ m ∈ s.marks, m ∈ s'.marks) ∧
        (∀ m ∈ fl.flatMap (needSids1 env cn tn), m ∈ s'.marks) ∧ s'.unpacked = s.unpacked := by
  intro fl
  induction fl with
  | nil =>
    intro acc s _ _ _ _ _ hm
    exact ⟨s, by simp; rfl, by simp, hm, fun m h => h, fun m h => by simp at h, rfl⟩
  | cons x rest ih =>
    intro acc s hloc htv hfu hnd hfresh hm
    obtain ⟨hxf, hx⟩ := hloc x List.mem_cons_self
    cases x with
    | spread n d => simp [isField] at hxf
    | inline on d sid sub => simp [isField] at hxf
    | field alias name dirs sid sub =>
      simp only [List.flatMap_cons, List.map_append] at hnd hfresh
      obtain ⟨hnd1, hnd2, hdisj⟩ := List.nodup_append.mp hnd
      obtain ⟨s1, hstep, hpn1, hB1, hmono1, hneed1, hup1⟩ := fieldBody_abs env B f IH cn tn rts tv alias name dirs sid sub acc s hx
        (fun hn => htv (by simp [isTnSel, hn])) (hfu _ List.mem_cons_self) hnd1
        (fun n hn => hfresh n (List.mem_append_left _ hn)) hm
      obtain ⟨s2, hrest, hpn2, hB2, hmono2, hneed2, hup2⟩ := ih
        (acc.1 ++ [aDecl env cn tn tv alias name dirs sub], acc.2 ++ aExtra1 env cn tn (.field alias name dirs sid sub)) s1
        (fun y hy => hloc y (List.mem_cons_of_mem _ hy))
        (fun h => htv (by simp [h]))
        (fun y hy => hfu y (List.mem_cons_of_mem _ hy)) hnd2
        (fun n hn => by
          rw [hpn1]
          intro hmem
          rcases List.mem_append.mp hmem with h | h
          · exact hfresh n (List.mem_append_right _ hn) h
          · exact hdisj _ h _ hn rfl) hB1
      refine ⟨s2, ?_, ?_, hB2, fun m h => hmono2 m (hmono1 m h), ?_, by rw [hup2, hup1]⟩
      · simp only [List.map_cons, toR]
        rw [List.forIn_cons]
        refine run_bind hstep ?_
        simp only []
        rw [hrest]
        simp [aDecl1, List.append_assoc]
      · rw [hpn2, hpn1]; simp [List.append_assoc]
      · intro m hmm
        simp only [List.flatMap_cons] at hmm
        rcases List.mem_append.mp hmm with h | h
        · exact hmono2 m (hneed1 m h)
        · exact hneed2 m h

theorem rflat_spec {env : Env} {mk : Nat → Bool} {cn tn : String} {rts : List String} {sel : List Selection} (a : Bool)
    (h : aSels env mk cn tn rts sel = true) :
    ∀ x ∈ rflat a env tn sel, isField x = true ∧ aSel1 env mk cn tn rts x = true := by
  intro x hx
  unfold rflat at hx
  rcases List.mem_append.mp hx with h1 | h1
  · split at h1
    · have : x = Marks.typenameSel := by simpa using h1
      subst this
      exact ⟨rfl, aSel1_tn env mk cn tn rts⟩
    · cases h1
  · exact aSels_flat h x h1

theorem agfuel_rflat (a : Bool) (env : Env) (tn : String) (sel : List Selection) (x : Selection)
    (h : x ∈ rflat a env tn sel) : agfuel1 x ≤ agfuel sel := by
  unfold rflat at h
  rcases List.mem_append.mp h with h1 | h1
  · split at h1
    · have : x = Marks.typenameSel := by simpa using h1
      subst this
      simp [Marks.typenameSel, agfuel1]
    · cases h1
  · exact agfuel_flat env tn sel x h1

theorem toR_tn : toR Marks.typenameSel = typenameRField := rfl

/-- **part (1), all fuels** -/
theorem gen_spec (env : Env) (K : Nat) (hfr : C01Mix.FragsOK env K) (B : List Nat) : ∀ f : Nat, GenSpec env B f
  | 0 => by
    intro cn tn rts sid sel a tv st hfu; have := agfuel_ge sel; omega
  | 1 => by
    intro cn tn rts sid sel a tv st hfu; have := agfuel_ge sel; omega
  | f + 2 => by
    intro cn tn rts sid sel a tv st hfu hloc htv hB hm hnd hfresh
    have IH := gen_spec env K hfr B f
    have hlocs := (aSels_iff env B.contains cn tn rts sel).mp hloc
    have hcont := aSels_contentOK hloc
    simp only [aClass, List.map_cons, List.nodup_cons] at hnd
    have hcn : st.publicNames.contains cn = false := by
      have := hfresh cn (by simp [aClass])
      simpa using this
    obtain ⟨st1, hres, hpn1, hmk1, hup1⟩ := resolve_abs env K hfr f tn sel { st with publicNames := st.publicNames ++ [cn] } hlocs
    have hfl := rflat_spec a hloc
    have hflat := aSels_flat hloc
    have hany : ((flatG env tn sel).map toR).any (·.name == typenameField) = explicitTn sel := by
      rw [any_toR _ (fun x hx => (hflat x hx).1), flatG_explicit hloc]
    -- the state right before the field loop, and the field nodes
    have key : ∀ (s : St), s.publicNames = st.publicNames ++ [cn] → (∀ m ∈ s.marks, m ∈ B) → (∀ m ∈ st.marks, m ∈ s.marks) →
        (autoTn a sel = true → sid ∈ s.marks) →
        ∃ s', classTail env (f + 1) cn tn tv [] (gSpreads env tn sel) ((rflat a env tn sel).map toR) s = .ok (aClass env cn tn tv a sel, s') ∧
          s'.publicNames = st.publicNames ++ (aClass env cn tn tv a sel).map (·.name) ∧
          (∀ m ∈ s'.marks, m ∈ B) ∧ (∀ m ∈ st.marks, m ∈ s'.marks) ∧
          (autoTn a sel = true → sid ∈ s'.marks) ∧ (∀ m ∈ needSids env cn tn sel, m ∈ s'.marks) ∧ s'.unpacked = s.unpacked := by
      intro s hspn hsB hsmono hssid
      obtain ⟨s', hloop, hpn, hB', hmono', hneed', hup'⟩ := fieldLoop_abs env B f IH cn tn rts tv (rflat a env tn sel) ([], []) s hfl htv
        (fun x hx => Nat.le_trans (agfuel_rflat a env tn sel x hx) hfu)
        (by rw [rflat_extra _ _ _ _ _ hcont]; exact hnd.2)
        (fun n hn => by
          rw [rflat_extra _ _ _ _ _ hcont] at hn
          rw [hspn]
          intro hmem
          rcases List.mem_append.mp hmem with h | h
          · exact hfresh n (by simp only [aClass, List.map_cons]; exact List.mem_cons_of_mem _ hn) h
          · have : n = cn := by simpa using h
            exact hnd.1 (this ▸ hn)) hsB
      refine ⟨s', ?_, ?_, hB', fun m h => hmono' m (hsmono m h), fun h => hmono' _ (hssid h), ?_, hup'⟩
      · unfold classTail
        refine run_bind hloop ?_
        simp [run_pure, aClass, aBases, rflat_extra _ _ _ _ _ hcont]
      · rw [hpn, hspn, rflat_extra _ _ _ _ _ hcont]; simp [aClass, List.append_assoc]
      · rw [rflat_need _ _ _ _ _ hcont] at hneed'; exact hneed'
    rw [parseTypeDefinition_succ]
    by_cases hauto : autoTn a sel = true
    · -- the automatic `__typename` is (or already was) inserted
      have hsidB : sid ∈ B := by simpa [hauto] using hB
      have hrf : rflat a env tn sel = Marks.typenameSel :: flatG env tn sel := by simp [rflat, hauto]
      have hexp : explicitTn sel = false := by
        simp only [autoTn, Bool.and_eq_true, Bool.not_eq_true'] at hauto; exact hauto.2
      have ha : a = true := by simp only [autoTn, Bool.and_eq_true] at hauto; exact hauto.1
      subst ha
      by_cases hmarked : st1.marks.contains sid = true
      · obtain ⟨s', hct, h1, h2, h3, h4, h5, h6⟩ := key st1 hpn1 (by rw [hmk1]; exact hm) (by rw [hmk1]; exact fun m h => h)
          (fun _ => by simpa using hmarked)
        refine ⟨s', ?_, h1, h2, h3, h4, h5, by rw [h6, hup1]⟩
        refine run_bind (run_get st) ?_
        simp only [hcn, Bool.false_eq_true, if_false]
        refine run_bind (run_modify _ _) ?_
        refine run_bind hres ?_
        refine run_bind (run_get _) ?_
        simp only [hmarked, if_true, List.any_cons, typenameRField, beq_self_eq_true, Bool.true_or, Bool.not_true,
          Bool.and_false, Bool.false_eq_true, if_false]
        rw [hrf, List.map_cons, toR_tn] at hct
        exact hct
      · have hmarked' : st1.marks.contains sid = false := by simpa using hmarked
        obtain ⟨s', hct, h1, h2, h3, h4, h5, h6⟩ := key { st1 with marks := st1.marks ++ [sid] } hpn1
          (by
            intro m hmm
            rcases List.mem_append.mp hmm with h | h
            · exact hm m (hmk1 ▸ h)
            · have : m = sid := by simpa using h
              exact this ▸ hsidB)
          (by intro m h; exact List.mem_append_left _ (hmk1 ▸ h))
          (fun _ => by simp)
        refine ⟨s', ?_, h1, h2, h3, h4, h5, by rw [h6]; exact hup1⟩
        refine run_bind (run_get st) ?_
        simp only [hcn, Bool.false_eq_true, if_false]
        refine run_bind (run_modify _ _) ?_
        refine run_bind hres ?_
        refine run_bind (run_get _) ?_
        simp only [hmarked', Bool.false_eq_true, if_false, hany, hexp, Bool.not_false, Bool.and_self, if_true]
        refine run_bind (run_modify _ _) ?_
        simp only [hmarked', Bool.false_eq_true, if_false]
        rw [hrf, List.map_cons, toR_tn] at hct
        exact hct
    · have hauto' : autoTn a sel = false := by simpa using hauto
      have hsidB : B.contains sid = false := by rw [hB, hauto']
      have hmarked' : st1.marks.contains sid = false := by
        cases hc : st1.marks.contains sid with
        | false => rfl
        | true =>
          have h1 : sid ∈ st1.marks := by simpa using hc
          have h2 : sid ∈ B := hm sid (hmk1 ▸ h1)
          have h3 : B.contains sid = true := by simpa using h2
          rw [hsidB] at h3; cases h3
      have hrf : rflat a env tn sel = flatG env tn sel := by simp [rflat, hauto']
      obtain ⟨s', hct, h1, h2, h3, h4, h5, h6⟩ := key st1 hpn1 (by rw [hmk1]; exact hm) (by rw [hmk1]; exact fun m h => h)
        (fun h => by rw [hauto'] at h; cases h)
      refine ⟨s', ?_, h1, h2, h3, h4, h5, by rw [h6, hup1]⟩
      refine run_bind (run_get st) ?_
      simp only [hcn, Bool.false_eq_true, if_false]
      refine run_bind (run_modify _ _) ?_
      refine run_bind hres ?_
      refine run_bind (run_get _) ?_
      have hcond : (a && !explicitTn sel) = false := hauto'
      simp only [hmarked', Bool.false_eq_true, if_false, hany, hcond]
      rw [hrf] at hct
      exact hct

end Ariadne.C01Abs
