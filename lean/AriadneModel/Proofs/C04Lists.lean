/-
  Proofs/C04Lists.lean — list facts used by the theorems of C04: Python's `sorted(xs)` keeps the length,
  `sorted(set(xs))` equals `sorted(xs)` exactly when `xs` has no duplicate, `hasDup` decides `¬ Nodup`.
-/
import AriadneModel.Model.Package
import AriadneModel.Proofs.OpText

set_option linter.unusedSimpArgs false
set_option linter.unusedVariables false

namespace Ariadne.C04Proofs
open Ariadne Ariadne.Util Ariadne.Package Ariadne.OpTextProofs

theorem length_insertSorted (x : String) (l : List String) : (insertSorted x l).length = l.length + 1 := by
  induction l with
  | nil => simp [insertSorted]
  | cons a l ih =>
    simp only [insertSorted]
    split
    · simp
    · simp [ih]

theorem length_sortStr (l : List String) : (sortStr l).length = l.length := by
  induction l with
  | nil => simp [sortStr]
  | cons a l ih =>
    have : sortStr (a :: l) = insertSorted a (sortStr l) := rfl
    rw [this, length_insertSorted, ih]
    simp

theorem filter_ne_of_not_mem (x : String) (l : List String) (h : x ∉ l) : l.filter (· != x) = l := by
  induction l with
  | nil => rfl
  | cons a l ih =>
    have hax : a ≠ x := fun e => h (by simp [e])
    have hl : x ∉ l := fun hm => h (by simp [hm])
    simp [List.filter_cons, hax, ih hl]

theorem dedup_of_nodup (l : List String) (h : l.Nodup) : dedup l = l := by
  induction l with
  | nil => rfl
  | cons a l ih =>
    have hn := List.nodup_cons.mp h
    simp only [dedup, ih hn.2]
    rw [filter_ne_of_not_mem a l hn.1]

theorem length_dedup_le (l : List String) : (dedup l).length ≤ l.length := by
  induction l with
  | nil => simp [dedup]
  | cons a l ih =>
    simp only [dedup, List.length_cons]
    have := List.length_filter_le (· != a) (dedup l)
    omega

theorem length_filter_ne_lt (x : String) (l : List String) (h : x ∈ l) : (l.filter (· != x)).length < l.length := by
  induction l with
  | nil => cases h
  | cons a l ih =>
    by_cases hax : a = x
    · subst hax
      have := List.length_filter_le (· != a) l
      simp [List.filter_cons]
      omega
    · have hl : x ∈ l := by
        rcases List.mem_cons.mp h with e | e
        · exact absurd e.symm hax
        · exact e
      have := ih hl
      simp [List.filter_cons, hax]
      omega

theorem length_dedup_lt (l : List String) (h : ¬ l.Nodup) : (dedup l).length < l.length := by
  induction l with
  | nil => exact absurd List.nodup_nil h
  | cons a l ih =>
    simp only [dedup, List.length_cons]
    by_cases ha : a ∈ l
    · have h1 := length_filter_ne_lt a (dedup l) ((mem_dedup a l).mpr ha)
      have h2 := length_dedup_le l
      omega
    · have hl : ¬ l.Nodup := fun hn => h (List.nodup_cons.mpr ⟨ha, hn⟩)
      have h1 := ih hl
      have h2 := List.length_filter_le (· != a) (dedup l)
      omega

/-- `sorted(set(xs)) == sorted(xs)` exactly when `xs` lists nothing twice -/
theorem sortedSet_eq_sortStr_iff (l : List String) : sortedSet l = sortStr l ↔ l.Nodup := by
  constructor
  · intro h
    by_contra hn
    have h1 := length_dedup_lt l hn
    have h2 : (sortedSet l).length = (sortStr l).length := by rw [h]
    unfold sortedSet at h2
    rw [length_sortStr, length_sortStr] at h2
    omega
  · intro h
    unfold sortedSet
    rw [dedup_of_nodup l h]

theorem hasDup_eq_true_iff (l : List String) : hasDup l = true ↔ ¬ l.Nodup := by
  induction l with
  | nil => simp [hasDup]
  | cons a l ih =>
    simp only [hasDup, Bool.or_eq_true, ih, List.nodup_cons, List.contains_iff_mem]
    constructor
    · rintro (h | h)
      · exact fun hn => hn.1 h
      · exact fun hn => h hn.2
    · intro h
      by_cases ha : a ∈ l
      · exact Or.inl ha
      · exact Or.inr (fun hn => h ⟨ha, hn⟩)

theorem hasDup_eq_false_iff (l : List String) : hasDup l = false ↔ l.Nodup := by
  cases h : hasDup l with
  | true => simp [(hasDup_eq_true_iff l).mp h]
  | false =>
    simp only [true_iff]
    by_contra hn
    have := (hasDup_eq_true_iff l).mpr hn
    rw [h] at this
    cases this

/-- `sorted(xs)` is a rearrangement: the same members -/
theorem mem_sortedSet (y : String) (l : List String) : y ∈ sortedSet l ↔ y ∈ l := by
  unfold sortedSet
  rw [mem_sortStr, mem_dedup]

end Ariadne.C04Proofs
