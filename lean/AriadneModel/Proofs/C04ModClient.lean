/-
  Proofs/C04ModClient.lean — `client.py`: every result class / input / enum / scalar a method mentions is imported, every
  import resolves; and how an import of an operation module resolves (used by `__init__` as well).
-/
import AriadneModel.Proofs.C04ModInputs3
import AriadneModel.Proofs.C04Args
import AriadneModel.Proofs.C04Result

set_option linter.unusedSimpArgs false
set_option linter.unusedVariables false

namespace Ariadne.C04Proofs
open Ariadne Ariadne.Gql Ariadne.Util Ariadne.Package Ariadne.PackageTriggers Ariadne.PackageValid Ariadne.Spec.PyScope
open Ariadne.ResultTypes (pascal)

/-! ### the module name of an operation is not empty -/

theorem methodName_ne_empty {n : String} (hg : Names.GName n.toList) : methodName n ≠ "" := by
  unfold methodName
  have hne : Names.pyName true .operation n.toList ≠ [] := by
    show Names.processName Names.operationCfg n.toList ≠ []
    unfold Names.processName Names.processNameH
    simp only [Names.operationCfg, if_true, Bool.false_eq_true, if_false, Names.suffixRes, false_and, id]
    have hsk : ∀ p : Names.Name, p ≠ [] → Names.suffixKw p ≠ [] := by
      intro p hp
      unfold Names.suffixKw
      split
      · simp
      · exact hp
    split
    · exact Names.fallback_ne_nil
    · rename_i hc
      cases hau : Names.allUnderscore n.toList with
      | true =>
        simp only [hau, Bool.true_and] at hc
        intro he
        rw [he] at hc
        simp at hc
      | false =>
        apply hsk
        intro hsn
        have halnum := (Names.snake_eq_nil_iff n.toList).mp hsn
        -- a GraphQL name that is not all underscores has a letter or digit
        cases hl : n.toList with
        | nil => rw [hl] at hg; exact hg
        | cons c cs =>
          rw [hl] at hg hau halnum
          obtain ⟨h1, h2⟩ := hg
          have hall : (c :: cs).all (· == '_') = true := by
            refine List.all_eq_true.mpr ?_
            intro d hd
            have hw : Names.isWordChar d = true := by
              rcases List.mem_cons.mp hd with rfl | hd
              · rcases h1 with h | h | h
                · simp [Names.isWordChar, h]
                · simp [Names.isWordChar, h]
                · simp [Names.isWordChar, h]
              · exact h2 d hd
            have hO : Names.cls d = .O := by
              cases hcd : Names.cls d with
              | O => rfl
              | U => have : d ∈ Names.alnum (c :: cs) := List.mem_filter.mpr ⟨hd, by simp [hcd]⟩
                     rw [halnum] at this; cases this
              | L => have : d ∈ Names.alnum (c :: cs) := List.mem_filter.mpr ⟨hd, by simp [hcd]⟩
                     rw [halnum] at this; cases this
              | D => have : d ∈ Names.alnum (c :: cs) := List.mem_filter.mpr ⟨hd, by simp [hcd]⟩
                     rw [halnum] at this; cases this
            simpa [Names.isWordChar, hO] using hw
          simp [Names.allUnderscore, hall] at hau
  intro he
  apply hne
  have : (String.ofList (Names.pyName true .operation n.toList)).toList = "".toList := by rw [he]
  simpa using this

/-! ### importing from an operation module -/

section
variable {cfg : Config} {inp : Input} {p : PackageIR} {st : St} {io : InputsOut}
  {fx : Option (Fragments.FragmentsOut × List Fragments.DefGen)}

/-- outside the trigger `operationModuleOverwritten`, names an operation's generator made public can be imported from the
    operation's module -/
theorem op_import_resolves (F : Facts cfg inp p st io fx) (htr : trigOperationModuleOverwritten cfg inp = false)
    {g : Fragments.DefGen} (hg : g ∈ st.outs) {names : List String} (hne : names ≠ [])
    (hsub : ∀ n ∈ names, n ∈ g.out.st.publicNames) : Resolves p (normImport ⟨1, methodName g.name, names⟩) := by
  have I := opsInv_of F.ops
  have hpub : g.out.st.publicNames ≠ [] := by
    intro he
    cases names with
    | nil => exact hne rfl
    | cons a rest => have := hsub a List.mem_cons_self; rw [he] at this; cases this
  have hi := I.initHas g hg hpub
  unfold trigOperationModuleOverwritten at htr
  rw [F.ops] at htr
  simp only at htr
  have h1 := of_any_false htr hi
  simp only at h1
  cases hf : st.files.find? (·.1 == pyFile (methodName g.name)) with
  | none => rw [hf] at h1; simp at h1
  | some fm =>
    rw [hf] at h1
    simp only [Bool.not_eq_false'] at h1
    have hfm := List.mem_of_find?_eq_some hf
    have hkey : fm.1 = pyFile (methodName g.name) := by simpa using List.find?_some hf
    obtain ⟨g', _, _, hmod⟩ := I.files fm hfm
    rw [normImport_noDot _ _ _ (methodName_head g.name)]
    refine F.resolves (result_mem_written hfm) rfl (by rw [hmod]; exact hkey) ?_
    intro ns hns
    have hgen : generated fm.2 = true := by rw [hmod]; rfl
    rw [exported_generated hgen] at hns
    simp only [Option.some.injEq] at hns
    subst hns
    intro n hn
    have := List.all_eq_true.mp h1 n (hsub n hn)
    exact className_mem_defines (by simpa using this)

end

/-! ### the module -/

def iTyping : Import := ⟨0, "typing", ["Optional", "List", "Dict", "Any", "Union", "AsyncIterator"]⟩
def iBaseClient (cfg : Config) : Import := ⟨1, stem cfg.baseClientFile, [cfg.baseClientName]⟩
def iUnset : Import := ⟨1, "base_model", [Tables.unsetName, "UnsetType"]⟩
def iUpload : Import := ⟨1, "base_model", [Tables.uploadClassName]⟩

/-- **client.py**: imports resolve, the class statement and every method signature find their names — for every input in
    `Valid`, outside the trigger `operationModuleOverwritten` -/
theorem client_residual {cfg : Config} {inp : Input} {p : PackageIR} {st : St} {io : InputsOut}
    {fx : Option (Fragments.FragmentsOut × List Fragments.DefGen)} (F : Facts cfg inp p st io fx)
    (hc : cfgOK cfg = true) (hdm : defsMatch inp = true) (hn : namesOK inp = true)
    (htr : trigOperationModuleOverwritten cfg inp = false) :
    residualParts p (clientModule cfg inp.schema st.entries st.argSt) = true := by
  have C := cfgFacts hc
  have I := opsInv_of F.ops
  have K := argSt_kinded F.ops
  have E := entries_ok F.ops
  -- the names of the lists
  let base : List Import :=
    [⟨0, "typing", ["Optional", "List", "Dict", "Any", "Union", "AsyncIterator"]⟩,
     ⟨1, stem cfg.baseClientFile, [cfg.baseClientName]⟩,
     ⟨1, "base_model", [Tables.unsetName, "UnsetType"]⟩,
     ⟨1, "base_model", [Tables.uploadClassName]⟩]
  let perOp := st.entries.map fun e => (⟨1, e.module, [e.method.returnType]⟩ : Import)
  let custom := if cfg.customOps then customClientImports inp.schema.query.isSome inp.schema.mutation.isSome else []
  let late : List Import :=
    [⟨1, cfg.inputsModule, st.argSt.usedInputs⟩, ⟨1, cfg.enumsModule, st.argSt.usedEnums⟩] ++ scalarImportsOf cfg st.argSt.usedScalars
  have himports : (clientModule cfg inp.schema st.entries st.argSt).imports =
      (base ++ perOp ++ custom ++ late).filter fun i => !i.names.isEmpty && i.module != "" := rfl
  -- an import of the unfiltered list with a name and a non-empty module survives the filter
  have hkeep : ∀ i ∈ base ++ perOp ++ custom ++ late, i.names ≠ [] → i.module ≠ "" →
      i ∈ (clientModule cfg inp.schema st.entries st.argSt).imports := by
    intro i hi h1 h2
    rw [himports]
    refine List.mem_filter.mpr ⟨hi, ?_⟩
    have : i.names.isEmpty = false := by cases hl : i.names with | nil => exact absurd hl h1 | cons _ _ => rfl
    simp [this, h2]
  -- the operation behind an entry
  have hentry : ∀ e ∈ st.entries, ∃ g ∈ st.outs, e.module = methodName g.name ∧ e.method.returnType = pascal g.name ∧
      pascal g.name ∈ g.out.st.publicNames ∧ e.module ≠ "" := by
    intro e he
    obtain ⟨g, hg, h1, h2⟩ := I.entries e he
    obtain ⟨o, ho, marks, hon, hgen⟩ := I.gens g hg
    have hroot := ResultTypes.generate_op_root _ _ _ _ _ _ hon hgen
    have hgn : Names.GName g.name.toList := by
      unfold namesOK at hn
      simp only [Bool.and_eq_true] at hn
      have := List.all_eq_true.mp hn.2 o ho
      rw [hon] at this
      simp only [Bool.and_eq_true] at this
      have h1' := this.1
      unfold gname at h1'
      simpa using h1'
    exact ⟨g, hg, h1, h2, hroot, by rw [h1]; exact methodName_ne_empty hgn⟩
  -- the input classes the client imports are defined by `input_types.py`
  obtain ⟨kept, hkept, hio⟩ := inputsModule_inv F.inputs
  obtain ⟨_, _, kroots, kall⟩ := filterInputDefs_spec hkept
  have hinputDefined : ∀ n ∈ st.argSt.usedInputs, n ∈ io.module.defines := by
    intro n hn'
    have hk := K.inputs n hn'
    obtain ⟨m, fs, hfd⟩ := defsMatch_input hdm (by simpa [argEnv] using hk)
    have hmn : m = n := (findDef_mem hfd).2
    subst hmn
    have hdef := (findDef_mem hfd).1
    have hentry' := pruneTable_of_input (cfg := cfg) hdef
    have hkeptn : (kept.map (·.name)).contains m = true := by
      have : ({ name := m, fields := fs.filterMap fun f => pruneRef cfg inp.defs f.type } : Prune.InputDef) ∈ kept := by
        cases ha : cfg.allInputs with
        | true =>
          rw [ha] at kall
          rw [kall (by simp)]
          exact hentry'
        | false =>
          rw [ha] at kroots
          exact kroots st.argSt.usedInputs (by simp) m hn' _ hentry' rfl
      have : m ∈ kept.map (·.name) := List.mem_map.mpr ⟨_, this, rfl⟩
      simpa using this
    refine className_mem_defines ?_
    rw [hio]
    simp only [inputsOut, List.map_map]
    refine List.mem_map.mpr ⟨_, List.mem_filter.mpr ⟨class_of_input hdef, ?_⟩, rfl⟩
    simpa [InputField.genClass] using hkeptn
  refine residualParts_of ?_ ?_ ?_ ?_
  · -- imports resolve
    apply importsResolve_of
    intro i hi
    rw [himports] at hi
    obtain ⟨hi, _⟩ := List.mem_filter.mp hi
    simp only [List.mem_append] at hi
    rcases hi with ((hi | hi) | hi) | hi
    · simp only [base, List.mem_cons, List.mem_nil_iff, or_false] at hi
      rcases hi with rfl | rfl | rfl | rfl
      · exact Or.inl (by decide)
      · rw [normImport_noDot _ _ _ C.baseDot]
        refine F.resolves (copied_mem_written (baseClient_mem_copied cfg)) rfl (by simp [copiedModule, C.basePy]) ?_
        intro ns hns
        rw [exported_copied] at hns
        have hprov : (copiedModule cfg cfg.baseClientFile).provides = some [cfg.baseClientName] := by
          have h1 : (cfg.baseClientFile == baseModelFile) = false := by simpa using C.notBaseModel
          have h2 : (cfg.baseClientFile == exceptionsFile) = false := by simpa using C.notExceptions
          have h3 : (cfg.baseClientFile == baseOperationFile) = false := by simpa using C.notBaseOperation
          simp [copiedModule, h1, h2, h3]
        rw [hprov] at hns
        simp only [Option.some.injEq] at hns
        subst hns
        intro n hn'
        exact hn'
      · have e : normImport ⟨1, "base_model", [Tables.unsetName, "UnsetType"]⟩ = ⟨1, "base_model", [Tables.unsetName, "UnsetType"]⟩ := by decide
        rw [e]
        refine F.resolves (copied_mem_written (baseModel_mem_copied cfg)) rfl (show baseModelFile = pyFile "base_model" by decide) ?_
        intro ns hns
        rw [exported_copied, provides_baseModel] at hns
        simp only [Option.some.injEq] at hns
        subst hns
        intro n hn'
        simp only [List.mem_cons, List.mem_nil_iff, or_false] at hn'
        rcases hn' with rfl | rfl <;> simp
      · have e : normImport ⟨1, "base_model", [Tables.uploadClassName]⟩ = ⟨1, "base_model", [Tables.uploadClassName]⟩ := by decide
        rw [e]
        refine F.resolves (copied_mem_written (baseModel_mem_copied cfg)) rfl (show baseModelFile = pyFile "base_model" by decide) ?_
        intro ns hns
        rw [exported_copied, provides_baseModel] at hns
        simp only [Option.some.injEq] at hns
        subst hns
        intro n hn'
        simp only [List.mem_singleton] at hn'
        subst hn'
        simp
    · simp only [perOp, List.mem_map] at hi
      obtain ⟨e, he, rfl⟩ := hi
      obtain ⟨g, hg, h1, h2, hroot, _⟩ := hentry e he
      rw [h1, h2]
      exact op_import_resolves F htr hg (by simp) (fun n hn' => by
        have : n = pascal g.name := by simpa using hn'
        rw [this]; exact hroot)
    · simp only [custom] at hi
      split at hi
      · rename_i hco
        simp only [customClientImports, List.mem_append, List.mem_cons, List.mem_nil_iff, or_false] at hi
        rcases hi with (rfl | rfl | rfl) | hi
        · exact Or.inl (by decide)
        · have e : normImport ⟨1, "base_operation", ["GraphQLField"]⟩ = ⟨1, "base_operation", ["GraphQLField"]⟩ := by decide
          rw [e]
          refine F.resolves (copied_mem_written (baseOperation_mem_copied hco)) rfl (show baseOperationFile = pyFile "base_operation" by decide) ?_
          intro ns hns
          rw [exported_copied, provides_baseOperation] at hns
          simp only [Option.some.injEq] at hns
          subst hns
          intro n hn'
          exact hn'
        · exact Or.inl (by decide)
        · split at hi
          · have : i = ⟨0, "graphql", ["OperationType"]⟩ := by simpa using hi
            subst this
            exact Or.inl (by decide)
          · cases hi
      · cases hi
    · simp only [late, List.mem_append, List.mem_cons, List.mem_nil_iff, or_false] at hi
      rcases hi with (rfl | rfl) | hi
      · rw [normImport_noDot _ _ _ C.inputsDot]
        refine F.resolves inputs_mem_written rfl (by rw [hio]; rfl) ?_
        intro ns hns
        have hgen : generated io.module = true := by rw [hio]; rfl
        rw [exported_generated hgen] at hns
        simp only [Option.some.injEq] at hns
        subst hns
        exact hinputDefined
      · rw [normImport_noDot _ _ _ C.enumsDot]
        refine F.resolves enums_mem_written rfl (enumsModule_file _ _ _) ?_
        intro ns hns
        rw [exported_generated (enumsModule_generated _ _ _)] at hns
        simp only [Option.some.injEq] at hns
        subst hns
        intro n hn'
        refine className_mem_defines (enum_class_mem (by simpa [argEnv] using K.enums n hn') (Or.inr ?_))
        unfold finalUsedEnums
        simp [hn']
      · unfold scalarImportsOf at hi
        obtain ⟨n, _, hi⟩ := List.mem_flatMap.mp hi
        cases hl : Scalars.lookupScalar cfg.scalars n with
        | none => rw [hl] at hi; cases hi
        | some d =>
          rw [hl] at hi
          simp only [List.mem_map] at hi
          obtain ⟨si, hsi, rfl⟩ := hi
          exact resolves_userImport F (scalarOK_imports (scalarOK_of_lookup hc hl) si hsi).2
  · -- the class statement and the method signatures
    have viaImport : ∀ (u : String), u ∈ (clientModule cfg inp.schema st.entries st.argSt).usedNames →
        ∀ i ∈ base ++ perOp ++ custom ++ late, u ∈ i.names → i.module ≠ "" → BoundIn (clientModule cfg inp.schema st.entries st.argSt) u := by
      intro u hu i hi hni hmod
      exact boundIn_of_import (hkeep i hi (by intro he; rw [he] at hni; cases hni) hmod) hni hu
    have inBase : ∀ i ∈ base, i ∈ base ++ perOp ++ custom ++ late := fun i hi =>
      List.mem_append_left _ (List.mem_append_left _ (List.mem_append_left _ hi))
    have typing : ∀ (u : String), u ∈ (clientModule cfg inp.schema st.entries st.argSt).usedNames →
        u ∈ ["Optional", "List", "Dict", "Any", "Union", "AsyncIterator"] → BoundIn (clientModule cfg inp.schema st.entries st.argSt) u := by
      intro u hu hmem
      exact viaImport u hu iTyping (inBase _ (by simp [base, iTyping])) hmem (by decide)
    -- a scalar's names
    have scalarBound : ∀ (u : String), u ∈ (clientModule cfg inp.schema st.entries st.argSt).usedNames →
        ∀ n d, n ∈ st.argSt.usedScalars → Scalars.lookupScalar cfg.scalars n = some d →
          (u = d.typeName ∨ some u = d.parseName ∨ some u = d.serializeName) → BoundIn (clientModule cfg inp.schema st.entries st.argSt) u := by
      intro u hu n d hnm hd hcase
      have hok := scalarOK_of_lookup hc hd
      rcases scalar_name_bound hok hcase with hb | rfl | ⟨i, hi, hni⟩
      · exact boundIn_builtin hb
      · exact typing _ hu (by simp)
      · obtain ⟨si, hsi, rfl⟩ := List.mem_map.mp hi
        refine viaImport u hu (ofScalarImport si) ?_ hni (scalarOK_imports hok si hsi).1
        refine List.mem_append_right _ (List.mem_append_right _ ?_)
        unfold scalarImportsOf
        exact List.mem_flatMap.mpr ⟨n, hnm, by rw [hd]; exact List.mem_map.mpr ⟨si, hsi, rfl⟩⟩
    apply classesLoad_of_bound
    · intro c hcm u hu
      have hcm' : c = { name := cfg.clientName, bases := [cfg.baseClientName] } := by simpa [clientModule] using hcm
      have hused : u ∈ (clientModule cfg inp.schema st.entries st.argSt).usedNames :=
        mem_usedNames_class hcm (by
          simp only [List.append_assoc, List.mem_append] at hu ⊢
          rcases hu with h | h
          · exact Or.inl h
          · exact Or.inr (Or.inl h))
      subst hcm'
      have : u = cfg.baseClientName := by simpa using hu
      subst this
      exact viaImport _ hused (iBaseClient cfg) (inBase _ (by simp [base, iBaseClient])) (by simp [iBaseClient]) C.baseNe
    · intro f hf u hu
      have hused : u ∈ (clientModule cfg inp.schema st.entries st.argSt).usedNames := mem_usedNames_method hf hu
      have hf' : f ∈ st.entries.map (fun e => methodIR e.method) ++
          (if cfg.customOps then customMethods inp.schema.query.isSome inp.schema.mutation.isSome else []) := hf
      rcases List.mem_append.mp hf' with hf' | hf'
      · obtain ⟨e, he, rfl⟩ := List.mem_map.mp hf'
        obtain ⟨g, hg, h1, h2, hroot, hmne⟩ := hentry e he
        have M := E e he
        simp only [methodIR, List.mem_append, List.mem_cons, List.mem_nil_iff, or_false, List.mem_flatMap] at hu
        rcases hu with ((⟨a, ha, hu⟩ | hu) | hu) | ⟨kv, hkv, hu⟩
        · -- a parameter annotation
          simp only [argUses, List.mem_append] at hu
          rcases hu with hu | hu
          · rcases M.params a ha u hu with rfl | rfl | ⟨use, hrec, hleaf⟩
            · exact typing _ hused (by simp)
            · exact typing _ hused (by simp)
            · cases use with
              | plain =>
                rcases hleaf with hv | rfl
                · rcases inputScalars_values u hv with hb | rfl
                  · exact boundIn_builtin hb
                  · exact viaImport _ hused iUpload (inBase _ (by simp [base, iUpload])) (by simp [iUpload]) (by decide)
                · exact typing _ hused (by simp)
              | input n =>
                obtain ⟨rfl, _⟩ := hleaf
                exact viaImport _ hused ⟨1, cfg.inputsModule, st.argSt.usedInputs⟩
                  (List.mem_append_right _ (by simp [late])) hrec.2 C.inputsNe
              | «enum» n =>
                obtain ⟨rfl, _⟩ := hleaf
                exact viaImport _ hused ⟨1, cfg.enumsModule, st.argSt.usedEnums⟩
                  (List.mem_append_right _ (by simp [late])) hrec.2 C.enumsNe
              | custom n =>
                obtain ⟨d, hd, rfl⟩ := hleaf
                exact scalarBound _ hused n d hrec (by simpa [argEnv] using hd) (Or.inl rfl)
          · split at hu
            · simp only [List.mem_cons, List.mem_nil_iff, or_false] at hu
              rcases hu with rfl | rfl | rfl
              · exact typing _ hused (by simp)
              · exact viaImport _ hused iUnset (inBase _ (by simp [base, iUnset])) (by simp [iUnset]) (by decide)
              · exact viaImport _ hused iUnset (inBase _ (by simp [base, iUnset])) (by simp [iUnset]) (by decide)
            · cases hu
        · rcases hu with rfl | rfl | rfl | rfl
          · exact typing _ hused (by simp)
          · exact typing _ hused (by simp)
          · exact boundIn_func (by simp [clientModule])
          · refine viaImport _ hused ⟨1, e.module, [e.method.returnType]⟩ ?_ (by simp) hmne
            exact List.mem_append_left _ (List.mem_append_left _ (List.mem_append_right _ (List.mem_map.mpr ⟨e, he, rfl⟩)))
        · split at hu
          · have : u = "AsyncIterator" := by simpa using hu
            subst this
            exact typing _ hused (by simp)
          · cases hu
        · -- a value of the variables dict
          cases hkv2 : kv.2 with
          | name py => rw [hkv2] at hu; simp [dictValUses] at hu
          | call fn py =>
            rw [hkv2] at hu
            have : u = fn := by simpa [dictValUses] using hu
            subst this
            obtain ⟨n, d, hnm, hd, hs⟩ := M.dict kv hkv u py hkv2
            exact scalarBound _ hused n d hnm (by simpa [argEnv] using hd) (Or.inr (Or.inr hs.symm))
      · -- the fixed methods of custom operations
        split at hf'
        · rename_i hco
          have hcustomIn : ∀ i ∈ customClientImports inp.schema.query.isSome inp.schema.mutation.isSome, i ∈ base ++ perOp ++ custom ++ late := by
            intro i hi
            refine List.mem_append_left _ (List.mem_append_right _ ?_)
            simp only [custom, hco, if_true]
            exact hi
          simp only [customMethods, List.mem_append, List.mem_cons, List.mem_nil_iff, or_false] at hf'
          rcases hf' with ((rfl | rfl | rfl | rfl | rfl) | hq) | hm
          · simp only [List.mem_cons, List.mem_nil_iff, or_false] at hu
            rcases hu with rfl | rfl | rfl | rfl | rfl | rfl | rfl | rfl | rfl | rfl | rfl | rfl | rfl | rfl
            · exact typing _ hused (by simp)
            · exact typing _ hused (by simp)
            · exact typing _ hused (by simp)
            · exact viaImport _ hused ⟨0, "typing", ["Dict", "Tuple", "List", "Any"]⟩ (hcustomIn _ (by simp [customClientImports])) (by simp) (by decide)
            · exact viaImport _ hused ⟨1, "base_operation", ["GraphQLField"]⟩ (hcustomIn _ (by simp [customClientImports])) (by simp) (by decide)
            all_goals
              exact viaImport _ hused ⟨0, "graphql", ["DocumentNode", "OperationDefinitionNode", "NameNode", "SelectionSetNode", "print_ast",
                "VariableDefinitionNode", "VariableNode", "NamedTypeNode", "SelectionNode"]⟩ (hcustomIn _ (by simp [customClientImports])) (by simp) (by decide)
          · cases hu
          · cases hu
          · cases hu
          · cases hu
          · split at hq
            · rename_i hq'
              have : f = { name := "query", params := ["self", "fields", "operation_name"], uses := ["OperationType"] } := by simpa using hq
              subst this
              have : u = "OperationType" := by simpa using hu
              subst this
              exact viaImport _ hused ⟨0, "graphql", ["OperationType"]⟩ (hcustomIn _ (by simp [customClientImports, hq'])) (by simp) (by decide)
            · cases hq
          · split at hm
            · rename_i hm'
              have : f = { name := "mutation", params := ["self", "fields", "operation_name"], uses := ["OperationType"] } := by simpa using hm
              subst this
              have : u = "OperationType" := by simpa using hu
              subst this
              exact viaImport _ hused ⟨0, "graphql", ["OperationType"]⟩ (hcustomIn _ (by simp [customClientImports, hm'])) (by simp) (by decide)
            · cases hm
        · cases hf'
  · -- no forward references
    unfold forwardRefsOK
    refine List.all_eq_true.mpr ?_
    intro c hcm
    have : c = { name := cfg.clientName, bases := [cfg.baseClientName] } := by simpa [clientModule] using hcm
    subst this
    rfl
  · rfl

end Ariadne.C04Proofs
