/-
  Call-log lemmas of C07 for a whole request: the serialize calls made on behalf of a supported
  method call are, up to order, exactly the calls the caller's values are entitled to.
-/
import AriadneModel.Proofs.ArgDeliver

set_option linter.unusedSimpArgs false
set_option linter.unusedVariables false

namespace Ariadne.ArgProofs
open Ariadne Ariadne.Scalars Ariadne.Coerce Ariadne.ArgValues Ariadne.ArgSend Ariadne.Arguments Ariadne.ClientMethod
open Ariadne.ArgFindings Ariadne.PyCall
open Ariadne.BaseClient (PV)

attribute [local irreducible] Ariadne.Arguments.pyVar

/-- the calls the dump of a top-level argument makes (`_convert_value` → `model_dump`) -/
def argCalls (fns : UserFns) (v : AV) : List Call :=
  match objOf fns v with
  | .ok (_, c) => c
  | .error _ => []

def dumpP (fns : UserFns) : List AV → List Call
  | [] => []
  | v :: vs => (if v.isUnset then [] else argCalls fns v) ++ dumpP fns vs

/-- `givenOf` as a total function -/
def gP (fns : UserFns) (snake : Bool) : List VarDecl → List AV → List (String × PV × List Call)
  | d :: ds, v :: vs =>
    if v.isUnset then gP fns snake ds vs else (pyVar snake d.name, argObj fns v, argCalls fns v) :: gP fns snake ds vs
  | _, _ => []

theorem givenOf_gP (fns : UserFns) (snake : Bool) (ds : List VarDecl) (vs : List AV) (h : objsOK fns vs) :
    givenOf fns snake ds vs = .ok (gP fns snake ds vs) := by
  induction ds generalizing vs with
  | nil => cases vs <;> simp [givenOf, gP]
  | cons d ds ih =>
    cases vs with
    | nil => simp [givenOf, gP]
    | cons v vs =>
      have ih' := ih vs h.2
      by_cases hu : v.isUnset = true
      · simp [givenOf, gP, hu, ih']
      · rcases h.1 with h1 | ⟨o, c, ho⟩
        · exact absurd h1 hu
        · simp [givenOf, gP, hu, ho, ih', argObj, argCalls]

theorem dumpCallsOf_gP (fns : UserFns) (snake : Bool) (lq : String) (ds : List VarDecl) (vs : List AV)
    (hlen : ds.length = vs.length) (hq : lq ∉ ds.map (fun d => pyVar snake d.name)) :
    dumpCallsOf lq (gP fns snake ds vs) = dumpP fns vs := by
  induction ds generalizing vs with
  | nil => cases vs <;> simp [gP, dumpCallsOf, dumpP] at hlen ⊢
  | cons d ds ih =>
    cases vs with
    | nil => simp at hlen
    | cons v vs =>
      simp only [List.map_cons, List.mem_cons, not_or] at hq
      have ih' := ih vs (by simpa using hlen) hq.2
      by_cases hu : v.isUnset = true
      · simp [gP, dumpP, hu, ih']
      · have hne : (pyVar snake d.name == lq) = false := by simpa using fun e => hq.1 e.symm
        simp [gP, dumpP, hu, dumpCallsOf, hne, ih']

/-- per argument: the dict part and the dump part together are exactly the entitled calls -/
theorem arg_calls (cfg : Cfg) (fns : UserFns) (hy : Hyp cfg fns) (d : IField) (v : AV)
    (hv : (v.isUnset = true ∧ d.type.nonNull = false) ∨ hasType cfg d.type v = true)
    (hs : (match cfg.serOfType d.type with
           | some _ => d.type.nonNull && !d.type.isList
           | none => true) = true) :
    dictPart cfg d v ++ (if v.isUnset then [] else argCalls fns v) = serCalls cfg v := by
  rcases hv with ⟨hu, _⟩ | ht
  · cases v <;> simp [AV.isUnset] at hu
    simp [serCalls, AV.isUnset, dictPart]
  · have hu : v.isUnset = false := by
      cases v <;> simp [AV.isUnset]
      rw [hasType_unset] at ht; cases ht
    cases hser : cfg.serOfType d.type with
    | none =>
      have hns : NoSer cfg d.type := by
        intro hsc; simpa [Cfg.serOfType, Cfg.isScalar, hsc] using hser
      obtain ⟨o, calls, ho, hc, _⟩ := obj_good cfg fns hy d.type v ht hns
      have : argCalls fns v = serCalls cfg v := by simp [argCalls, ho, hc]
      cases v <;> simp_all [dictPart]
    | some f =>
      rw [hser] at hs
      simp only [Bool.and_eq_true, Bool.not_eq_true'] at hs
      obtain ⟨sc, j, rfl⟩ := custom_of_scalar_type cfg d.type v ht (isScalar_of_serOfType cfg _ f hser) hs.1 hs.2
      -- the scalar is the base of the type, so its serialize function is `f`
      have hsc : cfg.serializeOf sc = some f := by
        cases hty : d.type with
        | list it nn => rw [hty] at hs; simp [GT.isList] at hs
        | named n nn =>
          rw [hty] at ht hser
          have hl : leafOK cfg n (.custom sc j) = true := by simpa [hasType] using ht
          simp only [leafOK, Bool.and_eq_true, beq_iff_eq] at hl
          obtain ⟨⟨e, _⟩, _⟩ := hl
          subst e
          have hsc' := isScalar_of_serOfType cfg _ f hser
          have hsc'' : cfg.isScalar sc = true := by simpa [GT.base] using hsc'
          simpa [Cfg.serOfType, GT.base, hsc''] using hser
      simp [serCalls, hsc, argCalls, objOf, AV.isUnset, dictPart, hser]

theorem perm_interleave (x X y Y : List Call) : ((x ++ X) ++ (y ++ Y)).Perm ((x ++ y) ++ (X ++ Y)) := by
  have h1 : ((x ++ X) ++ (y ++ Y)) = x ++ ((X ++ y) ++ Y) := by simp [List.append_assoc]
  have h2 : ((x ++ y) ++ (X ++ Y)) = x ++ ((y ++ X) ++ Y) := by simp [List.append_assoc]
  rw [h1, h2]
  exact List.Perm.append_left x (List.Perm.append_right Y List.perm_append_comm)

/-- the calls of the whole request are a permutation of the entitled calls -/
theorem request_calls_perm (cfg : Cfg) (fns : UserFns) (hy : Hyp cfg fns) (ds : List IField) (vs : List AV)
    (hv : argsValid cfg ds vs = true) (hs : serTopOK cfg ds = true) :
    (dictCalls cfg ds vs ++ dumpP fns vs).Perm (serCallsList cfg vs) := by
  induction ds generalizing vs with
  | nil => cases vs <;> simp [argsValid] at hv; simp [dictCalls, dumpP, serCallsList]
  | cons d ds ih =>
    cases vs with
    | nil => simp [argsValid] at hv
    | cons v vs =>
      have hz := (argsValid_zip cfg (d :: ds) (v :: vs) hv).2 (d, v) (by simp)
      simp only [argsValid, Bool.and_eq_true] at hv
      simp only [serTopOK, Bool.and_eq_true] at hs
      have ih' := ih vs hv.2 hs.2
      have ha := arg_calls cfg fns hy d v hz hs.1
      simp only [dictCalls, dumpP, serCallsList]
      refine (perm_interleave _ _ _ _).trans ?_
      rw [ha]
      exact List.Perm.append_left _ ih'

/-- C07 for top-level arguments, composed: the serialize calls made on behalf of a supported,
    schema-valid call are a permutation of the calls its values are entitled to. -/
theorem send_calls (cfg : Cfg) (fns : UserFns) (hy : Hyp cfg fns) (defs : List VarDecl) (a : List AV)
    (opName opText cls : String) (async : Bool)
    (hk : ∀ d ∈ defs, isInputType cfg.schema d.type.base = true)
    (hvn : (defs.map (·.name)).Nodup)
    (ht : anyTrigger (envOf cfg) (defs.map (·.toVarDef)) = false)
    (ha : argsValid cfg (defs.map (·.toIField)) a = true) :
    ∃ req, send (envOf cfg) fns async opName opText defs a cls = .ok req ∧
      req.calls.Perm (serCallsList cfg a) := by
  have hn := names_ok_of_triggers cfg fns hy defs ht
  have hs : serTopOK cfg (defs.map (·.toIField)) = true := by
    simp only [anyTrigger, Bool.or_eq_false_iff] at ht
    exact serTopOK_of_triggers cfg fns hy defs ht.1.2 ht.2
  obtain ⟨st, hadd⟩ := addMethod_ok cfg defs opName opText async hk
  obtain ⟨g, hg, hkwg, hLqn, hcall⟩ := callMethod_ok cfg fns hy defs a opName opText cls async hn ha hs
  have hnd : (names (defs.map (·.toIField))).Nodup := by
    simpa [names, List.map_map, Function.comp_def, VarDecl.toIField] using hvn
  obtain ⟨hsimple, ws, hj, hco, hab⟩ := dict_coerces cfg fns hy (defs.map (·.toIField)) (defs.map (·.toIField)) a ha hs
    (fun d hd => findField_of_mem _ hnd d hd)
  have hpay : payloadOf (dictOf cfg fns (defs.map (·.toIField)) a) = some ws := by
    rw [payloadOf_simple _ hsimple, hj]
  have hlen : defs.length = a.length := by simpa using (argsValid_zip cfg _ _ ha).1
  have hgP : g = gP fns cfg.snake defs a := by
    have := givenOf_gP fns cfg.snake defs a (objsOK_of_valid cfg fns hy _ _ ha)
    rw [this] at hg
    exact (Except.ok.inj hg).symm
  have hdump : dumpCallsOf (methodP cfg defs opName opText async).locals.query g = dumpP fns a := by
    rw [hgP]; exact dumpCallsOf_gP fns cfg.snake _ defs a hlen hLqn
  refine ⟨⟨opText, ws, dictCalls cfg (defs.map (·.toIField)) a ++ dumpP fns a⟩, ?_, request_calls_perm cfg fns hy _ a ha hs⟩
  have hsn : (envOf cfg).snake = cfg.snake := rfl
  simp only [send, hadd, hsn, hg, hcall, hpay, hdump]
  rfl

end Ariadne.ArgProofs
