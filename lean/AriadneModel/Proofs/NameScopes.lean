/-
  Helper lemmas for the method scope and the class scope of C18 (Model/NameScopes.lean).
-/
import AriadneModel.Model.NameScopes
import AriadneModel.Proofs.Names

set_option linter.unusedSimpArgs false
set_option linter.unusedVariables false

namespace Ariadne.NameScopes
open Ariadne Ariadne.Names

/-! ## A. method scope -/

theorem mem_params (sn : Bool) (vars : List Var) (p : Name) : p ∈ params sn vars ↔ p ∈ docParams sn vars := by
  simp only [params, docParams, List.mem_append, List.mem_map, List.mem_filter]
  constructor
  · rintro (⟨v, ⟨hv, _⟩, rfl⟩ | ⟨v, ⟨hv, _⟩, rfl⟩) <;> exact ⟨v, hv, rfl⟩
  · rintro ⟨v, hv, rfl⟩
    cases hr : v.required
    · exact Or.inr ⟨v, ⟨hv, by simp [hr]⟩, rfl⟩
    · exact Or.inl ⟨v, ⟨hv, hr⟩, rfl⟩

theorem mem_argNames (sn : Bool) (vars : List Var) (p : Name) :
    p ∈ argNames sn vars ↔ p = selfName ∨ p ∈ docParams sn vars := by
  simp [argNames, mem_params]

theorem contains_false {l : List Name} {x : Name} (h : l.contains x = false) : x ∉ l := by
  intro hm
  have : l.contains x = true := by simpa using hm
  rw [h] at this; exact absurd this (by simp)

theorem contains_true {l : List Name} {x : Name} (h : x ∈ l) : l.contains x = true := by simpa using h

theorem rename_cases (args : List Name) (h : Name) :
    (h ∈ args ∧ rename args h = '_' :: h) ∨ (h ∉ args ∧ rename args h = h) := by
  unfold rename
  by_cases hc : h ∈ args
  · left; simp [hc]
  · right; simp [hc]

theorem locals_distinct (args : List Name) :
    let L := getVariableNames args
    L.v ≠ L.q ∧ L.r ≠ L.q ∧ L.r ≠ L.v ∧ L.d ≠ L.q ∧ L.d ≠ L.v ∧ L.d ≠ L.r := by
  simp only [getVariableNames]
  rcases rename_cases args queryLocal with ⟨_, h1⟩ | ⟨_, h1⟩ <;>
  rcases rename_cases args variablesLocal with ⟨_, h2⟩ | ⟨_, h2⟩ <;>
  rcases rename_cases args responseLocal with ⟨_, h3⟩ | ⟨_, h3⟩ <;>
  rcases rename_cases args dataLocal with ⟨_, h4⟩ | ⟨_, h4⟩ <;>
  rw [h1, h2, h3, h4] <;> decide

theorem lookupVal_head (k : Name) (v : Val) (env : Env) : lookupVal ((k, v) :: env) k = .ok v := by
  simp [lookupVal, List.lookup]

theorem lookupVal_skip (k n : Name) (v : Val) (env : Env) (h : n ≠ k) :
    lookupVal ((k, v) :: env) n = lookupVal env n := by
  have : (n == k) = false := by simpa using h
  simp [lookupVal, List.lookup, this]

theorem lookup_append_none (pre rest : Env) (n : Name) (h : pre.lookup n = none) :
    (pre ++ rest).lookup n = rest.lookup n := by
  induction pre with
  | nil => rfl
  | cons kv pre ih =>
    obtain ⟨k, v⟩ := kv
    by_cases hk : n == k
    · simp [List.lookup, hk] at h
    · have hk' : (n == k) = false := by simpa using hk
      simp only [List.lookup, hk'] at h
      simp [List.lookup, hk', ih h]

theorem readAll_cons_ok (env : Env) (p : Name) (ps : List Name) (v : Val) (vs : List Val)
    (h1 : lookupVal env p = .ok v) (h2 : readAll env ps = .ok vs) : readAll env (p :: ps) = .ok (v :: vs) := by
  simp [readAll, h1, h2]

/-- reading the parameters back gives the caller's values, whatever is bound in front under other names -/
theorem readAll_bindArgs (post : Env) : ∀ (ps : List Name) (pre : Env) (k : Nat),
    (∀ p ∈ ps, pre.lookup p = none) → ps.Nodup →
    readAll (pre ++ (bindArgs k ps ++ post)) ps = .ok (argVals k ps.length)
  | [], pre, k, _, _ => rfl
  | p :: ps, pre, k, hpre, hnd => by
    have hp : pre.lookup p = none := hpre p (by simp)
    have h1 : lookupVal (pre ++ (bindArgs k (p :: ps) ++ post)) p = .ok (.arg k) := by
      simp [lookupVal, lookup_append_none pre _ p hp, bindArgs, List.lookup]
    have hnd' := List.nodup_cons.mp hnd
    have hpre' : ∀ p' ∈ ps, (pre ++ [(p, Val.arg k)]).lookup p' = none := by
      intro p' hp'
      rw [lookup_append_none pre _ p' (hpre p' (by simp [hp']))]
      have : p' ≠ p := fun e => hnd'.1 (e ▸ hp')
      have hb : (p' == p) = false := by simpa using this
      simp [List.lookup, hb]
    have ih := readAll_bindArgs post ps (pre ++ [(p, Val.arg k)]) (k + 1) hpre' hnd'.2
    have e : pre ++ (bindArgs k (p :: ps) ++ post) = (pre ++ [(p, Val.arg k)]) ++ (bindArgs (k + 1) ps ++ post) := by
      simp [bindArgs]
    rw [e] at h1 ⊢
    exact readAll_cons_ok _ p ps _ _ h1 ih

theorem text_not_mem_argVals : ∀ (n k : Nat), Val.text ∉ argVals k n
  | 0, _ => by simp [argVals]
  | n + 1, k => by
    simp only [argVals, List.mem_cons, not_or]
    exact ⟨fun h => Val.noConfusion h, text_not_mem_argVals n (k + 1)⟩

theorem readAll_mem (env : Env) (p : Name) (v : Val) (hv : env.lookup p = some v) :
    ∀ (ps : List Name) (vals : List Val), readAll env ps = .ok vals → p ∈ ps → v ∈ vals
  | [], _, _, hp => by simp at hp
  | p' :: ps, vals, h, hp => by
    simp only [readAll] at h
    cases h1 : lookupVal env p' with
    | error e => simp [h1] at h
    | ok v' =>
      cases h2 : readAll env ps with
      | error e => simp [h1, h2] at h
      | ok vs =>
        simp only [h1, h2, Except.ok.injEq] at h
        subst h
        rcases List.mem_cons.mp hp with e | hp'
        · subst e
          have : v' = v := by
            simp only [lookupVal, hv, Except.ok.injEq] at h1
            exact h1.symm
          simp [this]
        · exact List.mem_cons_of_mem _ (readAll_mem env p v hv ps vs h2 hp')

theorem lookup_cons_ne (k n : Name) (v : Val) (env : Env) (h : n ≠ k) :
    (((k, v) :: env : Env)).lookup n = env.lookup n := by
  have : (n == k) = false := by simpa using h
  simp [List.lookup, this]

theorem lookup_bindArgs_none (n : Name) : ∀ (ps : List Name) (k : Nat), n ∉ ps → (bindArgs k ps).lookup n = none
  | [], _, _ => rfl
  | p :: ps, k, h => by
    have h1 : n ≠ p := fun e => h (e ▸ List.mem_cons_self)
    have h2 : n ∉ ps := fun hm => h (List.mem_cons_of_mem _ hm)
    rw [bindArgs, lookup_cons_ne _ _ _ _ h1]
    exact lookup_bindArgs_none n ps (k + 1) h2

theorem lookup_bindArgs_some (n : Name) : ∀ (ps : List Name) (k : Nat), n ∈ ps → ∃ v, (bindArgs k ps).lookup n = some v
  | [], _, h => by simp at h
  | p :: ps, k, h => by
    by_cases e : n = p
    · subst e; exact ⟨.arg k, by simp [bindArgs, List.lookup]⟩
    · have hm : n ∈ ps := by
        rcases List.mem_cons.mp h with h | h
        · exact absurd h e
        · exact h
      obtain ⟨v, hv⟩ := lookup_bindArgs_some n ps (k + 1) hm
      exact ⟨v, by rw [bindArgs, lookup_cons_ne _ _ _ _ e]; exact hv⟩

/-- the environment a call starts with -/
def env0 (ps : List Name) : Env := (selfName, .selfV) :: (bindArgs 0 ps ++ [(kwargsName, .kwargsV)])

theorem env0_lookup_none (n : Name) (ps : List Name) (h1 : n ≠ selfName) (h2 : n ≠ kwargsName) (h3 : n ∉ ps) :
    (env0 ps).lookup n = none := by
  rw [env0, lookup_cons_ne _ _ _ _ h1, lookup_append_none _ _ _ (lookup_bindArgs_none n ps 0 h3)]
  have : (n == kwargsName) = false := by simpa using h2
  simp [List.lookup, this]

theorem lookup_append_some (pre rest : Env) (n : Name) (v : Val) (h : pre.lookup n = some v) :
    (pre ++ rest).lookup n = some v := by
  induction pre with
  | nil => simp [List.lookup] at h
  | cons kv pre ih =>
    obtain ⟨k, w⟩ := kv
    by_cases hk : n == k
    · simp only [List.lookup, hk] at h
      simp [List.lookup, hk, h]
    · have hk' : (n == k) = false := by simpa using hk
      simp only [List.lookup, hk'] at h
      simp [List.lookup, hk', ih h]

theorem env0_lookup_some (n : Name) (ps : List Name) (h1 : n ≠ selfName) (h3 : n ∈ ps) :
    ∃ v, (env0 ps).lookup n = some v := by
  obtain ⟨v, hv⟩ := lookup_bindArgs_some n ps 0 h3
  exact ⟨v, by rw [env0, lookup_cons_ne _ _ _ _ h1]; exact lookup_append_some _ _ _ _ hv⟩

theorem applySer_length : ∀ (fs : List Bool) (vs : List Val), (applySer fs vs).length = vs.length
  | _, [] => by simp [applySer]
  | [], v :: vs => by simp [applySer, applySer_length [] vs]
  | f :: fs, v :: vs => by simp [applySer, applySer_length fs vs]

/-- the serialize calls lose nothing: different value lists give different dict values -/
theorem applySer_inj : ∀ (fs : List Bool) (a b : List Val), applySer fs a = applySer fs b → a = b
  | _, [], [], _ => rfl
  | fs, [], y :: b, h => by cases fs <;> simp [applySer] at h
  | fs, x :: a, [], h => by cases fs <;> simp [applySer] at h
  | [], x :: a, y :: b, h => by
    simp only [applySer, List.cons.injEq] at h
    rw [h.1, applySer_inj [] a b h.2]
  | f :: fs, x :: a, y :: b, h => by
    simp only [applySer, List.cons.injEq] at h
    have hx : x = y := by
      cases f
      · simpa using h.1
      · simpa using h.1
    rw [hx, applySer_inj fs a b h.2]

theorem text_not_mem_applySer_argVals : ∀ (fs : List Bool) (n k : Nat), Val.text ∉ applySer fs (argVals k n)
  | _, 0, _ => by simp [argVals, applySer]
  | [], n + 1, k => by
    simp only [argVals, applySer, List.mem_cons, not_or]
    exact ⟨fun h => Val.noConfusion h, text_not_mem_applySer_argVals [] n (k + 1)⟩
  | f :: fs, n + 1, k => by
    simp only [argVals, applySer, List.mem_cons, not_or]
    refine ⟨?_, text_not_mem_applySer_argVals fs n (k + 1)⟩
    cases f <;> simp

/-- a value read from the environment shows up in the dict, plain or serialized -/
theorem mem_applySer (v : Val) : ∀ (fs : List Bool) (vs : List Val), v ∈ vs → v ∈ applySer fs vs ∨ Val.ser v ∈ applySer fs vs
  | _, [], h => by simp at h
  | [], x :: vs, h => by
    rcases List.mem_cons.mp h with e | h'
    · left; simp [applySer, e]
    · rcases mem_applySer v [] vs h' with h2 | h2
      · left; simp [applySer, h2]
      · right; simp [applySer, h2]
  | f :: fs, x :: vs, h => by
    rcases List.mem_cons.mp h with e | h'
    · cases f
      · left; simp [applySer, e]
      · right; simp [applySer, e]
    · rcases mem_applySer v fs vs h' with h2 | h2
      · left; simp [applySer, h2]
      · right; simp [applySer, h2]

theorem ser_text_not_mem_applySer_argVals : ∀ (fs : List Bool) (n k : Nat), Val.ser Val.text ∉ applySer fs (argVals k n)
  | _, 0, _ => by simp [argVals, applySer]
  | [], n + 1, k => by
    simp only [argVals, applySer, List.mem_cons, not_or]
    exact ⟨fun h => Val.noConfusion h, ser_text_not_mem_applySer_argVals [] n (k + 1)⟩
  | f :: fs, n + 1, k => by
    simp only [argVals, applySer, List.mem_cons, not_or]
    refine ⟨?_, ser_text_not_mem_applySer_argVals fs n (k + 1)⟩
    cases f <;> simp

/-- every name bound in the environment can be read -/
theorem readAll_ok_of_bound (env : Env) : ∀ (ps : List Name), (∀ p ∈ ps, ∃ v, env.lookup p = some v) → ∃ vals, readAll env ps = .ok vals
  | [], _ => ⟨[], rfl⟩
  | p :: ps, h => by
    obtain ⟨v, hv⟩ := h p (by simp)
    obtain ⟨vs, hvs⟩ := readAll_ok_of_bound env ps (fun q hq => h q (by simp [hq]))
    exact ⟨v :: vs, by simp [readAll, lookupVal, hv, hvs]⟩

/-- the body sends what the property demands when the `query` local is no parameter and no
    parameter shadows `gql`, the result class or the serialize function in use -/
theorem runBody_ok (sub : Bool) (L : Locals) (ret : Name) (wires : List Name) (flags : List Bool) (ps : List Name)
    (hq : L.q ∉ ps) (hqs : L.q ≠ selfName) (hself : selfName ∉ ps) (hnd : ps.Nodup)
    (hvq : L.v ≠ L.q) (hg : gqlName ∉ ps)
    (hr : ret ∉ ps) (hr1 : ret ≠ selfName) (hr2 : ret ≠ kwargsName)
    (hrq : ret ≠ L.q) (hrv : ret ≠ L.v) (hrr : ret ≠ L.r) (hrd : ret ≠ L.d)
    (hser : flags.any id = false ∨ serName ∉ ps) (hsq : serName ≠ L.q) :
    runBody sub L ret wires flags ps ps = .ok
      ⟨.text, .dict wires (applySer flags (argVals 0 ps.length)),
       .parsed (.data (.resp .text (.dict wires (applySer flags (argVals 0 ps.length)))))⟩ := by
  have hpre : ∀ p ∈ ps, ([(L.q, Val.text), (selfName, Val.selfV)] : Env).lookup p = none := by
    intro p hp
    have h1 : (p == L.q) = false := by
      simpa using (fun e : p = L.q => hq (e ▸ hp))
    have h2 : (p == selfName) = false := by
      simpa using (fun e : p = selfName => hself (e ▸ hp))
    simp [List.lookup, h1, h2]
  have hr0 := readAll_bindArgs [(kwargsName, Val.kwargsV)] ps [(L.q, Val.text), (selfName, Val.selfV)] 0 hpre hnd
  have hr' : readAll ((L.q, Val.text) :: (selfName, Val.selfV) :: (bindArgs 0 ps ++ [(kwargsName, Val.kwargsV)])) ps
      = .ok (argVals 0 ps.length) := by simpa using hr0
  have hq' : (L.q == L.v) = false := by simpa using (fun e : L.q = L.v => hvq e.symm)
  have tail_none : ∀ n : Name, n ≠ kwargsName → n ∉ ps →
      (bindArgs 0 ps ++ [(kwargsName, Val.kwargsV)] : Env).lookup n = none := by
    intro n h2 h3
    rw [lookup_append_none _ _ _ (lookup_bindArgs_none n ps 0 h3)]
    have : (n == kwargsName) = false := by simpa using h2
    simp [List.lookup, this]
  have hgql := tail_none gqlName (by decide) hg
  have hgs : (gqlName == selfName) = false := by decide
  have hret0 := tail_none ret hr2 hr
  have b1 : (ret == selfName) = false := by simpa using hr1
  have b2 : (ret == L.q) = false := by simpa using hrq
  have b3 : (ret == L.v) = false := by simpa using hrv
  have b4 : (ret == L.r) = false := by simpa using hrr
  have b5 : (ret == L.d) = false := by simpa using hrd
  have s1 : (serName == L.q) = false := by simpa using hsq
  have s2 : (serName == selfName) = false := by decide
  rcases hser with hany | hsn
  · cases sub <;>
      simp [runBody, hgql, hgs, hr', lookupVal, List.lookup, hq', validateWith, hret0, b1, b2, b3, b4, b5, hany]
  · have hs0 := tail_none serName (by decide) hsn
    cases sub <;>
      simp [runBody, hgql, hgs, hr', lookupVal, List.lookup, hq', validateWith, hret0, b1, b2, b3, b4, b5, s1, s2, hs0]

/-- a parameter called `gql` makes every call fail before anything is sent -/
theorem runBody_gql (sub : Bool) (L : Locals) (ret : Name) (wires : List Name) (flags : List Bool) (reads ps : List Name)
    (hg : gqlName ∈ ps) :
    runBody sub L ret wires flags reads ps = .error (.notCallable gqlName) := by
  obtain ⟨v, hv⟩ := env0_lookup_some gqlName ps (by decide) hg
  simp only [env0] at hv
  simp [runBody, hv]

/-- whatever happens, the dict handed to `execute` holds what reading the names gave (serialized where asked) -/
theorem runBody_variables (sub : Bool) (L : Locals) (ret : Name) (wires : List Name) (flags : List Bool) (reads ps : List Name) (s : Sent)
    (h : runBody sub L ret wires flags reads ps = .ok s) :
    ∃ vals, readAll ((L.q, Val.text) :: (selfName, Val.selfV) :: (bindArgs 0 ps ++ [(kwargsName, Val.kwargsV)])) reads = .ok vals ∧
      s.variables = .dict wires (applySer flags vals) ∧
      (flags.any id = true → ((L.q, Val.text) :: (selfName, Val.selfV) :: (bindArgs 0 ps ++ [(kwargsName, Val.kwargsV)]) : Env).lookup serName = none) := by
  unfold runBody at h
  cases hg : ((selfName, Val.selfV) :: (bindArgs 0 ps ++ [(kwargsName, Val.kwargsV)]) : Env).lookup gqlName with
  | some x => simp [hg] at h
  | none =>
  simp only [hg] at h
  cases hr : readAll ((L.q, Val.text) :: (selfName, Val.selfV) :: (bindArgs 0 ps ++ [(kwargsName, Val.kwargsV)])) reads with
  | error e => simp [hr] at h
  | ok vals =>
    simp only [hr] at h
    split at h
    · exact absurd h (by simp)
    · rename_i hS
      refine ⟨vals, rfl, ?_, ?_⟩
      · simp only [lookupVal_head] at h
        cases hq : lookupVal ((L.v, Val.dict wires (applySer flags vals)) :: (L.q, Val.text) :: (selfName, Val.selfV) :: (bindArgs 0 ps ++ [(kwargsName, Val.kwargsV)])) L.q with
        | error e => simp [hq] at h
        | ok q =>
          simp only [hq] at h
          cases sub
          · simp only [lookupVal_head, Bool.false_eq_true, if_false] at h
            split at h
            · exact absurd h (by simp)
            · simp only [Except.ok.injEq] at h
              rw [← h]
          · simp only [lookupVal_head, if_true] at h
            split at h
            · exact absurd h (by simp)
            · simp only [Except.ok.injEq] at h
              rw [← h]
      · intro hany
        simp only [hany, Bool.true_and, Bool.not_eq_true, Option.isSome_eq_false_iff, Option.isNone_iff_eq_none] at hS
        exact hS

/-- a call that succeeds did not find the result class shadowed by a parameter -/
theorem runBody_ret (sub : Bool) (L : Locals) (ret : Name) (wires : List Name) (flags : List Bool) (reads ps : List Name) (s : Sent)
    (h : runBody sub L ret wires flags reads ps = .ok s) (hr1 : ret ≠ selfName)
    (hrq : ret ≠ L.q) (hrv : ret ≠ L.v) (hrr : ret ≠ L.r) (hrd : ret ≠ L.d) : ret ∉ ps := by
  intro hm
  obtain ⟨x, hx⟩ := env0_lookup_some ret ps hr1 hm
  simp only [env0] at hx
  unfold runBody at h
  cases hg : ((selfName, Val.selfV) :: (bindArgs 0 ps ++ [(kwargsName, Val.kwargsV)]) : Env).lookup gqlName with
  | some x => simp [hg] at h
  | none =>
  simp only [hg] at h
  cases hr : readAll ((L.q, Val.text) :: (selfName, Val.selfV) :: (bindArgs 0 ps ++ [(kwargsName, Val.kwargsV)])) reads with
  | error e => simp [hr] at h
  | ok vals =>
    simp only [hr] at h
    split at h
    · exact absurd h (by simp)
    · simp only [lookupVal_head] at h
      cases hq : lookupVal ((L.v, Val.dict wires (applySer flags vals)) :: (L.q, Val.text) :: (selfName, Val.selfV) :: (bindArgs 0 ps ++ [(kwargsName, Val.kwargsV)])) L.q with
      | error e => simp [hq] at h
      | ok q =>
        simp only [hq] at h
        cases sub
        · simp only [lookupVal_head, Bool.false_eq_true, if_false, validateWith,
            lookup_cons_ne _ _ _ _ hrd, lookup_cons_ne _ _ _ _ hrr, lookup_cons_ne _ _ _ _ hrv,
            lookup_cons_ne _ _ _ _ hrq, hx] at h
          exact absurd h (by simp)
        · simp only [lookupVal_head, if_true, validateWith,
            lookup_cons_ne _ _ _ _ hrd, lookup_cons_ne _ _ _ _ hrv,
            lookup_cons_ne _ _ _ _ hrq, hx] at h
          exact absurd h (by simp)

/-- `reads_bound`: when every name the dict values read is a parameter, no read of the body can hit an
    unbound name - the body never raises NameError, in or outside the finding regions -/
theorem runBody_no_nameError (sub : Bool) (L : Locals) (ret : Name) (wires : List Name) (flags : List Bool) (reads ps : List Name)
    (hsub : ∀ p ∈ reads, p ∈ ps) (n : Name) :
    runBody sub L ret wires flags reads ps ≠ .error (.nameError n) := by
  have hb : ∀ p ∈ reads, ∃ v, ((L.q, Val.text) :: (selfName, Val.selfV) :: (bindArgs 0 ps ++ [(kwargsName, Val.kwargsV)]) : Env).lookup p = some v := by
    intro p hp
    by_cases e1 : p = L.q
    · exact ⟨.text, by simp [List.lookup, e1]⟩
    · rw [lookup_cons_ne _ _ _ _ e1]
      by_cases e2 : p = selfName
      · exact ⟨.selfV, by simp [List.lookup, e2]⟩
      · have := env0_lookup_some p ps e2 (hsub p hp)
        simpa [env0] using this
  obtain ⟨vals, hvals⟩ := readAll_ok_of_bound _ reads hb
  have hq' : ∀ (x : Val) (env : Env), ∃ v, lookupVal ((L.v, x) :: (L.q, Val.text) :: env) L.q = .ok v := by
    intro x env
    by_cases e : L.q = L.v
    · exact ⟨x, by simp [lookupVal, List.lookup, e]⟩
    · have : (L.q == L.v) = false := by simpa using e
      exact ⟨.text, by simp [lookupVal, List.lookup, this]⟩
  intro h
  unfold runBody at h
  cases hg : ((selfName, Val.selfV) :: (bindArgs 0 ps ++ [(kwargsName, Val.kwargsV)]) : Env).lookup gqlName with
  | some x => simp [hg] at h
  | none =>
  simp only [hg, hvals] at h
  split at h
  · exact absurd h (by simp)
  · obtain ⟨q, hq⟩ := hq' (Val.dict wires (applySer flags vals)) ((selfName, Val.selfV) :: (bindArgs 0 ps ++ [(kwargsName, Val.kwargsV)]))
    simp only [hq, lookupVal_head] at h
    cases sub
    · simp only [Bool.false_eq_true, if_false, validateWith] at h
      split at h
      · rename_i x e heq
        injection h with h'
        subst h'
        split at heq <;> simp at heq
      · exact absurd h (by simp)
    · simp only [if_true, validateWith] at h
      split at h
      · rename_i x e heq
        injection h with h'
        subst h'
        split at heq <;> simp at heq
      · exact absurd h (by simp)

/-! ## B. class scope -/

theorem itemKeys_append (a b : List Item) : itemKeys (a ++ b) = itemKeys a ++ itemKeys b := by
  induction a with
  | nil => rfl
  | cons x a ih => cases x <;> simp [itemKeys, ih]

theorem itemBases_append (a b : List Item) : itemBases (a ++ b) = itemBases a ++ itemBases b := by
  induction a with
  | nil => rfl
  | cons x a ih => cases x <;> simp [itemBases, ih]

theorem itemFieldNames_append (a b : List Item) : itemFieldNames (a ++ b) = itemFieldNames a ++ itemFieldNames b := by
  induction a with
  | nil => rfl
  | cons x a ih => cases x <;> simp [itemFieldNames, ih]

mutual
  /-- a class without base classes declares every effective key itself -/
  theorem effectiveSel_of_no_bases (e : TypeEnv) : ∀ (root : Name) (s : Sel) (items : List Item),
      resolveSel e root s = .ok items → itemBases items = [] → effectiveSel e root s = .ok (itemKeys items)
    | root, .field a n, items, h, _ => by
      simp only [resolveSel, Except.ok.injEq] at h
      subst h; simp [effectiveSel, itemKeys]
    | root, .inline cond sub, items, h, hb => by
      simp only [resolveSel] at h
      simp only [effectiveSel]
      cases hr : inlineRoot e cond root with
      | none => simp only [hr, Except.ok.injEq] at h; subst h; simp [itemKeys]
      | some rt => simp only [hr] at h; exact effectiveSels_of_no_bases e rt sub items h hb
    | root, .spread f cond sub, items, h, hb => by
      simp only [resolveSel] at h
      simp only [effectiveSel]
      cases hk1 : e.known root <;> simp only [hk1, Bool.not_true, Bool.not_false, if_true, Bool.false_eq_true, if_false] at h ⊢
      · exact absurd h (by simp)
      cases hk2 : e.known cond <;> simp only [hk2, Bool.not_true, Bool.not_false, if_true, Bool.false_eq_true, if_false] at h ⊢
      · exact absurd h (by simp)
      cases h3 : unpackFragment e cond sub root <;> simp only [h3, Bool.not_true, Bool.not_false, if_true, Bool.false_eq_true, if_false] at h ⊢
      · simp only [Except.ok.injEq] at h
        subst h; simp [itemBases] at hb
      cases h4 : spreadTaken e cond root <;> simp only [h4, if_true, Bool.false_eq_true, if_false] at h ⊢
      · simp only [Except.ok.injEq] at h
        subst h; simp [itemKeys]
      · exact effectiveSels_of_no_bases e root sub items h hb
  theorem effectiveSels_of_no_bases (e : TypeEnv) : ∀ (root : Name) (ss : List Sel) (items : List Item),
      resolveSels e root ss = .ok items → itemBases items = [] → effectiveSels e root ss = .ok (itemKeys items)
    | root, [], items, h, _ => by
      simp only [resolveSels, Except.ok.injEq] at h
      subst h; simp [effectiveSels, itemKeys]
    | root, s :: ss, items, h, hb => by
      simp only [resolveSels] at h
      cases h1 : resolveSel e root s with
      | error x => simp [h1] at h
      | ok a =>
        cases h2 : resolveSels e root ss with
        | error x => simp [h1, h2] at h
        | ok b =>
          simp only [h1, h2, Except.ok.injEq] at h
          subst h
          rw [itemBases_append, List.append_eq_nil_iff] at hb
          simp [effectiveSels, effectiveSel_of_no_bases e root s a h1 hb.1,
            effectiveSels_of_no_bases e root ss b h2 hb.2, itemKeys_append]
end

mutual
  /-- inside the region where nothing is dropped, the class and its bases carry GraphQL's collected keys -/
  theorem effectiveSel_eq_collect (e : TypeEnv) (T : Name) : ∀ (root : Name) (s : Sel),
      noDropSel e T root s = true → effectiveSel e root s = .ok (collectSel e T s)
    | root, .field a n, _ => by simp [effectiveSel, collectSel]
    | root, .inline cond sub, h => by
      simp only [noDropSel] at h
      simp only [effectiveSel, collectSel]
      cases hr : inlineRoot e cond root with
      | none =>
        simp only [hr, Bool.not_eq_true'] at h
        simp [h]
      | some rt =>
        simp only [hr, Bool.and_eq_true] at h
        simp [h.1, effectiveSels_eq_collect e T rt sub h.2]
    | root, .spread f cond sub, h => by
      simp only [noDropSel, Bool.and_eq_true] at h
      obtain ⟨⟨hk1, hk2⟩, h⟩ := h
      simp only [effectiveSel, collectSel, hk1, hk2, Bool.not_true, Bool.false_eq_true, if_false]
      cases h3 : unpackFragment e cond sub root <;> simp only [h3, Bool.not_true, Bool.not_false, if_true, Bool.false_eq_true, if_false] at h ⊢
      · simp only [Bool.and_eq_true] at h
        simp [h.1, effectiveSels_eq_collect e T cond sub h.2]
      cases h4 : spreadTaken e cond root <;> simp only [h4, if_true, Bool.false_eq_true, if_false] at h ⊢
      · simp only [Bool.not_eq_true'] at h
        simp [h]
      · simp only [Bool.and_eq_true] at h
        simp [h.1, effectiveSels_eq_collect e T root sub h.2]
  theorem effectiveSels_eq_collect (e : TypeEnv) (T : Name) : ∀ (root : Name) (ss : List Sel),
      noDropSels e T root ss = true → effectiveSels e root ss = .ok (collectSels e T ss)
    | root, [], _ => by simp [effectiveSels, collectSels]
    | root, s :: ss, h => by
      simp only [noDropSels, Bool.and_eq_true] at h
      simp [effectiveSels, collectSels, effectiveSel_eq_collect e T root s h.1,
        effectiveSels_eq_collect e T root ss h.2]
end

end Ariadne.NameScopes
