/-
  C15: `ShorterResultsPlugin.generate_client_module` on the assembled client module, method by method and as a
  whole: what each method becomes (untouched, or projected on the single field of its result class), which
  names end up imported, and the shape of the module that comes out.
-/
import AriadneModel.Proofs.C15ShorterModule
import AriadneModel.Proofs.C15Shape
import AriadneModel.Model.PluginFindings

set_option linter.unusedSimpArgs false
set_option linter.unusedVariables false

namespace Ariadne.C15
open Ariadne Ariadne.Py Ariadne.Plugins Ariadne.ClientSem

/-! ### one method: untouched, or rewritten from `_return_or_yield_node_and_class` of its return class -/

/-- `m'` is `m` with the return annotation replaced by the unwrapped field annotation and `.f` appended to the
    returned / yielded expression -/
structure Rewritten (m m' : Method) (node : Ex) (f : String) : Prop where
  name : m'.name = m.name
  args : m'.args = m.args
  rest : m'.rest = m.rest
  isAsync : m'.isAsync = m.isAsync
  returns : (∃ cls, m.returns = some (.name cls) ∧ m'.returns = some node) ∨
    (∃ a cls, m.returns = some (.sub a (.name cls)) ∧ m'.returns = some (.sub (.name "AsyncIterator") node))
  body : ∀ s, m.body = bodyOf s → m'.body = bodyOf (shorterShape s f)

theorem dropLast_append_of_bodyOf (s : Shape) : (bodyOf s).dropLast = bodyPre s := bodyOf_dropLast s

theorem shorterModifyMethod_cases (st st' : ShorterState) (m m' : Method)
    (h : shorterModifyMethod st m = .ok (st', m')) :
    (st' = st ∧ m' = m) ∨
    (∃ cls node classes f, returnClassOf m = some cls ∧ nodeAndClass st.classDict cls = .ok (some (node, classes, f)) ∧
      st' = shorterUpdateImports st m.name classes ∧ Rewritten m m' node f) := by
  have same : ∀ {x : Method}, (pure (st, x) : M (ShorterState × Method)) = .ok (st', m') → st' = st ∧ m' = x := by
    intro x hh; simp [pure, Except.pure] at hh; exact ⟨hh.1.symm, hh.2.symm⟩
  unfold shorterModifyMethod at h
  split at h
  · rename_i v hlast
    unfold shorterQueryMutation at h
    split at h
    · rename_i value id hret
      cases hn : nodeAndClass st.classDict id with
      | error e => rw [hn] at h; cases h
      | ok x =>
        rw [hn] at h
        cases x with
        | none => exact .inl (same h)
        | some t =>
          obtain ⟨node, classes, f⟩ := t
          simp only [bind_ok, pure_eq_ok, Except.ok.injEq, Prod.mk.injEq] at h
          obtain ⟨h1, h2⟩ := h
          right
          refine ⟨id, node, classes, f, by simp [returnClassOf, hret], hn, h1.symm, ?_⟩
          subst h2
          refine ⟨rfl, rfl, rfl, rfl, .inl ⟨id, hret, rfl⟩, ?_⟩
          intro s hb
          simp only
          rw [hb, bodyOf_getLast] at hlast
          cases ht : s.tail with
          | call aw r d =>
            simp only [lastStmt, ht, Option.some.injEq, Stmt.simple.injEq, Simple.ret.injEq] at hlast
            subst hlast
            rw [shorterShape_body_call s f aw r d ht, hb, bodyOf_dropLast]
          | sub d l o =>
            simp [lastStmt, ht] at hlast
    · exact .inl (same h)
  · rename_i target iter body isList orelse hlast
    unfold shorterSubscription at h
    split at h
    · rename_i a id hret
      cases hn : nodeAndClass st.classDict id with
      | error e => rw [hn] at h; cases h
      | ok x =>
        rw [hn] at h
        cases x with
        | none => exact .inl (same h)
        | some t =>
          obtain ⟨node, classes, f⟩ := t
          simp only [bind_ok] at h
          split at h
          · cases h
          · rename_i hlist
            split at h
            · rename_i prev rest
              simp only [pure_eq_ok, Except.ok.injEq, Prod.mk.injEq] at h
              obtain ⟨h1, h2⟩ := h
              right
              refine ⟨id, node, classes, f, by simp [returnClassOf, hret], hn, h1.symm, ?_⟩
              subst h2
              refine ⟨rfl, rfl, rfl, rfl, .inr ⟨a, id, hret, rfl⟩, ?_⟩
              intro s hb
              simp only
              rw [hb, bodyOf_getLast] at hlast
              cases ht : s.tail with
              | call aw r d => simp [lastStmt, ht] at hlast
              | sub d l o =>
                simp only [lastStmt, ht, Option.some.injEq, Stmt.asyncFor.injEq] at hlast
                obtain ⟨rfl, rfl, hbody, rfl, rfl⟩ := hlast
                simp only [List.cons.injEq, Simple.expr.injEq, Ex.yield.injEq] at hbody
                obtain ⟨rfl, rfl⟩ := hbody
                rw [shorterShape_body_sub s f d l o ht, hb, bodyOf_dropLast]
            · exact .inl (same h)
    · exact .inl (same h)
  · exact .inl (same h)

/-! ### `extended_imports` through the walk over the methods -/

def Covered (ext : List (String × List String)) (cl : String) : Prop :=
  ∃ src names, alookup src ext = some names ∧ cl ∈ names

def ExtWithin (srcs pool : List String) (ext : List (String × List String)) : Prop :=
  ∀ x ∈ ext, x.1 ∈ srcs ∧ ∀ n ∈ x.2, n ∈ pool

theorem mem_aset {β} (k : String) (v : β) (d : List (String × β)) (x : String × β) (h : x ∈ aset k v d) :
    x = (k, v) ∨ x ∈ d := by
  induction d with
  | nil => simp [aset] at h; exact .inl h
  | cons kv rest ih =>
    obtain ⟨k2, v2⟩ := kv
    by_cases h2 : k2 = k
    · simp [aset, h2] at h
      rcases h with h | h
      · exact .inl h
      · exact .inr (by simp [h])
    · simp [aset, h2] at h
      rcases h with h | h
      · exact .inr (by simp [h])
      · rcases ih h with h' | h'
        · exact .inl h'
        · exact .inr (by simp [h'])

/-- one class name handed to `_update_imports` -/
def updOne (st : ShorterState) (methodName : String) (c : String) : ShorterState :=
  let src? : Option String :=
    match alookup c st.importedTypes with
    | some f => some f
    | none => if ahas c st.classDict then some methodName else none
  match src? with
  | none => st
  | some src =>
    let cur := (alookup src st.extendedImports).getD []
    { st with extendedImports := aset src (sadd c cur) st.extendedImports }

theorem shorterUpdateImports_eq (st : ShorterState) (n : String) (classes : List String) :
    shorterUpdateImports st n classes = classes.foldl (fun st c => updOne st n c) st := rfl

theorem updOne_readOnly (st : ShorterState) (n c : String) : (updOne st n c).readOnly = st.readOnly := by
  unfold updOne
  simp only
  split <;> rfl

theorem updOne_covered_mono (st : ShorterState) (n c cl : String) (h : Covered st.extendedImports cl) :
    Covered (updOne st n c).extendedImports cl := by
  unfold updOne
  simp only
  split
  · exact h
  · rename_i src _
    obtain ⟨s0, names, hl, hcl⟩ := h
    by_cases hs : src = s0
    · subst hs
      refine ⟨src, _, alookup_aset_self src _ _, ?_⟩
      rw [hl]
      simp only [Option.getD_some]
      exact (mem_sadd c cl names).mpr (.inl hcl)
    · exact ⟨s0, names, by rw [alookup_aset_other src s0 _ _ hs]; exact hl, hcl⟩

theorem updOne_covers (st : ShorterState) (n c : String)
    (h : ahas c st.importedTypes = true ∨ ahas c st.classDict = true) : Covered (updOne st n c).extendedImports c := by
  unfold updOne
  simp only
  have hsome : ∃ src, (match alookup c st.importedTypes with
      | some f => some f
      | none => if ahas c st.classDict then some n else none) = some src := by
    cases hl : alookup c st.importedTypes with
    | some f => exact ⟨f, rfl⟩
    | none =>
      rcases h with h | h
      · simp [ahas, hl] at h
      · exact ⟨n, by simp [h]⟩
  obtain ⟨src, hsrc⟩ := hsome
  rw [hsrc]
  simp only
  exact ⟨src, _, alookup_aset_self src _ _, (mem_sadd c c _).mpr (.inr rfl)⟩

theorem updOne_within (srcs pool : List String) (st : ShorterState) (n c : String)
    (hn : n ∈ srcs) (hit : ∀ v, alookup c st.importedTypes = some v → v ∈ srcs) (hc : c ∈ pool)
    (h : ExtWithin srcs pool st.extendedImports) : ExtWithin srcs pool (updOne st n c).extendedImports := by
  unfold updOne
  simp only
  split
  · exact h
  · rename_i src hsrc
    have hsrcs : src ∈ srcs := by
      cases hl : alookup c st.importedTypes with
      | some f => rw [hl] at hsrc; simp at hsrc; subst hsrc; exact hit f hl
      | none =>
        rw [hl] at hsrc
        simp only at hsrc
        split at hsrc
        · simp at hsrc; subst hsrc; exact hn
        · cases hsrc
    intro x hx
    rcases mem_aset src _ _ x hx with rfl | hx'
    · refine ⟨hsrcs, ?_⟩
      intro a ha
      rcases (mem_sadd c a _).mp ha with ha' | rfl
      · cases hl : alookup src st.extendedImports with
        | none => rw [hl] at ha'; simp at ha'
        | some names =>
          rw [hl] at ha'
          simp only [Option.getD_some] at ha'
          exact (h (src, names) (mem_of_alookup src names _ hl)).2 a ha'
      · exact hc
    · exact h x hx'

theorem foldl_updOne (n : String) : ∀ (classes : List String) (st : ShorterState),
    ((classes.foldl (fun st c => updOne st n c) st).readOnly = st.readOnly) ∧
    (∀ cl, Covered st.extendedImports cl → Covered (classes.foldl (fun st c => updOne st n c) st).extendedImports cl) ∧
    (∀ c ∈ classes, (ahas c st.importedTypes = true ∨ ahas c st.classDict = true) →
      Covered (classes.foldl (fun st c => updOne st n c) st).extendedImports c) ∧
    (∀ srcs pool, n ∈ srcs → (∀ c ∈ pool, ∀ v, alookup c st.importedTypes = some v → v ∈ srcs) → (∀ c ∈ classes, c ∈ pool) →
      ExtWithin srcs pool st.extendedImports →
      ExtWithin srcs pool (classes.foldl (fun st c => updOne st n c) st).extendedImports) := by
  intro classes
  induction classes with
  | nil => intro st; exact ⟨rfl, fun _ h => h, fun c hc => by simp at hc, fun _ _ _ _ _ h => h⟩
  | cons c rest ih =>
    intro st
    simp only [List.foldl_cons]
    obtain ⟨i1, i2, i3, i4⟩ := ih (updOne st n c)
    have hro := updOne_readOnly st n c
    have hit : (updOne st n c).importedTypes = st.importedTypes := congrArg (fun t => t.2.2) hro
    have hcd : (updOne st n c).classDict = st.classDict := congrArg (fun t => t.2.1) hro
    refine ⟨i1.trans hro, fun cl h => i2 cl (updOne_covered_mono st n c cl h), ?_, ?_⟩
    · intro c' hc' hah
      rcases List.mem_cons.mp hc' with rfl | hr
      · exact i2 _ (updOne_covers st n c' hah)
      · exact i3 c' hr (by rw [hit, hcd]; exact hah)
    · intro srcs pool hn hv hp hw
      exact i4 srcs pool hn (by rw [hit]; exact hv) (fun c' hc' => hp c' (by simp [hc']))
        (updOne_within srcs pool st n c hn (hv c (hp c (by simp))) (hp c (by simp)) hw)

/-- what the walk leaves of one method, relative to the plugin state when the walk started (`dict`,
    `importedTypes`) and to the imports collected when it ended (`ext1`) -/
def MethodOutcome (dict : List (String × ClassDef)) (it : List (String × String)) (ext1 : List (String × List String))
    (m m' : Method) : Prop :=
  m' = m ∨
  ∃ cls node classes f, returnClassOf m = some cls ∧ nodeAndClass dict cls = .ok (some (node, classes, f)) ∧
    Rewritten m m' node f ∧
    ∀ cl ∈ classes, (ahas cl it = true ∨ ahas cl dict = true) → Covered ext1 cl

theorem MethodOutcome.mono {dict it ext1 ext2 m m'} (h : MethodOutcome dict it ext1 m m')
    (hm : ∀ cl, Covered ext1 cl → Covered ext2 cl) : MethodOutcome dict it ext2 m m' := by
  rcases h with h | ⟨cls, node, classes, f, h1, h2, h3, h4⟩
  · exact .inl h
  · exact .inr ⟨cls, node, classes, f, h1, h2, h3, fun cl hcl hah => hm cl (h4 cl hcl hah)⟩

theorem shorter_methods_spec : ∀ (items : List ClassItem) (st st1 : ShorterState) (items1 : List ClassItem),
    mapMethodsM shorterModifyMethod st items = .ok (st1, items1) →
    st1.readOnly = st.readOnly ∧
    (∀ cl, Covered st.extendedImports cl → Covered st1.extendedImports cl) ∧
    ItemsRel (MethodOutcome st.classDict st.importedTypes st1.extendedImports) items items1 ∧
    (∀ srcs pool, (∀ m ∈ items.filterMap ClassItem.method?, m.name ∈ srcs) →
      (∀ c ∈ pool, ∀ v, alookup c st.importedTypes = some v → v ∈ srcs) →
      (∀ m ∈ items.filterMap ClassItem.method?, ∀ cls node classes f, returnClassOf m = some cls →
        nodeAndClass st.classDict cls = .ok (some (node, classes, f)) → ∀ cl ∈ classes, cl ∈ pool) →
      ExtWithin srcs pool st.extendedImports → ExtWithin srcs pool st1.extendedImports) := by
  intro items
  induction items with
  | nil =>
    intro st st1 items1 h
    simp [mapMethodsM, pure, Except.pure] at h
    obtain ⟨h1, h2⟩ := h
    subst h1; subst h2
    exact ⟨rfl, fun _ h => h, .nil, fun _ _ _ _ _ h => h⟩
  | cons it0 rest ih =>
    intro st st1 items1 h
    cases it0 with
    | method m =>
      simp only [mapMethodsM] at h
      cases hfm : shorterModifyMethod st m with
      | error e => rw [hfm] at h; cases h
      | ok r =>
        rw [hfm] at h
        simp only [bind_ok] at h
        cases hrest : mapMethodsM shorterModifyMethod r.1 rest with
        | error e => rw [hrest] at h; cases h
        | ok r2 =>
          rw [hrest] at h
          simp only [bind_ok, pure_eq_ok, Except.ok.injEq, Prod.mk.injEq] at h
          obtain ⟨hst, hitems⟩ := h
          subst hst; subst hitems
          obtain ⟨j1, j2, j3, j4⟩ := ih r.1 r2.1 r2.2 (by rw [hrest])
          have hro : r.1.readOnly = st.readOnly := shorterModifyMethod_readOnly st r.1 m r.2 (by rw [hfm])
          have hcd : r.1.classDict = st.classDict := congrArg (fun t => t.2.1) hro
          have hit : r.1.importedTypes = st.importedTypes := congrArg (fun t => t.2.2) hro
          rcases shorterModifyMethod_cases st r.1 m r.2 (by rw [hfm]) with ⟨e1, e2⟩ | ⟨cls, node, classes, f, c1, c2, c3, c4⟩
          · refine ⟨j1.trans hro, ?_, ?_, ?_⟩
            · intro cl hcl; apply j2; rw [e1]; exact hcl
            · refine .method (.inl e2) ?_
              rw [hcd, hit] at j3; exact j3
            · intro srcs pool hn hv hp hw
              rw [hcd, hit] at j4
              apply j4 srcs pool (fun m' hm' => hn m' (by simp [ClassItem.method?, hm'])) hv
                (fun m' hm' => hp m' (by simp [ClassItem.method?, hm']))
              rw [e1]; exact hw
          · obtain ⟨k1, k2, k3, k4⟩ := foldl_updOne m.name classes st
            rw [← shorterUpdateImports_eq, ← c3] at k1 k2 k3 k4
            refine ⟨j1.trans hro, fun cl hcl => j2 cl (k2 cl hcl), ?_, ?_⟩
            · refine .method (.inr ⟨cls, node, classes, f, c1, c2, c4, fun cl hcl hah => j2 cl (k3 cl hcl hah)⟩) ?_
              rw [hcd, hit] at j3; exact j3
            · intro srcs pool hn hv hp hw
              rw [hcd, hit] at j4
              apply j4 srcs pool (fun m' hm' => hn m' (by simp [ClassItem.method?, hm'])) hv
                (fun m' hm' => hp m' (by simp [ClassItem.method?, hm']))
              exact k4 srcs pool (hn m (by simp [ClassItem.method?])) hv
                (hp m (by simp [ClassItem.method?]) cls node classes f c1 c2) hw
    | stmt s =>
      simp only [mapMethodsM] at h
      cases hrest : mapMethodsM shorterModifyMethod st rest with
      | error e => rw [hrest] at h; cases h
      | ok r2 =>
        rw [hrest] at h
        simp only [bind_ok, pure_eq_ok, Except.ok.injEq, Prod.mk.injEq] at h
        obtain ⟨hst, hitems⟩ := h
        subst hst; subst hitems
        obtain ⟨j1, j2, j3, j4⟩ := ih st r2.1 r2.2 (by rw [hrest])
        exact ⟨j1, j2, .other j3, fun srcs pool hn hv hp hw =>
          j4 srcs pool (fun m' hm' => hn m' (by simpa [ClassItem.method?] using hm')) hv
            (fun m' hm' => hp m' (by simpa [ClassItem.method?] using hm')) hw⟩

end Ariadne.C15
