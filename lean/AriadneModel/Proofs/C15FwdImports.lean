/-
  C15: `ClientForwardRefsPlugin._update_imports` on the assembled client module — which import statements survive
  (`keepTop`), what the module binds afterwards, and where a surviving name resolves to.
-/
import AriadneModel.Proofs.C15FwdModule

set_option linter.unusedSimpArgs false
set_option linter.unusedVariables false

namespace Ariadne.C15
open Ariadne Ariadne.Py Ariadne.Plugins Ariadne.ClientSem

/-- what `_update_existing_imports` keeps of one statement -/
def keepTop (drop : List String) : Top → Option Top
  | .simple (.import_ d) => some (.simple (.import_ d))
  | .simple (.importFrom imp) =>
    if (imp.names.filter (fun n => !drop.contains n.1)).isEmpty then none
    else some (.simple (.importFrom { imp with names := imp.names.filter (fun n => !drop.contains n.1) }))
  | _ => none

theorem scanStep_keep (drop : List String) (acc : List Top × Nat) (i : Nat) (t : Top) :
    (scanStep drop acc i t).1 = acc.1 ++ (match keepTop drop t with | some t' => [t'] | none => []) := by
  cases t with
  | simple sm =>
    cases sm with
    | importFrom imp =>
      simp only [scanStep, keepTop]
      split <;> simp
    | import_ d => simp [scanStep, keepTop]
    | assign _ _ => simp [scanStep, keepTop]
    | assignList _ _ => simp [scanStep, keepTop]
    | annAssign _ _ _ => simp [scanStep, keepTop]
    | ret _ => simp [scanStep, keepTop]
    | expr _ => simp [scanStep, keepTop]
    | other _ _ => simp [scanStep, keepTop]
  | classDef _ => simp [scanStep, keepTop]
  | funcDef _ => simp [scanStep, keepTop]
  | ifStmt _ _ _ => simp [scanStep, keepTop]

theorem scan_filterMap (drop : List String) : ∀ (xs : List Top) (i : Nat) (acc : List Top × Nat),
    (fwdScanImports drop xs i acc).1 = acc.1 ++ xs.filterMap (keepTop drop) := by
  intro xs
  induction xs with
  | nil => intro i acc; obtain ⟨k, l⟩ := acc; simp [fwdScanImports]
  | cons t rest ih =>
    intro i acc
    rw [scan_cons, ih, scanStep_keep]
    cases hk : keepTop drop t with
    | none => simp [hk]
    | some t' => simp [hk, List.append_assoc]

def AllImp (pre : List Top) : Prop := ∀ t ∈ pre, isImp t = true

theorem scan_last (drop : List String) : ∀ (xs : List Top) (i : Nat) (acc : List Top × Nat), AllImp xs → xs ≠ [] →
    (fwdScanImports drop xs i acc).2 + 1 = i + xs.length := by
  intro xs
  induction xs with
  | nil => intro i acc _ h; exact absurd rfl h
  | cons t rest ih =>
    intro i acc hall _
    rw [scan_cons]
    have ht := hall t (by simp)
    obtain ⟨hl, _⟩ := scanStep_imp drop acc i t ht
    cases rest with
    | nil =>
      simp only [fwdScanImports, List.length_cons, List.length_nil]
      generalize scanStep drop acc i t = r at hl
      obtain ⟨k, l⟩ := r
      simp only at hl
      simp [fwdScanImports, hl]
    | cons u rest' =>
      rw [ih (i + 1) _ (fun x hx => hall x (by simp [hx])) (by simp)]
      simp only [List.length_cons]
      omega

/-- no import statement renames what it imports -/
def NoAs (pre : List Top) : Prop := ∀ t ∈ pre, ∀ i, t = Top.simple (.importFrom i) → ∀ nm ∈ i.names, nm.2 = none

theorem keep_names (drop : List String) : ∀ (pre : List Top), AllImp pre → NoAs pre → ∀ n, n ∈ namesOfTops pre → n ∉ drop →
    n ∈ namesOfTops (pre.filterMap (keepTop drop)) := by
  intro pre
  induction pre with
  | nil => intro _ _ n h; simp [namesOfTops, moduleNames] at h
  | cons t rest ih =>
    intro hall hno n hn hnd
    rw [namesOfTops_cons] at hn
    have hrest : NoAs rest := fun u hu => hno u (by simp [hu])
    have hallr : AllImp rest := fun u hu => hall u (by simp [hu])
    have ht := hall t (by simp)
    simp only [List.filterMap_cons]
    rcases List.mem_append.mp hn with h | h
    · -- bound by this statement: it is an import statement
      cases t with
      | simple sm =>
        cases sm with
        | importFrom imp =>
          rw [namesOf_import] at h
          obtain ⟨nm, hnm, hbound⟩ := List.mem_map.mp h
          have hnone := hno _ (by simp) imp rfl nm hnm
          rw [hnone] at hbound
          simp only [Option.getD_none] at hbound
          have hkeep : nm ∈ imp.names.filter (fun n => !drop.contains n.1) := by
            rw [List.mem_filter]
            refine ⟨hnm, ?_⟩
            rw [hbound]
            simpa using hnd
          have hne : (imp.names.filter (fun n => !drop.contains n.1)).isEmpty = false := by
            cases hf : imp.names.filter (fun n => !drop.contains n.1) with
            | nil => rw [hf] at hkeep; cases hkeep
            | cons _ _ => rfl
          simp only [keepTop, hne, Bool.false_eq_true, ↓reduceIte]
          rw [namesOfTops_cons]
          apply List.mem_append_left
          rw [namesOf_import]
          exact List.mem_map.mpr ⟨nm, hkeep, by rw [hnone]; exact hbound⟩
        | import_ d => simp [namesOfTops, moduleNames] at h
        | assign a b => simp [isImp] at ht
        | assignList a b => simp [isImp] at ht
        | annAssign a b v => simp [isImp] at ht
        | ret v => simp [isImp] at ht
        | expr v => simp [isImp] at ht
        | other a b => simp [isImp] at ht
      | classDef c => simp [isImp] at ht
      | funcDef f => simp [isImp] at ht
      | ifStmt a b o => simp [isImp] at ht
    · have := ih hallr hrest n h hnd
      cases hk : keepTop drop t with
      | none => simpa [hk] using this
      | some t' => simp only [hk]; rw [namesOfTops_cons]; exact List.mem_append_right _ this

/-- a surviving name resolves to what it resolved to before -/
theorem keep_bindings (drop : List String) : ∀ (pre : List Top), NoAs pre → ∀ n, n ∉ drop →
    alookup n (importBindings (importsOfTops (pre.filterMap (keepTop drop)))) = alookup n (importBindings (importsOfTops pre)) := by
  intro pre
  induction pre with
  | nil => intro _ n _; rfl
  | cons t rest ih =>
    intro hno n hnd
    have hrest : NoAs rest := fun u hu => hno u (by simp [hu])
    have e0 : importsOfTops (t :: rest) = importsOfTops [t] ++ importsOfTops rest := importsOfTops_append [t] rest
    rw [e0, importBindings_append, alookup_append]
    simp only [List.filterMap_cons]
    have key : ∀ (tk : Option Top), keepTop drop t = tk →
        alookup n (importBindings (importsOfTops (match tk with | some t' => [t'] | none => []))) =
          alookup n (importBindings (importsOfTops [t])) := by
      intro tk htk
      cases t with
      | simple sm =>
        cases sm with
        | importFrom imp =>
          simp only [keepTop] at htk
          have hent : ∀ (names : List (String × Option String)), (∀ nm ∈ names, nm.2 = none) →
              alookup n (importBindings [({ imp with names := names.filter (fun n => !drop.contains n.1) } : ImportFrom)]) =
                alookup n (importBindings [({ imp with names := names } : ImportFrom)]) := by
            intro names hnm
            simp only [importBindings, List.flatMap_cons, List.flatMap_nil, List.append_nil]
            cases hm : imp.module with
            | none => rfl
            | some mname =>
              simp only
              induction names with
              | nil => rfl
              | cons a as iha =>
                have ha := hnm a (by simp)
                have has : ∀ nm ∈ as, nm.2 = none := fun nm h => hnm nm (by simp [h])
                by_cases hd : drop.contains a.1 = true
                · have hne : a.1 ≠ n := by
                    intro hc; rw [hc] at hd; exact hnd (by simpa using hd)
                  simp only [List.filter_cons, hd, Bool.not_true, Bool.false_eq_true, ↓reduceIte, List.map_cons, alookup, ha,
                    Option.getD_none, hne]
                  exact iha has
                · simp only [List.filter_cons, hd, Bool.not_false, ↓reduceIte, List.map_cons, alookup, ha, Option.getD_none]
                  by_cases hk : a.1 = n
                  · simp [hk]
                  · simp only [hk, ↓reduceIte]; exact iha has
          have hnames := hno _ (by simp) imp rfl
          split at htk
          · rename_i hemp
            subst htk
            have := hent imp.names hnames
            have hnil : ({ imp with names := imp.names.filter (fun n => !drop.contains n.1) } : ImportFrom) =
                { imp with names := [] } := by
              have : imp.names.filter (fun n => !drop.contains n.1) = [] := by simpa using hemp
              rw [this]
            rw [hnil] at this
            have h0 : alookup n (importBindings [({ imp with names := [] } : ImportFrom)]) = none := by
              simp only [importBindings, List.flatMap_cons, List.flatMap_nil, List.append_nil]
              cases imp.module <;> rfl
            rw [h0] at this
            show alookup n (importBindings (importsOfTops [])) = alookup n (importBindings (importsOfTops [Top.simple (.importFrom imp)]))
            simp only [importsOfTops, List.filterMap_nil, List.filterMap_cons, Top.importFrom?]
            rw [← this]
            rfl
          · subst htk
            have := hent imp.names hnames
            simp only [importsOfTops, List.filterMap_nil, List.filterMap_cons, Top.importFrom?]
            exact this
        | import_ d => simp only [keepTop] at htk; subst htk; rfl
        | assign _ _ => simp only [keepTop] at htk; subst htk; rfl
        | assignList _ _ => simp only [keepTop] at htk; subst htk; rfl
        | annAssign _ _ _ => simp only [keepTop] at htk; subst htk; rfl
        | ret _ => simp only [keepTop] at htk; subst htk; rfl
        | expr _ => simp only [keepTop] at htk; subst htk; rfl
        | other _ _ => simp only [keepTop] at htk; subst htk; rfl
      | classDef _ => simp only [keepTop] at htk; subst htk; rfl
      | funcDef _ => simp only [keepTop] at htk; subst htk; rfl
      | ifStmt _ _ _ => simp only [keepTop] at htk; subst htk; rfl
    have hk := key (keepTop drop t) rfl
    cases hkt : keepTop drop t with
    | none =>
      rw [hkt] at hk
      simp only at hk ⊢
      rw [← hk, ih hrest n hnd]
      rfl
    | some t' =>
      rw [hkt] at hk
      simp only at hk ⊢
      have e1 : importsOfTops (t' :: rest.filterMap (keepTop drop)) = importsOfTops [t'] ++ importsOfTops (rest.filterMap (keepTop drop)) :=
        importsOfTops_append [t'] _
      rw [e1, importBindings_append, alookup_append, hk, ih hrest n hnd]

/-- a surviving import statement imports from where it imported from -/
theorem keep_provenance (drop : List String) (pre : List Top) (i' : ImportFrom)
    (h : i' ∈ importsOfTops (pre.filterMap (keepTop drop))) : ∃ i ∈ importsOfTops pre, i'.module = i.module ∧ i'.level = i.level := by
  unfold importsOfTops at h ⊢
  simp only [List.mem_filterMap] at h ⊢
  obtain ⟨t', ⟨t, ht, hkt⟩, hi'⟩ := h
  cases t with
  | simple sm =>
    cases sm with
    | importFrom imp =>
      simp only [keepTop] at hkt
      split at hkt
      · cases hkt
      · simp only [Option.some.injEq] at hkt
        subst hkt
        simp only [Top.importFrom?, Option.some.injEq] at hi'
        subst hi'
        exact ⟨imp, ⟨_, ht, rfl⟩, rfl, rfl⟩
    | import_ d => simp only [keepTop, Option.some.injEq] at hkt; subst hkt; simp [Top.importFrom?] at hi'
    | assign _ _ => simp [keepTop] at hkt
    | assignList _ _ => simp [keepTop] at hkt
    | annAssign _ _ _ => simp [keepTop] at hkt
    | ret _ => simp [keepTop] at hkt
    | expr _ => simp [keepTop] at hkt
    | other _ _ => simp [keepTop] at hkt
  | classDef _ => simp [keepTop] at hkt
  | funcDef _ => simp [keepTop] at hkt
  | ifStmt _ _ _ => simp [keepTop] at hkt

theorem keep_isImp (drop : List String) (pre : List Top) (t' : Top) (h : t' ∈ pre.filterMap (keepTop drop)) : isImp t' = true := by
  simp only [List.mem_filterMap] at h
  obtain ⟨t, _, hkt⟩ := h
  cases t with
  | simple sm =>
    cases sm with
    | importFrom imp =>
      simp only [keepTop] at hkt
      split at hkt
      · cases hkt
      · simp only [Option.some.injEq] at hkt; subst hkt; rfl
    | import_ d => simp only [keepTop, Option.some.injEq] at hkt; subst hkt; rfl
    | assign _ _ => simp [keepTop] at hkt
    | assignList _ _ => simp [keepTop] at hkt
    | annAssign _ _ _ => simp [keepTop] at hkt
    | ret _ => simp [keepTop] at hkt
    | expr _ => simp [keepTop] at hkt
    | other _ _ => simp [keepTop] at hkt
  | classDef _ => simp [keepTop] at hkt
  | funcDef _ => simp [keepTop] at hkt
  | ifStmt _ _ _ => simp [keepTop] at hkt

end Ariadne.C15
