/-
  C16 — graphql-core's type collection (Spec/GqlCollect.lean) keeps the user's types in the order
  of the `types` argument: `typeMapOrder_user`.  The walk only ever APPENDS names that are not yet in
  the set (`collect_ext`), every user type is in the set from the start, so whatever is appended
  besides the type being re-added is not a user type.
-/
import AriadneModel.Spec.GqlCollect

set_option linter.unusedSimpArgs false
set_option linter.unusedVariables false

namespace Ariadne.GqlCollectProofs
open Ariadne.Schema Ariadne.GqlCollect

/-- a step that only appends new names -/
def Extends (f : List Name → Name → List Name) : Prop :=
  ∀ set n, ∃ extra, f set n = set ++ extra ∧ ∀ x ∈ extra, x ∉ set

theorem foldl_ext {f : List Name → Name → List Name} (hf : Extends f) :
    ∀ (ns set : List Name), ∃ extra, ns.foldl f set = set ++ extra ∧ ∀ x ∈ extra, x ∉ set := by
  intro ns
  induction ns with
  | nil => intro set; exact ⟨[], by simp, by simp⟩
  | cons n ns ih =>
    intro set
    obtain ⟨e1, h1, d1⟩ := hf set n
    obtain ⟨e2, h2, d2⟩ := ih (set ++ e1)
    refine ⟨e1 ++ e2, ?_, ?_⟩
    · simp only [List.foldl_cons, h1, h2, List.append_assoc]
    · intro x hx
      rcases List.mem_append.mp hx with hx | hx
      · exact d1 x hx
      · intro hs
        exact d2 x hx (List.mem_append.mpr (Or.inl hs))

theorem collect_ext (refs : Name → List Name) : ∀ fuel, Extends (collect refs fuel) := by
  intro fuel
  induction fuel with
  | zero => intro set n; exact ⟨[], by simp [collect], by simp⟩
  | succ fuel ih =>
    intro set n
    by_cases hc : set.contains n = true
    · have hm : n ∈ set := List.contains_iff_mem.mp hc
      exact ⟨[], by simp [collect, hm], by simp⟩
    · obtain ⟨e, he, hd⟩ := foldl_ext ih (refs n) (set ++ [n])
      refine ⟨n :: e, ?_, ?_⟩
      · simp only [collect, hc, if_false, Bool.false_eq_true]
        rw [he]; simp
      · intro x hx
        rcases List.mem_cons.mp hx with rfl | hx
        · intro hs; exact hc (List.contains_iff_mem.mpr hs)
        · intro hs; exact hd x hx (List.mem_append.mpr (Or.inl hs))

/-- a name that is not in the set is appended first, then whatever it references and is new -/
theorem collect_new (refs : Name → List Name) (fuel : Nat) (set : List Name) (n : Name) (hn : n ∉ set) :
    ∃ e, collect refs (fuel + 1) set n = set ++ n :: e ∧ ∀ x ∈ e, x ∉ set ∧ x ≠ n := by
  have hc : ¬ set.contains n = true := fun h => hn (List.contains_iff_mem.mp h)
  obtain ⟨e, he, hd⟩ := foldl_ext (collect_ext refs fuel) (refs n) (set ++ [n])
  refine ⟨e, ?_, ?_⟩
  · simp only [collect, hc, if_false, Bool.false_eq_true]
    rw [he]; simp
  · intro x hx
    have := hd x hx
    constructor
    · intro hs; exact this (List.mem_append.mpr (Or.inl hs))
    · intro e'; subst e'; exact this (by simp)

/-- appending names outside `U` does not change the `U`-part -/
theorem filter_append_outside (U : List Name) (set extra : List Name) (h : ∀ x ∈ extra, x ∉ U) :
    (set ++ extra).filter (fun n => U.contains n) = set.filter (fun n => U.contains n) := by
  rw [List.filter_append]
  have : extra.filter (fun n => U.contains n) = [] := by
    rw [List.filter_eq_nil_iff]
    intro x hx hc
    exact h x hx (List.contains_iff_mem.mp hc)
  rw [this, List.append_nil]

/-- once every user type is in the set, further collection leaves the user part alone -/
theorem collect_keeps (refs : Name → List Name) (U : List Name) (fuel : Nat) (set : List Name) (n : Name)
    (hU : ∀ u ∈ U, u ∈ set) :
    (collect refs fuel set n).filter (fun n => U.contains n) = set.filter (fun n => U.contains n) ∧
    ∀ u ∈ U, u ∈ collect refs fuel set n := by
  obtain ⟨e, he, hd⟩ := collect_ext refs fuel set n
  rw [he]
  exact ⟨filter_append_outside U set e (fun x hx hxU => hd x hx (hU x hxU)),
         fun u hu => List.mem_append.mpr (Or.inl (hU u hu))⟩

theorem collectAll_keeps (refs : Name → List Name) (U : List Name) (fuel : Nat) :
    ∀ (ns set : List Name), (∀ u ∈ U, u ∈ set) →
      (collectAll refs fuel set ns).filter (fun n => U.contains n) = set.filter (fun n => U.contains n) ∧
      ∀ u ∈ U, u ∈ collectAll refs fuel set ns := by
  intro ns
  induction ns with
  | nil => intro set hU; exact ⟨rfl, hU⟩
  | cons n ns ih =>
    intro set hU
    have ⟨h1, h2⟩ := collect_keeps refs U (fuel + 1) set n hU
    have ⟨h3, h4⟩ := ih (collect refs (fuel + 1) set n) h2
    refine ⟨?_, h4⟩
    simp only [collectAll, List.foldl_cons] at h3 ⊢
    rw [h3, h1]

/-- the loop over `types`: each type is moved behind everything collected so far, in turn -/
theorem processTypes_user (refs : Name → List Name) (U : List Name) (fuel : Nat) :
    ∀ (todo done : List Name), todo.Nodup → (∀ x ∈ todo, x ∉ done) →
      (∀ u ∈ U, u ∈ todo ∨ u ∈ done) →
      (processTypes refs fuel todo (todo ++ done)).filter (fun n => U.contains n) =
        done.filter (fun n => U.contains n) ++ todo.filter (fun n => U.contains n) := by
  intro todo
  induction todo with
  | nil => intro done _ _ _; simp [processTypes]
  | cons t rest ih =>
    intro done hnd hdis hall
    have htr : t ∉ rest := (List.nodup_cons.mp hnd).1
    have hndr : rest.Nodup := (List.nodup_cons.mp hnd).2
    have htd : t ∉ done := hdis t (by simp)
    have hset : t ∉ rest ++ done := by
      intro h; rcases List.mem_append.mp h with h | h
      · exact htr h
      · exact htd h
    obtain ⟨e, he, hd⟩ := collect_new refs fuel (rest ++ done) t hset
    have hstep : processTypes refs fuel (t :: rest) ((t :: rest) ++ done) =
        processTypes refs fuel rest (rest ++ (done ++ t :: e)) := by
      simp only [processTypes, List.cons_append, List.erase_cons_head]
      rw [he]; simp
    rw [hstep]
    have he_out : ∀ x ∈ e, x ∉ U := by
      intro x hx hxU
      rcases hall x hxU with h | h
      · rcases List.mem_cons.mp h with rfl | h
        · exact (hd x hx).2 rfl
        · exact (hd x hx).1 (List.mem_append.mpr (Or.inl h))
      · exact (hd x hx).1 (List.mem_append.mpr (Or.inr h))
    have := ih (done ++ t :: e) hndr
      (by
        intro x hx hmem
        rcases List.mem_append.mp hmem with h | h
        · exact hdis x (by simp [hx]) h
        · rcases List.mem_cons.mp h with rfl | h
          · exact htr hx
          · exact (hd x h).1 (List.mem_append.mpr (Or.inl hx)))
      (by
        intro u hu
        rcases hall u hu with h | h
        · rcases List.mem_cons.mp h with rfl | h
          · exact Or.inr (by simp)
          · exact Or.inl h
        · exact Or.inr (List.mem_append.mpr (Or.inl h)))
    rw [this]
    have hfe' : List.filter (fun n => decide (n ∈ U)) e = [] := by
      rw [List.filter_eq_nil_iff]
      intro x hx hc
      exact he_out x hx (by simpa using hc)
    by_cases htm : t ∈ U
    · simp [List.filter_append, List.filter_cons, htm, hfe']
    · simp [List.filter_append, List.filter_cons, htm, hfe']

/-- **the user's types keep the order they have in the `types` argument** — for every list `ts` of
    distinct names that contains them (built-in types may sit in between) -/
theorem typeMapOrderFrom_user (S : SchemaIR) (ts : List Name) (hnd : ts.Nodup)
    (hU : ∀ u ∈ S.types.map TypeDef.name, u ∈ ts) :
    (typeMapOrderFrom ts S).filter (fun n => (S.types.map TypeDef.name).contains n) =
      ts.filter (fun n => (S.types.map TypeDef.name).contains n) := by
  let U := S.types.map TypeDef.name
  have h1 := processTypes_user (refsIn S) U (S.types.length + 16) ts [] hnd (by simp) (fun u hu => Or.inl (hU u hu))
  simp only [List.append_nil, List.filter_nil, List.nil_append] at h1
  have hU1 : ∀ u ∈ U, u ∈ processTypes (refsIn S) (S.types.length + 16) ts ts := by
    intro u hu
    have : u ∈ (processTypes (refsIn S) (S.types.length + 16) ts ts).filter (fun n => U.contains n) := by
      rw [h1]; exact List.mem_filter.mpr ⟨hU u hu, List.contains_iff_mem.mpr hu⟩
    exact (List.mem_filter.mp this).1
  have ⟨h2, hU2⟩ := collectAll_keeps (refsIn S) U (S.types.length + 16) (rootNames S) _ hU1
  have ⟨h3, hU3⟩ := collectAll_keeps (refsIn S) U (S.types.length + 16)
    (S.directives.flatMap fun d => d.args.map fun a => baseName a.type) _ hU2
  have ⟨h4, _⟩ := collect_keeps (refsIn S) U (S.types.length + 16 + 1) _ "__Schema" hU3
  show (typeMapOrderFrom ts S).filter (fun n => U.contains n) = ts.filter (fun n => U.contains n)
  unfold typeMapOrderFrom
  simp only []
  rw [h4, h3, h2, h1]

/-- … in particular when `types=` are exactly the user's types -/
theorem typeMapOrder_user (S : SchemaIR) (hnd : (S.types.map TypeDef.name).Nodup) :
    (typeMapOrder S).filter (fun n => (S.types.map TypeDef.name).contains n) = S.types.map TypeDef.name := by
  unfold typeMapOrder
  rw [typeMapOrderFrom_user S _ hnd (fun u hu => hu)]
  rw [List.filter_eq_self]
  intro a ha
  exact List.contains_iff_mem.mpr ha

end Ariadne.GqlCollectProofs
