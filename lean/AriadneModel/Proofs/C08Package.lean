/-
  Proofs/C08Package.lean — from one `ResultTypesGenerator` (`ResultTypes.generate`) to the fragments module
  (`Fragments.fragmentsModule`): the class a definition's generator creates first, the dependency dict, the
  emitted order, and "every base is bound when its class statement executes".  Core Lean only.
-/
import AriadneModel.Proofs.C08Classes
import AriadneModel.Proofs.OrderEmit
import AriadneModel.Model.Fragments

set_option linter.unusedSimpArgs false
set_option linter.unusedVariables false

open Ariadne Ariadne.Gql Ariadne.Util

namespace Ariadne.ResultTypes

/-! ### one generator -/

/-- the body of `ResultTypesGenerator.__init__` (the `run` of `generate`, named) -/
def genRun (env : Env) (fuel : Nat) : Definition → M (List ClassDecl)
  | .op o =>
    match o.name with
    | none => err (.notSupported "Operations without name are not supported.")
    | some n => do
      let tn ← liftExcept (operationTypeName env (.op o))
      let bases ← mixinBases o.dirs
      parseTypeDefinition env fuel (pascal n) tn o.sid o.sel false bases []
  | .frag f =>
    if unpackFragment env f none then pure []
    else do
      let bases ← mixinBases f.dirs
      parseTypeDefinition env fuel (pascal f.name) f.on f.sid f.sel false bases []

theorem generate_ok (env : Env) (fuel : Nat) (d : Definition) (marks : List Nat) (o : ModuleOut)
    (h : generate env fuel d marks = .ok o) :
    ∃ cs st, genRun env fuel d { marks := marks } = .ok (cs, st) ∧ o.classes = cs ∧ o.st = st := by
  unfold generate at h
  have hrun : ∀ (x : M (List ClassDecl)) (s : St), x.run s = x s := fun _ _ => rfl
  cases d with
  | op op =>
    simp only [hrun] at h
    split at h
    · rename_i cs st hr
      refine ⟨cs, st, ?_, ?_, ?_⟩
      · rw [← hr]; rfl
      · injection h with h; rw [← h]
      · injection h with h; rw [← h]
    · cases h
  | frag f =>
    simp only [hrun] at h
    split at h
    · rename_i cs st hr
      refine ⟨cs, st, ?_, ?_, ?_⟩
      · rw [← hr]; rfl
      · injection h with h; rw [← h]
      · injection h with h; rw [← h]
    · cases h

theorem genRun_frag (env : Env) (fuel : Nat) (f : Fragment) (s : St) (cs : List ClassDecl) (st : St)
    (h : genRun env fuel (.frag f) s = .ok (cs, st)) (hnu : unpackFragment env f none = false) :
    parseTypeDefinition env fuel (pascal f.name) f.on f.sid f.sel false ((mixinPairs f.dirs).map (·.2)) []
      (addImports s (mixinPairs f.dirs)) = .ok (cs, st) := by
  simp only [genRun, hnu] at h
  obtain ⟨bs, s1, h1, h2⟩ := (ok_bind _ _ _ _ _).mp h
  obtain ⟨e1, e2⟩ := mixinBases_spec _ _ _ _ h1
  rw [← e1, ← e2]; exact h2

theorem genRun_frag_unpacked (env : Env) (fuel : Nat) (f : Fragment) (s : St) (cs : List ClassDecl) (st : St)
    (h : genRun env fuel (.frag f) s = .ok (cs, st)) (hu : unpackFragment env f none = true) : cs = [] ∧ st = s := by
  simp only [genRun, hu, if_true] at h
  obtain ⟨e1, e2⟩ := (ok_pure _ _ _ _).mp h
  exact ⟨e1.symm, e2.symm⟩

theorem genRun_op (env : Env) (fuel : Nat) (o : Operation) (s : St) (cs : List ClassDecl) (st : St)
    (h : genRun env fuel (.op o) s = .ok (cs, st)) :
    ∃ n tn, o.name = some n ∧ operationTypeName env (.op o) = .ok tn ∧
      parseTypeDefinition env fuel (pascal n) tn o.sid o.sel false ((mixinPairs o.dirs).map (·.2)) []
        (addImports s (mixinPairs o.dirs)) = .ok (cs, st) := by
  cases hn : o.name with
  | none =>
    simp only [genRun, hn] at h
    exact ((ok_err _ _ _).mp h).elim
  | some n =>
    simp only [genRun, hn] at h
    obtain ⟨tn, s0, h0, hA⟩ := (ok_bind _ _ _ _ _).mp h
    obtain ⟨htn, e0⟩ := (ok_liftExcept _ _ _ _).mp h0
    subst e0
    obtain ⟨bs, s1, h1, h2⟩ := (ok_bind _ _ _ _ _).mp hA
    obtain ⟨e1, e2⟩ := mixinBases_spec _ _ _ _ h1
    exact ⟨n, tn, rfl, htn, by rw [← e1, ← e2]; exact h2⟩

theorem imported_addImports (s : St) (ps : List (String × String)) : Imported (addImports s ps) (ps.map (·.2)) := by
  intro b hb
  obtain ⟨p, hp, rfl⟩ := List.mem_map.mp hb
  exact ⟨p, List.mem_append_right _ hp, rfl⟩

/-- **one generator, globally**: only fragments that get a class of their own are recorded as mixins, and every
    base of every class it emits is `BaseModel`, the class of a recorded mixin, or an imported `@mixin` class -/
theorem generate_spec (env : Env) (fuel : Nat) (d : Definition) (marks : List Nat) (o : ModuleOut)
    (h : generate env fuel d marks = .ok o) : (∀ n ∈ o.st.mixins, GoodMixin env n) ∧ BasesOK o.st o.classes := by
  obtain ⟨cs, st, hr, hc, hs⟩ := generate_ok env fuel d marks o h
  rw [hc, hs]
  have key : ∀ cn tn sid sel ps, parseTypeDefinition env fuel cn tn sid sel false (ps.map (·.2)) []
      (addImports { marks := marks } ps) = .ok (cs, st) → (∀ n ∈ st.mixins, GoodMixin env n) ∧ BasesOK st cs := by
    intro cn tn sid sel ps hp
    obtain ⟨g, b⟩ := (parse_spec env fuel).1 _ _ _ _ _ _ _ _ _ _ (imported_addImports _ ps) hp
    exact ⟨g.good (fun n hn => absurd hn List.not_mem_nil), b⟩
  cases d with
  | op op =>
    obtain ⟨n, tn, _, _, hp⟩ := genRun_op env fuel op _ cs st hr
    exact key _ _ _ _ _ hp
  | frag f =>
    cases hu : unpackFragment env f none with
    | true =>
      obtain ⟨rfl, rfl⟩ := genRun_frag_unpacked env fuel f _ cs st hr hu
      exact ⟨fun n hn => absurd hn List.not_mem_nil, fun c hc => absurd hc List.not_mem_nil⟩
    | false => exact key _ _ _ _ _ (genRun_frag env fuel f _ cs st hr hu)

/-- **the root class of a generator**: named after the definition, bases = fragment bases ++ exactly the classes
    named by the definition's `@mixin` directives (in order), each of them imported -/
theorem root_class (env : Env) (fuel : Nat) (cn tn : String) (sid : Nat) (sel : List Selection)
    (ps : List (String × String)) (marks : List Nat) (cs : List ClassDecl) (st : St)
    (hp : parseTypeDefinition env fuel cn tn sid sel false (ps.map (·.2)) [] (addImports { marks := marks } ps) = .ok (cs, st)) :
    ∃ (x : Acc) (st1 : St) (fields : List FieldDecl) (rest : List ClassDecl),
      resolve env fuel sel tn { addImports { marks := marks } ps with publicNames := [cn] } = .ok (x, st1) ∧
      cs = { name := cn, bases := classBases x.2 (ps.map (·.2)), fields := fields } :: rest ∧
      (∀ n ∈ x.2, n ∈ st.mixins) ∧ (∀ p ∈ ps, p ∈ st.mixinImports) := by
  obtain ⟨x, st1, resolved, acc, fuel', _, hres, hloop, hcs, _⟩ :=
    parseTypeDefinition_unfold _ _ _ _ _ _ _ _ _ _ _ _ hp (by rfl)
  obtain ⟨g, _⟩ := (parse_spec env fuel).1 _ _ _ _ _ _ _ _ _ _ (imported_addImports _ ps) hp
  refine ⟨x, st1, acc.1, acc.2, hres, hcs, ?_, fun p hp' => g.imports p (List.mem_append_right _ hp')⟩
  -- the mixins returned by `resolve` are recorded, and the record only grows afterwards
  have sp := resolve_spec env _ _ _ _ _ _ hres
  have hat := afterTypename_mixins false sid (if st1.marks.contains sid then typenameRField :: x.1 else x.1) st1
  have inv := forIn_ok_inv (fun (_ : FAcc) (s : St) => ∀ n ∈ x.2, n ∈ s.mixins) (fieldBody env fuel' cn tn []) resolved ([], []) _ acc st
    (by
      intro f _ b s r s' hb hr
      obtain ⟨fd, more, _, g', _⟩ := fieldBody_ok env fuel' (parse_spec env fuel').2 cn tn [] f b s r s' hr
      exact fun n hn => g'.mixins n (hb n hn))
    (fun n hn => by rw [hat.1]; exact (sp.mixins n).mpr (Or.inr hn)) hloop
  exact inv

end Ariadne.ResultTypes

namespace Ariadne.Fragments
open Ariadne.ResultTypes Ariadne.Spec.Py

/-! ### Spec.Py: loading a module whose bases are all bound -/

theorem loadsFrom_mono (ext : String → Prop) : ∀ (t : ClassTable) (seen seen' : List String),
    (∀ x ∈ seen, x ∈ seen') → LoadsFrom ext seen t → LoadsFrom ext seen' t
  | [], _, _, _, _ => trivial
  | (n, bs) :: rest, seen, seen', hsub, h => by
    obtain ⟨h1, h2⟩ := h
    refine ⟨fun b hb => (h1 b hb).imp id (hsub b), ?_⟩
    exact loadsFrom_mono ext rest (n :: seen) (n :: seen')
      (fun x hx => by
        rcases List.mem_cons.mp hx with rfl | hx
        · exact List.mem_cons_self
        · exact List.mem_cons_of_mem _ (hsub x hx)) h2

theorem loadsFrom_append (ext : String → Prop) : ∀ (t₁ t₂ : ClassTable) (seen : List String),
    LoadsFrom ext seen t₁ → (∀ seen', (∀ x ∈ seen, x ∈ seen') → (∀ x ∈ t₁.map (·.1), x ∈ seen') → LoadsFrom ext seen' t₂) →
    LoadsFrom ext seen (t₁ ++ t₂)
  | [], t₂, seen, _, h₂ => h₂ seen (fun _ h => h) (fun x hx => by cases hx)
  | (n, bs) :: rest, t₂, seen, h₁, h₂ => by
    obtain ⟨h1, h1'⟩ := h₁
    refine ⟨h1, ?_⟩
    apply loadsFrom_append ext rest t₂ (n :: seen) h1'
    intro seen' hs hr
    apply h₂ seen' (fun x hx => hs x (List.mem_cons_of_mem _ hx))
    intro x hx
    rcases List.mem_cons.mp hx with rfl | hx
    · exact hs _ List.mem_cons_self
    · exact hr x hx

/-- when every base is external or already bound, the statements execute (the bound set only grows) -/
theorem loadsFrom_of_all (ext : String → Prop) : ∀ (t : ClassTable) (seen : List String),
    (∀ p ∈ t, ∀ b ∈ p.2, ext b ∨ b ∈ seen) → LoadsFrom ext seen t
  | [], _, _ => trivial
  | (n, bs) :: rest, seen, h => by
    refine ⟨h (n, bs) List.mem_cons_self, ?_⟩
    apply loadsFrom_of_all ext rest (n :: seen)
    intro p hp b hb
    exact (h p (List.mem_cons_of_mem _ hp) b hb).imp id (List.mem_cons_of_mem _)

/-! ### the fragment generators -/

theorem findFragment_name {frags : List Fragment} {n : String} {f : Fragment} (h : findFragment? frags n = some f) : f.name = n := by
  unfold findFragment? at h
  have := List.find?_some h
  simpa using this

/-- every element of the generator list is the generator of the fragment it is named after -/
def FromFragment (env : Env) (fuel : Nat) (g : DefGen) : Prop :=
  ∃ f marks, findFragment? env.frags g.name = some f ∧ generate env fuel (.frag f) marks = .ok g.out

theorem genFragments_spec (env : Env) (fuel : Nat) : ∀ (names : List String) (marks : List Nat) (gens : List DefGen),
    genFragments env fuel names marks = .ok gens → gens.map (·.name) = names ∧ ∀ g ∈ gens, FromFragment env fuel g
  | [], marks, gens, h => by
    unfold genFragments at h
    injection h with h; subst h
    exact ⟨rfl, fun g hg => by cases hg⟩
  | n :: rest, marks, gens, h => by
    unfold genFragments at h
    cases hf : findFragment? env.frags n with
    | none => simp [hf] at h
    | some f =>
      simp only [hf] at h
      cases hg : generate env fuel (.frag f) marks with
      | error e => simp [hg] at h
      | ok out =>
        simp only [hg] at h
        cases hr : genFragments env fuel rest out.st.marks with
        | error e => simp [hr] at h
        | ok more =>
          simp only [hr] at h
          injection h with h; subst h
          obtain ⟨hn, hall⟩ := genFragments_spec env fuel rest _ more hr
          refine ⟨by simp [hn], ?_⟩
          intro g hg'
          rcases List.mem_cons.mp hg' with rfl | hg'
          · exact ⟨f, marks, hf, hg⟩
          · exact hall g hg'

theorem lookupGen_some {gens : List DefGen} {n : String} {g : DefGen} (h : lookupGen gens n = some g) : g ∈ gens ∧ g.name = n := by
  unfold lookupGen at h
  exact ⟨List.mem_of_find?_eq_some h, by simpa using List.find?_some h⟩

theorem lookupGen_of_mem {gens : List DefGen} {n : String} (h : n ∈ gens.map (·.name)) : ∃ g, lookupGen gens n = some g := by
  unfold lookupGen
  obtain ⟨g, hg, rfl⟩ := List.mem_map.mp h
  cases hf : gens.find? (·.name == g.name) with
  | some g' => exact ⟨g', rfl⟩
  | none =>
    have := List.find?_eq_none.mp hf g hg
    simp at this

/-- the dependency dict is keyed like the generator list -/
theorem lookup_deps (n : String) : ∀ gens : List DefGen,
    Order.lookup (gens.map fun g => (g.name, g.out.st.mixins)) n = (lookupGen gens n).map (·.out.st.mixins)
  | [] => rfl
  | g :: rest => by
    simp only [List.map_cons, Order.lookup, lookupGen, List.find?_cons]
    by_cases hk : g.name = n
    · simp [hk]
    · have : (g.name == n) = false := by simpa using hk
      simp only [hk, if_false, this]
      exact lookup_deps n rest

/-- the class lists of the fragments of `l`, in that order -/
def classesOf (gens : List DefGen) : List String → List ClassDecl
  | [] => []
  | n :: rest => (match lookupGen gens n with | some g => g.out.classes | none => []) ++ classesOf gens rest

theorem classesInOrder_spec (gens : List DefGen) : ∀ (l : List String) (cs : List ClassDecl),
    classesInOrder gens l = .ok cs → cs = classesOf gens l ∧ ∀ n ∈ l, ∃ g, lookupGen gens n = some g
  | [], cs, h => by
    unfold classesInOrder at h
    injection h with h; subst h
    exact ⟨rfl, fun n hn => by cases hn⟩
  | n :: rest, cs, h => by
    unfold classesInOrder at h
    cases hl : lookupGen gens n with
    | none => simp [hl] at h
    | some g =>
      simp only [hl] at h
      cases hr : classesInOrder gens rest with
      | error e => simp [hr] at h
      | ok more =>
        simp only [hr] at h
        injection h with h; subst h
        obtain ⟨e, hall⟩ := classesInOrder_spec gens rest more hr
        refine ⟨by simp [classesOf, hl, e], ?_⟩
        intro m hm
        rcases List.mem_cons.mp hm with rfl | hm
        · exact ⟨g, hl⟩
        · exact hall m hm

/-- the generator of a fragment that gets a class of its own emits that class first, under the fragment's name -/
theorem frag_head (env : Env) (fuel : Nat) (g : DefGen) (hg : FromFragment env fuel g) (hgood : GoodMixin env g.name) :
    ∃ c rest, g.out.classes = c :: rest ∧ c.name = pascal g.name := by
  obtain ⟨f, marks, hf, hgen⟩ := hg
  obtain ⟨f', hf', hnu⟩ := hgood
  rw [hf] at hf'
  injection hf' with hf'
  subst hf'
  obtain ⟨cs, st, hr, hc, hs⟩ := generate_ok env fuel _ marks _ hgen
  have hp := genRun_frag env fuel f _ cs st hr hnu
  obtain ⟨x, st1, fields, rest, _, hcs, _, _⟩ := root_class env fuel _ _ _ _ _ marks cs st hp
  refine ⟨_, rest, by rw [hc, hcs], ?_⟩
  show pascal f.name = pascal g.name
  rw [findFragment_name hf]

/-! ### `FragmentsGenerator.generate` -/

theorem generateFragments_unfold (e : Order.EnumOracle) (env : Env) (fuel : Nat) (names : List String) (marks : List Nat)
    (fo : FragmentsOut) (h : generateFragments e env fuel names marks = .ok fo) :
    ∃ gens, genFragments env fuel names marks = .ok gens ∧
      fo.deps = gens.map (fun g => (g.name, g.out.st.mixins)) ∧
      Order.sortedFragmentsNames e names fo.deps = .ok fo.order ∧
      classesInOrder gens fo.order = .ok fo.classes ∧
      fo.mixinImports = gens.flatMap (·.out.st.mixinImports) := by
  unfold generateFragments at h
  cases hg : genFragments env fuel names marks with
  | error err => simp [hg] at h
  | ok gens =>
    simp only [hg] at h
    cases hs : Order.sortedFragmentsNames e names (gens.map fun g => (g.name, g.out.st.mixins)) with
    | error err => simp [hs] at h
    | ok sorted =>
      simp only [hs] at h
      cases hc : classesInOrder gens sorted with
      | error err => simp [hc] at h
      | ok classes =>
        simp only [hc] at h
        cases hr : Order.rebuildCalls (gens.filterMap fun g => g.out.classes.head?.map (·.name)) (classes.map (·.name)) with
        | error err => simp [hr] at h
        | ok rebuilds =>
          simp only [hr] at h
          injection h with h
          subst h
          exact ⟨gens, rfl, rfl, hs, hc, rfl⟩

/-- what is bound without being defined in the fragments module: `BaseModel` and the `@mixin` imports -/
def external (fo : FragmentsOut) (b : String) : Prop := b = "BaseModel" ∨ b ∈ fo.mixinImports.map (·.2)

theorem classTable_append (a b : List ClassDecl) : classTable (a ++ b) = classTable a ++ classTable b := by
  simp [classTable]

theorem mem_classesOf (gens : List DefGen) {n : String} {g : DefGen} (hl : lookupGen gens n = some g) :
    ∀ (l : List String), n ∈ l → ∀ c ∈ g.out.classes, c ∈ classesOf gens l
  | [], h, _, _ => by cases h
  | m :: rest, h, c, hc => by
    unfold classesOf
    rcases List.mem_cons.mp h with rfl | h
    · rw [hl]; exact List.mem_append_left _ hc
    · exact List.mem_append_right _ (mem_classesOf gens hl rest h c hc)

theorem loads_suffix (env : Env) (fuel : Nat) (gens : List DefGen) (hfrom : ∀ g ∈ gens, FromFragment env fuel g)
    (ext : String → Prop) (hbm : ext "BaseModel") (hext : ∀ g ∈ gens, ∀ p ∈ g.out.st.mixinImports, ext p.2)
    (sorted : List String) (htopo : Order.TopoOK (gens.map fun g => (g.name, g.out.st.mixins)) sorted)
    (hall : ∀ n ∈ sorted, ∃ g, lookupGen gens n = some g) :
    ∀ (post pre seen : List String), sorted = pre ++ post → (∀ x ∈ pre, GoodMixin env x → pascal x ∈ seen) →
      LoadsFrom ext seen (classTable (classesOf gens post))
  | [], _, _, _, _ => trivial
  | n :: post, pre, seen, heq, hseen => by
    obtain ⟨g, hl⟩ := hall n (by rw [heq]; simp)
    obtain ⟨hgm, hgn⟩ := lookupGen_some hl
    obtain ⟨f, marks, hf, hgen⟩ := hfrom g hgm
    obtain ⟨hgood, hbases⟩ := generate_spec env fuel _ marks _ hgen
    have hdeps : Order.depsOf (gens.map fun g => (g.name, g.out.st.mixins)) n = g.out.st.mixins := by
      simp [Order.depsOf, lookup_deps, hl]
    show LoadsFrom ext seen (classTable ((match lookupGen gens n with | some g => g.out.classes | none => []) ++ classesOf gens post))
    rw [hl, classTable_append]
    apply loadsFrom_append
    · apply loadsFrom_of_all
      intro p hp b hb
      obtain ⟨c, hc, rfl⟩ := List.mem_map.mp hp
      rcases hbases c hc b hb with h1 | ⟨m, hm, rfl⟩ | ⟨q, hq, rfl⟩
      · exact Or.inl (h1 ▸ hbm)
      · refine Or.inr (hseen m ?_ (hgood m hm))
        exact htopo pre n post heq m (by rw [hdeps]; exact hm)
      · exact Or.inl (hext g hgm q hq)
    · intro seen' hs hr
      apply loads_suffix env fuel gens hfrom ext hbm hext sorted htopo hall post (pre ++ [n]) seen' (by rw [heq]; simp)
      intro x hx hgx
      rcases List.mem_append.mp hx with hx | hx
      · exact hs _ (hseen x hx hgx)
      · have : x = n := by simpa using hx
        subst this
        obtain ⟨c, rest, hc, hcn⟩ := frag_head env fuel g ⟨f, marks, hf, hgen⟩ (hgn ▸ hgx)
        apply hr
        show pascal x ∈ List.map (fun p => p.1) (classTable g.out.classes)
        rw [hc]
        simp [classTable, hcn, hgn]

/-- **the fragments module loads**: in the emitted order every base of every class is `BaseModel`, an imported
    `@mixin` class, or a class defined earlier in the module — for every enumeration oracle -/
theorem fragments_load (e : Order.EnumOracle) (he : Order.EnumOK e) (env : Env) (fuel : Nat) (names : List String)
    (marks : List Nat) (fo : FragmentsOut) (h : generateFragments e env fuel names marks = .ok fo)
    (rk : String → Nat) (hrk : ∀ n ds m, Order.lookup fo.deps n = some ds → m ∈ ds → rk m < rk n) :
    Loads (external fo) (classTable fo.classes) := by
  obtain ⟨gens, hg, hd, hs, hc, hi⟩ := generateFragments_unfold e env fuel names marks fo h
  obtain ⟨_, hfrom⟩ := genFragments_spec env fuel names marks gens hg
  obtain ⟨hcs, hall⟩ := classesInOrder_spec gens fo.order fo.classes hc
  have htopo : Order.TopoOK fo.deps fo.order :=
    Order.dfs_topo (fun ds x => by rw [Order.mem_pySorted]; exact (he ds).mem_iff) rk hrk hs
  rw [hcs]
  refine loads_suffix env fuel gens hfrom (external fo) (Or.inl rfl) ?_ fo.order (hd ▸ htopo) hall fo.order [] [] rfl
    (fun x hx => by cases hx)
  intro g hgm p hp
  refine Or.inr (List.mem_map.mpr ⟨p, ?_, rfl⟩)
  rw [hi]
  exact List.mem_flatMap.mpr ⟨g, hgm, hp⟩

/-- every fragment handed to `FragmentsGenerator` that gets a class of its own has that class in the module -/
theorem fragments_emitted (e : Order.EnumOracle) (he : Order.EnumOK e) (env : Env) (fuel : Nat) (names : List String)
    (marks : List Nat) (fo : FragmentsOut) (h : generateFragments e env fuel names marks = .ok fo)
    (n : String) (hn : n ∈ names) (hgood : GoodMixin env n) : pascal n ∈ fo.classes.map (·.name) := by
  obtain ⟨gens, hg, hd, hs, hc, hi⟩ := generateFragments_unfold e env fuel names marks fo h
  obtain ⟨hnames, hfrom⟩ := genFragments_spec env fuel names marks gens hg
  obtain ⟨hcs, hall⟩ := classesInOrder_spec gens fo.order fo.classes hc
  have hin : n ∈ fo.order :=
    Order.dfs_complete hs n ((Order.mem_pySorted _ _).mpr ((he names).mem_iff.mpr hn))
  obtain ⟨g, hl⟩ := hall n hin
  obtain ⟨hgm, hgn⟩ := lookupGen_some hl
  obtain ⟨c, rest, hcl, hcn⟩ := frag_head env fuel g (hfrom g hgm) (hgn ▸ hgood)
  rw [hcs]
  refine List.mem_map.mpr ⟨c, mem_classesOf gens hl fo.order hin c (by rw [hcl]; exact List.mem_cons_self), ?_⟩
  rw [hcn, hgn]

/-! ### the operations -/

/-- every element of `ops` is the generator of an operation -/
def FromOperation (env : Env) (fuel : Nat) (g : DefGen) : Prop :=
  ∃ o marks, generate env fuel (.op o) marks = .ok g.out

theorem addOperationsFrom_spec (env : Env) (fuel : Nat) : ∀ (ops : List Operation) (acc acc' : OpsOut),
    addOperationsFrom env fuel acc ops = .ok acc' → (∀ g ∈ acc.ops, FromOperation env fuel g) →
    ∀ g ∈ acc'.ops, FromOperation env fuel g
  | [], acc, acc', h, hacc => by
    unfold addOperationsFrom at h
    injection h with h; subst h; exact hacc
  | o :: rest, acc, acc', h, hacc => by
    unfold addOperationsFrom at h
    cases ha : addOperation env fuel acc o with
    | error err => simp [ha] at h
    | ok acc1 =>
      simp only [ha] at h
      apply addOperationsFrom_spec env fuel rest acc1 acc' h
      unfold addOperation at ha
      cases hn : o.name with
      | none => simp [hn] at ha
      | some n =>
        simp only [hn] at ha
        cases hg : generate env fuel (.op o) acc.marks with
        | error err => simp [hg] at ha
        | ok out =>
          simp only [hg] at ha
          injection ha with ha; subst ha
          intro g hg'
          rcases List.mem_append.mp hg' with hg' | hg'
          · exact hacc g hg'
          · have : g = ⟨n, out⟩ := by simpa using hg'
            subst this
            exact ⟨o, acc.marks, hg⟩

theorem mem_dedup (a : String) : ∀ l : List String, a ∈ dedup l ↔ a ∈ l
  | [] => by simp [dedup]
  | x :: xs => by
    unfold dedup
    simp only [List.mem_cons, List.mem_filter, mem_dedup a xs]
    constructor
    · rintro (h | ⟨h, _⟩)
      · exact Or.inl h
      · exact Or.inr h
    · rintro (h | h)
      · exact Or.inl h
      · by_cases hax : a = x
        · exact Or.inl hax
        · exact Or.inr ⟨h, by simpa using hax⟩

theorem goodMixin_mem_frags {env : Env} {n : String} (h : GoodMixin env n) : n ∈ env.frags.map (·.name) := by
  obtain ⟨f, hf, _⟩ := h
  exact List.mem_map.mpr ⟨f, List.mem_of_find?_eq_some hf, findFragment_name hf⟩

/-- the two ways `PackageGenerator._generate_fragments` ends -/
theorem fragmentsModule_ok (e : Order.EnumOracle) (env : Env) (fuel : Nat) (ops : List Operation) (out : PackageOut)
    (h : fragmentsModule e env fuel ops = .ok out) :
    ∃ acc, addOperations env fuel ops = .ok acc ∧ out.ops = acc.ops ∧ out.excluded = acc.unpacked ∧
      (((remaining env acc.unpacked).isEmpty = true ∧ out.fragments = none) ∨
       ((remaining env acc.unpacked).isEmpty = false ∧
          ∃ fo, generateFragments e env fuel (e (remaining env acc.unpacked)) acc.marks = .ok fo ∧ out.fragments = some fo)) := by
  unfold fragmentsModule at h
  cases hacc : addOperations env fuel ops with
  | error err => simp [hacc] at h
  | ok acc =>
    simp only [hacc] at h
    cases hrem : (remaining env acc.unpacked).isEmpty with
    | true =>
      simp only [hrem, if_true] at h
      injection h with h
      subst h
      exact ⟨acc, rfl, rfl, rfl, Or.inl ⟨hrem, rfl⟩⟩
    | false =>
      simp only [hrem] at h
      cases hgf : generateFragments e env fuel (e (remaining env acc.unpacked)) acc.marks with
      | error err => simp [hgf] at h
      | ok fo =>
        simp only [hgf] at h
        injection h with h
        subst h
        exact ⟨acc, rfl, rfl, rfl, Or.inr ⟨hrem, fo, hgf, rfl⟩⟩

end Ariadne.Fragments
