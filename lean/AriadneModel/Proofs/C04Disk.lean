/-
  Proofs/C04Disk.lean — what is on disk when `PackageGenerator.generate` returns: symbolic execution of
  `Package.generateSteps` as far as the MODULES are concerned.  The modules on disk are the fold of `putModule`
  (replace-or-append by file name) over the list `written` of the modules the steps write, in write order; the write
  log is the list of their file names.  When no file is written twice every written module is still on disk, and
  `findModule` finds it under its name.
-/
import AriadneModel.Model.Package
import AriadneModel.Model.PackageTriggers
import AriadneModel.Spec.PyScope
import AriadneModel.Proofs.C04Steps
import AriadneModel.Proofs.C04Init

set_option linter.unusedSimpArgs false
set_option linter.unusedVariables false

namespace Ariadne.C04Proofs
open Ariadne Ariadne.Util Ariadne.Package Ariadne.PackageTriggers Ariadne.Spec.PyScope
open Ariadne.ResultTypes (GenErr)

/-! ### folds of `putModule` -/

theorem putModule_of_not_mem (ms : List ModuleIR) (m : ModuleIR) (h : m.file ∉ ms.map (·.file)) : putModule ms m = ms ++ [m] := by
  have hany : ms.any (·.file == m.file) = false := by
    cases hc : ms.any (·.file == m.file) with
    | false => rfl
    | true =>
      obtain ⟨y, hy, hf⟩ := List.any_eq_true.mp hc
      have : y.file = m.file := by simpa using hf
      exact absurd (List.mem_map.mpr ⟨y, hy, this⟩) h
  unfold putModule
  simp [hany]

theorem mem_foldl_putModule : ∀ (l ms : List ModuleIR) (x : ModuleIR), x ∈ l.foldl putModule ms → x ∈ ms ∨ x ∈ l
  | [], ms, x, h => Or.inl h
  | m :: rest, ms, x, h => by
    simp only [List.foldl_cons] at h
    rcases mem_foldl_putModule rest _ x h with h | h
    · rcases mem_putModule h with rfl | h
      · exact Or.inr List.mem_cons_self
      · exact Or.inl h
    · exact Or.inr (List.mem_cons_of_mem _ h)

theorem foldl_putModule_of_nodup : ∀ (l ms : List ModuleIR), (ms.map (·.file) ++ l.map (·.file)).Nodup →
    ∀ x, (x ∈ ms ∨ x ∈ l) → x ∈ l.foldl putModule ms
  | [], ms, _, x, h => by
    rcases h with h | h
    · exact h
    · cases h
  | m :: rest, ms, hn, x, h => by
    simp only [List.foldl_cons]
    have hnot : m.file ∉ ms.map (·.file) := by
      intro hm
      have := (List.nodup_append.mp hn).2.2 _ hm m.file (by simp)
      exact this rfl
    rw [putModule_of_not_mem ms m hnot]
    apply foldl_putModule_of_nodup rest (ms ++ [m])
    · simpa [List.map_append, List.append_assoc] using hn
    · rcases h with h | h
      · exact Or.inl (List.mem_append_left _ h)
      · rcases List.mem_cons.mp h with rfl | h
        · exact Or.inl (by simp)
        · exact Or.inr h

/-- a step as far as modules and write log are concerned: it writes the modules `ms`, in this order -/
def WritesList (g g' : GenSt) (ms : List ModuleIR) : Prop :=
  g'.modules = ms.foldl putModule g.modules ∧ g'.log = g.log ++ ms.map (·.file)

theorem WritesList.refl (g : GenSt) : WritesList g g [] := ⟨rfl, by simp⟩

theorem WritesList.trans {g g1 g2 : GenSt} {a b : List ModuleIR} (h1 : WritesList g g1 a) (h2 : WritesList g1 g2 b) :
    WritesList g g2 (a ++ b) := by
  refine ⟨?_, ?_⟩
  · rw [h2.1, h1.1, List.foldl_append]
  · rw [h2.2, h1.2, List.map_append, List.append_assoc]

theorem emit_writes {fmt : FmtOracle} {m : ModuleIR} {g g' : GenSt} (h : emit fmt m g = .ok g') : WritesList g g' [m] := by
  obtain ⟨_, rfl⟩ := emit_ok h
  exact ⟨rfl, rfl⟩

theorem emitThen_writes {fmt : FmtOracle} {m : ModuleIR} {f : GenSt → GenSt} {g g' : GenSt}
    (h : emitThen fmt m f g = .ok g') (hf : ∀ x, (f x).modules = x.modules ∧ (f x).log = x.log) : WritesList g g' [m] := by
  obtain ⟨_, rfl⟩ := emitThen_ok h
  obtain ⟨a, b⟩ := hf { g with modules := putModule g.modules m, log := g.log ++ [m.file] }
  exact ⟨by rw [a]; rfl, by rw [b]; rfl⟩

theorem emitAll_writes (fmt : FmtOracle) : ∀ (ms : List ModuleIR) (g g' : GenSt), emitAll fmt ms g = .ok g' → WritesList g g' ms
  | [], g, g', h => by simp [emitAll] at h; subst h; exact WritesList.refl g
  | m :: rest, g, g', h => by
    simp only [emitAll] at h
    obtain ⟨g1, h1, h2⟩ := andThen_ok h
    exact (emit_writes h1).trans (emitAll_writes fmt rest g1 g' h2)

theorem foldl_writeRaw_writes (mk : String → ModuleIR) : ∀ (files : List String) (g : GenSt),
    WritesList g (files.foldl (fun g f => writeRaw (mk f) g) g) (files.map mk)
  | [], g => WritesList.refl g
  | f :: rest, g => by
    simp only [List.foldl_cons, List.map_cons]
    have h1 : WritesList g (writeRaw (mk f) g) [mk f] := ⟨rfl, rfl⟩
    exact h1.trans (foldl_writeRaw_writes mk rest _)

/-! ### the fragments step, with the generators it ran -/

/-- which fragments output (and which generators) the run saw -/
def FragRan (e : Order.EnumOracle) (cfg : Config) (inp : Input) (fl : Nat) (st : St)
    (fx : Option (Fragments.FragmentsOut × List Fragments.DefGen)) : Prop :=
  let rem := Fragments.remaining (rtEnv cfg inp) st.unpacked
  (rem.isEmpty = true ∧ fx = none) ∨
  (rem.isEmpty = false ∧ ∃ fo gens, fx = some (fo, gens) ∧
    Fragments.genFragments (rtEnv cfg inp) fl (e rem) st.marks = .ok gens ∧
    Fragments.generateFragments e (rtEnv cfg inp) fl (e rem) st.marks = .ok fo)

def fragModules (cfg : Config) (fx : Option (Fragments.FragmentsOut × List Fragments.DefGen)) : List ModuleIR :=
  match fx with
  | some (fo, gens) => [fragmentsModuleIR cfg fo gens]
  | none => []

def fragOut (fx : Option (Fragments.FragmentsOut × List Fragments.DefGen)) : Option Fragments.FragmentsOut := fx.map (·.1)

theorem stepFragments_writes {fmt : FmtOracle} {e : Order.EnumOracle} {cfg : Config} {inp : Input} {fl : Nat} {st : St} {g g' : GenSt}
    (h : stepFragments fmt e cfg inp fl st g = .ok g') :
    ∃ fx, FragRan e cfg inp fl st fx ∧ WritesList g g' (fragModules cfg fx) ∧
      g'.init = initAdd g.init (fragmentNames (fragOut fx)) cfg.fragmentsModule ∧
      g'.usedEnums = g.usedEnums ++ fragmentEnums (fragOut fx) := by
  unfold stepFragments at h
  simp only at h
  split at h
  · rename_i hr
    simp only [Except.ok.injEq] at h
    subst h
    exact ⟨none, Or.inl ⟨hr, rfl⟩, WritesList.refl _, by simp [fragOut, fragmentNames, initAdd_nil], by simp [fragOut, fragmentEnums]⟩
  · rename_i hr
    split at h
    · rename_i gens fo hg hf
      have hw := emitThen_writes h (fun x => ⟨rfl, rfl⟩)
      obtain ⟨_, rfl⟩ := emitThen_ok h
      exact ⟨some (fo, gens), Or.inr ⟨by simpa using hr, fo, gens, rfl, hg, hf⟩, hw, rfl, rfl⟩
    · simp at h
    · simp at h

/-! ### the whole of `generate()` -/

/-- `PackageGenerator._used_enums` when `_generate_enums` reads it -/
def finalUsedEnums (st : St) (io : InputsOut) (fx : Option (Fragments.FragmentsOut × List Fragments.DefGen)) : List String :=
  st.usedEnums ++ io.usedEnums ++ fragmentEnums (fragOut fx) ++ st.argSt.usedEnums

def copiedList (cfg : Config) : List String := filesToCopy cfg ++ [cfg.baseClientFile, baseModelFile]

def customList (cfg : Config) (inp : Input) : List String := if cfg.customOps then customFiles inp.schema else []

/-- the modules `generate()` writes, in write order -/
def written (cfg : Config) (inp : Input) (st : St) (io : InputsOut) (fx : Option (Fragments.FragmentsOut × List Fragments.DefGen)) :
    List ModuleIR :=
  [io.module] ++ st.files.map (·.2) ++ fragModules cfg fx ++ (copiedList cfg).map (copiedModule cfg)
    ++ (customList cfg inp).map customModule
    ++ [clientModule cfg inp.schema st.entries st.argSt] ++ [enumsModule cfg inp.schema (finalUsedEnums st io fx)]
    ++ [initModule (finalInit cfg inp st io (fragOut fx))]

/-- symbolic execution of `generate()`: which modules are written, in which order; what is on disk afterwards -/
theorem generateSteps_written {fmt : FmtOracle} {e : Order.EnumOracle} {cfg : Config} {inp : Input} {fl : Nat} {st : St} {g : GenSt}
    (h : generateSteps fmt e cfg inp fl st (genSt0 cfg st) = .ok g) :
    ∃ io fx, inputsModule cfg inp.defs st.argSt.usedInputs = .ok io ∧ FragRan e cfg inp fl st fx ∧
      g.modules = (written cfg inp st io fx).foldl putModule [] ∧ g.log = (written cfg inp st io fx).map (·.file) := by
  unfold generateSteps at h
  obtain ⟨g1, h1, h⟩ := andThen_ok h
  obtain ⟨g2, h2, h⟩ := andThen_ok h
  obtain ⟨g3, h3, h⟩ := andThen_ok h
  obtain ⟨g4, h4, h⟩ := andThen_ok h
  obtain ⟨g5, h5, h⟩ := andThen_ok h
  obtain ⟨g6, h6, h⟩ := andThen_ok h
  obtain ⟨g7, h7, h8⟩ := andThen_ok h
  -- inputs
  obtain ⟨io, hio, _, i1, u1, _⟩ := stepInputs_ok h1
  have w1 : WritesList (genSt0 cfg st) g1 [io.module] := by
    unfold stepInputs at h1
    rw [hio] at h1
    exact emitThen_writes h1 (fun x => ⟨rfl, rfl⟩)
  -- results
  have w2 : WritesList g1 g2 (st.files.map (·.2)) := emitAll_writes fmt _ _ _ h2
  obtain ⟨i2, u2⟩ := emitAll_meta fmt _ _ _ h2
  -- fragments
  obtain ⟨fx, hfx, w3, i3, u3⟩ := stepFragments_writes h3
  -- copies
  obtain ⟨i4, u4⟩ := stepCopy_ok h4
  have w4 : WritesList g3 g4 ((copiedList cfg).map (copiedModule cfg)) := by
    unfold stepCopy at h4
    simp only [Except.ok.injEq] at h4
    subst h4
    have := foldl_writeRaw_writes (copiedModule cfg) (filesToCopy cfg ++ [cfg.baseClientFile, baseModelFile]) g3
    exact ⟨this.1, this.2⟩
  -- custom operations
  obtain ⟨i5, u5⟩ := stepCustom_ok h5
  have w5 : WritesList g4 g5 ((customList cfg inp).map customModule) := by
    unfold stepCustom at h5
    simp only [Except.ok.injEq] at h5
    subst h5
    unfold customList
    split
    · exact foldl_writeRaw_writes customModule _ g4
    · exact WritesList.refl g4
  -- client
  obtain ⟨i6, u6⟩ := stepClient_ok h6
  have w6 : WritesList g5 g6 [clientModule cfg inp.schema st.entries st.argSt] := by
    unfold stepClient at h6
    exact emitThen_writes h6 (fun x => ⟨rfl, rfl⟩)
  -- enums
  have i7 := stepEnums_ok h7
  have w7 : WritesList g6 g7 [enumsModule cfg inp.schema g6.usedEnums] := by
    unfold stepEnums at h7
    exact emitThen_writes h7 (fun x => ⟨rfl, rfl⟩)
  -- init
  obtain ⟨_, i8⟩ := stepInit_ok h8
  have w8 : WritesList g7 g [initModule g7.init] := by
    unfold stepInit at h8
    exact emit_writes h8
  have e0 : (genSt0 cfg st).init = init0 cfg st := rfl
  have eu0 : (genSt0 cfg st).usedEnums = st.usedEnums := rfl
  have hue : g6.usedEnums = finalUsedEnums st io fx := by
    rw [u6, u5, u4, u3, u2, u1, eu0]
    rfl
  have hinit : g7.init = finalInit cfg inp st io (fragOut fx) := by
    rw [i7, i6, i5, i4, i3, i2, i1, hue, e0]
    rfl
  have wall := ((((((w1.trans w2).trans w3).trans w4).trans w5).trans w6).trans w7).trans w8
  rw [hue, hinit] at wall
  refine ⟨io, fx, hio, hfx, ?_, ?_⟩
  · have := wall.1
    simpa [written, genSt0] using this
  · have := wall.2
    simpa [written, genSt0] using this

/-! ### nothing is lost when no file is written twice -/

theorem findModule_of_mem {p : PackageIR} {m : ModuleIR} {name : String} (hn : (p.modules.map (·.file)).Nodup)
    (hm : m ∈ p.modules) (hf : m.file = pyFile name) : findModule p name = some m := by
  unfold findModule
  generalize p.modules = ms at hn hm
  induction ms with
  | nil => cases hm
  | cons a rest ih =>
    simp only [List.map_cons] at hn
    obtain ⟨hna, hnr⟩ := List.nodup_cons.mp hn
    rcases List.mem_cons.mp hm with rfl | hm
    · simp [List.find?_cons, hf]
    · have hne : a.file ≠ pyFile name := by
        intro he
        exact hna (List.mem_map.mpr ⟨m, hm, by rw [hf, he]⟩)
      simp only [List.find?_cons]
      have : (a.file == pyFile name) = false := by simpa using hne
      rw [this]
      exact ih hnr hm

/-- the package of a successful run, described: the modules on disk are among the written ones; when no file was
    written twice, every written module is on disk, one module per file name -/
theorem package_described {fmt : FmtOracle} {e : Order.EnumOracle} {cfg : Config} {inp : Input} {fl : Nat} {st : St} {g : GenSt}
    (h : generateSteps fmt e cfg inp fl st (genSt0 cfg st) = .ok g) :
    ∃ io fx, inputsModule cfg inp.defs st.argSt.usedInputs = .ok io ∧ FragRan e cfg inp fl st fx ∧
      (∀ m ∈ g.modules, m ∈ written cfg inp st io fx) ∧
      (g.log.Nodup → (∀ m ∈ written cfg inp st io fx, m ∈ g.modules) ∧ (g.modules.map (·.file)).Nodup) := by
  obtain ⟨io, fx, hio, hfx, hm, hl⟩ := generateSteps_written h
  refine ⟨io, fx, hio, hfx, ?_, ?_⟩
  · intro m hmm
    rw [hm] at hmm
    rcases mem_foldl_putModule _ _ _ hmm with h | h
    · cases h
    · exact h
  · intro hn
    refine ⟨?_, ((generateSteps_files fmt e cfg inp fl st).1 g h).nodup⟩
    intro m hmw
    rw [hm]
    exact foldl_putModule_of_nodup _ [] (by simpa [hl] using hn) m (Or.inr hmw)

end Ariadne.C04Proofs
