/-
  Proofs/C04Total.lean — totality of `FragmentsGenerator.generate` RELATIVE to the result-type generator: outside the
  finding region `unpackedAndInherited`, for a document without fragment cycles, every exception the fragments step
  raises was raised by the `ResultTypesGenerator` of one of the fragments (`Err.gen`).  The sort never meets a missing key
  (C08), never runs out of fuel (the dependency dict is acyclic, with a rank bounded by its size), the class lookup finds
  every sorted name, and `class_names.index` finds every top-level class.
-/
import AriadneModel.Proofs.C04ModInit
import AriadneModel.Proofs.OrderPlugins

set_option linter.unusedSimpArgs false
set_option linter.unusedVariables false

namespace Ariadne.Order

/-- the only exceptions the depth-first visit raises are KeyError and the model's fuel marker -/
theorem visit_err_shape (ord : List Name → List Name) (d : Deps) : ∀ (fuel : Nat) (n : Name) (st : St) (e : Err),
    visit ord d fuel n st = .error e → e = .fuel ∨ ∃ k, e = .keyError k
  | 0, n, st, e, h => by
    unfold visit at h
    split at h
    · cases h
    · cases h; exact Or.inl rfl
  | fuel + 1, n, st, e, h => by
    unfold visit at h
    split at h
    · cases h
    · split at h
      · cases h; exact Or.inr ⟨n, rfl⟩
      · rename_i ds hds
        simp only [bind, Except.bind] at h
        split at h
        · rename_i e' hfold
          cases h
          -- the fold over the dependencies
          have key : ∀ (l : List Name) (s : St) (e : Err), l.foldlM (fun s x => visit ord d fuel x s) s = .error e →
              e = .fuel ∨ ∃ k, e = .keyError k := by
            intro l
            induction l with
            | nil => intro s e h; simp [List.foldlM_nil, pure, Except.pure] at h
            | cons x xs ih =>
              intro s e h
              simp only [List.foldlM_cons, bind, Except.bind] at h
              cases hx : visit ord d fuel x s with
              | error e1 =>
                rw [hx] at h
                simp at h
                subst h
                exact visit_err_shape ord d fuel x s e1 hx
              | ok s1 =>
                rw [hx] at h
                exact ih s1 e h
          exact key _ _ _ hfold
        · cases h

theorem dfs_err_shape (ord : List Name → List Name) (d : Deps) (roots : List Name) (e : Err) (h : dfs ord d roots = .error e) :
    e = .fuel ∨ ∃ k, e = .keyError k := by
  unfold dfs at h
  cases hf : roots.foldlM (fun s x => visit ord d (d.length + 1) x s) (⟨[], []⟩ : St) with
  | ok st => rw [hf] at h; simp [Except.map] at h
  | error e1 =>
    rw [hf] at h
    have : e1 = e := by simpa [Except.map] using h
    subst this
    have key : ∀ (l : List Name) (s : St) (e : Err), l.foldlM (fun s x => visit ord d (d.length + 1) x s) s = .error e →
        e = .fuel ∨ ∃ k, e = .keyError k := by
      intro l
      induction l with
      | nil => intro s e h; simp [List.foldlM_nil, pure, Except.pure] at h
      | cons x xs ih =>
        intro s e h
        simp only [List.foldlM_cons, bind, Except.bind] at h
        cases hx : visit ord d (d.length + 1) x s with
        | error e2 =>
          rw [hx] at h
          simp at h
          subst h
          exact visit_err_shape ord d _ x s e2 hx
        | ok s1 =>
          rw [hx] at h
          exact ih s1 e h
    exact key _ _ _ hf

end Ariadne.Order

namespace Ariadne.Fragments
open Ariadne Ariadne.Gql Ariadne.Util Ariadne.ResultTypes

/-- an exception of the generator loop: raised by the generator of a fragment, or `fragments_definitions[name]` -/
theorem genFragments_error (env : Env) (fuel : Nat) : ∀ (names : List String) (marks : List Nat) (err : Err),
    genFragments env fuel names marks = .error err →
      (∃ f mk e, f ∈ env.frags ∧ generate env fuel (.frag f) mk = .error e ∧ err = .gen e) ∨ ∃ k, err = .order (.keyError k)
  | [], _, err, h => by simp [genFragments] at h
  | n :: rest, marks, err, h => by
    unfold genFragments at h
    cases hf : findFragment? env.frags n with
    | none =>
      rw [hf] at h
      simp only [Except.error.injEq] at h
      exact Or.inr ⟨n, h.symm⟩
    | some f =>
      rw [hf] at h
      simp only at h
      cases hg : generate env fuel (.frag f) marks with
      | error e =>
        rw [hg] at h
        simp only [Except.error.injEq] at h
        exact Or.inl ⟨f, marks, e, List.mem_of_find?_eq_some hf, hg, h.symm⟩
      | ok out =>
        rw [hg] at h
        simp only at h
        cases hr : genFragments env fuel rest out.st.marks with
        | error e =>
          rw [hr] at h
          simp only [Except.error.injEq] at h
          subst h
          exact genFragments_error env fuel rest _ e hr
        | ok more => rw [hr] at h; cases h

theorem countP_lt_of {α : Type} (p q : α → Bool) : ∀ (l : List α), (∀ x ∈ l, p x = true → q x = true) →
    (∃ x ∈ l, q x = true ∧ p x = false) → l.countP p < l.countP q
  | [], _, ⟨x, hx, _⟩ => by cases hx
  | a :: rest, himp, ⟨x, hx, hq, hp⟩ => by
    have hrest : rest.countP p ≤ rest.countP q := by
      refine List.countP_mono_left ?_
      intro y hy hpy
      exact himp y (List.mem_cons_of_mem _ hy) hpy
    rcases List.mem_cons.mp hx with rfl | hx
    · simp only [List.countP_cons, hq, hp, if_true, Bool.false_eq_true, if_false]
      omega
    · have ih := countP_lt_of p q rest (fun y hy => himp y (List.mem_cons_of_mem _ hy)) ⟨x, hx, hq, hp⟩
      simp only [List.countP_cons]
      cases hpa : p a with
      | true =>
        have := himp a List.mem_cons_self hpa
        simp [this]
        omega
      | false =>
        simp only [Bool.false_eq_true, if_false, Nat.add_zero]
        split <;> omega

/-- **the fragments step raises nothing of its own**: every exception of `FragmentsGenerator.generate` is the exception of
    the result-type generator of one of the document's fragments -/
theorem generateFragments_error (env : Env) (fuel : Nat) (names : List String) (marks : List Nat)
    (hnames : ∀ n ∈ names, n ∈ env.frags.map (·.name)) (hnd : names.Nodup)
    (hdeps : ∀ gens, genFragments env fuel names marks = .ok gens → ∀ g ∈ gens, ∀ m ∈ g.out.st.mixins, m ∈ names)
    (rk : String → Nat) (hrk : SpreadRank env rk) (err : Err)
    (h : genFragments env fuel names marks = .error err ∨ generateFragments id env fuel names marks = .error err) :
    ∃ f mk e, f ∈ env.frags ∧ generate env fuel (.frag f) mk = .error e ∧ err = .gen e := by
  have hgenErr : ∀ err, genFragments env fuel names marks = .error err →
      ∃ f mk e, f ∈ env.frags ∧ generate env fuel (.frag f) mk = .error e ∧ err = .gen e := by
    intro err hg
    rcases genFragments_error env fuel names marks err hg with h1 | ⟨k, rfl⟩
    · exact h1
    · exact absurd hg (genFragments_no_keyError env fuel names marks k hnames)
  rcases h with h | h
  · exact hgenErr err h
  · unfold generateFragments at h
    cases hg : genFragments env fuel names marks with
    | error e1 =>
      rw [hg] at h
      simp only [Except.error.injEq] at h
      subst h
      exact hgenErr _ hg
    | ok gens =>
      exfalso
      rw [hg] at h
      simp only at h
      obtain ⟨hgn, hfrom⟩ := genFragments_spec env fuel names marks gens hg
      have hndg : (gens.map (·.name)).Nodup := by rw [hgn]; exact hnd
      have hkey : ∀ n ∈ names, Order.HasKey (gens.map fun g => (g.name, g.out.st.mixins)) n := by
        intro n hn
        exact (hasKey_deps gens n).mpr (lookupGen_of_mem (by rw [hgn]; exact hn))
      -- the rank, compressed to the size of the dictionary
      let rk' : String → Nat := fun n => gens.countP (fun g => decide (rk g.name < rk n))
      have hrk' : ∀ n ds m, Order.lookup (gens.map fun g => (g.name, g.out.st.mixins)) n = some ds → m ∈ ds → rk' m < rk' n := by
        intro n ds m hl hm
        rw [lookup_deps] at hl
        cases hlg : lookupGen gens n with
        | none => rw [hlg] at hl; cases hl
        | some g =>
          rw [hlg] at hl
          have hds : g.out.st.mixins = ds := by simpa using hl
          subst hds
          obtain ⟨hgm, hgname⟩ := lookupGen_some hlg
          obtain ⟨f, mk, hf, hgen⟩ := hfrom g hgm
          have hfn : f.name = g.name := findFragment_name hf
          have hlow := frag_mixins_low env rk hrk fuel f (by rw [hfn]; exact hf) mk g.out hgen m hm
          rw [hfn, hgname] at hlow
          -- `m` is itself generated
          have hmn := hdeps gens hg g hgm m hm
          obtain ⟨gm, hgm', hgmn⟩ := List.mem_map.mp (by rw [hgn]; exact hmn : m ∈ gens.map (·.name))
          refine countP_lt_of _ _ gens ?_ ⟨gm, hgm', ?_, ?_⟩
          · intro x _ hx
            have : rk x.name < rk m := by simpa using hx
            simpa using Nat.lt_trans this hlow
          · simpa [hgmn] using hlow
          · simp [hgmn]
      have hb : ∀ n, rk' n ≤ (gens.map fun g => (g.name, g.out.st.mixins)).length := by
        intro n
        simp only [List.length_map]
        exact List.countP_le_length
      cases hs : Order.sortedFragmentsNames id names (gens.map fun g => (g.name, g.out.st.mixins)) with
      | error e1 =>
        rcases Order.dfs_err_shape _ _ _ e1 hs with rfl | ⟨k, rfl⟩
        · exact Order.dfs_noFuel _ _ rk' hrk' (fun ds x => by rw [Order.mem_pySorted]; rfl) _ hb _ hs rfl
        · refine Order.dfs_no_keyError _ _ _ ?_ ?_ k hs
          · intro n ds hl x hx
            have hx' : x ∈ ds := (Order.mem_pySorted _ _).mp hx
            rw [lookup_deps] at hl
            cases hlg : lookupGen gens n with
            | none => rw [hlg] at hl; cases hl
            | some g =>
              rw [hlg] at hl
              have : g.out.st.mixins = ds := by simpa using hl
              subst this
              exact hkey x (hdeps gens hg g (lookupGen_some hlg).1 x hx')
          · intro r hr
            exact hkey r ((Order.mem_pySorted _ _).mp hr)
      | ok sorted =>
        rw [hs] at h
        simp only at h
        have hall : ∀ n ∈ sorted, ∃ g, lookupGen gens n = some g :=
          fun n hn => (hasKey_deps gens n).mp (Order.dfs_out_keys _ _ _ _ hs n hn)
        obtain ⟨cs, hcs⟩ := classesInOrder_total gens sorted hall
        rw [hcs] at h
        simp only at h
        obtain ⟨hcseq, _⟩ := classesInOrder_spec gens sorted cs hcs
        cases hr : Order.rebuildCalls (gens.filterMap fun g => g.out.classes.head?.map (·.name)) (cs.map (·.name)) with
        | ok rebuilds => rw [hr] at h; cases h
        | error e1 =>
          -- `class_names.index(top)` finds every top-level class
          unfold Order.rebuildCalls at hr
          cases hfind : (gens.filterMap fun g => g.out.classes.head?.map (·.name)).find? (fun t => !(cs.map (·.name)).contains t) with
          | none => rw [hfind] at hr; cases hr
          | some t =>
            have ht := List.find?_some hfind
            have htm := List.mem_of_find?_eq_some hfind
            obtain ⟨g, hgm, hgt⟩ := List.mem_filterMap.mp htm
            cases hhead : g.out.classes.head? with
            | none => rw [hhead] at hgt; cases hgt
            | some c =>
              rw [hhead] at hgt
              simp only [Option.map_some, Option.some.injEq] at hgt
              have hcin : c ∈ g.out.classes := List.mem_of_mem_head? hhead
              have hin : g.name ∈ sorted := by
                refine Order.dfs_complete hs g.name ((Order.mem_pySorted _ _).mpr ?_)
                show g.name ∈ names
                rw [← hgn]
                exact List.mem_map.mpr ⟨g, hgm, rfl⟩
              have hlook : lookupGen gens g.name = some g := C04Proofs.lookupGen_of_nodup gens hndg g hgm
              have : c ∈ cs := by
                rw [hcseq]
                exact mem_classesOf gens hlook sorted hin c hcin
              have : t ∈ cs.map (·.name) := by rw [← hgt]; exact List.mem_map.mpr ⟨c, this, rfl⟩
              simp [this] at ht

end Ariadne.Fragments
