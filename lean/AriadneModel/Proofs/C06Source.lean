/-
  Lemmas for C06 about the schema source (`Model/InputSource.lean`): the generator with
  `field.ast_node` absent (introspection) is the SDL generator applied to what it can see of the
  schema (`viewOf`), requiredness for both sources, and what becomes of a schema default on the
  introspection path.
-/
import AriadneModel.Model.InputSource
import AriadneModel.Proofs.InputField

set_option linter.unusedSimpArgs false
set_option linter.unusedVariables false

namespace Ariadne.C06Source
open Ariadne
open Ariadne.InputGen (TypeRef Lit PyExpr InputField TypeDef Mode)
open Ariadne.InputField Ariadne.InputSource

/-! ### the generator for a source is the SDL generator on the view -/

theorem genFieldSrc_sdl (cfg : Cfg) (kinds : String → Kind) (f : InputField) :
    genFieldSrc .sdl cfg kinds f = genField cfg kinds f := rfl

theorem viewField_type (m : Mode) (f : InputField) : (viewField m f).type = f.type := by cases m <;> rfl
theorem viewField_name (m : Mode) (f : InputField) : (viewField m f).name = f.name := by cases m <;> rfl

/-- `parse_input_field_default_value` with `node = None` is the same function with a node that has
    no default value -/
theorem fieldDefault_view (m : Mode) (ft : String) (f : InputField) :
    InputGen.fieldDefault m ft f = InputGen.fieldDefault .sdl ft (viewField m f) := by
  cases m with
  | sdl => rfl
  | intro d =>
    simp only [InputGen.fieldDefault, viewField]
    by_cases h : f.type.isNonNull = true <;> simp [h]

theorem genFieldSrc_eq_view (m : Mode) (cfg : Cfg) (kinds : String → Kind) (f : InputField) :
    genFieldSrc m cfg kinds f = genField cfg kinds (viewField m f) := by
  unfold genFieldSrc genField
  rw [viewField_type, viewField_name]
  cases annOf kinds f.type true with
  | none => rfl
  | some p =>
    obtain ⟨a, ft⟩ := p
    have hv := fieldDefault_view m ft f
    simp only [hv]
    rfl

theorem genClassSrc_eq_view (m : Mode) (cfg : Cfg) (kinds : String → Kind) (n : String) (fs : List InputField) :
    genClassSrc m cfg kinds n fs = genClass cfg kinds n (viewFields m fs) := by
  unfold genClassSrc genClass viewFields
  rw [List.map_map]
  congr 1
  apply List.map_congr_left
  intro f _
  exact genFieldSrc_eq_view m cfg kinds f

theorem viewDef_name (m : Mode) (d : TypeDef) : (viewDef m d).name = d.name := by cases d <;> rfl

theorem findDef_view (m : Mode) (defs : List TypeDef) (n : String) :
    InputGen.findDef (viewOf m defs) n = (InputGen.findDef defs n).map (viewDef m) := by
  unfold InputGen.findDef viewOf
  induction defs with
  | nil => rfl
  | cons d ds ih =>
    simp only [List.map_cons, List.find?_cons, viewDef_name]
    cases (d.name == n) with
    | true => rfl
    | false => exact ih

/-- erasing defaults / dropping fields does not change what a type name resolves to -/
theorem kindOf_view (m : Mode) (cfg : Cfg) (defs : List TypeDef) : kindOf cfg (viewOf m defs) = kindOf cfg defs := by
  funext n
  unfold kindOf
  rw [findDef_view]
  cases InputGen.findDef defs n with
  | none => rfl
  | some d => cases d <;> rfl

theorem classOf_view (m : Mode) (cfg : Cfg) (kinds : String → Kind) (d : TypeDef) :
    classOf cfg kinds (viewDef m d) = classOfSrc m cfg kinds d := by
  cases d with
  | input n fs => simp only [viewDef, classOf, classOfSrc, genClassSrc_eq_view]
  | enum n vs => rfl
  | scalar n => rfl
  | composite n => rfl

/-- the classes generated from a schema built by `m` are the classes the SDL generator emits for what
    the generator can see of that schema -/
theorem classesSrc_eq_view (m : Mode) (cfg : Cfg) (defs : List TypeDef) :
    classesSrc m cfg defs = classes cfg (viewOf m defs) := by
  unfold classesSrc classes
  rw [kindOf_view]
  unfold viewOf
  rw [List.filterMap_map]
  generalize kindOf cfg defs = K
  induction defs with
  | nil => rfl
  | cons d ds ih =>
    simp only [List.filterMap_cons, Function.comp, classOf_view]
    rw [ih]

theorem viewOf_sdl (defs : List TypeDef) : viewOf .sdl defs = defs := by
  unfold viewOf
  have : viewDef .sdl = id := by
    funext d
    cases d with
    | input n fs =>
      have hid : viewField .sdl = id := by funext f; rfl
      simp [viewDef, viewFields, InputGen.visibleFields, hid]
    | enum n vs => rfl
    | scalar n => rfl
    | composite n => rfl
  rw [this, List.map_id]

theorem visibleDefs_sdl (defs : List TypeDef) : visibleDefs .sdl defs = defs := by
  unfold visibleDefs
  have : visibleDef .sdl = id := by
    funext d
    cases d <;> rfl
  rw [this, List.map_id]

/-- for SDL nothing changes: `classesSrc .sdl` IS `InputField.classes` -/
theorem classesSrc_sdl (cfg : Cfg) (defs : List TypeDef) : classesSrc .sdl cfg defs = classes cfg defs := by
  rw [classesSrc_eq_view, viewOf_sdl]

theorem mkEnvSrc_sdl (cfg : Cfg) (defs : List TypeDef) (acc : String → J → Bool) (lax : PydInput.Lax) :
    mkEnvSrc .sdl cfg defs acc lax = PydInput.mkEnv cfg defs acc lax := by
  unfold mkEnvSrc
  rw [viewOf_sdl]

/-! ### requiredness -/

/-- the default the generator can see -/
theorem viewField_default_none_iff (m : Mode) (f : InputField) :
    (viewField m f).default = none ↔ (m = .sdl → f.default = none) := by
  cases m with
  | sdl => simp [viewField]
  | intro d => simp [viewField]

/-- what pydantic is told about a field generated from a schema built by `m` -/
theorem genFieldSrc_default (m : Mode) (cfg : Cfg) (kinds : String → Kind) (f : InputField) (d : FieldDecl)
    (h : genFieldSrc m cfg kinds f = some d) :
    ∃ a ft, annOf kinds f.type true = some (a, ft) ∧ d.ann = a ∧ d.py = pyName cfg.snake f.name ∧
      d.value.default = InputGen.fieldDefault m ft f ∧
      d.value.alias = (if pyName cfg.snake f.name != f.name then some f.name else none) := by
  rw [genFieldSrc_eq_view] at h
  obtain ⟨a, ft, ha, hann, hpy, hdef, hal⟩ := genField_default cfg kinds (viewField m f) d h
  rw [viewField_type] at ha
  rw [viewField_name] at hpy hal
  exact ⟨a, ft, ha, hann, hpy, by rw [hdef, fieldDefault_view m ft f], hal⟩

theorem genFieldSrc_required (m : Mode) (cfg : Cfg) (kinds : String → Kind) (f : InputField) (d : FieldDecl)
    (h : genFieldSrc m cfg kinds f = some d) :
    d.required = true ↔ (f.type.isNonNull = true ∧ (viewField m f).default = none) := by
  obtain ⟨a, ft, _, _, _, hdef, _⟩ := genFieldSrc_default m cfg kinds f d h
  unfold FieldDecl.required
  rw [hdef, Option.isNone_iff_eq_none, fieldDefault_view m ft f]
  have := fieldDefault_none_iff ft (viewField m f)
  rw [viewField_type] at this
  exact this

/-- introspection: whatever the schema default, a nullable field gets `= None` and a non-null field
    gets nothing -/
theorem fieldDefault_intro (b : Bool) (ft : String) (f : InputField) :
    InputGen.fieldDefault (.intro b) ft f = (if f.type.isNonNull then none else some .none) := by
  simp only [InputGen.fieldDefault]
  cases f.type.isNonNull <;> rfl

end Ariadne.C06Source
