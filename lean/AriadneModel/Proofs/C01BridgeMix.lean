/-
  Proofs/C01BridgeMix.lean — property C01: the mixin tier (Proofs/C01Mix.lean) carried to the pipeline statement `claimB`:
      ValidInput inp → MixInput inp → nodupKeys j → claimB inp k j = true.

  `MixInput inp` (decidable), with the nesting fuel `K = mixK = 200`:
    * `schemaOK`; fragment names pairwise distinct; every fragment definition satisfies `fragOK … K` (object type, no inline
      fragment, no `@mixin`, plain content with mixin spreads, keys / Python names distinct over own and inherited fields,
      fuel `K` suffices) and generates (`fragGenOK`: class names distinct, `gfuel ≤ Triggers01.fuel`);
    * every operation: name, root type, no `@mixin`, `MixOK … K` for its root class; the class names of the operation's
      module and of the fragments module (`fragModule`) together are pairwise distinct and `NoShadowedImport`; the fuel
      bounds `gfuel ≤ 100000`, `K ≤ execFuel`, `mneed … + 1 ≤ execFuel`, and `fragDepth ≤` number of classes `+ 1`
      (pydantic's inheritance fuel in Spec/Pyd.lean; true whenever every fragment yields a class).
  In this region nothing is unpacked and no `__typename` is inserted: the document is sent as written, and the fragments
  module holds the classes of ALL fragment definitions.
-/
import AriadneModel.Proofs.C01Mix
import AriadneModel.Proofs.C01BridgePlain

set_option linter.unusedSimpArgs false
set_option linter.unusedVariables false

namespace Ariadne.C01
open Ariadne Ariadne.Gql Ariadne.ResultTypes Ariadne.Util Ariadne.Pyd Ariadne.Triggers01 Ariadne.C01Plain Ariadne.C01Mix

/-! ### generation of operations and fragments -/

theorem generate_frag (env : ResultTypes.Env) (fuel : Nat) (f : Fragment) (marks : List Nat)
    (hnu : unpackFragment env f none = false) :
    generate env fuel (.frag f) marks =
      match ((mixinBases f.dirs >>= fun bases =>
              parseTypeDefinition env fuel (pascal f.name) f.on f.sid f.sel false bases []) : M (List ClassDecl))
            { marks := marks } with
      | .ok (cs, st) => .ok { classes := cs, rebuild := (cs.filter classHasForwardRefs).map (·.name), st := st }
      | .error e => .error e := by
  unfold generate
  simp only [hnu, Bool.false_eq_true, if_false]
  rfl

theorem generate_mix_op (env : ResultTypes.Env) (K : Nat) (hfr : FragsOK env K) (o : Operation) (n tn : String)
    (hn : o.name = some n) (hroot : Validate.rootOf env.schema o = some tn)
    (hmix : (o.dirs.any (·.name == Tables.mixinName)) = false)
    (hok : MixOK env K (pascal n) tn o.sel = true) (hnd : ((mClass env (pascal n) tn o.sel).map (·.name)).Nodup)
    (fuel : Nat) (hf : gfuel o.sel ≤ fuel) :
    ∃ out, generate env fuel (.op o) [] = .ok out ∧ out.st.marks = [] ∧ out.st.unpacked = [] ∧
      out.classes = mClass env (pascal n) tn o.sel := by
  obtain ⟨st', hgen, _, hmk, hup⟩ := mix_generation env K hfr (pascal n) tn o.sid o.sel {} hok rfl (sidFree_nil _) hnd
    (fun _ _ h => by cases h) fuel hf
  refine ⟨{ classes := mClass env (pascal n) tn o.sel,
            rebuild := ((mClass env (pascal n) tn o.sel).filter classHasForwardRefs).map (·.name), st := st' }, ?_, hmk, hup, rfl⟩
  rw [generate_op env fuel o n [] hn]
  have hrun : ((ResultTypes.liftExcept (operationTypeName env (.op o)) >>= fun tn =>
              mixinBases o.dirs >>= fun bases =>
              parseTypeDefinition env fuel (pascal n) tn o.sid o.sel false bases []) : M (List ClassDecl))
            { marks := [] } = .ok (mClass env (pascal n) tn o.sel, st') := by
    refine run_bind (a := tn) (s' := { marks := [] }) (by rw [operationTypeName_rootOf env o tn hroot]; rfl) ?_
    refine run_bind (mixinBases_none o.dirs _ hmix) ?_
    exact hgen
  rw [hrun]

theorem generate_mix_frag (env : ResultTypes.Env) (K : Nat) (hfr : FragsOK env K) (f : Fragment) (hf : f ∈ env.frags)
    (hnd : ((fragClassesOf env f).map (·.name)).Nodup) (fuel : Nat) (hfu : gfuel f.sel ≤ fuel)
    (M : List Nat) (hM1 : M.contains f.sid = false) (hM2 : sidFree M f.sel = true) :
    ∃ out, generate env fuel (.frag f) M = .ok out ∧ out.classes = fragClassesOf env f := by
  obtain ⟨hk, hmix, hset, hloc, hfull, hfullS⟩ := fragOK_spec (hfr f hf)
  have hok : MixOK env K (pascal f.name) f.on f.sel = true := by
    simp [MixOK, hk, hset, hloc, hfull, hfullS]
  obtain ⟨st', hgen, _, _, _⟩ := mix_generation env K hfr (pascal f.name) f.on f.sid f.sel { marks := M } hok hM1 hM2 hnd
    (fun _ _ h => by cases h) fuel hfu
  have hnu : unpackFragment env f none = false := by
    have hany : ∀ x ∈ f.sel, (match x with | Selection.inline .. => true | _ => false) = false := by
      intro x hx
      have := mLocal1_shape ((mLocal_iff _ _ _ _ _).mp hloc x hx)
      cases x <;> simp_all [isField, isSpread]
    unfold unpackFragment
    simp [hk]; exact hany
  refine ⟨{ classes := fragClassesOf env f,
            rebuild := ((fragClassesOf env f).filter classHasForwardRefs).map (·.name), st := st' }, ?_, rfl⟩
  rw [generate_frag env fuel f M hnu]
  have hrun : ((mixinBases f.dirs >>= fun bases =>
              parseTypeDefinition env fuel (pascal f.name) f.on f.sid f.sel false bases []) : ResultTypes.M (List ClassDecl))
            { marks := M } = .ok (fragClassesOf env f, st') := by
    refine run_bind (mixinBases_none f.dirs _ hmix) ?_
    exact hgen
  rw [hrun]

/-! ### the fragments module -/

theorem find_self : ∀ (frags : List Fragment) (f : Fragment), (frags.map (·.name)).Nodup → f ∈ frags →
    findFragment? frags f.name = some f
  | [], _, _, h => by cases h
  | x :: xs, f, hnd, h => by
    simp only [List.map_cons, List.nodup_cons] at hnd
    unfold findFragment?
    rw [List.find?_cons]
    rcases List.mem_cons.mp h with rfl | h
    · simp
    · have hne : (x.name == f.name) = false := by
        cases hc : x.name == f.name with
        | false => rfl
        | true =>
          exfalso
          apply hnd.1
          have : x.name = f.name := by simpa using hc
          rw [this]
          exact List.mem_map.mpr ⟨f, h, rfl⟩
      simp only [hne]
      exact find_self xs f hnd.2 h

theorem find_of_name_mem (frags : List Fragment) (n : String) (h : n ∈ frags.map (·.name)) :
    ∃ f, findFragment? frags n = some f := by
  obtain ⟨g, hg, rfl⟩ := List.mem_map.mp h
  unfold findFragment?
  cases hf : frags.find? (·.name == g.name) with
  | some f => exact ⟨f, rfl⟩
  | none =>
    have := List.find?_eq_none.mp hf g hg
    simp at this

/-- one step of the fold by which `pydEnvOf` collects the fragment classes -/
def fragStep (unpacked : List String) (acc : List ClassDecl) (p : String × Except GenErr ModuleOut) : List ClassDecl :=
  match p with
  | (n, x) =>
    match x with
    | .ok o => if unpacked.contains n then acc else acc ++ o.classes
    | .error _ => acc

theorem pydEnvOf_classes (inp : Input) (r : Run) (out : ModuleOut) :
    (pydEnvOf inp r out).classes =
      out.classes ++ r.frags.foldl (fragStep ((okOuts r.ops).foldl (fun acc o => Util.setUnion acc o.st.unpacked) [])) [] := rfl

/-- the classes `pydEnvOf` takes from the fragment generations when nothing was unpacked -/
theorem fragFold (env : ResultTypes.Env) (marks : List Nat) :
    ∀ (names : List String) (acc : List ClassDecl),
      (∀ n ∈ names, ∃ f out, findFragment? env.frags n = some f ∧
        generate env Triggers01.fuel (.frag f) marks = .ok out ∧ out.classes = fragClassesOf env f) →
      (names.filterMap fun n => (findFragment? env.frags n).map fun f =>
          (n, generate env Triggers01.fuel (.frag f) marks)).foldl (fragStep []) acc =
      acc ++ names.flatMap fun n =>
        match findFragment? env.frags n with
        | some f => fragClassesOf env f
        | none => []
  | [], acc, _ => by simp
  | n :: rest, acc, h => by
    obtain ⟨f, out, hf, hg, hc⟩ := h n List.mem_cons_self
    have hstep : fragStep [] acc (n, generate env Triggers01.fuel (.frag f) marks) = acc ++ fragClassesOf env f := by
      rw [hg, ← hc]; rfl
    simp only [List.filterMap_cons, hf, Option.map_some, List.foldl_cons, hstep, List.flatMap_cons]
    rw [fragFold env marks rest _ (fun m hm => h m (List.mem_cons_of_mem _ hm))]
    simp [List.append_assoc]

theorem applyFrag_nil (f : Fragment) : Marks.applyFrag [] f = f := by
  simp [Marks.applyFrag, applySels_nil]

theorem unpacked_nil : ∀ (outs : List ModuleOut) (acc : List String), (∀ o ∈ outs, o.st.unpacked = []) →
    outs.foldl (fun acc o => setUnion acc o.st.unpacked) acc = acc
  | [], _, _ => rfl
  | o :: rest, acc, h => by
    rw [List.foldl_cons, h o List.mem_cons_self]
    exact unpacked_nil rest _ (fun x hx => h x (List.mem_cons_of_mem _ hx))

theorem mixOpOK_spec {env : ResultTypes.Env} {o : Operation} (h : mixOpOK env o = true) :
    ∃ n tn, o.name = some n ∧ Validate.rootOf env.schema o = some tn ∧
      (o.dirs.any (·.name == Tables.mixinName)) = false ∧
      MixOK env (mixK env) (pascal n) tn o.sel = true ∧
      ((mClass env (pascal n) tn o.sel ++ fragModule env).map (·.name)).Nodup ∧
      "BaseModel" ∉ (mClass env (pascal n) tn o.sel ++ fragModule env).map (·.name) ∧
      gfuel o.sel ≤ Triggers01.fuel ∧ mixK env ≤ execFuel ∧ mneed env (mixK env) tn o.sel + 1 ≤ execFuel ∧
      fragDepth env ≤ (mClass env (pascal n) tn o.sel ++ fragModule env).length + 1 := by
  unfold mixOpOK at h
  cases hn : o.name with
  | none => simp [hn] at h
  | some n =>
    cases hr : Validate.rootOf env.schema o with
    | none => simp [hn, hr] at h
    | some tn =>
      simp only [hn, hr, Bool.and_eq_true, Bool.not_eq_true', decide_eq_true_eq, nodupB_iff] at h
      obtain ⟨⟨⟨⟨⟨⟨⟨h1, h2⟩, h3⟩, h4⟩, h5⟩, h6⟩, h7⟩, h8⟩ := h
      exact ⟨n, tn, rfl, rfl, h1, h2, h3, NoShadowedImport_baseModel h4, h5, h6, h7, h8⟩

/-- **the mixin tier on the pipeline** -/
theorem claimB_mix (inp : Input) (k : Nat) (j : J) (hp : MixInput inp) (hj : nodupKeys j = true) :
    claimB inp k j = true := by
  simp only [MixInput, Bool.and_eq_true, List.all_eq_true, nodupB_iff] at hp
  obtain ⟨⟨⟨⟨hschema, hfnd⟩, hfrOK⟩, hfgen⟩, hops⟩ := hp
  have hfr : FragsOK inp.env (mixK inp.env) := hfrOK
  -- every operation generates; marks stay empty, nothing is unpacked
  have hgenAll : ∀ o ∈ inp.ops, ∃ out, generate inp.env Triggers01.fuel (.op o) [] = .ok out ∧ out.st.marks = [] := by
    intro o ho
    obtain ⟨n, tn, hn, hr, hmix, hok, hnd, _, hgf, _⟩ := mixOpOK_spec (hops o ho)
    obtain ⟨out, h1, h2, _, _⟩ := generate_mix_op inp.env _ hfr o n tn hn hr hmix hok
      (by rw [List.map_append] at hnd; exact (List.nodup_append.mp hnd).1) _ hgf
    exact ⟨out, h1, h2⟩
  have hrunops : (run inp).ops = inp.ops.map fun o => generate inp.env Triggers01.fuel (.op o) [] := by
    show runOps inp.env inp.ops [] = _
    exact runOps_nil inp.env inp.ops hgenAll
  have hmarksAll : ∀ (rs : List (Except GenErr ModuleOut)), (∀ r ∈ rs, r ∈ (run inp).ops) → marksAfter rs = [] := by
    intro rs hrs
    apply marksAfter_nil
    intro r hr' out' he
    have hr'' := hrs r hr'
    rw [hrunops] at hr''
    obtain ⟨o', ho', rfl⟩ := List.mem_map.mp hr''
    obtain ⟨out'', h1, h2⟩ := hgenAll o' ho'
    rw [h1] at he
    cases he
    exact h2
  -- the fragment generations
  have hfragGen : ∀ n ∈ sortStr (inp.env.frags.map (·.name)), ∃ f out, findFragment? inp.env.frags n = some f ∧
      generate inp.env Triggers01.fuel (.frag f) (marksAfter (run inp).ops) = .ok out ∧ out.classes = fragClassesOf inp.env f := by
    intro n hn
    obtain ⟨f, hf⟩ := find_of_name_mem inp.env.frags n ((mem_sortStr' n _).mp hn)
    have hfm := (find_mem hf).1
    have hg := hfgen f hfm
    simp only [fragGenOK, Bool.and_eq_true, nodupB_iff, decide_eq_true_eq] at hg
    obtain ⟨out, h1, h2⟩ := generate_mix_frag inp.env _ hfr f hfm hg.1 _ hg.2 [] rfl (sidFree_nil _)
    rw [hmarksAll (run inp).ops (fun r hr => hr)]
    exact ⟨f, out, hf, h1, h2⟩
  unfold claimB
  simp only []
  cases hk : inp.ops[k]? with
  | none =>
    have : (run inp).ops[k]? = none := by rw [hrunops]; simp [hk]
    simp only [this]
  | some o =>
    have ho : o ∈ inp.ops := List.mem_of_getElem? hk
    obtain ⟨n, tn, hn, hr, hmix, hok, hnd, hbm, hgf, hKe, hvf, hKc⟩ := mixOpOK_spec (hops o ho)
    obtain ⟨out, hgen, hmk, hup, hcls⟩ := generate_mix_op inp.env _ hfr o n tn hn hr hmix hok
      (by rw [List.map_append] at hnd; exact (List.nodup_append.mp hnd).1) _ hgf
    have hk' : (run inp).ops[k]? = some (.ok out) := by rw [hrunops]; simp [hk, hgen]
    have hmarks : marksAfter ((run inp).ops.take (k + 1)) = [] := hmarksAll _ (fun r hr => List.mem_of_mem_take hr)
    -- the pydantic environment: the operation's classes and the fragments module
    have hunp : (okOuts (run inp).ops).foldl (fun acc o => setUnion acc o.st.unpacked) [] = [] := by
      apply unpacked_nil
      intro o' ho'
      unfold okOuts at ho'
      obtain ⟨r, hr', he⟩ := List.mem_filterMap.mp ho'
      rw [hrunops] at hr'
      obtain ⟨op, hop, rfl⟩ := List.mem_map.mp hr'
      obtain ⟨n', tn', hn', hr2, hmix', hok', hnd', _, hgf', _⟩ := mixOpOK_spec (hops op hop)
      obtain ⟨out', h1, _, h3, _⟩ := generate_mix_op inp.env _ hfr op n' tn' hn' hr2 hmix' hok'
        (by rw [List.map_append] at hnd'; exact (List.nodup_append.mp hnd').1) _ hgf'
      rw [h1] at he
      simp only [Option.some.injEq] at he
      rw [← he]; exact h3
    have hpenvcls : (pydEnvOf inp (run inp) out).classes = mClass inp.env (pascal n) tn o.sel ++ fragModule inp.env := by
      rw [pydEnvOf_classes, hunp, hcls]
      congr 1
      have := fragFold inp.env (marksAfter (run inp).ops) (sortStr (inp.env.frags.map (·.name))) [] hfragGen
      rw [List.nil_append] at this
      exact this
    have hhas : ∀ c ∈ mClass inp.env (pascal n) tn o.sel ++ fragModule inp.env,
        (pydEnvOf inp (run inp) out).class? c.name = some c := by
      intro c hc
      unfold Pyd.Env.class?
      cases hf : (pydEnvOf inp (run inp) out).classes.find? (·.name == c.name) with
      | none =>
        have := List.find?_eq_none.mp hf c (by rw [hpenvcls]; exact hc)
        simp at this
      | some d =>
        have hd := List.mem_of_find?_eq_some hf
        have hdn := List.find?_some hf
        rw [hpenvcls] at hd
        rw [eq_of_nodup_names _ hnd c hc d hd (by simpa using hdn)]
    have hFragsIn : FragsIn inp.env (pydEnvOf inp (run inp) out) := by
      intro f hf c hc
      apply hhas
      apply List.mem_append_right
      unfold fragModule
      refine List.mem_flatMap.mpr ⟨f.name, (mem_sortStr' _ _).mpr (List.mem_map.mpr ⟨f, hf, rfl⟩), ?_⟩
      rw [find_self inp.env.frags f hfnd hf]
      exact hc
    simp only [hk', hcls, mClass, List.head?_cons, hr, hmarks, applyOp_nil]
    have hfrs : inp.env.frags.map (Marks.applyFrag []) = inp.env.frags := by
      rw [List.map_congr_left (g := id) (fun f _ => applyFrag_nil f)]; simp
    rw [hfrs]
    cases hresp : Exec.respOK inp.env.schema inp.env.frags execFuel tn o.sel j with
    | false => simp
    | true =>
      obtain ⟨v, hv, he⟩ := mix_roundtrip inp.env _ hfr (pascal n) tn o.sel hok (pydEnvOf inp (run inp) out)
        (envAgrees_of_schemaOK inp.env _ hschema rfl)
        (by apply class?_none_of_not_mem; rw [hpenvcls]; exact hbm)
        (fun c hc => hhas c (List.mem_append_left _ hc)) hFragsIn
        (by show fragDepth inp.env ≤ (pydEnvOf inp (run inp) out).classes.length + 1; rw [hpenvcls]; exact hKc)
        execFuel hKe j hresp hj execFuel hvf
      simp only [Bool.not_true, Bool.false_or]
      have : Pyd.validate (pydEnvOf inp (run inp) out) execFuel (.cls (pascal n)) j = .ok v := hv
      rw [this]
      exact he

/-! ### a concrete input in the region

    fragment UG on User { ...UF friends { ...UF } }      fragment UF on User { id name }
    query Q { me { ...UG } }                             query R { again: me { ...UF } }
-/

def mxSchema : Schema :=
  { types := [
      { name := "Query", kind := .object, fields := [{ name := "me", type := .named "User" }] },
      { name := "User", kind := .object,
        fields := [{ name := "id", type := .nonNull (.named "ID") }, { name := "name", type := .named "String" },
                   { name := "friends", type := .nonNull (.list (.nonNull (.named "User"))) }] }],
    query := some "Query" }

def mxInp : Input :=
  { env := { schema := mxSchema,
             frags := [{ name := "UG", on := "User", sid := 6,
                         sel := [.spread "UF" [], .field none "friends" [] 7 [.spread "UF" []]] },
                       { name := "UF", on := "User", sid := 5, sel := [.field none "id" [] 0 [], .field none "name" [] 0 []] }] },
    ops := [{ kind := .query, name := some "Q", sid := 1, sel := [.field none "me" [] 2 [.spread "UG" []]] },
            { kind := .query, name := some "R", sid := 3, sel := [.field (some "again") "me" [] 4 [.spread "UF" []]] }] }

def mxResp : J :=
  .obj [("me", .obj [("id", .str "1"), ("name", .null), ("friends", .arr [.obj [("id", .str "2"), ("name", .str "x")]])])]

/-- non-vacuity: a fragment spreading a fragment, a fragment spread inside a fragment's sub-selection, two operations; the
    classes `QMe(UG)`, `UG(UF)`, `UGFriends(UF)`, `UF`; the answer carries the inherited fields two levels deep -/
theorem mxInp_nonvacuous : ValidInput mxInp ∧ MixInput mxInp ∧ nodupKeys mxResp = true
    ∧ (fragModule mxInp.env).map (fun c => (c.name, c.bases)) = [("UF", ["BaseModel"]), ("UG", ["UF"]), ("UGFriends", ["UF"])]
    ∧ Exec.respOK mxSchema mxInp.env.frags execFuel "Query" [.field none "me" [] 2 [.spread "UG" []]] mxResp = true
    ∧ claimB mxInp 0 mxResp = true := by decide +kernel

end Ariadne.C01
