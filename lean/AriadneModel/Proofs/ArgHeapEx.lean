/-
  Evaluated facts about the two-call program of Properties/C03.lean (kept in a file of its own so that it
  is checked in parallel): the base client of /repo sends the caller's CURRENT values on the second
  call; the write-where-you-walk variant of `_convert_value` (`convertValueIP`, not the code) sends the
  first call's snapshot.
-/
import AriadneModel.Proofs.ArgHeap
import AriadneModel.Proofs.ArgConstructEx

set_option linter.unusedSimpArgs false
set_option linter.unusedVariables false

namespace Ariadne.ArgHeap.Ex
open Ariadne Ariadne.Scalars Ariadne.Coerce Ariadne.ArgValues Ariadne.ArgSend Ariadne.ArgHeap Ariadne.ArgProofs.F9

def fkLimit : FieldKey := fieldKeyOf f9Cfg ⟨"limit", .named "Int" true, some (.num 10 0)⟩
def fkName : FieldKey := fieldKeyOf f9Cfg ⟨"name", .named "String" false, none⟩

/-- `p = P(limit=3); ps = [p]` -/
def store0 : CStore := [.inst "P" [(fkLimit, .imm (.int 3)), (fkName, .imm .unset)], .list [.ref 0]]

def psDefs : List VarDecl := [⟨"ps", .nonNull (.list (.nonNull (.named "P"))), none⟩]
def callQ : CallStep := ⟨"Q", "query Q", psDefs, [.ref 1]⟩

/-- `client.q(ps=ps); p.limit = 4; client.q(ps=ps)` -/
def prog : List Step := [.call callQ, .setField 0 0 (.imm (.int 4)), .call callQ]

def exFns : UserFns := { ser := fun _ j => j, other := fun _ v => .ok v }

def varsOf : Option (Except SendErr Request) → List (String × J)
  | some (.ok r) => r.variables
  | _ => []

def sentBy (conv : CVal → CStore → Option (PVal × CStore)) : List (List (String × J)) :=
  (runWith conv (envOf f9Cfg) exFns true 3 store0 prog).map varsOf

def limitIs (n : Int) : List (String × J) := [("ps", .arr [.obj [("limit", .num n 0)]])]

def sameVars : List (List (String × J)) → List (List (String × J)) → Bool
  | [], [] => true
  | a :: as, b :: bs => J.beqKvs a b && sameVars as bs
  | _, _ => false

theorem real_client_sends_current : sameVars (sentBy (convertValueC exFns 3)) [limitIs 3, limitIs 4] = true := by decide
theorem in_place_variant_sends_stale : sameVars (sentBy (convertValueIP exFns 2)) [limitIs 3, limitIs 3] = true := by decide
theorem ideal_defined : ∀ r ∈ runIdeal (envOf f9Cfg) exFns true 3 store0 prog, r.isSome = true := by decide

end Ariadne.ArgHeap.Ex
