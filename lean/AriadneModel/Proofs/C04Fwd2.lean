/-
  Proofs/C04Fwd2.lean — `forwardRefsOK` of the operation modules and of `fragments.py` inside the region
  `PackageValid.leafNamesOK`.
-/
import AriadneModel.Proofs.C04Fwd
import AriadneModel.Proofs.C04ModInit

set_option linter.unusedSimpArgs false
set_option linter.unusedVariables false

namespace Ariadne.ResultTypes
open Ariadne Ariadne.Gql Ariadne.Util Ariadne.Package Ariadne.PackageValid

/-- one generator: every quoted class name is a class of the generator -/
theorem generate_fwd {env : Env} (hstr : Validate.isComposite env.schema "String" = false)
    (htn : ∀ tn fd, env.schema.fieldOf? tn typenameField = some fd → Validate.isComposite env.schema fd.type.base = false)
    (hfr : ∀ n f, findFragment? env.frags n = some f → SelsAll (LeafP env) f.sel)
    (fuel : Nat) (d : Definition) (marks : List Nat) (o : ModuleOut)
    (hd : match d with | .op op => SelsAll (LeafP env) op.sel | .frag f => SelsAll (LeafP env) f.sel)
    (h : generate env fuel d marks = .ok o) :
    ∀ c ∈ o.classes, ∀ f ∈ c.fields, ∀ x ∈ annFwd f.ann, x ∈ o.classes.map (·.name) := by
  have gs := generate_out env fuel d marks o h
  obtain ⟨cs, st, hr, hc, hs⟩ := generate_ok env fuel d marks o h
  have key : FwdOK st cs → ∀ c ∈ o.classes, ∀ f ∈ c.fields, ∀ x ∈ annFwd f.ann, x ∈ o.classes.map (·.name) := by
    intro hf c hcm f hfm x hx
    rw [hc] at hcm
    have := hf c hcm f hfm x hx
    rw [← hs] at this
    exact (gs.pubClasses x).mp this
  apply key
  cases d with
  | op op =>
    obtain ⟨n, tn, _, _, hp⟩ := genRun_op env fuel op _ cs st hr
    exact ((parse_fwd hstr htn hfr fuel).1 _ _ _ _ _ _ _ _ _ _ hd hp).2
  | frag f =>
    cases hu : unpackFragment env f none with
    | true =>
      obtain ⟨rfl, _⟩ := genRun_frag_unpacked env fuel f _ cs st hr hu
      intro c hc'
      cases hc'
    | false => exact ((parse_fwd hstr htn hfr fuel).1 _ _ _ _ _ _ _ _ _ _ hd (genRun_frag env fuel f _ cs st hr hu)).2

/-! ### the region `leafNamesOK` gives the leaf discipline -/

theorem mem_compositeFieldNames {S : Schema} {tn : String} {fd : FieldDef} (h : S.fieldOf? tn fd.name = some fd)
    (hc : Validate.isComposite S fd.type.base = true) : fd.name ∈ compositeFieldNames S := by
  unfold Schema.fieldOf? at h
  cases hg : S.get? tn with
  | none => rw [hg] at h; cases h
  | some t =>
    rw [hg] at h
    simp only at h
    unfold compositeFieldNames
    refine List.mem_flatMap.mpr ⟨t, ?_, ?_⟩
    · unfold Schema.get? at hg
      exact List.mem_of_find?_eq_some hg
    · exact List.mem_map.mpr ⟨fd, List.mem_filter.mpr ⟨List.mem_of_find?_eq_some h, hc⟩, rfl⟩

theorem fieldOf_name {S : Schema} {tn n : String} {fd : FieldDef} (h : S.fieldOf? tn n = some fd) : fd.name = n := by
  unfold Schema.fieldOf? at h
  cases hg : S.get? tn with
  | none => rw [hg] at h; cases h
  | some t =>
    rw [hg] at h
    simp only at h
    simpa using List.find?_some h

mutual
  theorem selAll_of_leafNames {env : Env} : ∀ (s : Selection),
      (∀ n ∈ selLeafNames s, n ∉ compositeFieldNames env.schema) → SelAll (LeafP env) s
    | .field a n d sid sub, h => by
      refine ⟨?_, selsAll_of_leafNames sub (fun m hm => h m (by simp [selLeafNames, hm]))⟩
      intro hsub tn fd hfd
      simp only at hsub
      cases hcmp : Validate.isComposite env.schema fd.type.base with
      | false => rfl
      | true =>
        exfalso
        have hname := fieldOf_name hfd
        simp only at hname hfd
        have hmem : n ∈ compositeFieldNames env.schema := by
          rw [← hname]
          exact mem_compositeFieldNames (by rw [hname]; exact hfd) hcmp
        exact h n (by simp [selLeafNames, hsub]) hmem
    | .spread _ _, _ => trivial
    | .inline _ _ _ sub, h => by
      show SelsAll (LeafP env) sub
      exact selsAll_of_leafNames sub (fun m hm => h m (by simp [selLeafNames, hm]))
  theorem selsAll_of_leafNames {env : Env} : ∀ (sels : List Selection),
      (∀ n ∈ selsLeafNames sels, n ∉ compositeFieldNames env.schema) → SelsAll (LeafP env) sels
    | [], _ => trivial
    | s :: rest, h =>
      ⟨selAll_of_leafNames s (fun m hm => h m (by simp [selsLeafNames, hm])),
       selsAll_of_leafNames rest (fun m hm => h m (by simp [selsLeafNames, hm]))⟩
end

end Ariadne.ResultTypes

namespace Ariadne.C04Proofs
open Ariadne Ariadne.Gql Ariadne.Util Ariadne.Package Ariadne.PackageTriggers Ariadne.PackageValid Ariadne.Spec.PyScope
open Ariadne.ResultTypes (SelsAll LeafP)
open Ariadne.Fragments (DefGen FragmentsOut)

/-- what `leafNamesOK` says, unfolded -/
structure LeafFacts (cfg : Config) (inp : Input) : Prop where
  str : Validate.isComposite (rtEnv cfg inp).schema "String" = false
  typename : ∀ tn fd, (rtEnv cfg inp).schema.fieldOf? tn ResultTypes.typenameField = some fd →
    Validate.isComposite (rtEnv cfg inp).schema fd.type.base = false
  ops : ∀ o ∈ inp.ops, SelsAll (LeafP (rtEnv cfg inp)) o.op.sel
  frags : ∀ f ∈ inp.frags, SelsAll (LeafP (rtEnv cfg inp)) f.sel

theorem leafFacts {cfg : Config} {inp : Input} (h : leafNamesOK inp = true) : LeafFacts cfg inp := by
  unfold leafNamesOK at h
  simp only [Bool.and_eq_true, Bool.not_eq_true'] at h
  obtain ⟨⟨h1, h2⟩, h3⟩ := h
  have hall : ∀ n ∈ inp.ops.flatMap (fun o => selsLeafNames o.op.sel) ++ inp.frags.flatMap (fun f => selsLeafNames f.sel),
      n ∉ compositeFieldNames inp.schema := by
    intro n hn hm
    have := List.all_eq_true.mp h3 n hn
    simp [hm] at this
  refine ⟨h1, ?_, ?_, ?_⟩
  · intro tn fd hfd
    cases hcmp : Validate.isComposite (rtEnv cfg inp).schema fd.type.base with
    | false => rfl
    | true =>
      exfalso
      have hname := ResultTypes.fieldOf_name hfd
      have hmem : ResultTypes.typenameField ∈ compositeFieldNames inp.schema := by
        rw [← hname]
        exact ResultTypes.mem_compositeFieldNames (S := inp.schema) (by rw [hname]; exact hfd) hcmp
      have : (compositeFieldNames inp.schema).contains Tables.typenameFieldName = true := by simpa [ResultTypes.typenameField] using hmem
      rw [this] at h2
      cases h2
  · intro o ho
    refine ResultTypes.selsAll_of_leafNames (env := rtEnv cfg inp) _ ?_
    intro n hn
    exact hall n (List.mem_append_left _ (List.mem_flatMap.mpr ⟨o, ho, hn⟩))
  · intro f hf
    refine ResultTypes.selsAll_of_leafNames (env := rtEnv cfg inp) _ ?_
    intro n hn
    exact hall n (List.mem_append_right _ (List.mem_flatMap.mpr ⟨f, hf, hn⟩))

section
variable {cfg : Config} {inp : Input} {p : PackageIR} {st : St} {io : InputsOut}
  {fx : Option (Fragments.FragmentsOut × List Fragments.DefGen)}

/-- **forward references of an operation module resolve** inside `leafNamesOK` -/
theorem result_forwardRefs (F : Facts cfg inp p st io fx) (hl : leafNamesOK inp = true) {fm : String × ModuleIR} (hfm : fm ∈ st.files) :
    forwardRefsOK fm.2 = true := by
  have L := leafFacts (cfg := cfg) hl
  have I := opsInv_of F.ops
  obtain ⟨g, hg, _, hmod⟩ := I.files fm hfm
  obtain ⟨o, ho, marks, _, hgen⟩ := I.gens g hg
  have hfr : ∀ n f, findFragment? (rtEnv cfg inp).frags n = some f → SelsAll (LeafP (rtEnv cfg inp)) f.sel :=
    fun n f hf => L.frags f (List.mem_of_find?_eq_some hf)
  have hfw := ResultTypes.generate_fwd L.str L.typename hfr _ (.op o.op) marks _ (L.ops o ho) hgen
  unfold forwardRefsOK
  refine List.all_eq_true.mpr ?_
  intro c hc
  rw [hmod] at hc
  simp only [resultModule, List.mem_map] at hc
  obtain ⟨cd, hcd, rfl⟩ := hc
  refine List.all_eq_true.mpr ?_
  intro x hx
  simp only [resultClassIR, List.mem_flatMap] at hx
  obtain ⟨f, hf, hx⟩ := hx
  have := hfw cd hcd f hf x hx
  have hdef : x ∈ fm.2.defines := by
    refine className_mem_defines ?_
    rw [hmod]
    simpa [resultModule, resultClassIR, Function.comp] using this
  simpa using hdef

/-- **forward references of `fragments.py` resolve** inside `leafNamesOK` -/
theorem fragments_forwardRefs (F : Facts cfg inp p st io fx) (hl : leafNamesOK inp = true) {fo : FragmentsOut} {gens : List DefGen}
    (hfx : fx = some (fo, gens)) : forwardRefsOK (fragmentsModuleIR cfg fo gens) = true := by
  have L := leafFacts (cfg := cfg) hl
  have hran : Fragments.genFragments (rtEnv cfg inp) Package.fuel (Fragments.remaining (rtEnv cfg inp) st.unpacked) st.marks = .ok gens ∧
      Fragments.generateFragments id (rtEnv cfg inp) Package.fuel (Fragments.remaining (rtEnv cfg inp) st.unpacked) st.marks = .ok fo := by
    rcases F.frags with ⟨_, hnone⟩ | ⟨_, fo', gens', hfx', hg', hf'⟩
    · rw [hfx] at hnone; cases hnone
    · rw [hfx] at hfx'
      simp only [Option.some.injEq, Prod.mk.injEq] at hfx'
      obtain ⟨rfl, rfl⟩ := hfx'
      exact ⟨hg', hf'⟩
  obtain ⟨hgens, hfo⟩ := hran
  obtain ⟨_, hfrom⟩ := Fragments.genFragments_spec _ _ _ _ gens hgens
  obtain ⟨gens', hg', _, _, hcio, _⟩ := Fragments.generateFragments_unfold id _ _ _ _ fo hfo
  rw [hgens] at hg'
  simp only [Except.ok.injEq] at hg'
  subst hg'
  obtain ⟨hcs, _⟩ := Fragments.classesInOrder_spec gens fo.order fo.classes hcio
  have hfr : ∀ n f, findFragment? (rtEnv cfg inp).frags n = some f → SelsAll (LeafP (rtEnv cfg inp)) f.sel :=
    fun n f hf => L.frags f (List.mem_of_find?_eq_some hf)
  unfold forwardRefsOK
  refine List.all_eq_true.mpr ?_
  intro c hc
  simp only [fragmentsModuleIR, List.mem_map] at hc
  obtain ⟨cd, hcd, rfl⟩ := hc
  refine List.all_eq_true.mpr ?_
  intro x hx
  simp only [resultClassIR, List.mem_flatMap] at hx
  obtain ⟨f, hf, hx⟩ := hx
  -- the generator the class came from
  obtain ⟨g, hg, hcdg⟩ := mem_classesOf_inv gens fo.order cd (hcs ▸ hcd)
  obtain ⟨fr, marks, hfind, hgn⟩ := hfrom g hg
  have hfw := ResultTypes.generate_fwd L.str L.typename hfr _ (.frag fr) marks _ (L.frags fr (List.mem_of_find?_eq_some hfind)) hgn
  obtain ⟨c', hc', hcn⟩ := List.mem_map.mp (hfw cd hcdg f hf x hx)
  have hin := gens_classes_in_module hgens hfo g hg c' hc'
  have hdef : x ∈ (fragmentsModuleIR cfg fo gens).defines := by
    refine className_mem_defines ?_
    simp only [fragmentsModuleIR, List.map_map]
    exact List.mem_map.mpr ⟨c', hin, by simpa [resultClassIR] using hcn⟩
  simpa using hdef

end

end Ariadne.C04Proofs
