/-
  C14 helper lemmas, part 7: validity transfers from the resolved document to the document.

  If substituting the declared (type, value) for every variable of a selection gives a tree that is
  valid against the schema (`validRSel`: fields exist on the parent type, arguments exist with exactly
  the declared type, required arguments present, leaves/composites, fragment applicability), then the
  selection with its variable definitions passes the document validator (`validSel`), and every used
  variable has a definition of an input type.
-/
import AriadneModel.Proofs.C14Fresh

set_option linter.unusedSimpArgs false
set_option linter.unusedVariables false

namespace Ariadne.C14
open Ariadne Ariadne.Builder Ariadne.CustomGen Ariadne.BuilderDoc

theorem allDistinct_iff : ∀ (l : List String), allDistinct l = true ↔ l.Nodup
  | [] => by simp [allDistinct]
  | x :: xs => by
    simp only [allDistinct, Bool.and_eq_true, Bool.not_eq_true', List.nodup_cons, allDistinct_iff xs]
    constructor
    · rintro ⟨h1, h2⟩
      refine ⟨?_, h2⟩
      intro hm
      have : xs.contains x = true := by simpa using hm
      rw [this] at h1
      exact Bool.noConfusion h1
    · rintro ⟨h1, h2⟩
      refine ⟨?_, h2⟩
      cases hc : xs.contains x with
      | false => rfl
      | true => exact absurd (by simpa using hc) h1

/-- what `resolveArgs` did, argument by argument -/
def ArgRel (defs : List (String × String)) (vals : List (String × J)) (ku : String × String) (kt : String × String × J) : Prop :=
  kt.1 = ku.1 ∧ lookupS ku.2 defs = some kt.2.1 ∧ lookupS ku.2 vals = some kt.2.2

inductive ArgsRel (defs : List (String × String)) (vals : List (String × J)) :
    List (String × String) → List (String × String × J) → Prop
  | nil : ArgsRel defs vals [] []
  | cons {ku kt as ras} : ArgRel defs vals ku kt → ArgsRel defs vals as ras → ArgsRel defs vals (ku :: as) (kt :: ras)

theorem resolveArgs_spec {defs vals} : ∀ (args : List (String × String)) (rargs : List (String × String × J)),
    resolveArgs defs vals args = some rargs → ArgsRel defs vals args rargs := by
  intro args
  induction args with
  | nil => intro rargs h; simp [resolveArgs] at h; subst h; exact .nil
  | cons ku rest ih =>
    intro rargs h
    obtain ⟨k, u⟩ := ku
    simp only [resolveArgs] at h
    split at h
    · rename_i t v r ht hv hr
      simp at h
      subst h
      exact .cons ⟨rfl, ht, hv⟩ (ih r hr)
    · simp at h

theorem forall2_names {defs vals} : ∀ {args rargs}, ArgsRel defs vals args rargs →
    rargs.map (·.1) = args.map (·.1) := by
  intro args rargs h
  induction h with
  | nil => rfl
  | cons hr _ ih => simp [hr.1, ih]

theorem validArgs_of {s : Schema} {f : FieldDef} {defs vals} : ∀ {args rargs},
    ArgsRel defs vals args rargs → validRArgs s f rargs = true → validArgs f defs args = true := by
  intro args rargs h hv
  unfold validRArgs at hv
  unfold validArgs
  simp only [Bool.and_eq_true] at hv ⊢
  obtain ⟨⟨hv1, hv2⟩, hv3⟩ := hv
  have hn := forall2_names h
  refine ⟨⟨?_, ?_⟩, ?_⟩
  · -- every argument exists and its variable is declared with exactly the argument's type
    clear hv2 hv3 hn
    induction h with
    | nil => simp
    | @cons ku kt as ras hr _ ih =>
      simp only [List.all_cons, Bool.and_eq_true] at hv1 ⊢
      refine ⟨?_, ih hv1.2⟩
      have h1 := hv1.1
      rw [hr.1] at h1
      split at h1
      · simp at h1
      · rename_i a ha
        simp only [Bool.and_eq_true, beq_iff_eq] at h1
        simp [ha, hr.2.1, h1.1]
  · -- required arguments
    rw [List.all_eq_true] at hv2 ⊢
    intro a ha
    have := hv2 a ha
    simp only [Bool.or_eq_true, Bool.not_eq_true'] at this ⊢
    rcases this with h0 | h0
    · exact Or.inl h0
    · right
      rw [List.any_eq_true] at h0 ⊢
      obtain ⟨kt, hkt, hk⟩ := h0
      have : kt.1 ∈ rargs.map (·.1) := List.mem_map_of_mem hkt
      rw [hn] at this
      obtain ⟨ku, hku, he⟩ := List.mem_map.mp this
      exact ⟨ku, hku, by rw [he]; exact hk⟩
  · rw [← hn]; exact hv3

theorem typeOK_of_args {s : Schema} {f : FieldDef} {defs vals} : ∀ {args rargs},
    ArgsRel defs vals args rargs → validRArgs s f rargs = true →
    ∀ u ∈ args.map (·.2), ∃ t, lookupS u defs = some t ∧ typeNameOK s t = true := by
  intro args rargs h hv
  unfold validRArgs at hv
  simp only [Bool.and_eq_true] at hv
  have hv1 := hv.1.1
  clear hv
  induction h with
  | nil => intro u hu; simp at hu
  | @cons ku kt as ras hr _ ih =>
    simp only [List.all_cons, Bool.and_eq_true] at hv1
    intro u hu
    simp only [List.map_cons, List.mem_cons] at hu
    rcases hu with rfl | hu
    · have h1 := hv1.1
      split at h1
      · simp at h1
      · simp only [Bool.and_eq_true] at h1
        exact ⟨kt.2.1, hr.2.1, h1.2⟩
    · exact ih hv1.2 u hu

mutual
  theorem validSel_of (s : Schema) (defs : List (String × String)) (vals : List (String × J)) :
      ∀ (x : Sel) (parent : String) (r : RSel), resolveSel defs vals x = some r → validRSel s parent r = true →
        validSel s defs parent x = true ∧ ∀ u ∈ selVars x, ∃ t, lookupS u defs = some t ∧ typeNameOK s t = true
    | .field al nm args hs sels, parent, r, hr, hv => by
      simp only [resolveSel] at hr
      split at hr
      · rename_i ra rs hra hrs
        simp at hr
        subst hr
        simp only [validRSel] at hv
        simp only [validSel, selVars]
        split at hv
        · simp at hv
        · rename_i f hf
          simp only [Bool.and_eq_true] at hv
          have hrel := resolveArgs_spec _ _ hra
          have ha := validArgs_of hrel hv.1
          have hta := typeOK_of_args hrel hv.1
          simp only [hf, ha, Bool.true_and]
          by_cases hc : isComposite (s.kindOf f.ty.final) = true
          · simp only [hc, if_true, Bool.and_eq_true] at hv ⊢
            obtain ⟨-, ⟨hhs, hne⟩, hsub⟩ := hv
            have ih := validSels_of s defs vals sels f.ty.final rs hrs hsub
            have hne' : (!sels.isEmpty) = true := by
              cases sels with
              | nil => simp [resolveSels] at hrs; subst hrs; simp at hne
              | cons _ _ => rfl
            refine ⟨⟨⟨hhs, hne'⟩, ih.1⟩, ?_⟩
            intro u hu
            rcases List.mem_append.mp hu with h1 | h1
            · exact hta u h1
            · exact ih.2 u h1
          · simp only [hc, Bool.false_eq_true, if_false, Bool.and_eq_true] at hv ⊢
            obtain ⟨-, hhs, hemp⟩ := hv
            have hs0 : sels = [] := by
              cases sels with
              | nil => rfl
              | cons y ys =>
                simp only [resolveSels] at hrs
                split at hrs
                · simp at hrs; subst hrs; simp at hemp
                · simp at hrs
            subst hs0
            refine ⟨⟨hhs, rfl⟩, ?_⟩
            intro u hu
            rcases List.mem_append.mp hu with h1 | h1
            · exact hta u h1
            · simp [selVarsList] at h1
      · simp at hr
    | .frag ty sels, parent, r, hr, hv => by
      simp only [resolveSel] at hr
      split at hr
      · rename_i rs hrs
        simp at hr
        subst hr
        simp only [validRSel, Bool.and_eq_true] at hv
        obtain ⟨⟨⟨⟨h1, h2⟩, h3⟩, h4⟩, h5⟩ := hv
        have ih := validSels_of s defs vals sels ty rs hrs h5
        have hne' : (!sels.isEmpty) = true := by
          cases sels with
          | nil => simp [resolveSels] at hrs; subst hrs; simp at h4
          | cons _ _ => rfl
        simp only [validSel, selVars, Bool.and_eq_true]
        exact ⟨⟨⟨⟨⟨h1, h2⟩, h3⟩, hne'⟩, ih.1⟩, ih.2⟩
      · simp at hr
  theorem validSels_of (s : Schema) (defs : List (String × String)) (vals : List (String × J)) :
      ∀ (xs : List Sel) (parent : String) (rs : List RSel), resolveSels defs vals xs = some rs →
        validRSels s parent rs = true →
        validSels s defs parent xs = true ∧ ∀ u ∈ selVarsList xs, ∃ t, lookupS u defs = some t ∧ typeNameOK s t = true
    | [], parent, rs, _, _ => by simp [validSels, selVarsList]
    | x :: xs, parent, rs, hr, hv => by
      simp only [resolveSels] at hr
      split at hr
      · rename_i r rs' hr1 hr2
        simp at hr
        subst hr
        simp only [validRSels, Bool.and_eq_true] at hv
        have i1 := validSel_of s defs vals x parent r hr1 hv.1
        have i2 := validSels_of s defs vals xs parent rs' hr2 hv.2
        refine ⟨by simp [validSels, i1.1, i2.1], ?_⟩
        intro u hu
        simp only [selVarsList] at hu
        rcases List.mem_append.mp hu with h | h
        · exact i1.2 u h
        · exact i2.2 u h
      · simp at hr
end

end Ariadne.C14
