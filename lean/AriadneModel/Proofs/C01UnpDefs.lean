/-
  Proofs/C01UnpDefs.lean — property C01, "unpacked fragments" tier: definitions (core Lean only).

  The tier extends the PLAIN tier (Proofs/C01PlainDefs.lean) by NAMED FRAGMENTS THAT THE GENERATOR UNPACKS: a spread `...F`
  in a selection set evaluated on the OBJECT type `T`, where `F` is defined on an INTERFACE that `T` implements.
  `_unpack_fragment` answers "unpack" (the fragment's type differs from the class's type) and `_resolve_selection_set`
  resolves `F`'s selection set with the SAME root `T` — the fields of `F` (and, recursively, of the fragments `F` spreads)
  are merged into the class of the selection set; no class of the fragments module is involved.

  * `inl env k sel`: the document with every spread replaced by the fragment's content, recursively and at every depth
    (`k` bounds the nesting of spreads and sub-selections): the tier's classes are the PLAIN tier's classes of `inl env k sel`.
  * `uflatK env k sel`: the field nodes `_resolve_selection_set` yields for the class of `sel`, each with the fuel left for
    its sub-selection.
  * `spreadsOK`: the decidable conditions on the spreads; `UnpOK`: the hypothesis of the tier.
  * `reach`: the names of all fragments the generator unpacks while generating the classes of `sel`.
-/
import AriadneModel.Proofs.C01PlainDefs

set_option linter.unusedSimpArgs false
set_option linter.unusedVariables false

namespace Ariadne.C01Unp
open Ariadne Ariadne.Gql Ariadne.ResultTypes Ariadne.Util Ariadne.C01Plain

/-- the document with all spreads inlined (recursively, at every depth) -/
def inl (env : Env) : Nat → List Selection → List Selection
  | 0, _ => []
  | k + 1, sel =>
    sel.flatMap fun s =>
      match s with
      | .field a n d sid sub => [.field a n d sid (inl env k sub)]
      | .spread g _ =>
        match findFragment? env.frags g with
        | some f => inl env k f.sel
        | none => []
      | _ => []

/-- the field nodes of the class of `sel` as `_resolve_selection_set` yields them (spreads unpacked recursively), each with the
    fuel that is left for its sub-selection -/
def uflatK (env : Env) : Nat → List Selection → List (Nat × Selection)
  | 0, _ => []
  | k + 1, sel =>
    sel.flatMap fun s =>
      match s with
      | .field a n d sid sub => [(k, .field a n d sid sub)]
      | .spread g _ =>
        match findFragment? env.frags g with
        | some f => uflatK env k f.sel
        | none => []
      | _ => []

/-- one field node with its sub-selection inlined -/
def inlNode (env : Env) (p : Nat × Selection) : Selection :=
  match p.2 with
  | .field a n d sid sub => .field a n d sid (inl env p.1 sub)
  | s => s

/-- conditions on the spreads met while the classes of `sel` (evaluated on the OBJECT type `tn`) are generated: no
    `@skip/@include` (finding C01-F3), the fragment exists, is defined on an INTERFACE that `tn` implements, contains no inline
    fragment; the fuel suffices; every field with a sub-selection is object-typed and its sub-selection is non-empty after
    inlining -/
def spreadsOK (env : Env) : Nat → String → List Selection → Bool
  | 0, _, _ => false
  | k + 1, tn, sel =>
    env.schema.kindOf? tn == some .object &&
    sel.all fun s =>
      match s with
      | .field _ name _ _ sub =>
        sub.isEmpty || (!(inl env k sub).isEmpty && spreadsOK env k (subType env tn name) sub)
      | .spread g dirs =>
        !hasConditionalDirective dirs &&
        (match findFragment? env.frags g with
         | some f =>
           env.schema.kindOf? f.on == some .interface && env.schema.isSubType f.on tn
           && !(f.sel.any fun x => match x with | .inline .. => true | _ => false)
           && spreadsOK env k tn f.sel
         | none => false)
      | _ => false

/-- the fragments unpacked while the classes of `sel` are generated -/
def reach (env : Env) : Nat → List Selection → List String
  | 0, _ => []
  | k + 1, sel =>
    sel.flatMap fun s =>
      match s with
      | .field _ _ _ _ sub => reach env k sub
      | .spread g _ =>
        match findFragment? env.frags g with
        | some f => g :: reach env k f.sel
        | none => [g]
      | _ => []

/-- **`UnpOK`**: the decidable hypothesis of the tier — the conditions on the spreads, and the hypothesis of the plain tier
    for the inlined document -/
def UnpOK (env : Env) (k : Nat) (cn tn : String) (sid : Nat) (sel : List Selection) (st : St) : Bool :=
  spreadsOK env k tn sel && PlainOK env cn tn sid (inl env k sel) st

end Ariadne.C01Unp
