/-
  Proofs/C01BridgePlain.lean — property C01: the plain-selection tier (Proofs/C01Plain.lean) carried to the pipeline
  statement `claimB`:   ValidInput inp → PlainInput inp → nodupKeys j → claimB inp k j = true.

  `PlainInput inp` (decidable):
    * the document has no fragment definitions;
    * `schemaOK` (Proofs/C01Bridge.lean);
    * every operation: has a name and a root type, carries no `@mixin`, satisfies `PlainOK` for its root class in the
      empty generator state, `NoShadowedImport` (no generated class is called like a name the module imports: `BaseModel`,
      `Optional`, …, an enum), and the two fuel bounds hold:
      `gfuel sel ≤ Triggers01.fuel` (generator, 100000) and `vneed … + 1 ≤ execFuel` (validation, 1000).
  Under these hypotheses no operation inserts an automatic `__typename` (the marks stay empty), so the document is sent
  as written.
-/
import AriadneModel.Proofs.C01Bridge

set_option linter.unusedSimpArgs false
set_option linter.unusedVariables false

namespace Ariadne.C01
open Ariadne Ariadne.Gql Ariadne.ResultTypes Ariadne.Util Ariadne.Pyd Ariadne.Triggers01 Ariadne.C01Plain

theorem generate_op (env : ResultTypes.Env) (fuel : Nat) (o : Operation) (n : String) (marks : List Nat)
    (hn : o.name = some n) :
    generate env fuel (.op o) marks =
      match ((ResultTypes.liftExcept (operationTypeName env (.op o)) >>= fun tn =>
              mixinBases o.dirs >>= fun bases =>
              parseTypeDefinition env fuel (pascal n) tn o.sid o.sel false bases []) : M (List ClassDecl))
            { marks := marks } with
      | .ok (cs, st) => .ok { classes := cs, rebuild := (cs.filter classHasForwardRefs).map (·.name), st := st }
      | .error e => .error e := by
  unfold generate
  simp only [hn]
  rfl

theorem generate_plain (env : ResultTypes.Env) (o : Operation) (n tn : String)
    (hn : o.name = some n) (hroot : Validate.rootOf env.schema o = some tn)
    (hmix : (o.dirs.any (·.name == Tables.mixinName)) = false)
    (hok : PlainOK env (pascal n) tn o.sid o.sel {} = true) (fuel : Nat) (hf : gfuel o.sel ≤ fuel) :
    ∃ out, generate env fuel (.op o) [] = .ok out ∧ out.st.marks = [] ∧
      out.classes = plainClasses env (pascal n) tn o.sel := by
  obtain ⟨st', hgen, _, hmk⟩ := plain_generation env (pascal n) tn o.sid o.sel {} hok [] fuel hf
  refine ⟨{ classes := plainClasses env (pascal n) tn o.sel,
            rebuild := ((plainClasses env (pascal n) tn o.sel).filter classHasForwardRefs).map (·.name), st := st' }, ?_, hmk, rfl⟩
  rw [generate_op env fuel o n [] hn]
  have hrun : ((ResultTypes.liftExcept (operationTypeName env (.op o)) >>= fun tn =>
              mixinBases o.dirs >>= fun bases =>
              parseTypeDefinition env fuel (pascal n) tn o.sid o.sel false bases []) : M (List ClassDecl))
            { marks := [] } = .ok (plainClasses env (pascal n) tn o.sel, st') := by
    refine run_bind (a := tn) (s' := { marks := [] }) (by rw [operationTypeName_rootOf env o tn hroot]; rfl) ?_
    refine run_bind (mixinBases_none o.dirs _ hmix) ?_
    exact hgen
  rw [hrun]

theorem plainOpOK_spec {env : ResultTypes.Env} {o : Operation} (h : plainOpOK env o = true) :
    ∃ n tn, o.name = some n ∧ Validate.rootOf env.schema o = some tn ∧
      (o.dirs.any (·.name == Tables.mixinName)) = false ∧
      PlainOK env (pascal n) tn o.sid o.sel {} = true ∧
      "BaseModel" ∉ (plainClasses env (pascal n) tn o.sel).map (·.name) ∧
      gfuel o.sel ≤ Triggers01.fuel ∧ vneed env tn o.sel + 1 ≤ execFuel := by
  unfold plainOpOK at h
  cases hn : o.name with
  | none => simp [hn] at h
  | some n =>
    cases hr : Validate.rootOf env.schema o with
    | none => simp [hn, hr] at h
    | some tn =>
      simp only [hn, hr, Bool.and_eq_true, Bool.not_eq_true', decide_eq_true_eq] at h
      obtain ⟨⟨⟨⟨h1, h2⟩, h3⟩, h4⟩, h5⟩ := h
      exact ⟨n, tn, rfl, rfl, h1, h2, NoShadowedImport_baseModel h3, h4, h5⟩

theorem class?_none_of_not_mem (penv : Pyd.Env) (n : String) (h : n ∉ penv.classes.map (·.name)) :
    penv.class? n = none := by
  unfold Pyd.Env.class?
  rw [List.find?_eq_none]
  intro c hc e
  exact h (List.mem_map.mpr ⟨c, hc, by simpa using e⟩)

/-- **the plain tier on the pipeline** -/
theorem claimB_plain (inp : Input) (k : Nat) (j : J) (hp : PlainInput inp) (hj : nodupKeys j = true) :
    claimB inp k j = true := by
  simp only [PlainInput, Bool.and_eq_true, List.isEmpty_iff, List.all_eq_true] at hp
  obtain ⟨⟨hfr, hschema⟩, hops⟩ := hp
  -- every operation generates, marks stay empty
  have hgenAll : ∀ o ∈ inp.ops, ∃ out, generate inp.env Triggers01.fuel (.op o) [] = .ok out ∧ out.st.marks = [] := by
    intro o ho
    obtain ⟨n, tn, hn, hr, hmix, hok, _, hgf, _⟩ := plainOpOK_spec (hops o ho)
    obtain ⟨out, h1, h2, _⟩ := generate_plain inp.env o n tn hn hr hmix hok _ hgf
    exact ⟨out, h1, h2⟩
  have hrunops : (run inp).ops = inp.ops.map fun o => generate inp.env Triggers01.fuel (.op o) [] := by
    show runOps inp.env inp.ops [] = _
    exact runOps_nil inp.env inp.ops hgenAll
  have hrunfrags : (run inp).frags = [] := by
    show (sortStr (inp.env.frags.map (·.name))).filterMap _ = []
    rw [hfr]; rfl
  unfold claimB
  simp only []
  cases hk : inp.ops[k]? with
  | none =>
    have : (run inp).ops[k]? = none := by rw [hrunops]; simp [hk]
    simp only [this]
  | some o =>
    have ho : o ∈ inp.ops := List.mem_of_getElem? hk
    obtain ⟨n, tn, hn, hr, hmix, hok, hbm, hgf, hvf⟩ := plainOpOK_spec (hops o ho)
    obtain ⟨out, hgen, hmk, hcls⟩ := generate_plain inp.env o n tn hn hr hmix hok _ hgf
    have hk' : (run inp).ops[k]? = some (.ok out) := by rw [hrunops]; simp [hk, hgen]
    have hmarks : marksAfter ((run inp).ops.take (k + 1)) = [] := by
      apply marksAfter_nil
      intro r hr' out' he
      have hr'' : r ∈ (run inp).ops := List.mem_of_mem_take hr'
      rw [hrunops] at hr''
      obtain ⟨o', ho', rfl⟩ := List.mem_map.mp hr''
      obtain ⟨out'', h1, h2⟩ := hgenAll o' ho'
      rw [h1] at he
      cases he
      exact h2
    simp only [hk', hcls, plainClasses, List.head?_cons, hr, hmarks, applyOp_nil]
    -- the answer is either not conformant, or accepted
    cases hresp : Exec.respOK inp.env.schema (inp.env.frags.map (Marks.applyFrag [])) execFuel tn o.sel j with
    | false => simp
    | true =>
      have hpenvcls : (pydEnvOf inp (run inp) out).classes = plainClasses inp.env (pascal n) tn o.sel := by
        simp only [pydEnvOf, hrunfrags, List.foldl_nil, List.append_nil, hcls]
      have hnd := (PlainOK_spec hok).2.2.2.1
      have hpenv : PenvOK inp.env (pydEnvOf inp (run inp) out) (plainClasses inp.env (pascal n) tn o.sel) := by
        refine PenvOK.of_nodup _ _ _ (envAgrees_of_schemaOK inp.env _ hschema rfl) ?_ ?_ ?_
        · apply class?_none_of_not_mem
          rw [hpenvcls]; exact hbm
        · intro c hc; rw [hpenvcls]; exact hc
        · rw [hpenvcls]; exact hnd
      obtain ⟨v, hv, he⟩ := plain_roundtrip inp.env (pascal n) tn o.sid o.sel {} hok _ hpenv _ execFuel j hresp hj
        execFuel hvf
      simp only [Bool.not_true, Bool.false_or]
      have : Pyd.validate (pydEnvOf inp (run inp) out) execFuel (.cls (pascal n)) j = .ok v := hv
      rw [this]
      exact he

/-- non-vacuity: two operations over the schema of Proofs/C01Plain.lean; the answer of the first has a nested list with a
    `null` element, aliases, an enum leaf and an absent conditional field; it is conformant for the sent document -/
def plInp : Input :=
  { env := C01Plain.exEnv,
    ops := [{ kind := .query, name := some "Q", sid := 1, sel := C01Plain.exSel },
            { kind := .query, name := some "Other", sid := 10,
              sel := [.field none "users" [] 11 [.field none "friends" [] 12 [.field none "id" [] 0 []]]] }] }
theorem plInp_nonvacuous : ValidInput plInp ∧ PlainInput plInp ∧ nodupKeys C01Plain.exResp = true
    ∧ Exec.respOK plInp.env.schema [] execFuel "Query" C01Plain.exSel C01Plain.exResp = true
    ∧ claimB plInp 0 C01Plain.exResp = true := by decide +kernel



end Ariadne.C01
