/-
  C14 helper lemmas, part 9: what a history can do to a LATER operation (tree expressions, class-level objects).

    * more recursion budget never changes a result that was reached (`toAst_mono`, `getFormatted_mono`, `execOpF_mono`);
    * `to_ast` gives a class-level object that nobody mutated back as it found it (`toAst_keepsPristine`);
    * evaluating an expression changes the store only at the class-level objects it applies `alias`/`fields`/`on`
      to (`evalExpr_frame`): every other object is left alone;
    * an expression that applies no mutator to a class-level object evaluates to the same tree in every store, and
      that tree refers only to the class-level objects the expression names (`evalExpr_indep`);
  hence `runOp_frame`: if every class-level object an operation `E` names is still as it was after import, `E`
  (applying no mutator itself, well-formed) sends what it sends in a fresh process - whatever else the history did.
-/
import AriadneModel.Proofs.C14Total
import AriadneModel.Proofs.C14Owned

set_option linter.unusedSimpArgs false
set_option linter.unusedVariables false

namespace Ariadne.C14
open Ariadne Ariadne.Builder Ariadne.CustomGen Ariadne.BuilderDoc

/-! ### more fuel never changes a result -/

def VisitLe (f g : Visit) : Prop := ∀ st used n r, f st used n = .ok r → g st used n = .ok r

theorem mapAcc_le {f g : Visit} (h : VisitLe f g) :
    ∀ (ns : List Node) (st : Store) (used : List String) r, mapAcc f st used ns = .ok r → mapAcc g st used ns = .ok r
  | [], st, used, r, hr => by simpa [mapAcc] using hr
  | n :: ns, st, used, r, hr => by
    simp only [mapAcc] at hr ⊢
    cases h1 : f st used n with
    | error e => rw [h1] at hr; simp at hr
    | ok x =>
      obtain ⟨s, n', st1, u1⟩ := x
      rw [h1] at hr
      rw [h _ _ _ _ h1]
      dsimp only at hr ⊢
      cases h2 : mapAcc f st1 u1 ns with
      | error e => rw [h2] at hr; simp at hr
      | ok y =>
        obtain ⟨ss, ns', st2, u2⟩ := y
        rw [h2] at hr
        rw [mapAcc_le h ns _ _ _ h2]
        exact hr

theorem mapFrags_le {f g : Visit} (h : VisitLe f g) :
    ∀ (fs : List Frag) (st : Store) (used : List String) r, mapFrags f st used fs = .ok r → mapFrags g st used fs = .ok r
  | [], st, used, r, hr => by simpa [mapFrags] using hr
  | .mk ty ns :: fs, st, used, r, hr => by
    simp only [mapFrags] at hr ⊢
    cases h1 : mapAcc f st used ns with
    | error e => rw [h1] at hr; simp at hr
    | ok x =>
      obtain ⟨ss, ns', st1, u1⟩ := x
      rw [h1] at hr
      rw [mapAcc_le h _ _ _ _ h1]
      dsimp only at hr ⊢
      cases h2 : mapFrags f st1 u1 fs with
      | error e => rw [h2] at hr; simp at hr
      | ok y =>
        obtain ⟨rest, fs', st2, u2⟩ := y
        rw [h2] at hr
        rw [mapFrags_le h fs _ _ _ h2]
        exact hr

theorem toAst_mono (idx : Nat) : ∀ (f k : Nat), VisitLe (toAst f idx) (toAst (f + k) idx) := by
  intro f
  induction f with
  | zero => intro k st used n r h; simp [toAst] at h
  | succ f ih =>
    intro k st used n r h
    have hk : f + 1 + k = (f + k) + 1 := by omega
    rw [hk]
    cases n with
    | obj rc subs frags =>
      simp only [toAst] at h ⊢
      cases hcv : collectVars idx rc.vars used with
      | error e => rw [hcv] at h; simp at h
      | ok x =>
        obtain ⟨fv, u1⟩ := x
        rw [hcv] at h
        dsimp only at h ⊢
        cases h1 : mapAcc (toAst f idx) st u1 subs with
        | error e => rw [h1] at h; simp at h
        | ok y =>
          obtain ⟨ss, subs', st1, u2⟩ := y
          rw [h1] at h
          rw [mapAcc_le (ih k) _ _ _ _ h1]
          dsimp only at h ⊢
          cases h2 : mapFrags (toAst f idx) st1 u2 frags with
          | error e => rw [h2] at h; simp at h
          | ok z =>
            obtain ⟨fsel, frags', st2, u3⟩ := z
            rw [h2] at h
            rw [mapFrags_le (ih k) _ _ _ _ h2]
            exact h
    | ref id =>
      simp only [toAst] at h ⊢
      cases hm : st[id]? with
      | none => rw [hm] at h; simp at h
      | some m =>
        rw [hm] at h
        dsimp only at h ⊢
        cases h1 : toAst f idx st used m with
        | error e => rw [h1] at h; simp at h
        | ok y =>
          obtain ⟨s, n', st1, u1⟩ := y
          rw [h1] at h
          rw [ih k _ _ _ _ h1]
          exact h

theorem buildSelections_mono (f k : Nat) : ∀ (ns : List Node) (idx : Nat) (st : Store) r,
    buildSelections f idx st ns = .ok r → buildSelections (f + k) idx st ns = .ok r
  | [], idx, st, r, h => by simpa [buildSelections] using h
  | n :: ns, idx, st, r, h => by
    simp only [buildSelections] at h ⊢
    cases h1 : toAst f idx st [] n with
    | error e => rw [h1] at h; simp at h
    | ok y =>
      obtain ⟨s, n', st1, u1⟩ := y
      rw [h1] at h
      rw [toAst_mono idx f k _ _ _ _ h1]
      dsimp only at h ⊢
      cases h2 : buildSelections f (idx + 1) st1 ns with
      | error e => rw [h2] at h; simp at h
      | ok z =>
        obtain ⟨ss, ns', st2⟩ := z
        rw [h2] at h
        rw [buildSelections_mono f k ns _ _ _ h2]
        exact h

def GLe (f g : GVisit) : Prop := ∀ n r, f n = .ok r → g n = .ok r

theorem gfvList_le {f g : GVisit} (h : GLe f g) : ∀ (ns : List Node) (d : List FVar) r,
    gfvList f d ns = .ok r → gfvList g d ns = .ok r
  | [], d, r, hr => by simpa [gfvList] using hr
  | n :: ns, d, r, hr => by
    simp only [gfvList] at hr ⊢
    cases h1 : f n with
    | error e => rw [h1] at hr; simp at hr
    | ok x =>
      rw [h1] at hr
      rw [h _ _ h1]
      exact gfvList_le h ns _ _ hr

theorem gfvFrags_le {f g : GVisit} (h : GLe f g) : ∀ (fs : List Frag) (d : List FVar) r,
    gfvFrags f d fs = .ok r → gfvFrags g d fs = .ok r
  | [], d, r, hr => by simpa [gfvFrags] using hr
  | .mk ty ns :: fs, d, r, hr => by
    simp only [gfvFrags] at hr ⊢
    cases h1 : gfvList f d ns with
    | error e => rw [h1] at hr; simp at hr
    | ok d1 =>
      rw [h1] at hr
      rw [gfvList_le h _ _ _ h1]
      exact gfvFrags_le h fs _ _ hr

theorem getFormatted_mono (st : Store) : ∀ (f k : Nat), GLe (getFormatted f st) (getFormatted (f + k) st) := by
  intro f
  induction f with
  | zero => intro k n r h; simp [getFormatted] at h
  | succ f ih =>
    intro k n r h
    have hk : f + 1 + k = (f + k) + 1 := by omega
    rw [hk]
    cases n with
    | obj rc subs frags =>
      simp only [getFormatted] at h ⊢
      cases h1 : gfvList (getFormatted f st) rc.formatted subs with
      | error e => rw [h1] at h; simp at h
      | ok d1 =>
        rw [h1] at h
        rw [gfvList_le (ih k) _ _ _ h1]
        exact gfvFrags_le (ih k) _ _ _ h
    | ref id =>
      simp only [getFormatted] at h ⊢
      cases hm : st[id]? with
      | none => rw [hm] at h; simp at h
      | some m =>
        rw [hm] at h
        exact ih k _ _ h

/-- one client call with an explicit recursion budget (`execOp` = `execOpF` with `opFuel`) -/
def execOpF (fuel : Nat) (opType name : String) (st : Store) (nodes : List Node) : Except Err (Doc × Store) :=
  match buildSelections fuel 0 st nodes with
  | .error e => .error e
  | .ok (sels, nodes', st') =>
    match combine fuel st' nodes' with
    | .error e => .error e
    | .ok fv =>
      .ok ({ opType := opType, name := name, varDefs := fv.map fun v => (v.uname, v.ty), sels := sels,
             values := fv.map fun v => (v.uname, v.value) }, st')

theorem execOp_eq_execOpF (ty nm : String) (st : Store) (nodes : List Node) :
    execOp ty nm st nodes = execOpF (opFuel st nodes) ty nm st nodes := rfl

theorem execOpF_mono (f k : Nat) (ty nm : String) (st : Store) (nodes : List Node) (r : Doc × Store)
    (h : execOpF f ty nm st nodes = .ok r) : execOpF (f + k) ty nm st nodes = .ok r := by
  unfold execOpF at h ⊢
  cases h1 : buildSelections f 0 st nodes with
  | error e => rw [h1] at h; simp at h
  | ok x =>
    obtain ⟨sels, nodes', st'⟩ := x
    rw [h1] at h
    rw [buildSelections_mono f k _ _ _ _ h1]
    dsimp only at h ⊢
    cases h2 : combine f st' nodes' with
    | error e => rw [h2] at h; simp at h
    | ok fv =>
      rw [h2] at h
      have : combine (f + k) st' nodes' = .ok fv := gfvList_le (getFormatted_mono st' f k) _ _ _ h2
      rw [this]
      exact h

/-! ### `to_ast` gives an untouched class-level object back as it found it -/

def KeepsP (f : Visit) : Prop :=
  ∀ st used n s n' st' used', f st used n = .ok (s, n', st', used') →
    ∀ (id : Nat) (m : Node), st[id]? = some m → PristineNode m → st'[id]? = some m

theorem mapAcc_keepsP {f : Visit} (hf : KeepsP f) :
    ∀ (ns : List Node) (st : Store) (used : List String) ss ns' st' used',
      mapAcc f st used ns = .ok (ss, ns', st', used') →
      ∀ (id : Nat) (m : Node), st[id]? = some m → PristineNode m → st'[id]? = some m := by
  intro ns
  induction ns with
  | nil =>
    intro st used ss ns' st' used' h id m hm _
    simp [mapAcc] at h
    obtain ⟨-, -, rfl, -⟩ := h
    exact hm
  | cons n ns ih =>
    intro st used ss ns' st' used' h id m hm hp
    unfold mapAcc at h
    split at h
    · simp at h
    · rename_i s n1 st1 u1 h1
      have e1 := hf _ _ _ _ _ _ _ h1 id m hm hp
      split at h
      · simp at h
      · rename_i ss2 ns2 st2 u2 h2
        simp at h
        obtain ⟨-, -, rfl, -⟩ := h
        exact ih _ _ _ _ _ _ h2 id m e1 hp

theorem mapFrags_keepsP {f : Visit} (hf : KeepsP f) :
    ∀ (fs : List Frag) (st : Store) (used : List String) ss fs' st' used',
      mapFrags f st used fs = .ok (ss, fs', st', used') →
      ∀ (id : Nat) (m : Node), st[id]? = some m → PristineNode m → st'[id]? = some m := by
  intro fs
  induction fs with
  | nil =>
    intro st used ss fs' st' used' h id m hm _
    simp [mapFrags] at h
    obtain ⟨-, -, rfl, -⟩ := h
    exact hm
  | cons fr fs ih =>
    intro st used ss fs' st' used' h id m hm hp
    cases fr with
    | mk ty ns =>
      unfold mapFrags at h
      split at h
      · simp at h
      · rename_i ss1 ns1 st1 u1 h1
        have e1 := mapAcc_keepsP hf _ _ _ _ _ _ _ h1 id m hm hp
        split at h
        · simp at h
        · rename_i rest fs2 st2 u2 h2
          simp at h
          obtain ⟨-, -, rfl, -⟩ := h
          exact ih _ _ _ _ _ _ h2 id m e1 hp

theorem toAst_keepsP (idx : Nat) : ∀ fuel, KeepsP (toAst fuel idx) := by
  intro fuel
  induction fuel with
  | zero => intro st used n s n' st' used' h; simp [toAst] at h
  | succ f ih =>
    intro st used n s n' st' used' h id m hm hp
    cases n with
    | obj r subs frags =>
      unfold toAst at h
      split at h
      · simp at h
      · split at h
        · simp at h
        · rename_i ss subs' st1 u2 h2
          have e1 := mapAcc_keepsP ih _ _ _ _ _ _ _ h2 id m hm hp
          split at h
          · simp at h
          · rename_i fs frags' st2 u3 h3
            have e2 := mapFrags_keepsP ih _ _ _ _ _ _ _ h3 id m e1 hp
            simp at h
            obtain ⟨-, -, rfl, -⟩ := h
            exact e2
    | ref id' =>
      unfold toAst at h
      split at h
      · simp at h
      · rename_i n0 hn
        split at h
        · simp at h
        · rename_i s1 n1 st1 u1 h1
          simp at h
          obtain ⟨-, -, rfl, -⟩ := h
          have e1 := ih _ _ _ _ _ _ _ h1 id m hm hp
          by_cases hid : id' = id
          · subst hid
            rw [hm] at hn
            simp at hn
            subst hn
            -- the visit of a pristine leaf returns the same leaf
            obtain ⟨r, rfl, hv, hf⟩ := hp
            obtain ⟨c0, fn0, g0, vars0, fm0, al0⟩ := r
            simp at hv hf
            subst hv hf
            cases f with
            | zero => simp [toAst] at h1
            | succ f' =>
              simp [toAst, collectVars_nil, mapAcc, mapFrags] at h1
              obtain ⟨-, rfl, -⟩ := h1
              rw [set_self _ _ _ e1]
              exact e1
          · rw [List.getElem?_set_ne hid]
            exact e1

theorem buildSelections_keepsP (fuel : Nat) :
    ∀ (ns : List Node) (idx : Nat) (st : Store) sels ns' st', buildSelections fuel idx st ns = .ok (sels, ns', st') →
      ∀ (id : Nat) (m : Node), st[id]? = some m → PristineNode m → st'[id]? = some m := by
  intro ns
  induction ns with
  | nil =>
    intro idx st sels ns' st' h id m hm _
    simp [buildSelections] at h
    obtain ⟨-, -, rfl⟩ := h
    exact hm
  | cons n ns ih =>
    intro idx st sels ns' st' h id m hm hp
    unfold buildSelections at h
    split at h
    · simp at h
    · rename_i s n1 st1 u1 h1
      have e1 := toAst_keepsP idx fuel _ _ _ _ _ _ _ h1 id m hm hp
      split at h
      · simp at h
      · rename_i ss ns2 st2 h2
        simp at h
        obtain ⟨-, -, rfl⟩ := h
        exact ih _ _ _ _ _ h2 id m e1 hp

theorem execOp_keepsP {ty nm : String} {st : Store} {nodes : List Node} {d : Doc} {st' : Store}
    (h : execOp ty nm st nodes = .ok (d, st')) :
    ∀ (id : Nat) (m : Node), st[id]? = some m → PristineNode m → st'[id]? = some m := by
  unfold execOp at h
  split at h
  · simp at h
  · rename_i sels nodes' st1 hb
    split at h
    · simp at h
    · simp at h
      rw [← h.2]
      exact buildSelections_keepsP _ _ _ _ _ _ _ hb

/-! ### which class-level objects an expression mutates, which it names -/

/-- the object `id` is the receiver of an `alias`/`fields`/`on` somewhere in these occurrences -/
def MutAt (p : Package) (occs : List (String × String × Bool)) (id : Nat) : Prop :=
  ∃ c a, (c, a, true) ∈ occs ∧ p.sharedId c a = some id

/-- the object `id` is named somewhere in these occurrences -/
def OccAt (p : Package) (occs : List (String × String × Bool)) (id : Nat) : Prop :=
  ∃ c a m, (c, a, m) ∈ occs ∧ p.sharedId c a = some id

theorem mem_markHead_true {l : List (String × String × Bool)} {b : Bool} {c a : String}
    (h : (c, a, true) ∈ l) : (c, a, true) ∈ markHead l b := by
  cases l with
  | nil => simp at h
  | cons x xs =>
    obtain ⟨c', a', m'⟩ := x
    cases b with
    | false => simpa [markHead] using h
    | true =>
      simp only [markHead]
      rcases List.mem_cons.mp h with h1 | h1
      · simp only [Prod.mk.injEq] at h1
        obtain ⟨rfl, rfl, -⟩ := h1
        exact List.mem_cons_self
      · exact List.mem_cons_of_mem _ h1

theorem mem_markHead_any {l : List (String × String × Bool)} {b : Bool} {c a : String} {m : Bool}
    (h : (c, a, m) ∈ l) : ∃ m', (c, a, m') ∈ markHead l b := by
  cases l with
  | nil => simp at h
  | cons x xs =>
    obtain ⟨c', a', m'⟩ := x
    cases b with
    | false => exact ⟨m, by simpa [markHead] using h⟩
    | true =>
      simp only [markHead]
      rcases List.mem_cons.mp h with h1 | h1
      · simp only [Prod.mk.injEq] at h1
        obtain ⟨rfl, rfl, -⟩ := h1
        exact ⟨true, List.mem_cons_self⟩
      · exact ⟨m, List.mem_cons_of_mem _ h1⟩

theorem MutAt.markHead {p : Package} {l : List (String × String × Bool)} {b : Bool} {id : Nat}
    (h : MutAt p l id) : MutAt p (markHead l b) id := by
  obtain ⟨c, a, hm, hs⟩ := h
  exact ⟨c, a, mem_markHead_true hm, hs⟩

theorem MutAt.left {p : Package} {l1 l2 : List (String × String × Bool)} {id : Nat}
    (h : MutAt p l1 id) : MutAt p (l1 ++ l2) id := by
  obtain ⟨c, a, hm, hs⟩ := h
  exact ⟨c, a, List.mem_append_left _ hm, hs⟩

theorem MutAt.right {p : Package} {l1 l2 : List (String × String × Bool)} {id : Nat}
    (h : MutAt p l2 id) : MutAt p (l1 ++ l2) id := by
  obtain ⟨c, a, hm, hs⟩ := h
  exact ⟨c, a, List.mem_append_right _ hm, hs⟩

theorem OccAt.markHead {p : Package} {l : List (String × String × Bool)} {b : Bool} {id : Nat}
    (h : OccAt p l id) : OccAt p (markHead l b) id := by
  obtain ⟨c, a, m, hm, hs⟩ := h
  obtain ⟨m', hm'⟩ := mem_markHead_any (b := b) hm
  exact ⟨c, a, m', hm', hs⟩

theorem OccAt.left {p : Package} {l1 l2 : List (String × String × Bool)} {id : Nat}
    (h : OccAt p l1 id) : OccAt p (l1 ++ l2) id := by
  obtain ⟨c, a, m, hm, hs⟩ := h
  exact ⟨c, a, m, List.mem_append_left _ hm, hs⟩

theorem OccAt.right {p : Package} {l1 l2 : List (String × String × Bool)} {id : Nat}
    (h : OccAt p l2 id) : OccAt p (l1 ++ l2) id := by
  obtain ⟨c, a, m, hm, hs⟩ := h
  exact ⟨c, a, m, List.mem_append_right _ hm, hs⟩

theorem isObj_not_ref {n : Node} (h : IsObj n) (id : Nat) : n ≠ .ref id := by
  obtain ⟨r, s, f, rfl⟩ := h
  simp

/-- a mutator applied to what a node denotes changes the store at most at the object the node refers to -/
theorem mutate_frame (f : Node → Node) (hf : ∀ m, IsObj m → IsObj (f m)) (n : Node) (st : Store) :
    (mutate f n st).2.length = st.length ∧
    (∀ id, n ≠ .ref id → (mutate f n st).2[id]? = st[id]?) ∧
    (∀ id, (mutate f n st).1 = .ref id → n = .ref id) ∧ (∀ id, n = .ref id → (mutate f n st).1 = .ref id) := by
  cases n with
  | obj r s fr =>
    refine ⟨rfl, fun _ _ => rfl, ?_, by simp⟩
    intro id h
    exact absurd h (isObj_not_ref (hf _ ⟨r, s, fr, rfl⟩) id)
  | ref id0 =>
    simp only [mutate]
    cases st[id0]? with
    | none => simp
    | some o =>
      refine ⟨by simp, ?_, by simp, by simp⟩
      intro id hne
      have : id0 ≠ id := fun h => hne (by rw [h])
      simp [List.getElem?_set_ne this]

/-- the outcome of one receiver-mutating step (`alias`, `fields`, `on`), given what is known about the receiver -/
theorem mutate_step (p : Package) (f : Node → Node) (hf : ∀ m, IsObj m → IsObj (f m)) (n : Node) (st1 : Store)
    (occs : List (String × String × Bool))
    (hhead : ∀ id, n = .ref id → ∃ c a m rest, occs = (c, a, m) :: rest ∧ p.sharedId c a = some id) :
    (mutate f n st1).2.length = st1.length ∧
    (∀ id, ¬ MutAt p (markHead occs true) id → (mutate f n st1).2[id]? = st1[id]?) ∧
    (∀ id, (mutate f n st1).1 = .ref id →
        ∃ c a m rest, markHead occs true = (c, a, m) :: rest ∧ p.sharedId c a = some id) := by
  obtain ⟨m1, m2, m3, m4⟩ := mutate_frame f hf n st1
  refine ⟨m1, ?_, ?_⟩
  · intro id hno
    apply m2
    intro hn
    obtain ⟨c, a, m, rest, ho, hs⟩ := hhead id hn
    apply hno
    rw [ho]
    exact ⟨c, a, by simp [markHead], hs⟩
  · intro id hr
    obtain ⟨c, a, m, rest, ho, hs⟩ := hhead id (m3 id hr)
    rw [ho]
    exact ⟨c, a, true, rest, rfl, hs⟩

mutual
  /-- evaluating an expression changes the store only at the class-level objects it applies a mutator to; and a
      value that is a reference is the class-level object the expression starts from -/
  theorem evalExpr_frame (p : Package) : ∀ (e : Expr) (st : Store) (r : Except Err Node) (st' : Store),
      evalExpr p e st = (r, st') →
      st'.length = st.length ∧
      (∀ id, ¬ MutAt p (sharedOccs e) id → st'[id]? = st[id]?) ∧
      (∀ id, r = .ok (.ref id) → exprIsAttr (exprBase e) = true ∧
          ∃ c a m rest, sharedOccs e = (c, a, m) :: rest ∧ p.sharedId c a = some id)
    | .attr cls a, st, r, st', h => by
      simp only [evalExpr] at h
      split at h
      · simp at h; obtain ⟨rfl, rfl⟩ := h; simp
      · split at h
        · simp at h; obtain ⟨rfl, rfl⟩ := h; simp
        · split at h
          · simp at h; obtain ⟨rfl, rfl⟩ := h; simp
          · split at h
            · rename_i id hid
              simp at h
              obtain ⟨rfl, rfl⟩ := h
              refine ⟨rfl, fun _ _ => rfl, ?_⟩
              intro id' hr
              simp at hr
              subst hr
              exact ⟨rfl, cls, a, false, [], rfl, hid⟩
            · simp at h; obtain ⟨rfl, rfl⟩ := h; simp
    | .call cls a kw, st, r, st', h => by
      have h0 := (evalExpr_noMut p (.call cls a kw) st rfl)
      rw [h] at h0
      simp only at h0
      obtain ⟨rfl, hobj⟩ := h0
      refine ⟨rfl, fun _ _ => rfl, ?_⟩
      intro id hr
      exact absurd rfl (isObj_not_ref (hobj rfl _ hr) id)
    | .alias e al, st, r, st', h => by
      simp only [evalExpr] at h
      rcases hh : evalExpr p e st with ⟨r1, st1⟩
      rw [hh] at h
      obtain ⟨l1, f1, g1⟩ := evalExpr_frame p e st r1 st1 hh
      simp only [sharedOccs]
      cases r1 with
      | error x =>
        simp at h
        obtain ⟨rfl, rfl⟩ := h
        exact ⟨l1, fun id hno => f1 id (fun hm => hno hm.markHead), by simp⟩
      | ok n =>
        simp only [] at h
        split at h
        · rcases hm : mutate (setAlias al) n st1 with ⟨n', st2⟩
          rw [hm] at h
          simp at h
          obtain ⟨rfl, rfl⟩ := h
          by_cases hb : exprIsAttr (exprBase e) = true
          · rw [hb]
            obtain ⟨s1, s2, s3⟩ := mutate_step p (setAlias al) (fun _ => setAlias_isObj) n st1 (sharedOccs e) (fun id hn => (g1 id (by rw [hn])).2)
            rw [hm] at s1 s2 s3
            refine ⟨s1.trans l1, ?_, ?_⟩
            · intro id hno
              rw [s2 id hno]
              exact f1 id (fun hmm => hno hmm.markHead)
            · intro id hr
              simp at hr
              exact ⟨by simpa [exprBase] using hb, s3 id hr⟩
          · simp only [Bool.not_eq_true] at hb
            rw [hb]
            -- the receiver is an owned object
            obtain ⟨m1, m2, m3, m4⟩ := mutate_frame (setAlias al) (fun _ => setAlias_isObj) n st1
            rw [hm] at m1 m2 m3 m4
            simp only at m1 m2 m3 m4
            have hnr : ∀ id, n ≠ .ref id := by
              intro id hn
              have hb' := (g1 id (by rw [hn])).1
              rw [hb] at hb'
              simp at hb'
            refine ⟨m1.trans l1, ?_, ?_⟩
            · intro id hno
              rw [m2 id (hnr id)]
              exact f1 id (by simpa [markHead_false] using hno)
            · intro id hr
              simp at hr
              exact absurd (m3 id hr) (hnr id)
        · simp at h
          obtain ⟨rfl, rfl⟩ := h
          exact ⟨l1, fun id hno => f1 id (fun hm => hno hm.markHead), by simp⟩
    | .fields e cs, st, r, st', h => by
      simp only [evalExpr] at h
      rcases hh : evalExpr p e st with ⟨r1, st1⟩
      rw [hh] at h
      obtain ⟨l1, f1, g1⟩ := evalExpr_frame p e st r1 st1 hh
      simp only [sharedOccs]
      cases r1 with
      | error x =>
        simp at h
        obtain ⟨rfl, rfl⟩ := h
        exact ⟨l1, fun id hno => f1 id (fun hm => hno hm.markHead.left), by simp⟩
      | ok n =>
        simp only [] at h
        split at h
        · rcases hl : evalList p cs st1 with ⟨rl, st2⟩
          rw [hl] at h
          obtain ⟨l2, f2⟩ := evalList_frame p cs st1 rl st2 hl
          cases rl with
          | error x =>
            simp at h
            obtain ⟨rfl, rfl⟩ := h
            refine ⟨l2.trans l1, ?_, by simp⟩
            intro id hno
            rw [f2 id (fun hm => hno hm.right)]
            exact f1 id (fun hm => hno hm.markHead.left)
          | ok ns =>
            simp only [] at h
            rcases hm : mutate (extendSubs ns) n st2 with ⟨n', st3⟩
            rw [hm] at h
            simp at h
            obtain ⟨rfl, rfl⟩ := h
            by_cases hb : exprIsAttr (exprBase e) = true
            · rw [hb]
              obtain ⟨s1, s2, s3⟩ := mutate_step p (extendSubs ns) (fun _ => extendSubs_isObj) n st2 (sharedOccs e) (fun id hn => (g1 id (by rw [hn])).2)
              rw [hm] at s1 s2 s3
              refine ⟨(s1.trans l2).trans l1, ?_, ?_⟩
              · intro id hno
                rw [s2 id (fun hmm => hno hmm.left), f2 id (fun hmm => hno hmm.right)]
                exact f1 id (fun hmm => hno hmm.markHead.left)
              · intro id hr
                simp at hr
                obtain ⟨c, a, m, rest, ho, hs⟩ := s3 id hr
                exact ⟨by simpa [exprBase] using hb, c, a, m, rest ++ sharedOccsList cs, by rw [ho]; rfl, hs⟩
            · simp only [Bool.not_eq_true] at hb
              rw [hb]
              obtain ⟨m1, m2, m3, m4⟩ := mutate_frame (extendSubs ns) (fun _ => extendSubs_isObj) n st2
              rw [hm] at m1 m2 m3 m4
              simp only at m1 m2 m3 m4
              have hnr : ∀ id, n ≠ .ref id := by
                intro id hn
                have hb' := (g1 id (by rw [hn])).1
                rw [hb] at hb'
                simp at hb'
              refine ⟨(m1.trans l2).trans l1, ?_, ?_⟩
              · intro id hno
                rw [m2 id (hnr id), f2 id (fun hmm => hno hmm.right)]
                exact f1 id (fun hmm => hno (by simpa [markHead_false] using hmm.left))
              · intro id hr
                simp at hr
                exact absurd (m3 id hr) (hnr id)
        · simp at h
          obtain ⟨rfl, rfl⟩ := h
          exact ⟨l1, fun id hno => f1 id (fun hm => hno hm.markHead.left), by simp⟩
    | .on e ty cs, st, r, st', h => by
      simp only [evalExpr] at h
      rcases hh : evalExpr p e st with ⟨r1, st1⟩
      rw [hh] at h
      obtain ⟨l1, f1, g1⟩ := evalExpr_frame p e st r1 st1 hh
      simp only [sharedOccs]
      cases r1 with
      | error x =>
        simp at h
        obtain ⟨rfl, rfl⟩ := h
        exact ⟨l1, fun id hno => f1 id (fun hm => hno hm.markHead.left), by simp⟩
      | ok n =>
        simp only [] at h
        split at h
        · rcases hl : evalList p cs st1 with ⟨rl, st2⟩
          rw [hl] at h
          obtain ⟨l2, f2⟩ := evalList_frame p cs st1 rl st2 hl
          cases rl with
          | error x =>
            simp at h
            obtain ⟨rfl, rfl⟩ := h
            refine ⟨l2.trans l1, ?_, by simp⟩
            intro id hno
            rw [f2 id (fun hm => hno hm.right)]
            exact f1 id (fun hm => hno hm.markHead.left)
          | ok ns =>
            simp only [] at h
            rcases hm : mutate (setFrag ty ns) n st2 with ⟨n', st3⟩
            rw [hm] at h
            simp at h
            obtain ⟨rfl, rfl⟩ := h
            by_cases hb : exprIsAttr (exprBase e) = true
            · rw [hb]
              obtain ⟨s1, s2, s3⟩ := mutate_step p (setFrag ty ns) (fun _ => setFrag_isObj) n st2 (sharedOccs e) (fun id hn => (g1 id (by rw [hn])).2)
              rw [hm] at s1 s2 s3
              refine ⟨(s1.trans l2).trans l1, ?_, ?_⟩
              · intro id hno
                rw [s2 id (fun hmm => hno hmm.left), f2 id (fun hmm => hno hmm.right)]
                exact f1 id (fun hmm => hno hmm.markHead.left)
              · intro id hr
                simp at hr
                obtain ⟨c, a, m, rest, ho, hs⟩ := s3 id hr
                exact ⟨by simpa [exprBase] using hb, c, a, m, rest ++ sharedOccsList cs, by rw [ho]; rfl, hs⟩
            · simp only [Bool.not_eq_true] at hb
              rw [hb]
              obtain ⟨m1, m2, m3, m4⟩ := mutate_frame (setFrag ty ns) (fun _ => setFrag_isObj) n st2
              rw [hm] at m1 m2 m3 m4
              simp only at m1 m2 m3 m4
              have hnr : ∀ id, n ≠ .ref id := by
                intro id hn
                have hb' := (g1 id (by rw [hn])).1
                rw [hb] at hb'
                simp at hb'
              refine ⟨(m1.trans l2).trans l1, ?_, ?_⟩
              · intro id hno
                rw [m2 id (hnr id), f2 id (fun hmm => hno hmm.right)]
                exact f1 id (fun hmm => hno (by simpa [markHead_false] using hmm.left))
              · intro id hr
                simp at hr
                exact absurd (m3 id hr) (hnr id)
        · simp at h
          obtain ⟨rfl, rfl⟩ := h
          exact ⟨l1, fun id hno => f1 id (fun hm => hno hm.markHead.left), by simp⟩
  theorem evalList_frame (p : Package) : ∀ (es : List Expr) (st : Store) (r : Except Err (List Node)) (st' : Store),
      evalList p es st = (r, st') →
      st'.length = st.length ∧ (∀ id, ¬ MutAt p (sharedOccsList es) id → st'[id]? = st[id]?)
    | [], st, r, st', h => by
      simp [evalList] at h
      obtain ⟨-, rfl⟩ := h
      exact ⟨rfl, fun _ _ => rfl⟩
    | e :: es, st, r, st', h => by
      simp only [evalList] at h
      rcases hh : evalExpr p e st with ⟨r1, st1⟩
      rw [hh] at h
      obtain ⟨l1, f1, -⟩ := evalExpr_frame p e st r1 st1 hh
      simp only [sharedOccsList]
      cases r1 with
      | error x =>
        simp at h
        obtain ⟨-, rfl⟩ := h
        exact ⟨l1, fun id hno => f1 id (fun hm => hno hm.left)⟩
      | ok n =>
        simp only [] at h
        rcases hl : evalList p es st1 with ⟨rl, st2⟩
        rw [hl] at h
        obtain ⟨l2, f2⟩ := evalList_frame p es st1 rl st2 hl
        have hst : st' = st2 := by cases rl <;> simp at h <;> exact h.2.symm
        subst hst
        refine ⟨l2.trans l1, ?_⟩
        intro id hno
        rw [f2 id (fun hm => hno hm.right)]
        exact f1 id (fun hm => hno hm.left)
end

/-! ### an expression without mutators on class-level objects evaluates to the same tree everywhere -/

theorem refsInL_append (F : Nat → Prop) : ∀ (a b : List Node), RefsInL F (a ++ b) ↔ RefsInL F a ∧ RefsInL F b
  | [], b => by simp [RefsInL]
  | n :: a, b => by simp [RefsInL, refsInL_append F a b, and_assoc]

theorem refsInF_setFragList (F : Nat → Prop) (ty : String) (cs : List Node) (hc : RefsInL F cs) :
    ∀ (fs : List Frag), RefsInF F fs → RefsInF F (setFragList ty cs fs)
  | [], _ => by simp [setFragList, RefsInF, hc]
  | .mk t ns :: fs, h => by
    simp only [RefsInF] at h
    simp only [setFragList]
    split
    · simp [RefsInF, hc, h.2]
    · simp [RefsInF, h.1, refsInF_setFragList F ty cs hc fs h.2]

mutual
  theorem evalExpr_indep (p : Package) : ∀ (e : Expr), mutatesShared e = false →
      (∀ st, evalExpr p e st = ((evalExpr p e []).1, st)) ∧
      (∀ n, (evalExpr p e []).1 = .ok n → RefsIn (OccAt p (sharedOccs e)) n)
    | .attr cls a, _ => by
      constructor
      · intro st
        simp only [evalExpr]
        split <;> try rfl
        split <;> try rfl
        split <;> try rfl
        split <;> rfl
      · intro n hn
        obtain ⟨-, -, g⟩ := evalExpr_frame p (.attr cls a) [] (evalExpr p (.attr cls a) []).1 (evalExpr p (.attr cls a) []).2 rfl
        simp only [evalExpr] at hn
        split at hn <;> try (simp at hn)
        split at hn <;> try (simp at hn)
        split at hn <;> try (simp at hn)
        split at hn <;> try (simp at hn)
        rename_i id hid
        subst hn
        simp only [RefsIn, sharedOccs]
        exact ⟨cls, a, false, by simp, hid⟩
    | .call cls a kw, _ => by
      constructor
      · intro st
        simp only [evalExpr]
        split <;> try rfl
        split <;> try rfl
        split <;> try rfl
        split <;> rfl
      · intro n hn
        obtain ⟨r, s, f, rfl⟩ := (evalExpr_noMut p (.call cls a kw) [] rfl).2 rfl n hn
        simp only [evalExpr] at hn
        split at hn <;> try (simp at hn)
        split at hn <;> try (simp at hn)
        split at hn <;> try (simp at hn)
        split at hn <;> try (simp at hn)
        simp only [mkNode, Node.obj.injEq] at hn
        obtain ⟨-, rfl, rfl⟩ := hn
        simp [RefsIn, RefsInL, RefsInF]
    | .alias e al, h => by
      simp only [mutatesShared, Bool.or_eq_false_iff] at h
      obtain ⟨hb, hm⟩ := h
      obtain ⟨ih1, ih2⟩ := evalExpr_indep p e hm
      have hobj := (evalExpr_noMut p e [] hm).2 hb
      simp only [sharedOccs, hb, markHead_false]
      constructor
      · intro st
        simp only [evalExpr]
        rw [ih1 st, ih1 []]
        cases hr : (evalExpr p e []).1 with
        | error x => rfl
        | ok n =>
          obtain ⟨r, s, f, rfl⟩ := hobj n hr
          simp only [mutate_obj]
          by_cases hc : classHas p (fun x => x.hasAlias) (nodeCls st (Node.obj r s f)) = true
          · have hc' : classHas p (fun x => x.hasAlias) (nodeCls [] (Node.obj r s f)) = true := hc
            simp only [if_pos hc, if_pos hc']
          · have hc' : ¬ classHas p (fun x => x.hasAlias) (nodeCls [] (Node.obj r s f)) = true := hc
            simp only [if_neg hc, if_neg hc']
      · intro n' hn'
        simp only [evalExpr] at hn'
        rw [ih1 []] at hn'
        cases hr : (evalExpr p e []).1 with
        | error x => rw [hr] at hn'; simp at hn'
        | ok n =>
          rw [hr] at hn'
          obtain ⟨r, s, f, rfl⟩ := hobj n hr
          have i2 := ih2 _ hr
          simp only [mutate_obj] at hn'
          by_cases hc : classHas p (fun x => x.hasAlias) (nodeCls [] (Node.obj r s f)) = true
          · simp only [if_pos hc] at hn'
            simp at hn'
            subst hn'
            simpa [setAlias, RefsIn] using i2
          · simp only [if_neg hc] at hn'
            simp at hn'
    | .fields e cs, h => by
      simp only [mutatesShared, Bool.or_eq_false_iff] at h
      obtain ⟨⟨hb, hm⟩, hcs⟩ := h
      obtain ⟨ih1, ih2⟩ := evalExpr_indep p e hm
      obtain ⟨il1, il2⟩ := evalList_indep p cs hcs
      have hobj := (evalExpr_noMut p e [] hm).2 hb
      simp only [sharedOccs, hb, markHead_false]
      constructor
      · intro st
        simp only [evalExpr]
        rw [ih1 st, ih1 []]
        cases hr : (evalExpr p e []).1 with
        | error x => rfl
        | ok n =>
          obtain ⟨r, s, f, rfl⟩ := hobj n hr
          by_cases hc : classHas p (fun x => x.hasFields) (nodeCls st (Node.obj r s f)) = true
          · have hc' : classHas p (fun x => x.hasFields) (nodeCls [] (Node.obj r s f)) = true := hc
            simp only [if_pos hc, if_pos hc']
            rw [il1 st, il1 []]
            cases hl : (evalList p cs []).1 with
            | error x => rfl
            | ok ns => simp [mutate_obj]
          · have hc' : ¬ classHas p (fun x => x.hasFields) (nodeCls [] (Node.obj r s f)) = true := hc
            simp only [if_neg hc, if_neg hc']
      · intro n' hn'
        simp only [evalExpr] at hn'
        rw [ih1 []] at hn'
        cases hr : (evalExpr p e []).1 with
        | error x => rw [hr] at hn'; simp at hn'
        | ok n =>
          rw [hr] at hn'
          obtain ⟨r, s, f, rfl⟩ := hobj n hr
          have i2 := ih2 _ hr
          by_cases hc : classHas p (fun x => x.hasFields) (nodeCls [] (Node.obj r s f)) = true
          · simp only [if_pos hc] at hn'
            rw [il1 []] at hn'
            cases hl : (evalList p cs []).1 with
            | error x => rw [hl] at hn'; simp at hn'
            | ok ns =>
              rw [hl] at hn'
              have j2 := il2 _ hl
              simp [mutate_obj] at hn'
              subst hn'
              simp only [extendSubs, RefsIn] at i2 ⊢
              refine ⟨(refsInL_append _ _ _).mpr ⟨refsInL_mono (fun i h => h.left) _ i2.1, refsInL_mono (fun i h => h.right) _ j2⟩,
                refsInF_mono (fun i h => h.left) _ i2.2⟩
          · simp only [if_neg hc] at hn'
            simp at hn'
    | .on e ty cs, h => by
      simp only [mutatesShared, Bool.or_eq_false_iff] at h
      obtain ⟨⟨hb, hm⟩, hcs⟩ := h
      obtain ⟨ih1, ih2⟩ := evalExpr_indep p e hm
      obtain ⟨il1, il2⟩ := evalList_indep p cs hcs
      have hobj := (evalExpr_noMut p e [] hm).2 hb
      simp only [sharedOccs, hb, markHead_false]
      constructor
      · intro st
        simp only [evalExpr]
        rw [ih1 st, ih1 []]
        cases hr : (evalExpr p e []).1 with
        | error x => rfl
        | ok n =>
          obtain ⟨r, s, f, rfl⟩ := hobj n hr
          by_cases hc : classHas p (fun x => x.hasOn) (nodeCls st (Node.obj r s f)) = true
          · have hc' : classHas p (fun x => x.hasOn) (nodeCls [] (Node.obj r s f)) = true := hc
            simp only [if_pos hc, if_pos hc']
            rw [il1 st, il1 []]
            cases hl : (evalList p cs []).1 with
            | error x => rfl
            | ok ns => simp [mutate_obj]
          · have hc' : ¬ classHas p (fun x => x.hasOn) (nodeCls [] (Node.obj r s f)) = true := hc
            simp only [if_neg hc, if_neg hc']
      · intro n' hn'
        simp only [evalExpr] at hn'
        rw [ih1 []] at hn'
        cases hr : (evalExpr p e []).1 with
        | error x => rw [hr] at hn'; simp at hn'
        | ok n =>
          rw [hr] at hn'
          obtain ⟨r, s, f, rfl⟩ := hobj n hr
          have i2 := ih2 _ hr
          by_cases hc : classHas p (fun x => x.hasOn) (nodeCls [] (Node.obj r s f)) = true
          · simp only [if_pos hc] at hn'
            rw [il1 []] at hn'
            cases hl : (evalList p cs []).1 with
            | error x => rw [hl] at hn'; simp at hn'
            | ok ns =>
              rw [hl] at hn'
              have j2 := il2 _ hl
              simp [mutate_obj] at hn'
              subst hn'
              simp only [setFrag, RefsIn] at i2 ⊢
              exact ⟨refsInL_mono (fun i h => h.left) _ i2.1,
                refsInF_setFragList _ ty ns (refsInL_mono (fun i h => h.right) _ j2) f (refsInF_mono (fun i h => h.left) _ i2.2)⟩
          · simp only [if_neg hc] at hn'
            simp at hn'
  theorem evalList_indep (p : Package) : ∀ (es : List Expr), mutatesSharedList es = false →
      (∀ st, evalList p es st = ((evalList p es []).1, st)) ∧
      (∀ ns, (evalList p es []).1 = .ok ns → RefsInL (OccAt p (sharedOccsList es)) ns)
    | [], _ => ⟨fun _ => rfl, fun ns h => by simp [evalList] at h; subst h; trivial⟩
    | e :: es, h => by
      simp only [mutatesSharedList, Bool.or_eq_false_iff] at h
      obtain ⟨ih1, ih2⟩ := evalExpr_indep p e h.1
      obtain ⟨il1, il2⟩ := evalList_indep p es h.2
      simp only [sharedOccsList]
      constructor
      · intro st
        simp only [evalList]
        rw [ih1 st, ih1 []]
        cases hr : (evalExpr p e []).1 with
        | error x => rfl
        | ok n =>
          simp only []
          rw [il1 st, il1 []]
          cases hl : (evalList p es []).1 <;> rfl
      · intro ns hns
        simp only [evalList] at hns
        rw [ih1 []] at hns
        cases hr : (evalExpr p e []).1 with
        | error x => rw [hr] at hns; simp at hns
        | ok n =>
          rw [hr] at hns
          simp only [] at hns
          rw [il1 []] at hns
          cases hl : (evalList p es []).1 with
          | error x => rw [hl] at hns; simp at hns
          | ok ns0 =>
            rw [hl] at hns
            simp at hns
            subst hns
            simp only [RefsInL]
            exact ⟨refsIn_mono (fun i h => h.left) _ (ih2 _ hr), refsInL_mono (fun i h => h.right) _ (il2 _ hl)⟩
end

/-! ### one operation over a process in which everything it names is untouched -/

theorem node_size_pos : ∀ n : Node, 1 ≤ Node.size n
  | .obj _ _ _ => by simp [Node.size]; omega
  | .ref _ => by simp [Node.size]

theorem sizeList_ge_length : ∀ l : List Node, l.length ≤ Node.sizeList l
  | [] => by simp [Node.sizeList]
  | n :: l => by
    have := node_size_pos n
    have := sizeList_ge_length l
    simp [Node.sizeList]
    omega

theorem sizeList_leaves {α : Type} (g : α → Rec) : ∀ l : List α, Node.sizeList (l.map fun x => Node.obj (g x) [] []) = l.length
  | [] => by simp [Node.sizeList]
  | x :: l => by simp [Node.sizeList, Node.size, Frag.sizeList, sizeList_leaves g l]; omega

theorem sizeList_init (p : Package) : Node.sizeList p.initStore = p.initStore.length := by
  unfold Package.initStore
  rw [sizeList_leaves]
  simp

theorem execOpF_frame (fuel : Nat) (ty nm : String) {F : Nat → Prop} {st1 st2 : Store} {ns : List Node}
    (hs : EraseAgree F st1 st2) (hF : RefsInL F ns) :
    (∃ e, execOpF fuel ty nm st1 ns = .error e ∧ execOpF fuel ty nm st2 ns = .error e) ∨
    (∃ d t1 t2, execOpF fuel ty nm st1 ns = .ok (d, t1) ∧ execOpF fuel ty nm st2 ns = .ok (d, t2)) := by
  unfold execOpF
  rcases buildSelections_sim fuel ns ns 0 F _ st1 st2 hs rfl hF (good_empty st1 st2) with
    ⟨e, h1, h2⟩ | ⟨sels, ns', t1, t2, A', h1, h2, -, hg, hr⟩
  · rw [h1, h2]; exact Or.inl ⟨e, rfl, rfl⟩
  · rw [h1, h2]
    dsimp only
    rw [combine_agree hg _ _ hr]
    cases combine fuel t2 ns' with
    | error e => exact Or.inl ⟨e, rfl, rfl⟩
    | ok fv => exact Or.inr ⟨_, t1, t2, rfl, rfl⟩

/-- FRAME for one operation: if every class-level object the operation NAMES is as it was after import, the
    operation (no mutator on class-level objects, well-formed) sends what it sends in a fresh process -/
theorem runOp_frame (p : Package) (E : Op) (st : Store) (hE : opMutatesShared E = false)
    (hI : (Intended p E).isSome = true) (hlen : st.length = p.initStore.length)
    (hst : ∀ id, OccAt p (sharedOccsList E.fields) id → st[id]? = p.initStore[id]?) :
    (runOp p E st).1 = (runOp p E p.initStore).1 := by
  obtain ⟨d, hd⟩ := runOp_sends p E hE hI
  obtain ⟨i1, i2⟩ := evalList_indep p E.fields hE
  rw [hd]
  unfold runOp at hd ⊢
  rw [i1 p.initStore] at hd
  rw [i1 st]
  cases hr : (evalList p E.fields []).1 with
  | error x => rw [hr] at hd; simp at hd
  | ok nodes =>
    rw [hr] at hd
    simp only [] at hd ⊢
    cases he : execOp E.opType E.name p.initStore nodes with
    | error x => rw [he] at hd; simp at hd
    | ok ds =>
      obtain ⟨d0, t0⟩ := ds
      rw [he] at hd
      simp at hd
      subst hd
      have hs : EraseAgree (OccAt p (sharedOccsList E.fields)) st p.initStore := by
        refine ⟨hlen, fun id hid => by rw [hst id hid], ?_⟩
        intro id m hid hm
        rw [hst id hid] at hm
        obtain ⟨r, rfl, -, -⟩ := initStore_pristine p id m hm
        simp [RefsIn, RefsInL, RefsInF]
      rw [execOp_eq_execOpF] at he
      rcases execOpF_frame (opFuel p.initStore nodes) E.opType E.name hs (i2 nodes hr) with
        ⟨e, h1, h2⟩ | ⟨d', t1, t2, h1, h2⟩
      · rw [he] at h2; simp at h2
      · rw [he] at h2
        simp at h2
        obtain ⟨rfl, -⟩ := h2
        have hge : Node.sizeList p.initStore ≤ Node.sizeList st := by
          rw [sizeList_init, ← hlen]; exact sizeList_ge_length st
        have hk : opFuel st nodes = opFuel p.initStore nodes + (Node.sizeList st - Node.sizeList p.initStore) := by
          unfold opFuel; omega
        rw [execOp_eq_execOpF, hk, execOpF_mono _ _ _ _ _ _ _ h1]

/-! ### what a history leaves of the class-level objects it never applies a mutator to -/

theorem runOp_length (p : Package) (op : Op) (st : Store) : (runOp p op st).2.length = st.length := by
  unfold runOp
  rcases hl : evalList p op.fields st with ⟨rl, st1⟩
  obtain ⟨l1, -⟩ := evalList_frame p op.fields st rl st1 hl
  cases rl with
  | error x => exact l1
  | ok nodes =>
    simp only []
    cases he : execOp op.opType op.name st1 nodes with
    | error x => exact l1
    | ok ds =>
      obtain ⟨d, st2⟩ := ds
      simp only []
      rw [erase_length (execOp_erase he)]
      exact l1

theorem runOp_keeps_unmutated (p : Package) (op : Op) (st : Store) (id : Nat)
    (hno : ¬ MutAt p (sharedOccsList op.fields) id) {m : Node} (hm : st[id]? = some m) (hp : PristineNode m) :
    (runOp p op st).2[id]? = some m := by
  unfold runOp
  rcases hl : evalList p op.fields st with ⟨rl, st1⟩
  obtain ⟨-, f1⟩ := evalList_frame p op.fields st rl st1 hl
  have h1 : st1[id]? = some m := by rw [f1 id hno]; exact hm
  cases rl with
  | error x => exact h1
  | ok nodes =>
    simp only []
    cases he : execOp op.opType op.name st1 nodes with
    | error x => exact h1
    | ok ds =>
      obtain ⟨d, st2⟩ := ds
      exact execOp_keepsP he id m h1 hp

theorem fold_length (p : Package) : ∀ (H : List Op) (st : Store),
    (H.foldl (fun s o => (runOp p o s).2) st).length = st.length
  | [], st => rfl
  | o :: H, st => by
    simp only [List.foldl_cons]
    rw [fold_length p H, runOp_length]

theorem fold_keeps_unmutated (p : Package) (id : Nat) {m : Node} (hp : PristineNode m) :
    ∀ (H : List Op) (st : Store), (∀ op ∈ H, ¬ MutAt p (sharedOccsList op.fields) id) → st[id]? = some m →
      (H.foldl (fun s o => (runOp p o s).2) st)[id]? = some m
  | [], st, _, hm => hm
  | o :: H, st, h, hm => by
    simp only [List.foldl_cons]
    exact fold_keeps_unmutated p id hp H _ (fun op hop => h op (by simp [hop]))
      (runOp_keeps_unmutated p o st id (h o (by simp)) hm hp)

/-! ### the F4 trigger, read as a statement about the history -/

theorem sharedId_spec (p : Package) {c a : String} {id : Nat} (h : p.sharedId c a = some id) :
    ∃ ca, p.sharedList[id]? = some ca ∧ ca.1 = c ∧ ca.2.attr = a := by
  unfold Package.sharedId at h
  simp only [] at h
  split at h
  · rename_i hlt
    simp at h
    subst h
    refine ⟨_, List.getElem?_eq_getElem hlt, ?_⟩
    have := List.findIdx_getElem (w := hlt)
    simpa using this
  · simp at h

theorem sharedId_inj (p : Package) {c a c' a' : String} {id : Nat} (h : p.sharedId c a = some id)
    (h' : p.sharedId c' a' = some id) : c = c' ∧ a = a' := by
  obtain ⟨ca, e1, rfl, rfl⟩ := sharedId_spec p h
  obtain ⟨ca', e2, rfl, rfl⟩ := sharedId_spec p h'
  rw [e1] at e2
  simp at e2
  subst e2
  exact ⟨rfl, rfl⟩

theorem mem_zipIdx_of_mem {α : Type} : ∀ (l : List α) (k : Nat) (x : α), x ∈ l → ∃ i, (x, i) ∈ l.zipIdx k
  | [], _, _, h => by simp at h
  | y :: l, k, x, h => by
    rcases List.mem_cons.mp h with rfl | h1
    · exact ⟨k, by simp [List.zipIdx_cons]⟩
    · obtain ⟨i, hi⟩ := mem_zipIdx_of_mem l (k + 1) x h1
      exact ⟨i, by simp [List.zipIdx_cons, hi]⟩

/-- outside the F4 trigger, no class-level object the operation names was the receiver of a mutator earlier -/
theorem hist_unmutated_of_trig (p : Package) (H : List Op) (E : Op) (h : trigSharedMut H E = false) :
    ∀ id, OccAt p (sharedOccsList E.fields) id → ∀ op ∈ H, ¬ MutAt p (sharedOccsList op.fields) id := by
  intro id ⟨c, a, m, hmem, hs⟩ op hop ⟨c', a', hmem', hs'⟩
  obtain ⟨rfl, rfl⟩ := sharedId_inj p hs hs'
  unfold trigSharedMut at h
  simp only [] at h
  rw [List.any_eq_false] at h
  obtain ⟨i, hi⟩ := mem_zipIdx_of_mem _ 0 _ hmem
  have := h _ hi
  simp only [Bool.or_eq_true, not_or, Bool.not_eq_true] at this
  have h1 := this.1
  rw [List.any_eq_false] at h1
  have hin : (c, a, true) ∈ List.flatMap (fun o => sharedOccsList o.fields) H :=
    List.mem_flatMap.mpr ⟨op, hop, hmem'⟩
  have := h1 _ hin
  simp at this

/-- HISTORY-FREEDOM outside the F4 trigger: an operation that applies no mutator to a class-level object itself
    (and is well-formed) sends what it sends in a fresh process after ANY history that never applied a mutator to a
    class-level object the operation names - whatever that history did to other class-level objects, whatever it
    raised. -/
theorem history_free_unmutated (p : Package) (H : List Op) (E : Op) (hE : opMutatesShared E = false)
    (hI : (Intended p E).isSome = true) (hT : trigSharedMut H E = false) :
    (runOps p (H ++ [E])).getLast? = (runOps p [E]).getLast? := by
  have hfr : (runOp p E (H.foldl (fun s o => (runOp p o s).2) p.initStore)).1 = (runOp p E p.initStore).1 := by
    apply runOp_frame p E _ hE hI (fold_length p H _)
    intro id hocc
    have hocc2 := hocc
    obtain ⟨c, a, m, -, hs⟩ := hocc2
    obtain ⟨n, hn⟩ := sharedId_get p c a id hs
    rw [hn]
    exact fold_keeps_unmutated p id (initStore_pristine p id n hn) H _
      (hist_unmutated_of_trig p H E hT id hocc) hn
  unfold runOps
  rw [runOpsFrom_append]
  simp [runOpsFrom, hfr]

/-! ### operation name and kind of what is sent -/

theorem execOp_name_kind {ty nm : String} {st : Store} {nodes : List Node} {d : Doc} {st' : Store}
    (h : execOp ty nm st nodes = .ok (d, st')) : d.opType = ty ∧ d.name = nm := by
  unfold execOp at h
  split at h
  · simp at h
  · split at h
    · simp at h
    · simp at h
      rw [← h.1]
      exact ⟨rfl, rfl⟩

theorem runOp_name_kind (p : Package) (E : Op) (st : Store) (d : Doc) (h : (runOp p E st).1 = .ok d) :
    d.opType = E.opType ∧ d.name = E.name ∧ d.request.operationName = E.name ∧ d.request.variables = d.values := by
  unfold runOp at h
  rcases hl : evalList p E.fields st with ⟨rl, st1⟩
  rw [hl] at h
  cases rl with
  | error x => simp at h
  | ok nodes =>
    simp only [] at h
    cases he : execOp E.opType E.name st1 nodes with
    | error x => rw [he] at h; simp at h
    | ok ds =>
      obtain ⟨d', st2⟩ := ds
      rw [he] at h
      simp at h
      subst h
      obtain ⟨a, b⟩ := execOp_name_kind he
      exact ⟨a, b, b, rfl⟩

end Ariadne.C14
