/-
  Lemmas about `Model/SourceLoad.lean` (C17): the sorted walk visits exactly the graphql files of the
  tree (`InNode`/`InList`, a specification that does not mention the walk), and the loader refuses
  with `InvalidGraphqlSyntax` exactly when SOME file does not parse on its own — whatever the
  concatenation does.  For every tree, every `parses`.
-/
import AriadneModel.Model.SourceLoad

set_option linter.unusedSimpArgs false
set_option linter.unusedVariables false

namespace Ariadne.SourceLoad
open Ariadne Ariadne.Settings

/-! ### `sorted` keeps the set of entries -/

theorem mem_insertEntry (e x : Entry) (l : List Entry) : x ∈ insertEntry e l ↔ x = e ∨ x ∈ l := by
  induction l with
  | nil => simp [insertEntry]
  | cons y ys ih =>
    simp only [insertEntry]
    split
    · simp only [List.mem_cons, ih]
      constructor
      · rintro (h | h | h)
        · exact Or.inr (Or.inl h)
        · exact Or.inl h
        · exact Or.inr (Or.inr h)
      · rintro (h | h | h)
        · exact Or.inr (Or.inl h)
        · exact Or.inl h
        · exact Or.inr (Or.inr h)
    · simp [List.mem_cons]

theorem mem_sortEntries (x : Entry) (l : List Entry) : x ∈ sortEntries l ↔ x ∈ l := by
  induction l with
  | nil => simp [sortEntries]
  | cons y ys ih =>
    have : sortEntries (y :: ys) = insertEntry y (sortEntries ys) := rfl
    rw [this, mem_insertEntry, ih]
    simp [List.mem_cons]

theorem length_insertEntry (e : Entry) (l : List Entry) : (insertEntry e l).length = l.length + 1 := by
  induction l with
  | nil => rfl
  | cons y ys ih =>
    simp only [insertEntry]
    split <;> simp [ih]

/-- `sorted` neither drops nor duplicates -/
theorem length_sortEntries (l : List Entry) : (sortEntries l).length = l.length := by
  induction l with
  | nil => rfl
  | cons y ys ih =>
    have : sortEntries (y :: ys) = insertEntry y (sortEntries ys) := rfl
    rw [this, length_insertEntry, ih]
    rfl

/-! ### the walk yields exactly the graphql files of the tree -/

mutual
  theorem mem_walkNode (pre : List String) : ∀ (n : FsNode) (e : Entry),
      e ∈ walkNode pre n ↔ InNode pre n e.parts e.content
    | .file name c, e => by
      simp only [walkNode]
      constructor
      · intro h
        by_cases hs : hasGraphqlSuffix name = true
        · simp only [hs, if_true, List.mem_singleton] at h
          subst h
          exact InNode.file pre name c hs
        · simp [hs] at h
      · intro h
        obtain ⟨parts, content⟩ := e
        cases h with
        | file _ _ _ hs => simp [hs]
    | .dir name cs, e => by
      simp only [walkNode, List.mem_append]
      constructor
      · rintro (h | h)
        · by_cases hs : hasGraphqlSuffix name = true
          · simp only [hs, if_true, List.mem_singleton] at h
            subst h
            exact InNode.dirItself pre name cs hs
          · simp [hs] at h
        · exact InNode.inside pre name cs _ _ ((mem_walkList (pre ++ [name]) cs e).mp h)
      · intro h
        obtain ⟨parts, content⟩ := e
        cases h with
        | dirItself _ _ _ hs => left; simp [hs]
        | inside _ _ _ _ _ hin => exact Or.inr ((mem_walkList (pre ++ [name]) cs ⟨parts, content⟩).mpr hin)
  theorem mem_walkList (pre : List String) : ∀ (ns : List FsNode) (e : Entry),
      e ∈ walkList pre ns ↔ InList pre ns e.parts e.content
    | [], e => by
      simp only [walkList, List.not_mem_nil, false_iff]
      intro h
      cases h
    | x :: xs, e => by
      simp only [walkList, List.mem_append]
      constructor
      · rintro (h | h)
        · exact InList.head pre x xs _ _ ((mem_walkNode pre x e).mp h)
        · exact InList.tail pre x xs _ _ ((mem_walkList pre xs e).mp h)
      · intro h
        cases h with
        | head _ _ _ _ _ hin => exact Or.inl ((mem_walkNode pre x e).mpr hin)
        | tail _ _ _ _ _ hin => exact Or.inr ((mem_walkList pre xs e).mpr hin)
end

/-- what the loader reads is exactly the set of graphql files of the source -/
theorem mem_filesRead_iff (r : Root) (p : String) (c : Content) : (p, c) ∈ filesRead r ↔ HasFile r p c := by
  cases r with
  | file resolved c0 =>
    simp only [filesRead, HasFile, List.mem_singleton, Prod.mk.injEq]
  | dir path cs =>
    simp only [filesRead, HasFile, List.mem_map, Prod.mk.injEq]
    constructor
    · rintro ⟨e, he, hp, hc⟩
      have hin := (mem_walkList [] cs e).mp ((mem_sortEntries e _).mp he)
      refine ⟨e.parts, ?_, ?_⟩
      · rw [← hc]; exact hin
      · rw [← hp, ← hc]
    · rintro ⟨parts, hin, hp⟩
      refine ⟨⟨parts, c⟩, ?_, hp.symm, rfl⟩
      exact (mem_sortEntries _ _).mpr ((mem_walkList [] cs ⟨parts, c⟩).mpr hin)

/-! ### reading the files one by one -/

theorem readFile_ok_iff (parses : String → Bool) (p : String) (c : Content) :
    (∃ t, readFile parses p c = .ok t) ↔ ∃ s, c = .text s ∧ parses s = true := by
  cases c with
  | unreadable exc => simp [readFile]
  | text s => by_cases h : parses s = true <;> simp [readFile, h]

theorem readFile_ok_eq (parses : String → Bool) (p : String) (c : Content) (t : String)
    (h : readFile parses p c = .ok t) : c = .text t ∧ parses t = true := by
  cases c with
  | unreadable exc => simp [readFile] at h
  | text s =>
    by_cases hp : parses s = true
    · simp [readFile, hp] at h; subst h; exact ⟨rfl, hp⟩
    · simp [readFile, hp] at h

theorem readFile_invalid (parses : String → Bool) (p : String) (c : Content) (f : String)
    (h : readFile parses p c = .error (.invalidSyntax f)) : f = p ∧ ∃ s, c = .text s ∧ parses s = false := by
  cases c with
  | unreadable exc => simp [readFile] at h
  | text s =>
    by_cases hp : parses s = true
    · simp [readFile, hp] at h
    · simp [readFile, hp] at h
      exact ⟨h.symm, s, rfl, by simpa using hp⟩

theorem readFile_raw (parses : String → Bool) (p : String) (c : Content) (cls : String)
    (h : readFile parses p c = .error (.raw cls)) : c = .unreadable cls := by
  cases c with
  | unreadable exc => simp [readFile] at h; rw [h]
  | text s => by_cases hp : parses s = true <;> simp [readFile, hp] at h

theorem readAll_ok_iff (parses : String → Bool) (fs : List (String × Content)) :
    (∃ ss, readAll parses fs = .ok ss) ↔ ∀ pc ∈ fs, ∃ s, pc.2 = .text s ∧ parses s = true := by
  induction fs with
  | nil => simp [readAll]
  | cons pc rest ih =>
    obtain ⟨p, c⟩ := pc
    simp only [readAll, List.mem_cons, forall_eq_or_imp]
    cases hf : readFile parses p c with
    | error e =>
      have hn : ¬ ∃ s, c = .text s ∧ parses s = true := by
        intro h
        obtain ⟨t, ht⟩ := (readFile_ok_iff parses p c).mpr h
        rw [hf] at ht; cases ht
      simp [hn]
    | ok t =>
      have hy := (readFile_ok_iff parses p c).mp ⟨t, hf⟩
      cases hr : readAll parses rest with
      | error e =>
        have hn : ¬ ∀ pc ∈ rest, ∃ s, pc.2 = .text s ∧ parses s = true := by
          intro h
          obtain ⟨ss, hss⟩ := ih.mpr h
          rw [hr] at hss; cases hss
        constructor
        · rintro ⟨ss, hss⟩; cases hss
        · rintro ⟨_, h⟩; exact absurd h hn
      | ok ss =>
        have := ih.mp ⟨ss, hr⟩
        constructor
        · intro _; exact ⟨hy, this⟩
        · intro _; exact ⟨_, rfl⟩

/-- the texts that were read are the contents, in reading order -/
theorem readAll_ok_texts (parses : String → Bool) (fs : List (String × Content)) (ss : List String)
    (h : readAll parses fs = .ok ss) : fs.map (·.2) = ss.map Content.text := by
  induction fs generalizing ss with
  | nil => simp [readAll] at h; subst h; rfl
  | cons pc rest ih =>
    obtain ⟨p, c⟩ := pc
    simp only [readAll] at h
    cases hf : readFile parses p c with
    | error e => simp [hf] at h
    | ok t =>
      simp only [hf] at h
      cases hr : readAll parses rest with
      | error e => simp [hr] at h
      | ok ts =>
        simp only [hr] at h
        injection h with h
        subst h
        simp [ih ts hr, (readFile_ok_eq parses p c t hf).1]

/-- a refusal names a file that does not parse on its own, and everything read before it parsed -/
theorem readAll_invalid_split (parses : String → Bool) (fs : List (String × Content)) (f : String)
    (h : readAll parses fs = .error (.invalidSyntax f)) :
    ∃ pre s post, fs = pre ++ (f, .text s) :: post ∧ parses s = false ∧
      ∀ pc ∈ pre, ∃ t, pc.2 = .text t ∧ parses t = true := by
  induction fs with
  | nil => simp [readAll] at h
  | cons pc rest ih =>
    obtain ⟨p, c⟩ := pc
    simp only [readAll] at h
    cases hf : readFile parses p c with
    | error e =>
      simp only [hf] at h
      injection h with h
      subst h
      obtain ⟨hp, s, hc, hs⟩ := readFile_invalid parses p c f hf
      subst hp hc
      exact ⟨[], s, rest, rfl, hs, by simp⟩
    | ok t =>
      simp only [hf] at h
      cases hr : readAll parses rest with
      | ok ss => simp [hr] at h
      | error e =>
        simp only [hr] at h
        injection h with h
        subst h
        obtain ⟨pre, s, post, hsplit, hs, hpre⟩ := ih hr
        refine ⟨(p, c) :: pre, s, post, by simp [hsplit], hs, ?_⟩
        intro pc hpc
        rcases List.mem_cons.mp hpc with rfl | hm
        · exact (readFile_ok_iff parses p c).mp ⟨t, hf⟩
        · exact hpre pc hm

theorem readAll_raw (parses : String → Bool) (fs : List (String × Content)) (cls : String)
    (h : readAll parses fs = .error (.raw cls)) : ∃ pc ∈ fs, pc.2 = .unreadable cls := by
  induction fs with
  | nil => simp [readAll] at h
  | cons pc rest ih =>
    obtain ⟨p, c⟩ := pc
    simp only [readAll] at h
    cases hf : readFile parses p c with
    | error e =>
      simp only [hf] at h
      injection h with h
      subst h
      exact ⟨(p, c), by simp, readFile_raw parses p c cls hf⟩
    | ok t =>
      simp only [hf] at h
      cases hr : readAll parses rest with
      | ok ss => simp [hr] at h
      | error e =>
        simp only [hr] at h
        injection h with h
        subst h
        obtain ⟨pc, hm, hu⟩ := ih hr
        exact ⟨pc, by simp [hm], hu⟩

/-- with every file readable, some file that does not parse makes `readAll` refuse with a file name -/
theorem readAll_refuses (parses : String → Bool) (fs : List (String × Content))
    (hread : ∀ pc ∈ fs, ∃ s, pc.2 = .text s) (hbad : ∃ pc ∈ fs, ∃ s, pc.2 = .text s ∧ parses s = false) :
    ∃ f, readAll parses fs = .error (.invalidSyntax f) := by
  cases hr : readAll parses fs with
  | ok ss =>
    obtain ⟨pc, hm, s, hs, hp⟩ := hbad
    obtain ⟨t, ht, hpt⟩ := (readAll_ok_iff parses fs).mp ⟨ss, hr⟩ pc hm
    rw [hs] at ht
    injection ht with ht
    subst ht
    rw [hp] at hpt
    cases hpt
  | error e =>
    cases e with
    | invalidSyntax f => exact ⟨f, rfl⟩
    | raw cls =>
      obtain ⟨pc, hm, hu⟩ := readAll_raw parses fs cls hr
      obtain ⟨s, hs⟩ := hread pc hm
      rw [hs] at hu
      cases hu

/-! ### `load_graphql_files_from_path` -/

/-- the loader reads `filesRead` one by one (both shapes of the root) -/
theorem loadText_eq (parses : String → Bool) (r : Root) :
    (∃ f, loadText parses r = .error (.invalidSyntax f)) ↔ ∃ f, readAll parses (filesRead r) = .error (.invalidSyntax f) := by
  cases r with
  | file resolved c =>
    simp only [loadText, filesRead, readAll]
    cases hf : readFile parses resolved c with
    | error e => simp
    | ok t => simp
  | dir path cs =>
    simp only [loadText]
    cases hr : readAll parses (filesRead (.dir path cs)) with
    | error e => simp
    | ok ss => simp

theorem loadText_error_eq (parses : String → Bool) (r : Root) (e : LoadErr) (h : loadText parses r = .error e) :
    readAll parses (filesRead r) = .error e := by
  cases r with
  | file resolved c =>
    simp only [loadText] at h
    simp [filesRead, readAll, h]
  | dir path cs =>
    simp only [loadText] at h
    cases hr : readAll parses (filesRead (.dir path cs)) with
    | error e' => simp [hr] at h; rw [h]
    | ok ss => simp [hr] at h

theorem loadText_ok_iff (parses : String → Bool) (r : Root) :
    (∃ t, loadText parses r = .ok t) ↔ ∀ p c, HasFile r p c → ∃ s, c = .text s ∧ parses s = true := by
  have key : (∃ t, loadText parses r = .ok t) ↔ ∃ ss, readAll parses (filesRead r) = .ok ss := by
    cases r with
    | file resolved c =>
      simp only [loadText, filesRead, readAll]
      cases hf : readFile parses resolved c <;> simp
    | dir path cs =>
      simp only [loadText]
      cases hr : readAll parses (filesRead (.dir path cs)) <;> simp
  rw [key, readAll_ok_iff]
  constructor
  · intro h p c hf
    exact h (p, c) ((mem_filesRead_iff r p c).mpr hf)
  · intro h pc hm
    exact h pc.1 pc.2 ((mem_filesRead_iff r pc.1 pc.2).mp hm)

end Ariadne.SourceLoad
