/-
  C14 helper lemmas, part 5: from the builder EXPRESSION to the tree of field objects it evaluates to.

  For an expression that applies no mutator to a class-level object:
    * outside the F1 and F3 triggers every object of the tree carries its GraphQL field name and the
      exact GraphQL type of each argument (`ExactOK`), hence `intended = intendedExact`.
-/
import AriadneModel.Proofs.C14Combine

set_option linter.unusedSimpArgs false
set_option linter.unusedVariables false

namespace Ariadne.C14
open Ariadne Ariadne.Builder Ariadne.CustomGen Ariadne.BuilderDoc

def varsExact (vs : List Var) : Bool := vs.all fun v => v.ty == v.exactTy

mutual
  /-- every owned object carries the GraphQL field name and exact argument types -/
  def ExactOK : Node → Bool
    | .obj r subs frags => (r.fieldName == r.gqlName) && varsExact r.vars && ExactOKList subs && ExactOKFrags frags
    | .ref _ => true
  def ExactOKList : List Node → Bool
    | [] => true
    | n :: ns => ExactOK n && ExactOKList ns
  def ExactOKFrags : List Frag → Bool
    | [] => true
    | .mk _ ns :: fs => ExactOKList ns && ExactOKFrags fs
end

/-- every class-level object carries its GraphQL field name -/
def StoreExact (st : Store) : Prop :=
  ∀ (id : Nat) (r : Rec) (s : List Node) (f : List Frag), st[id]? = some (.obj r s f) → r.fieldName = r.gqlName

theorem vars_map_exact : ∀ (vs : List Var), varsExact vs = true →
    vs.map (fun v => (v.key, v.ty, v.value)) = vs.map (fun v => (v.key, v.exactTy, v.value)) := by
  intro vs h
  apply List.map_congr_left
  intro v hv
  have := List.all_eq_true.mp h v hv
  simp at this
  simp [this]

mutual
  theorem intended_eq_exact {st : Store} (hs : StoreExact st) : ∀ (n : Node), ExactOK n = true →
      intended st n = intendedExact st n
    | .obj r subs frags, h => by
      simp only [ExactOK, Bool.and_eq_true, beq_iff_eq] at h
      obtain ⟨⟨⟨h1, h2⟩, h3⟩, h4⟩ := h
      simp only [intended, intendedExact, h1, vars_map_exact _ h2, intendedList_eq_exact hs subs h3,
        intendedFrags_eq_exact hs frags h4]
    | .ref id, _ => by
      simp only [intended, intendedExact, intendedRef, intendedRefExact]
      cases hn : st[id]? with
      | none => rfl
      | some n =>
        cases n with
        | obj r s f => simp [hs id r s f hn]
        | ref _ => rfl
  theorem intendedList_eq_exact {st : Store} (hs : StoreExact st) : ∀ (ns : List Node), ExactOKList ns = true →
      intendedList st ns = intendedExactList st ns
    | [], _ => rfl
    | n :: ns, h => by
      simp only [ExactOKList, Bool.and_eq_true] at h
      simp only [intendedList, intendedExactList, intended_eq_exact hs n h.1, intendedList_eq_exact hs ns h.2]
  theorem intendedFrags_eq_exact {st : Store} (hs : StoreExact st) : ∀ (fs : List Frag), ExactOKFrags fs = true →
      intendedFrags st fs = intendedExactFrags st fs
    | [], _ => rfl
    | .mk ty ns :: fs, h => by
      simp only [ExactOKFrags, Bool.and_eq_true] at h
      simp only [intendedFrags, intendedExactFrags, intendedList_eq_exact hs ns h.1, intendedFrags_eq_exact hs fs h.2]
end

/-! ### list lemmas for the two node predicates -/

theorem ExactOKList_append : ∀ (a b : List Node), ExactOKList (a ++ b) = (ExactOKList a && ExactOKList b)
  | [], b => by simp [ExactOKList]
  | n :: a, b => by simp [ExactOKList, ExactOKList_append a b, Bool.and_assoc]

theorem ExactOKFrags_set (ty : String) (cs : List Node) (hc : ExactOKList cs = true) :
    ∀ (fs : List Frag), ExactOKFrags fs = true → ExactOKFrags (setFragList ty cs fs) = true
  | [], _ => by simp [setFragList, ExactOKFrags, hc]
  | .mk t ns :: fs, h => by
    simp only [ExactOKFrags, Bool.and_eq_true] at h
    simp only [setFragList]
    split
    · simp [ExactOKFrags, hc, h.2]
    · simp [ExactOKFrags, h.1, ExactOKFrags_set ty cs hc fs h.2]

/-- the node predicate the evaluation establishes -/
def NodeOK (n : Node) : Prop := ExactOK n = true
def NodesOK (ns : List Node) : Prop := ExactOKList ns = true

theorem nodeOK_setAlias {al r subs frags} (h : NodeOK (.obj r subs frags)) :
    NodeOK (setAlias al (.obj r subs frags)) := by
  simpa [NodeOK, setAlias, ExactOK] using h

theorem nodeOK_extendSubs {cs r subs frags} (h : NodeOK (.obj r subs frags)) (hc : NodesOK cs) :
    NodeOK (extendSubs cs (.obj r subs frags)) := by
  unfold NodeOK NodesOK at *
  simp only [extendSubs, ExactOK, Bool.and_eq_true] at h ⊢
  simp [h.1.1.1, h.1.1.2, h.1.2, h.2, ExactOKList_append, hc]

theorem nodeOK_setFrag {ty cs r subs frags} (h : NodeOK (.obj r subs frags)) (hc : NodesOK cs) :
    NodeOK (setFrag ty cs (.obj r subs frags)) := by
  unfold NodeOK NodesOK at *
  simp only [setFrag, ExactOK, Bool.and_eq_true] at h ⊢
  exact ⟨⟨⟨h.1.1.1, h.1.1.2⟩, h.1.2⟩, ExactOKFrags_set ty cs hc frags h.2⟩

/-! ### `bindArgs` -/

theorem lookupKw_mem : ∀ (kw : List (String × J)) (k : String) (v : J), lookupKw k kw = some v → (k, v) ∈ kw
  | [], _, _, h => by simp [lookupKw] at h
  | (k', v') :: rest, k, v, h => by
    simp only [lookupKw] at h
    split at h
    · rename_i hk
      simp at h
      subst hk h
      simp
    · exact List.mem_cons_of_mem _ (lookupKw_mem rest k v h)

def argValue (s : ArgSpec) (kw : List (String × J)) : J := (lookupKw s.param kw).getD .null

def bound (kw : List (String × J)) (s : ArgSpec) : Option Var :=
  match argValue s kw with
  | .null => none
  | v => some { key := s.key, ty := s.ty, value := v, exactTy := s.exactTy }

theorem bindArgs_ok {specs kw vars} (h : bindArgs specs kw = .ok vars) : vars = specs.filterMap (bound kw) := by
  unfold bindArgs at h
  split at h
  · simp at h
  · split at h
    · simp at h
    · simp at h
      rw [← h]
      rfl

theorem argValue_null_of_allNull {kw : List (String × J)} (h : kwNonNull kw = false) (s : ArgSpec) :
    argValue s kw = .null := by
  unfold argValue
  cases hl : lookupKw s.param kw with
  | none => rfl
  | some v =>
    have hm := lookupKw_mem kw _ _ hl
    unfold kwNonNull at h
    rw [List.any_eq_false] at h
    have := h _ hm
    cases v <;> simp at this ⊢

theorem bindArgs_allNull {specs kw vars} (h : bindArgs specs kw = .ok vars) (hn : kwNonNull kw = false) : vars = [] := by
  rw [bindArgs_ok h]
  apply List.filterMap_eq_nil_iff.mpr
  intro s _
  simp [bound, argValue_null_of_allNull hn s]

theorem bindArgs_exact {specs kw vars} (h : bindArgs specs kw = .ok vars)
    (ht : specs.any (fun s => s.ty != s.exactTy && (match (lookupKw s.param kw).getD .null with | .null => false | _ => true)) = false) :
    varsExact vars = true := by
  rw [bindArgs_ok h]
  unfold varsExact
  rw [List.all_eq_true]
  intro v hv
  obtain ⟨s, hs, hb⟩ := List.mem_filterMap.mp hv
  rw [List.any_eq_false] at ht
  have hts := ht s hs
  unfold bound argValue at hb
  cases hval : (lookupKw s.param kw).getD .null <;> rw [hval] at hb hts <;> simp at hb hts
  all_goals (subst hb; simp [hts])

/-- `none_omitted`, at the generated accessor: what the call records is exactly the non-None arguments,
    each under its GraphQL name with the recorded type and the caller's value -/
theorem bindArgs_none_omitted {specs kw vars} (h : bindArgs specs kw = .ok vars) :
    (∀ v ∈ vars, v.value ≠ .null) ∧
    (∀ v ∈ vars, ∃ s ∈ specs, v.key = s.key ∧ v.ty = s.ty ∧ lookupKw s.param kw = some v.value) ∧
    (∀ s ∈ specs, argValue s kw = .null → ∀ v ∈ vars, ¬ (v.key = s.key ∧ v.ty = s.ty ∧ lookupKw s.param kw = some v.value)) ∧
    (∀ s ∈ specs, ∀ x, lookupKw s.param kw = some x → x ≠ .null →
        ∃ v ∈ vars, v.key = s.key ∧ v.ty = s.ty ∧ v.value = x) := by
  rw [bindArgs_ok h]
  refine ⟨?_, ?_, ?_, ?_⟩
  · intro v hv
    obtain ⟨s, _, hb⟩ := List.mem_filterMap.mp hv
    unfold bound at hb
    cases hval : argValue s kw <;> rw [hval] at hb <;> simp at hb <;> subst hb <;> simp
  · intro v hv
    obtain ⟨s, hs, hb⟩ := List.mem_filterMap.mp hv
    refine ⟨s, hs, ?_⟩
    unfold bound at hb
    have hav : argValue s kw = (lookupKw s.param kw).getD .null := rfl
    cases hl : lookupKw s.param kw with
    | none => rw [hav, hl] at hb; simp at hb
    | some x =>
      rw [hav, hl] at hb
      cases x <;> simp at hb <;> subst hb <;> simp
  · intro s _ hnull v hv hh
    obtain ⟨s', _, hb⟩ := List.mem_filterMap.mp hv
    have hvn : v.value ≠ .null := by
      unfold bound at hb
      cases hval : argValue s' kw <;> rw [hval] at hb <;> simp at hb <;> subst hb <;> simp
    unfold argValue at hnull
    rw [hh.2.2] at hnull
    simp at hnull
    exact hvn hnull
  · intro s hs x hl hx
    refine ⟨{ key := s.key, ty := s.ty, value := x, exactTy := s.exactTy }, ?_, rfl, rfl, rfl⟩
    apply List.mem_filterMap.mpr
    refine ⟨s, hs, ?_⟩
    unfold bound argValue
    rw [hl]
    cases x <;> simp at hx ⊢

/-! ### evaluation establishes `NodeOK` -/

theorem evalCall_inv {p : Package} {cls a : String} {kw : List (String × J)} {st st' : Store} {n : Node}
    (h : evalExpr p (.call cls a kw) st = (.ok n, st')) :
    ∃ c acc vars, p.findClass cls = some c ∧ c.findAcc a = some acc ∧ bindArgs acc.args kw = .ok vars ∧
      n = mkNode acc vars := by
  simp only [evalExpr] at h
  split at h
  · simp at h
  · rename_i c hc
    split at h
    · simp at h
    · rename_i acc ha
      split at h
      · simp at h
      · split at h
        · simp at h
        · rename_i vars hv
          simp at h
          exact ⟨c, acc, vars, hc, ha, hv, h.1.symm⟩

mutual
  theorem evalExpr_nodeOK (p : Package) : ∀ (e : Expr) (st st' : Store) (n : Node),
      mutatesShared e = false → trigListArg p e = false → trigPyName p e = false →
      evalExpr p e st = (.ok n, st') → NodeOK n
    | .attr cls a, st, st', n, _, _, _, h => by
      simp only [evalExpr] at h
      split at h <;> try (simp at h)
      split at h <;> try (simp at h)
      split at h <;> try (simp at h)
      split at h <;> try (simp at h)
      obtain ⟨rfl, -⟩ := h
      simp [NodeOK, ExactOK]
    | .call cls a kw, st, st', n, _, hl, hpn, h => by
      obtain ⟨c, acc, vars, hc, ha, hv, rfl⟩ := evalCall_inv h
      simp only [trigListArg, hc, ha] at hl
      simp only [trigPyName, hc, ha, bne_eq_false_iff_eq] at hpn
      simp only [NodeOK, mkNode, ExactOK, ExactOKList, ExactOKFrags, Bool.and_true, Bool.and_eq_true, beq_iff_eq]
      exact ⟨hpn, bindArgs_exact hv hl⟩
    | .alias e al, st, st', n, hm, hl, hpn, h => by
      simp only [mutatesShared, Bool.or_eq_false_iff] at hm
      simp only [trigListArg] at hl
      simp only [trigPyName] at hpn
      simp only [evalExpr] at h
      rcases hh : evalExpr p e st with ⟨r, st1⟩
      rw [hh] at h
      cases r with
      | error x => simp at h
      | ok n0 =>
        obtain ⟨r0, s0, f0, rfl⟩ := (evalExpr_noMut p e st hm.2).2 hm.1 n0 (by rw [hh])
        have ih := evalExpr_nodeOK p e st st1 _ hm.2 hl hpn hh
        simp only [mutate_obj] at h
        split at h
        · simp at h
          rw [← h.1]
          exact nodeOK_setAlias ih
        · simp at h
    | .fields e cs, st, st', n, hm, hl, hpn, h => by
      simp only [mutatesShared, Bool.or_eq_false_iff] at hm
      simp only [trigListArg, Bool.or_eq_false_iff] at hl
      simp only [trigPyName, Bool.or_eq_false_iff] at hpn
      simp only [evalExpr] at h
      rcases hh : evalExpr p e st with ⟨r, st1⟩
      rw [hh] at h
      cases r with
      | error x => simp at h
      | ok n0 =>
        obtain ⟨r0, s0, f0, rfl⟩ := (evalExpr_noMut p e st hm.1.2).2 hm.1.1 n0 (by rw [hh])
        have ih := evalExpr_nodeOK p e st st1 _ hm.1.2 hl.1 hpn.1 hh
        simp only [] at h
        split at h
        · rcases hl2 : evalList p cs st1 with ⟨rl, st2⟩
          rw [hl2] at h
          cases rl with
          | error x => simp at h
          | ok ns =>
            have ihc := evalList_nodesOK p cs st1 st2 ns hm.2 hl.2 hpn.2 hl2
            simp [mutate_obj] at h
            rw [← h.1]
            exact nodeOK_extendSubs ih ihc
        · simp at h
    | .on e ty cs, st, st', n, hm, hl, hpn, h => by
      simp only [mutatesShared, Bool.or_eq_false_iff] at hm
      simp only [trigListArg, Bool.or_eq_false_iff] at hl
      simp only [trigPyName, Bool.or_eq_false_iff] at hpn
      simp only [evalExpr] at h
      rcases hh : evalExpr p e st with ⟨r, st1⟩
      rw [hh] at h
      cases r with
      | error x => simp at h
      | ok n0 =>
        obtain ⟨r0, s0, f0, rfl⟩ := (evalExpr_noMut p e st hm.1.2).2 hm.1.1 n0 (by rw [hh])
        have ih := evalExpr_nodeOK p e st st1 _ hm.1.2 hl.1 hpn.1 hh
        simp only [] at h
        split at h
        · rcases hl2 : evalList p cs st1 with ⟨rl, st2⟩
          rw [hl2] at h
          cases rl with
          | error x => simp at h
          | ok ns =>
            have ihc := evalList_nodesOK p cs st1 st2 ns hm.2 hl.2 hpn.2 hl2
            simp [mutate_obj] at h
            rw [← h.1]
            exact nodeOK_setFrag ih ihc
        · simp at h
  theorem evalList_nodesOK (p : Package) : ∀ (es : List Expr) (st st' : Store) (ns : List Node),
      mutatesSharedList es = false → trigListArgList p es = false →
      trigPyNameList p es = false → evalList p es st = (.ok ns, st') → NodesOK ns
    | [], st, st', ns, _, _, _, h => by
      simp [evalList] at h
      rw [h.1]
      simp [NodesOK, ExactOKList]
    | e :: es, st, st', ns, hm, hl, hpn, h => by
      simp only [mutatesSharedList, Bool.or_eq_false_iff] at hm
      simp only [trigListArgList, Bool.or_eq_false_iff] at hl
      simp only [trigPyNameList, Bool.or_eq_false_iff] at hpn
      simp only [evalList] at h
      rcases hh : evalExpr p e st with ⟨r, st1⟩
      rw [hh] at h
      cases r with
      | error x => simp at h
      | ok n0 =>
        have i1 := evalExpr_nodeOK p e st st1 n0 hm.1 hl.1 hpn.1 hh
        simp only [] at h
        rcases hl2 : evalList p es st1 with ⟨rl, st2⟩
        rw [hl2] at h
        cases rl with
        | error x => simp at h
        | ok ns0 =>
          have i2 := evalList_nodesOK p es st1 st2 ns0 hm.2 hl.2 hpn.2 hl2
          simp at h
          rw [← h.1]
          unfold NodeOK at i1
          unfold NodesOK at i2 ⊢
          simp [ExactOKList, i1, i2]
end

end Ariadne.C14
