/-
  Spec/Py.lean — the fragments of CPython's class semantics the generated result modules rely on
  (DESIGN.md §2 `Spec.Py`).  *Modelled, validated, not verified*: the agreement with the real
  interpreter (`issubclass`, `__mro__`, `isinstance` of the objects a generated client returns) is
  checked by harness/c08.py on every imported package.

  `class C(B1, …, Bn): …` executed in a module makes `C` a subclass of exactly: itself, and everything
  its bases are subclasses of — `issubclass(C, X)  ⇔  X ∈ C.__mro__`, and the MRO is (a linearisation of)
  the reflexive-transitive closure of `__bases__`.  `isinstance(obj, X) ⇔ issubclass(type(obj), X)`.
  A class statement can only be executed when every base name is already bound (defined earlier in the
  module or imported): `DefinedBefore`.

  Core Lean only.
-/
namespace Ariadne.Spec.Py

/-- class name ↦ the names written in its base list; names without an entry are classes defined
    elsewhere (`BaseModel`, classes imported through `@mixin`), about whose bases nothing is known -/
abbrev ClassTable := List (String × List String)

def basesOf (t : ClassTable) (c : String) : Option (List String) :=
  match t with
  | [] => none
  | (n, bs) :: rest => if n = c then some bs else basesOf rest c

/-- `issubclass(c, b)`: reflexive-transitive closure of "is written in the base list of" -/
inductive IsSubclass (t : ClassTable) : String → String → Prop
  | refl (c : String) : IsSubclass t c c
  | step {c m b : String} {bs : List String} : basesOf t c = some bs → m ∈ bs → IsSubclass t m b → IsSubclass t c b

theorem IsSubclass.of_base {t : ClassTable} {c b : String} {bs : List String}
    (h : basesOf t c = some bs) (hb : b ∈ bs) : IsSubclass t c b :=
  .step h hb (.refl b)

theorem IsSubclass.trans {t : ClassTable} {a b c : String} (h₁ : IsSubclass t a b) (h₂ : IsSubclass t b c) :
    IsSubclass t a c := by
  induction h₁ with
  | refl _ => exact h₂
  | step hb hm _ ih => exact .step hb hm (ih h₂)

/-- executable search (fuel = depth of the base chain followed) -/
def isSubclassFuel (t : ClassTable) : Nat → String → String → Bool
  | 0, c, b => c == b
  | fuel + 1, c, b =>
    c == b ||
      match basesOf t c with
      | none => false
      | some bs => bs.any fun m => isSubclassFuel t fuel m b

def isSubclassB (t : ClassTable) (c b : String) : Bool := isSubclassFuel t (t.length + 1) c b

theorem isSubclassFuel_sound (t : ClassTable) : ∀ fuel c b, isSubclassFuel t fuel c b = true → IsSubclass t c b
  | 0, c, b, h => by
    simp [isSubclassFuel] at h
    subst h; exact .refl _
  | fuel + 1, c, b, h => by
    unfold isSubclassFuel at h
    rcases Bool.or_eq_true _ _ |>.mp h with h | h
    · have : c = b := by simpa using h
      subst this; exact .refl _
    · cases hb : basesOf t c with
      | none => simp [hb] at h
      | some bs =>
        simp only [hb, List.any_eq_true] at h
        obtain ⟨m, hm, hrec⟩ := h
        exact .step hb hm (isSubclassFuel_sound t fuel m b hrec)

theorem isSubclassB_sound (t : ClassTable) (c b : String) (h : isSubclassB t c b = true) : IsSubclass t c b :=
  isSubclassFuel_sound t _ c b h

/-- executing the class statements of a module top-down: every base written in a class statement
    is bound when the statement executes — defined earlier in the same module (`seen`), or `external`
    (imported / builtin).  Otherwise the import of the module dies with `NameError`. -/
def LoadsFrom (external : String → Prop) : List String → ClassTable → Prop
  | _, [] => True
  | seen, (n, bs) :: rest => (∀ b ∈ bs, external b ∨ b ∈ seen) ∧ LoadsFrom external (n :: seen) rest

def Loads (external : String → Prop) (t : ClassTable) : Prop := LoadsFrom external [] t

/-! ### Method resolution order (C3 linearisation)

`type.__new__` computes `C.__mro__ = [C] + merge(mro(B1), …, mro(Bn), [B1, …, Bn])`; when no head is
admissible the class statement raises `TypeError: Cannot create a consistent method resolution order`,
and a base written twice raises `TypeError: duplicate base class`.  Classes without an entry in the
table are roots (`object` is left out everywhere). -/

def headOk (seqs : List (List String)) (h : String) : Bool := seqs.all fun s => !(s.tail.contains h)

def mergeStep (seqs : List (List String)) : Option String := (seqs.filterMap List.head?).find? (headOk seqs)

def merge : Nat → List (List String) → Option (List String)
  | 0, seqs => if seqs.all List.isEmpty then some [] else none
  | fuel + 1, seqs =>
    let seqs := seqs.filter fun s => !s.isEmpty
    if seqs.isEmpty then some []
    else
      match mergeStep seqs with
      | none => none
      | some h => (merge fuel (seqs.map fun s => if s.head? == some h then s.tail else s)).map (h :: ·)

def hasDup : List String → Bool
  | [] => false
  | x :: xs => xs.contains x || hasDup xs

def mroFuel (t : ClassTable) : Nat → String → Option (List String)
  | 0, _ => none
  | fuel + 1, c =>
    match basesOf t c with
    | none => some [c]
    | some bs =>
      if hasDup bs then none
      else
        match bs.mapM (mroFuel t fuel) with
        | none => none
        | some ms => (merge ((ms.map List.length).sum + bs.length + 1) (ms ++ [bs])).map (c :: ·)

/-- `C.__mro__` without `object`, or `none` when the class statement raises `TypeError` -/
def mro (t : ClassTable) (c : String) : Option (List String) := mroFuel t (t.length + 1) c

/-- every class statement of the table can be executed as far as the MRO is concerned -/
def mroOK (t : ClassTable) : Bool := t.all fun (c, _) => (mro t c).isSome

end Ariadne.Spec.Py
