/-
  Reference semantics of `httpx.Response.json()` (httpx 0.28: `json.loads(self.content)`) as far as
  `get_data` can observe it (property C12):

      json.loads(b)  for  b : bytes
        = JSONDecoder().decode(b.decode(json.detect_encoding(b), "surrogatepass"))

  i.e. (1) CPython's encoding sniffing (`json.detect_encoding`: BOMs of UTF-32/16/8, then the pattern
  of NUL bytes in the first four bytes, else UTF-8), (2) the UTF-8 / UTF-8-sig / UTF-16 / UTF-32
  decoders with the `surrogatepass` error handler (every other decoding error is a
  `UnicodeDecodeError`, a subclass of `ValueError`), (3) the C scanner of `json.decoder`
  (`scanner.c`/`_json.c`, strict mode): whitespace is exactly SP/TAB/LF/CR, the literals are
  `null true false NaN Infinity -Infinity`, numbers `-?(0|[1-9][0-9]*)(\.[0-9]+)?([eE][+-]?[0-9]+)?`
  (an integer literal longer than `sys.get_int_max_str_digits()` digits is a `ValueError`; a float
  literal is rounded to a double, overflowing to `inf`), strings reject raw control characters
  < 0x20, know the escapes `\" \\ \/ \b \f \n \r \t \uXXXX` and join `\uD8xx\uDCxx` pairs, objects
  keep the FIRST position and the LAST value of a repeated key, anything after the value but
  whitespace is "Extra data".  Every container entered costs one C-recursion level: nesting deeper
  than the interpreter allows raises `RecursionError` — NOT a `ValueError`.  The scanner works left
  to right, so the first problem in scan order decides which of the two is raised.

  The outcome classes are what matters to `get_data`:
      `.value j`        the call returns,
      `.valueError`     it raises a `ValueError` (JSONDecodeError, UnicodeDecodeError, int digit limit),
      `.raises exc`     it raises something else.

  Representation limits of `Ariadne.J` (documented, canonicalised the same way by harness/c12.py):
    * `J` has no non-finite numbers.  The three non-finite doubles the decoder can produce (`NaN`,
      `Infinity`, `-Infinity` literals; decimal literals beyond the double range) are carried as the
      reserved strings `nonFinite "nan" | "inf" | "-inf"`.  Every decision `get_data`/`from_dict`
      take is the same for a float and for a non-empty `str`: both are truthy, neither is a dict nor
      a list, iterating/subscripting either by `"message"` is a `TypeError`.
    * a finite float literal is carried as its exact decimal value (`J.num`); Python holds the
      nearest double (the harness compares after rounding to double).  Literals that round to
      `0.0` are carried as `0` (truthiness!), decided exactly (`≤ 2^-1075`).
    * Lean strings hold Unicode scalar values only: a lone surrogate (from `\uD800` or from
      `surrogatepass`) is carried as U+FFFD.

  `depthLimit` and `intMaxDigits` are properties of the interpreter (C recursion limit,
  `sys.get_int_max_str_digits()`, 0 = unlimited); the harness measures them on every run.

  MODELLED, VALIDATED against CPython by the correspondence check (harness/c12.py: raw byte bodies,
  `json.loads` vs `loads`), NOT VERIFIED.  Core Lean only.
-/
import AriadneModel.Model.Json

namespace Ariadne.PyJson
open Ariadne

structure Cfg where
  depthLimit : Nat
  intMaxDigits : Nat
  deriving Repr

inductive Res where
  | value (j : J)
  | valueError
  | raises (exc : String)
  deriving Repr

def recursionError : String := "RecursionError"

/-! ### 1. `json.detect_encoding` -/

inductive Enc where
  | utf8 | utf8sig | utf16 | utf16le | utf16be | utf32 | utf32le | utf32be
  deriving Repr, DecidableEq

def startsWith : List Nat → List Nat → Bool
  | _, [] => true
  | [], _ :: _ => false
  | b :: bs, p :: ps => b == p && startsWith bs ps

def detectEncoding (b : List Nat) : Enc :=
  if startsWith b [0x00, 0x00, 0xFE, 0xFF] || startsWith b [0xFF, 0xFE, 0x00, 0x00] then .utf32
  else if startsWith b [0xFE, 0xFF] || startsWith b [0xFF, 0xFE] then .utf16
  else if startsWith b [0xEF, 0xBB, 0xBF] then .utf8sig
  else
    match b with
    | b0 :: b1 :: b2 :: b3 :: _ =>
      if b0 == 0 then (if b1 != 0 then .utf16be else .utf32be)
      else if b1 == 0 then (if b2 != 0 || b3 != 0 then .utf16le else .utf32le)
      else .utf8
    | [b0, b1] => if b0 == 0 then .utf16be else if b1 == 0 then .utf16le else .utf8
    | _ => .utf8

/-! ### 2. the decoders (`errors="surrogatepass"`); `none` = UnicodeDecodeError -/

def isCont (b : Nat) : Bool := 0x80 ≤ b && b ≤ 0xBF
def isHigh (u : Nat) : Bool := 0xD800 ≤ u && u ≤ 0xDBFF
def isLow (u : Nat) : Bool := 0xDC00 ≤ u && u ≤ 0xDFFF
def isSurrogate (u : Nat) : Bool := 0xD800 ≤ u && u ≤ 0xDFFF

/-- strict UTF-8 (no overlong forms, nothing above U+10FFFF); the three-byte encodings of
    surrogates `ED A0..BF xx` are let through by `surrogatepass` -/
def decodeUtf8 (acc : List Nat) : List Nat → Option (List Nat)
  | [] => some acc.reverse
  | b0 :: rest =>
    if b0 < 0x80 then decodeUtf8 (b0 :: acc) rest
    else if 0xC2 ≤ b0 && b0 ≤ 0xDF then
      match rest with
      | b1 :: rest1 =>
        if isCont b1 then decodeUtf8 (((b0 - 0xC0) * 64 + (b1 - 0x80)) :: acc) rest1 else none
      | [] => none
    else if 0xE0 ≤ b0 && b0 ≤ 0xEF then
      match rest with
      | b1 :: b2 :: rest2 =>
        let ok1 := if b0 == 0xE0 then 0xA0 ≤ b1 && b1 ≤ 0xBF else isCont b1   -- `ED A0..BF`: surrogatepass
        if ok1 && isCont b2 then
          decodeUtf8 (((b0 - 0xE0) * 4096 + (b1 - 0x80) * 64 + (b2 - 0x80)) :: acc) rest2
        else none
      | _ => none
    else if 0xF0 ≤ b0 && b0 ≤ 0xF4 then
      match rest with
      | b1 :: b2 :: b3 :: rest3 =>
        let ok1 := if b0 == 0xF0 then 0x90 ≤ b1 && b1 ≤ 0xBF
                   else if b0 == 0xF4 then 0x80 ≤ b1 && b1 ≤ 0x8F else isCont b1
        if ok1 && isCont b2 && isCont b3 then
          decodeUtf8 (((b0 - 0xF0) * 262144 + (b1 - 0x80) * 4096 + (b2 - 0x80) * 64 + (b3 - 0x80)) :: acc) rest3
        else none
      | _ => none
    else none

def unit16 (le : Bool) (b0 b1 : Nat) : Nat := if le then b0 + 256 * b1 else b0 * 256 + b1

/-- UTF-16: a high surrogate followed by a low one is one code point, every other surrogate unit
    passes as itself, an odd trailing byte is "truncated data" -/
def astral (hi lo : Nat) : Nat := 0x10000 + (hi - 0xD800) * 1024 + (lo - 0xDC00)

def decodeUtf16 (le : Bool) (pending : Option Nat) (acc : List Nat) : List Nat → Option (List Nat)
  | [] => some (match pending with | some h => h :: acc | none => acc).reverse
  | [_] => none
  | b0 :: b1 :: rest =>
    let u := unit16 le b0 b1
    match pending with            -- `pending` = a high surrogate unit waiting for its partner
    | some h =>
      if isLow u then decodeUtf16 le none (astral h u :: acc) rest
      else if isHigh u then decodeUtf16 le (some u) (h :: acc) rest
      else decodeUtf16 le none (u :: h :: acc) rest
    | none =>
      if isHigh u then decodeUtf16 le (some u) acc rest
      else decodeUtf16 le none (u :: acc) rest

def unit32 (le : Bool) (b0 b1 b2 b3 : Nat) : Nat :=
  if le then b0 + 256 * b1 + 65536 * b2 + 16777216 * b3 else b0 * 16777216 + b1 * 65536 + b2 * 256 + b3

def decodeUtf32 (le : Bool) (acc : List Nat) : List Nat → Option (List Nat)
  | [] => some acc.reverse
  | b0 :: b1 :: b2 :: b3 :: rest =>
    let u := unit32 le b0 b1 b2 b3
    if u ≤ 0x10FFFF then decodeUtf32 le (u :: acc) rest else none
  | _ => none

/-- `bytes.decode(detect_encoding(bytes), "surrogatepass")` as a list of code points -/
def decodeBytes (b : List Nat) : Option (List Nat) :=
  match detectEncoding b with
  | .utf8 => decodeUtf8 [] b
  | .utf8sig => decodeUtf8 [] (b.drop 3)
  | .utf16 => decodeUtf16 (startsWith b [0xFF, 0xFE]) none [] (b.drop 2)
  | .utf16le => decodeUtf16 true none [] b
  | .utf16be => decodeUtf16 false none [] b
  | .utf32 => decodeUtf32 (startsWith b [0xFF, 0xFE]) [] (b.drop 4)
  | .utf32le => decodeUtf32 true [] b
  | .utf32be => decodeUtf32 false [] b

/-! ### 3. the scanner -/

/-- result of a sub-parser: value and remaining input, a `ValueError`, or a `RecursionError` -/
inductive PR (α : Type) where
  | ok (a : α) (rest : List Nat)
  | verr
  | rerr

def isWs (c : Nat) : Bool := c == 32 || c == 9 || c == 10 || c == 13

def skipWs : List Nat → List Nat
  | [] => []
  | c :: cs => if isWs c then skipWs cs else c :: cs

def isDigit (c : Nat) : Bool := 48 ≤ c && c ≤ 57

def hexVal (c : Nat) : Option Nat :=
  if 48 ≤ c && c ≤ 57 then some (c - 48)
  else if 97 ≤ c && c ≤ 102 then some (c - 87)
  else if 65 ≤ c && c ≤ 70 then some (c - 55)
  else none

def hex4 (a b c d : Nat) : Option Nat :=
  match hexVal a, hexVal b, hexVal c, hexVal d with
  | some x, some y, some z, some w => some (x * 4096 + y * 256 + z * 16 + w)
  | _, _, _, _ => none

def simpleEscape (e : Nat) : Option Nat :=
  if e == 34 then some 34 else if e == 92 then some 92 else if e == 47 then some 47
  else if e == 98 then some 8 else if e == 102 then some 12 else if e == 110 then some 10
  else if e == 114 then some 13 else if e == 116 then some 9 else none

/-- `scanstring` (strict): the input starts right after the opening quote.  `pending` = a high
    surrogate from a `\uD8xx` escape waiting for a `\uDCxx` right behind it (the C code looks ahead;
    a `\u` escape behind it with bad hex digits is an error either way) -/
def scanString (pending : Option Nat) (acc : List Nat) : List Nat → PR (List Nat)
  | [] => .verr                                      -- Unterminated string
  | c :: rest =>
    let acc' := match pending with | some h => h :: acc | none => acc
    if c == 34 then .ok acc'.reverse rest
    else if c == 92 then
      match rest with
      | [] => .verr
      | e :: rest1 =>
        if e == 117 then
          match rest1 with
          | h1 :: h2 :: h3 :: h4 :: rest2 =>
            match hex4 h1 h2 h3 h4 with
            | none => .verr                          -- Invalid \uXXXX escape
            | some u =>
              match pending with
              | some h =>
                if isLow u then scanString none (astral h u :: acc) rest2
                else if isHigh u then scanString (some u) (h :: acc) rest2
                else scanString none (u :: h :: acc) rest2
              | none =>
                if isHigh u then scanString (some u) acc rest2
                else scanString none (u :: acc) rest2
          | _ => .verr
        else
          match simpleEscape e with
          | some v => scanString none (v :: acc') rest1
          | none => .verr                            -- Invalid \escape
    else if c < 32 then .verr                        -- Invalid control character
    else scanString none (c :: acc') rest

/-- code points to a Lean string; lone surrogates become U+FFFD (see header) -/
def cpChar (n : Nat) : Char := if isSurrogate n then Char.ofNat 0xFFFD else Char.ofNat n
def toStr (cps : List Nat) : String := String.ofList (cps.map cpChar)

def takeDigits (acc : List Nat) : List Nat → List Nat × List Nat
  | [] => (acc.reverse, [])
  | c :: cs => if isDigit c then takeDigits ((c - 48) :: acc) cs else (acc.reverse, c :: cs)

def digitsVal (ds : List Nat) : Nat := ds.foldl (fun a d => a * 10 + d) 0

/-- reserved strings for the non-finite doubles (see header) -/
def nonFinite (s : String) : J := .str ("\x00float:" ++ s)

def pow10 (n : Nat) : Nat := 10 ^ n

/-- `float(<literal>)` for the literal `±D·10^E` (`ds` = all mantissa digits) -/
def mkFloat (neg : Bool) (ds : List Nat) (E : Int) : J :=
  let D := digitsVal ds
  if D == 0 then .num 0 0
  else
    let nd : Int := ((ds.dropWhile (· == 0)).length : Nat)
    let top := nd + E                       -- 10^(top-1) ≤ value < 10^top
    let inf := nonFinite (if neg then "-inf" else "inf")
    if top - 1 ≥ 309 then inf
    else if top ≤ -324 then .num 0 0
    else
      let sgn : Int := if neg then -1 else 1
      if E ≥ 0 then
        let v := D * pow10 E.toNat
        if v ≥ 2 ^ 1024 - 2 ^ 970 then inf else .num (sgn * v) 0
      else
        let k := (-E).toNat
        if D ≥ (2 ^ 1024 - 2 ^ 970) * pow10 k then inf
        else if D * 2 ^ 1075 ≤ pow10 k then .num 0 0
        else .num (sgn * D) k

/-- `_match_number`: the input starts at the first digit (after an optional `-`) -/
def parseNumber (cfg : Cfg) (neg : Bool) (s : List Nat) : PR J :=
  match s with
  | [] => .verr
  | c :: rest =>
    if !isDigit c then .verr
    else
      let (intDs, rest1) := if c == 48 then ([0], rest) else takeDigits [] (c :: rest)
      -- fraction: only when `.` is followed by a digit
      let (fracDs, rest2) : List Nat × List Nat :=
        match rest1 with
        | p :: d :: more => if p == 46 && isDigit d then takeDigits [] (d :: more) else ([], rest1)
        | _ => ([], rest1)
      -- exponent: only when complete
      let (expo, rest3) : Option Int × List Nat :=
        match rest2 with
        | e :: more =>
          if e == 101 || e == 69 then
            match more with
            | sg :: more' =>
              if (sg == 43 || sg == 45) then
                (match more' with
                 | d :: _ =>
                   if isDigit d then
                     let (eds, r) := takeDigits [] more'
                     (some (if sg == 45 then -(digitsVal eds : Int) else (digitsVal eds : Int)), r)
                   else (none, rest2)
                 | [] => (none, rest2))
              else if isDigit sg then
                let (eds, r) := takeDigits [] more
                (some (digitsVal eds : Int), r)
              else (none, rest2)
            | [] => (none, rest2)
          else (none, rest2)
        | [] => (none, rest2)
      if fracDs.isEmpty && expo.isNone then
        if cfg.intMaxDigits != 0 && intDs.length > cfg.intMaxDigits then .verr     -- int digit limit: ValueError
        else
          let n : Int := digitsVal intDs
          .ok (.num (if neg then -n else n) 0) rest3
      else
        .ok (mkFloat neg (intDs ++ fracDs) (expo.getD 0 - (fracDs.length : Nat))) rest3

/-- `dict[k] = v`: first position, last value -/
def insertKv (k : String) (v : J) : List (String × J) → List (String × J)
  | [] => [(k, v)]
  | (k', v') :: rest => if k' == k then (k', v) :: rest else (k', v') :: insertKv k v rest

def lNull : List Nat := [117, 108, 108]                          -- "ull"
def lTrue : List Nat := [114, 117, 101]                          -- "rue"
def lFalse : List Nat := [97, 108, 115, 101]                     -- "alse"
def lNaN : List Nat := [97, 78]                                  -- "aN"
def lInfinity : List Nat := [110, 102, 105, 110, 105, 116, 121]  -- "nfinity"

mutual
  /-- `scan_once` at nesting depth `depth` (number of containers already entered) -/
  def parseValue (cfg : Cfg) : Nat → Nat → List Nat → PR J
    | 0, _, _ => .verr
    | fuel + 1, depth, s =>
      match s with
      | [] => .verr                                  -- Expecting value
      | c :: rest =>
        if c == 34 then
          match scanString none [] rest with
          | .ok cps rest' => .ok (.str (toStr cps)) rest'
          | .verr => .verr
          | .rerr => .rerr
        else if c == 123 then
          if depth ≥ cfg.depthLimit then .rerr
          else
            match skipWs rest with
            | [] => .verr
            | d :: rest' => if d == 125 then .ok (.obj []) rest' else parseMembers cfg fuel (depth + 1) [] (d :: rest')
        else if c == 91 then
          if depth ≥ cfg.depthLimit then .rerr
          else
            match skipWs rest with
            | [] => .verr
            | d :: rest' => if d == 93 then .ok (.arr []) rest' else parseItems cfg fuel (depth + 1) [] (d :: rest')
        else if c == 110 && startsWith rest lNull then .ok .null (rest.drop 3)
        else if c == 116 && startsWith rest lTrue then .ok (.bool true) (rest.drop 3)
        else if c == 102 && startsWith rest lFalse then .ok (.bool false) (rest.drop 4)
        else if c == 78 && startsWith rest lNaN then .ok (nonFinite "nan") (rest.drop 2)
        else if c == 73 && startsWith rest lInfinity then .ok (nonFinite "inf") (rest.drop 7)
        else if c == 45 then
          match rest with
          | i :: rest' =>
            if i == 73 && startsWith rest' lInfinity then .ok (nonFinite "-inf") (rest'.drop 7)
            else parseNumber cfg true rest
          | [] => .verr
        else parseNumber cfg false (c :: rest)

  /-- array items; the input starts at a value (`acc` = items so far, reversed) -/
  def parseItems (cfg : Cfg) : Nat → Nat → List J → List Nat → PR J
    | 0, _, _, _ => .verr
    | fuel + 1, depth, acc, s =>
      match parseValue cfg fuel depth s with
      | .verr => .verr
      | .rerr => .rerr
      | .ok v rest =>
        match skipWs rest with
        | [] => .verr
        | d :: rest' =>
          if d == 93 then .ok (.arr (v :: acc).reverse) rest'
          else if d == 44 then parseItems cfg fuel depth (v :: acc) (skipWs rest')
          else .verr                                 -- Expecting ',' delimiter

  /-- object members; the input starts at a key -/
  def parseMembers (cfg : Cfg) : Nat → Nat → List (String × J) → List Nat → PR J
    | 0, _, _, _ => .verr
    | fuel + 1, depth, acc, s =>
      match s with
      | [] => .verr
      | q :: rest =>
        if q != 34 then .verr                        -- Expecting property name enclosed in double quotes
        else
          match scanString none [] rest with
          | .verr => .verr
          | .rerr => .rerr
          | .ok kcps rest1 =>
            match skipWs rest1 with
            | [] => .verr
            | col :: rest2 =>
              if col != 58 then .verr                -- Expecting ':' delimiter
              else
                match parseValue cfg fuel depth (skipWs rest2) with
                | .verr => .verr
                | .rerr => .rerr
                | .ok v rest3 =>
                  let acc' := insertKv (toStr kcps) v acc
                  match skipWs rest3 with
                  | [] => .verr
                  | d :: rest4 =>
                    if d == 125 then .ok (.obj acc') rest4
                    else if d == 44 then parseMembers cfg fuel depth acc' (skipWs rest4)
                    else .verr
end

/-- `JSONDecoder.decode`: leading whitespace, one value, trailing whitespace only -/
def parseText (cfg : Cfg) (cps : List Nat) : Res :=
  match parseValue cfg (2 * cps.length + 2) 0 (skipWs cps) with
  | .verr => .valueError
  | .rerr => .raises recursionError
  | .ok j rest => if (skipWs rest).isEmpty then .value j else .valueError     -- Extra data

/-- `json.loads(bytes)` -/
def loads (cfg : Cfg) (bytes : List Nat) : Res :=
  match decodeBytes bytes with
  | none => .valueError                               -- UnicodeDecodeError
  | some cps => parseText cfg cps

end Ariadne.PyJson
