/-
  Reference semantics of graphql-core 3.2's lexer (`graphql/language/lexer.py`), as far as the token stream that the
  parser sees is concerned.  MODELLED, VALIDATED (harness/c19.py `check_lexer`: the real `Lexer` on thousands of texts,
  token by token, errors by class), NOT VERIFIED.

  Why C19 needs it: `load_graphql_files_from_path` hands `"\n".join(texts)` to `parse`.  That the joined text has the
  definitions of the parts, in order, was an ASSUMPTION of Model/SchemaLoad.lean.  Its lexical half - the joined text
  has exactly the tokens of the parts, in order, and this is a property of the separator - is proved over this model
  (Proofs/GqlLexer.lean, Properties/C19.lean §1b); what remains assumed is stated there at token level.

  Shape: a deterministic automaton that reads ONE character at a time (`step`), structural recursion over the text
  (`run`), and a verdict at the end of the text (`final`).  The real lexer looks ahead (three quotes, `...`, four hex
  digits, `\"""`); every such look-ahead is a chain of states here.  A token is its kind and its lexeme (the slice
  `body[token.start:token.end]`); values, lines and columns are functions of these and are not modelled.  Comment
  tokens are dropped (the parser never sees them: `Lexer.lookahead` skips them).

  Errors: `syntax` = GraphQLSyntaxError.  `index` = the bare `IndexError` that graphql-core 3.2 raises when the text ends
  inside an escape (`body[position + 1]` in `read_escaped_character`, `body[position + k]` in `read_16_bit_hex_code`):
  it is what the code does, so it is what the model says.

  Lean's `Char` is a Unicode scalar value, so "Invalid character" for a lone surrogate cannot arise (a file decoded
  from UTF-8 never contains one).  Core Lean only (linked into the driver).
-/
namespace Ariadne.Spec.GqlLexer

inductive TokKind where
  | punct        -- ! $ & ( ) : = @ [ ] { | }  and  ...
  | name
  | int
  | float
  | string
  | blockString
  deriving Repr, DecidableEq

/-- kind + lexeme (`body[start:end]`) -/
structure Tok where
  kind : TokKind
  text : List Char
  deriving Repr, DecidableEq

inductive LexErr where
  | syntax       -- GraphQLSyntaxError
  | index        -- IndexError: the text ends inside an escape sequence
  deriving Repr, DecidableEq

/-- `acc` is always the lexeme read so far, REVERSED. -/
inductive St where
  | start
  | comment
  | name (acc : List Char)
  | dot1                                   -- "."
  | dot2                                   -- ".."
  | numNeg (acc : List Char)               -- "-"
  | numZero (acc : List Char)              -- "0" / "-0"
  | numInt (acc : List Char)               -- [1-9][0-9]*
  | numDot (acc : List Char)               -- ... "."      (a digit must follow)
  | numFrac (acc : List Char)
  | numE (acc : List Char)                 -- ... "e"      (sign or digit must follow)
  | numESign (acc : List Char)             -- ... "e+"     (a digit must follow)
  | numExp (acc : List Char)
  | q1                                     -- one quote
  | q2                                     -- two quotes: the empty string, or the start of a block string
  | str (acc : List Char)
  | strEsc (acc : List Char)               -- after a backslash
  | strU (acc : List Char)                 -- after backslash-u
  | uVar (acc : List Char) (n : Nat) (point : Nat)        -- inside \u{...}: n hex digits read
  | uFix (acc : List Char) (k : Nat) (code : Nat)         -- \uXXXX: k < 4 hex digits read
  | uBad (n : Nat)                         -- a non-hex digit among the four: n more characters must exist, then `syntax`
  | surBs (acc : List Char)                -- after a leading surrogate escape: a backslash must follow
  | surU (acc : List Char)                 -- ... then "u"
  | surFix (acc : List Char) (k : Nat) (code : Nat)       -- ... then four hex digits of a trailing surrogate
  | bs (acc : List Char)                   -- inside a block string
  | bsQ1 (acc : List Char)                 -- ... one quote seen
  | bsQ2 (acc : List Char)                 -- ... two quotes seen
  | bsBs (acc : List Char)                 -- ... backslash seen
  | bsBsQ1 (acc : List Char)               -- ... backslash, quote
  | bsBsQ2 (acc : List Char)               -- ... backslash, quote, quote
  deriving Repr

def isNameStart (c : Char) : Bool := c.isAlpha || c == '_'
def isNameCont (c : Char) : Bool := c.isAlpha || c.isDigit || c == '_'
def isPunct (c : Char) : Bool := ['!', '$', '&', '(', ')', ':', '=', '@', '[', ']', '{', '|', '}'].contains c
/-- `char in " \\t,\\ufeff"`, `"\\n"`, `"\\r"` -/
def isIgnored (c : Char) : Bool := c == ' ' || c == '\t' || c == ',' || c == '\uFEFF' || c == '\n' || c == '\r'
def isLineEnd (c : Char) : Bool := c == '\n' || c == '\r'

/-- `read_hex_digit` (`none` = -1) -/
def hexVal (c : Char) : Option Nat :=
  if '0' ≤ c ∧ c ≤ '9' then some (c.toNat - 48)
  else if 'A' ≤ c ∧ c ≤ 'F' then some (c.toNat - 55)
  else if 'a' ≤ c ∧ c ≤ 'f' then some (c.toNat - 87)
  else none

def isScalarPoint (p : Nat) : Bool := p ≤ 0xD7FF || (0xE000 ≤ p && p ≤ 0x10FFFF)
def isLeadSurrogate (p : Nat) : Bool := 0xD800 ≤ p && p ≤ 0xDBFF
def isTrailSurrogate (p : Nat) : Bool := 0xDC00 ≤ p && p ≤ 0xDFFF

def tok (k : TokKind) (acc : List Char) : Tok := ⟨k, acc.reverse⟩

abbrev Step := Except LexErr (St × List Tok)

/-- `read_next_token` at a token boundary. -/
def stepStart (c : Char) : Step :=
  if isIgnored c then .ok (.start, [])
  else if c == '#' then .ok (.comment, [])
  else if c == '"' then .ok (.q1, [])
  else if isPunct c then .ok (.start, [⟨.punct, [c]⟩])
  else if c == '-' then .ok (.numNeg [c], [])
  else if c == '0' then .ok (.numZero [c], [])
  else if c.isDigit then .ok (.numInt [c], [])
  else if isNameStart c then .ok (.name [c], [])
  else if c == '.' then .ok (.dot1, [])
  else .error .syntax

/-- a token ended BEFORE `c`: emit it, then read `c` at the boundary -/
def emitThen (t : Tok) (c : Char) : Step :=
  match stepStart c with
  | .error e => .error e
  | .ok (s, ts) => .ok (s, t :: ts)

/-- "Numbers cannot be followed by . or NameStart" -/
def numEnd (k : TokKind) (acc : List Char) (c : Char) : Step :=
  if c == '.' || isNameStart c then .error .syntax else emitThen (tok k acc) c

/-- four hex digits have been read (`read_escaped_unicode_fixed_width`) -/
def afterFix (acc : List Char) (code : Nat) : Step :=
  if isScalarPoint code then .ok (.str acc, [])
  else if isLeadSurrogate code then .ok (.surBs acc, [])
  else .error .syntax

def step (s : St) (c : Char) : Step :=
  match s with
  | .start => stepStart c
  | .comment => if isLineEnd c then .ok (.start, []) else .ok (.comment, [])
  | .name acc => if isNameCont c then .ok (.name (c :: acc), []) else emitThen (tok .name acc) c
  | .dot1 => if c == '.' then .ok (.dot2, []) else .error .syntax
  | .dot2 => if c == '.' then .ok (.start, [⟨.punct, ['.', '.', '.']⟩]) else .error .syntax
  | .numNeg acc =>
    if c == '0' then .ok (.numZero (c :: acc), [])
    else if c.isDigit then .ok (.numInt (c :: acc), [])
    else .error .syntax
  | .numZero acc =>
    if c.isDigit then .error .syntax                       -- "unexpected digit after 0"
    else if c == '.' then .ok (.numDot (c :: acc), [])
    else if c == 'e' || c == 'E' then .ok (.numE (c :: acc), [])
    else numEnd .int acc c
  | .numInt acc =>
    if c.isDigit then .ok (.numInt (c :: acc), [])
    else if c == '.' then .ok (.numDot (c :: acc), [])
    else if c == 'e' || c == 'E' then .ok (.numE (c :: acc), [])
    else numEnd .int acc c
  | .numDot acc => if c.isDigit then .ok (.numFrac (c :: acc), []) else .error .syntax
  | .numFrac acc =>
    if c.isDigit then .ok (.numFrac (c :: acc), [])
    else if c == 'e' || c == 'E' then .ok (.numE (c :: acc), [])
    else numEnd .float acc c
  | .numE acc =>
    if c == '+' || c == '-' then .ok (.numESign (c :: acc), [])
    else if c.isDigit then .ok (.numExp (c :: acc), [])
    else .error .syntax
  | .numESign acc => if c.isDigit then .ok (.numExp (c :: acc), []) else .error .syntax
  | .numExp acc => if c.isDigit then .ok (.numExp (c :: acc), []) else numEnd .float acc c
  | .q1 =>
    if c == '"' then .ok (.q2, [])
    else if c == '\\' then .ok (.strEsc [c, '"'], [])
    else if isLineEnd c then .error .syntax              -- "Unterminated string."
    else .ok (.str [c, '"'], [])
  | .q2 =>
    if c == '"' then .ok (.bs ['"', '"', '"'], [])
    else emitThen ⟨.string, ['"', '"']⟩ c
  | .str acc =>
    if c == '"' then .ok (.start, [tok .string (c :: acc)])
    else if c == '\\' then .ok (.strEsc (c :: acc), [])
    else if isLineEnd c then .error .syntax
    else .ok (.str (c :: acc), [])
  | .strEsc acc =>
    if c == 'u' then .ok (.strU (c :: acc), [])
    else if ['"', '/', '\\', 'b', 'f', 'n', 'r', 't'].contains c then .ok (.str (c :: acc), [])
    else .error .syntax                                   -- "Invalid character escape sequence"
  | .strU acc =>
    if c == '{' then .ok (.uVar (c :: acc) 0 0, [])
    else
      match hexVal c with
      | some v => .ok (.uFix (c :: acc) 1 v, [])
      | none => .ok (.uBad 3, [])
  | .uVar acc n point =>
    if c == '}' then
      if 0 < n ∧ isScalarPoint point then .ok (.str (c :: acc), []) else .error .syntax
    else
      match hexVal c with
      | some v => if n < 8 then .ok (.uVar (c :: acc) (n + 1) (point * 16 + v), []) else .error .syntax
      | none => .error .syntax
  | .uFix acc k code =>
    match hexVal c with
    | some v => if k + 1 < 4 then .ok (.uFix (c :: acc) (k + 1) (code * 16 + v), []) else afterFix (c :: acc) (code * 16 + v)
    | none => if k + 1 < 4 then .ok (.uBad (3 - k), []) else .error .syntax
  | .uBad n => if n ≤ 1 then .error .syntax else .ok (.uBad (n - 1), [])
  | .surBs acc => if c == '\\' then .ok (.surU (c :: acc), []) else .error .syntax
  | .surU acc => if c == 'u' then .ok (.surFix (c :: acc) 0 0, []) else .error .syntax
  | .surFix acc k code =>
    match hexVal c with
    | some v =>
      if k + 1 < 4 then .ok (.surFix (c :: acc) (k + 1) (code * 16 + v), [])
      else if isTrailSurrogate (code * 16 + v) then .ok (.str (c :: acc), []) else .error .syntax
    | none => if k + 1 < 4 then .ok (.uBad (3 - k), []) else .error .syntax
  | .bs acc =>
    if c == '"' then .ok (.bsQ1 (c :: acc), [])
    else if c == '\\' then .ok (.bsBs (c :: acc), [])
    else .ok (.bs (c :: acc), [])
  | .bsQ1 acc =>
    if c == '"' then .ok (.bsQ2 (c :: acc), [])
    else if c == '\\' then .ok (.bsBs (c :: acc), [])
    else .ok (.bs (c :: acc), [])
  | .bsQ2 acc =>
    if c == '"' then .ok (.start, [tok .blockString (c :: acc)])
    else if c == '\\' then .ok (.bsBs (c :: acc), [])
    else .ok (.bs (c :: acc), [])
  | .bsBs acc =>
    if c == '"' then .ok (.bsBsQ1 (c :: acc), [])
    else if c == '\\' then .ok (.bsBs (c :: acc), [])
    else .ok (.bs (c :: acc), [])
  | .bsBsQ1 acc =>
    if c == '"' then .ok (.bsBsQ2 (c :: acc), [])
    else if c == '\\' then .ok (.bsBs (c :: acc), [])
    else .ok (.bs (c :: acc), [])
  | .bsBsQ2 acc =>
    if c == '"' then .ok (.bs (c :: acc), [])             -- \""" : an escaped triple quote
    else if c == '\\' then .ok (.bsBs (c :: acc), [])
    else .ok (.bs (c :: acc), [])

/-- the text ends in state `s`: the last token, or the error -/
def final : St → Except LexErr (List Tok)
  | .start => .ok []
  | .comment => .ok []
  | .name acc => .ok [tok .name acc]
  | .numZero acc => .ok [tok .int acc]
  | .numInt acc => .ok [tok .int acc]
  | .numFrac acc => .ok [tok .float acc]
  | .numExp acc => .ok [tok .float acc]
  | .q2 => .ok [⟨.string, ['"', '"']⟩]
  | .strEsc _ => .error .index                -- body[position + 1]
  | .strU _ => .error .index                  -- body[position + 2]
  | .uFix _ _ _ => .error .index
  | .uBad _ => .error .index
  | .surFix _ _ _ => .error .index
  | _ => .error .syntax                       -- unterminated string, ".", "-", "1.", "1e", ...

def run (s : St) : List Char → Step
  | [] => .ok (s, [])
  | c :: cs =>
    match step s c with
    | .error e => .error e
    | .ok (s', ts) =>
      match run s' cs with
      | .error e => .error e
      | .ok (s'', ts') => .ok (s'', ts ++ ts')

/-- the token stream of a whole text (what `parse` consumes), or the exception the lexer raises -/
def lexChars (cs : List Char) : Except LexErr (List Tok) :=
  match run .start cs with
  | .error e => .error e
  | .ok (s, ts) =>
    match final s with
    | .error e => .error e
    | .ok last => .ok (ts ++ last)

def lex (text : String) : Except LexErr (List Tok) := lexChars text.toList

/-- `sep.join(texts)` on character lists -/
def joinWith (sep : List Char) : List (List Char) → List Char
  | [] => []
  | [x] => x
  | x :: y :: rest => x ++ sep ++ joinWith sep (y :: rest)

end Ariadne.Spec.GqlLexer
