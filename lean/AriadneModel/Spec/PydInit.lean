/-
  Reference semantics of pydantic 2.x for CONSTRUCTING an instance of a generated input class
  (property C03: the caller's nested input-model arguments exist only through these calls):

      class BaseModel(PydanticBaseModel):
          model_config = ConfigDict(populate_by_name=True, validate_assignment=True,
                                    arbitrary_types_allowed=True, protected_namespaces=())

      Cls(**kw)

    * the fields of the class are visited in declaration order; a field with an alias is looked up
      under the alias FIRST and, because of `populate_by_name`, under its attribute name otherwise;
      a field without alias is looked up under its attribute name;
    * a field that is found is validated against its annotation and is SET (`model_fields_set`),
      whatever its value (`None` included);
    * a field that is not found and has a class-level default (`= None`, `= <literal>`,
      `Field(default=…)`, `Field(default_factory=…)`) stays UNSET: `model_dump(exclude_unset=True)`
      skips it;
    * a field that is not found and has no default is reported `missing`;
    * keywords that name no field are ignored (`extra` is not configured: pydantic's default `ignore`);
    * every problem of every field is collected into ONE `ValidationError`.

  The result is the instance in the form `Spec.PydLog.dumpFields` consumes: per field, in class
  order, dump key (`alias` if declared, else the attribute name) + annotation + value or `unset`.

  Validation of a given value is modelled exactly as far as `ArgValues.annConf` goes (`None` only
  under `Optional`, list shape; the `UNSET` sentinel is no value of any annotation the generator
  emits); what pydantic's lax mode does to leaves is C06's subject and is not compared here.

  MODELLED, VALIDATED against the real pydantic on really generated classes by harness/c03.py
  (observation `construct`: which keywords are given, under which of the two names, unknown
  keywords, required fields left out), NOT VERIFIED.  Core Lean only.
-/
import AriadneModel.Model.ArgValues

namespace Ariadne.PydInit
open Ariadne Ariadne.Scalars Ariadne.ArgValues

/-- what pydantic knows about one attribute of the class -/
structure InitField where
  py : String
  alias : Option String
  ann : NAnn
  required : Bool                     -- no class-level default
  deriving Repr, DecidableEq, Inhabited

def InitField.key (c : InitField) : String := c.alias.getD c.py

def InitField.fieldKey (c : InitField) : FieldKey := ⟨c.key, c.ann⟩

/-- the names under which `__init__` accepts a value for the field -/
def InitField.lookupNames (c : InitField) : List String := c.py :: c.alias.toList

/-- first keyword called `k` -/
def findKw (k : String) : List (String × AV) → Option AV
  | [] => none
  | (k', v) :: rest => if k' == k then some v else findKw k rest

/-- alias first, attribute name second (`populate_by_name=True`) -/
def lookupField (c : InitField) (kw : List (String × AV)) : Option AV :=
  match c.alias with
  | some a =>
    match findKw a kw with
    | some v => some v
    | none => findKw c.py kw
  | none => findKw c.py kw

/-- a given value is accepted by the field -/
def accepts (c : InitField) (v : AV) : Bool := !v.isUnset && annConf c.ann v

structure InitOut where
  fields : List (FieldKey × AV)       -- the instance (meaningful when nothing is missing / invalid)
  missing : List String               -- dump keys of required fields that were not given
  invalid : List String               -- dump keys of fields whose given value was refused

def initFields : List InitField → List (String × AV) → InitOut
  | [], _ => ⟨[], [], []⟩
  | c :: cs, kw =>
    let r := initFields cs kw
    match lookupField c kw with
    | some v =>
      if accepts c v then ⟨(c.fieldKey, v) :: r.fields, r.missing, r.invalid⟩
      else ⟨(c.fieldKey, v) :: r.fields, r.missing, c.key :: r.invalid⟩
    | none =>
      if c.required then ⟨(c.fieldKey, .unset) :: r.fields, c.key :: r.missing, r.invalid⟩
      else ⟨(c.fieldKey, .unset) :: r.fields, r.missing, r.invalid⟩

structure InitErr where
  missing : List String
  invalid : List String
  deriving Repr, DecidableEq

/-- `Cls(**kw)`: the instance, or the `ValidationError` -/
def initModel (cs : List InitField) (kw : List (String × AV)) : Except InitErr (List (FieldKey × AV)) :=
  let r := initFields cs kw
  if r.missing.isEmpty && r.invalid.isEmpty then .ok r.fields else .error ⟨r.missing, r.invalid⟩

end Ariadne.PydInit
