/-
  C16 — reference semantics: the ORDER of `schema.type_map`, i.e. graphql-core 3.2's type collection
  in `GraphQLSchema.__init__` (`print_schema` prints the types in that order, so "printing both
  gives the same SDL" depends on it):

      all_referenced_types = TypeSet.with_initial_types(types)      # an insertion-ordered set
      for type_ in types:
          del all_referenced_types[type_]                           # … re-added at the END, followed by
          collect_referenced_types(type_)                           #   whatever it references and is new
      if query: collect_referenced_types(query)        (mutation, subscription likewise)
      for directive in self.directives:
          for arg in directive.args.values(): collect_referenced_types(arg.type)
      collect_referenced_types(introspection_types["__Schema"])
      for named_type in all_referenced_types: type_map[named_type.name] = named_type

      def collect_referenced_types(self, type_):
          named_type = get_named_type(type_)
          if named_type in self: return
          self[named_type] = None
          union: members;  object / interface: interfaces, then per field its type and its argument types;
          input object: field types

  MODELLED, VALIDATED, NOT VERIFIED (third-party behaviour).  Types are identified by name (inside a
  well-formed schema a reference denotes the one type object of that name).  harness/c16.py compares
  `typeMapOrderFrom` with `list(schema.type_map)` — built-in scalars and introspection types included —
  for the source schema (SDL, full introspection, remote) and for the schema the generated module
  defines, on every case (driver op "gen").
  The walk is a depth-first search with fuel (`#types + 16`; the depth of the walk is at most 2 below a
  user type and 8 inside the introspection types).

  Core Lean only.
-/
import AriadneModel.Model.SchemaIR
import AriadneModel.Generated.GqlBuiltin

namespace Ariadne.GqlCollect
open Ariadne.Schema

def baseName : TypeRef → Name
  | .named n _ => n
  | .list t => baseName t
  | .nonNull t => baseName t

def fieldRefs (f : FieldDef) : List Name := baseName f.type :: f.args.map fun a => baseName a.type

/-- the named types `collect_referenced_types` visits from a type, in visiting order -/
def refsOf : TypeDef → List Name
  | .scalar _ _ _ => []
  | .enum _ _ _ => []
  | .union _ _ ms => ms
  | .object _ _ is fs => is ++ fs.flatMap fieldRefs
  | .interface _ _ is fs => is ++ fs.flatMap fieldRefs
  | .input _ _ fs _ => fs.map fun a => baseName a.type

def findType (n : Name) : List TypeDef → Option TypeDef
  | [] => none
  | t :: ts => if t.name = n then some t else findType n ts

/-- the reference graph: user types by their definition, built-in types by the generated table -/
def refsIn (S : SchemaIR) (n : Name) : List Name :=
  match findType n S.types with
  | some t => refsOf t
  | none => (alookup n GqlBuiltin.refs).getD []

/-- `TypeSet.collect_referenced_types` on an insertion-ordered set of names -/
def collect (refs : Name → List Name) : Nat → List Name → Name → List Name
  | 0, set, _ => set
  | fuel + 1, set, n =>
    if set.contains n then set else (refs n).foldl (collect refs fuel) (set ++ [n])

def collectAll (refs : Name → List Name) (fuel : Nat) (set : List Name) (ns : List Name) : List Name :=
  ns.foldl (collect refs (fuel + 1)) set

/-- `for type_ in types: del all_referenced_types[type_]; collect_referenced_types(type_)` -/
def processTypes (refs : Name → List Name) (fuel : Nat) : List Name → List Name → List Name
  | [], set => set
  | t :: rest, set => processTypes refs fuel rest (collect refs (fuel + 1) (set.erase t) t)

def rootNames (S : SchemaIR) : List Name :=
  [S.query, S.mutation, S.subscription].filterMap fun r => r.map (·.1)

/-- the keys of `schema.type_map`, in order, for `GraphQLSchema(types=ts, …)`.  `ts` are the names of
    the type objects handed over: the user's types for `build_ast_schema` and for the generated module
    (`<type_map>.values()`); `build_client_schema` also hands over the built-in types the served
    schema used, at the served schema's positions. -/
def typeMapOrderFrom (ts : List Name) (S : SchemaIR) : List Name :=
  let refs := refsIn S
  let fuel := S.types.length + 16
  let s1 := processTypes refs fuel ts ts
  let s2 := collectAll refs fuel s1 (rootNames S)
  let s3 := collectAll refs fuel s2 (S.directives.flatMap fun d => d.args.map fun a => baseName a.type)
  collect refs (fuel + 1) s3 "__Schema"

/-- … when `types=` are exactly the user's types, in `S.types` order -/
def typeMapOrder (S : SchemaIR) : List Name := typeMapOrderFrom (S.types.map TypeDef.name) S

end Ariadne.GqlCollect
