/-
  Reference semantics of GraphQL *variable coercion* (spec §6.1.2 CoerceVariableValues, §3.x input
  coercion) as graphql-core 3.2 implements it:

      graphql/execution/values.py        coerce_variable_values
      graphql/utilities/coerce_input_value.py   coerce_input_value
      graphql/type/scalars.py            coerce_int / coerce_float / coerce_string / coerce_boolean / coerce_id

  MODELLED, VALIDATED against the real library by the correspondence check (harness/c03.py:
  `coerceVars` here vs `graphql.execution.values.get_variable_values` on generated variable
  definitions and valid / corrupted inputs), NOT VERIFIED.

  Abstractions (all on the *value* side, none on the control flow):
    * a JSON number is `J.num m e`; `float(x)` is the identity on it (no binary rounding);
    * an enum's internal value is its name (true for every schema built from SDL / introspection,
      which is all ariadne-codegen ever reads);
    * a custom scalar's `parse_value` is the identity (graphql-core's default);
    * default values arrive already coerced (`field.default_value`, resp.
      `value_from_ast(var_def.default_value, type)`, computed by the real library);
    * an error is just `error` — graphql-core collects messages, the model only says *whether*
      coercion succeeds and with which value.  `oneOf` input objects are not modelled.

  Types are in the normal form `GT` (a non-null flag on every named type / list level): the AST
  cannot nest `NonNullType` in `NonNullType`, `ofTypeRef` is the (total) translation.

  All recursion is structural on the JSON value.  Core Lean only.
-/
import AriadneModel.Model.Json
import AriadneModel.Model.Gql
import AriadneModel.Generated.Tables

namespace Ariadne.Coerce
open Ariadne

/-- GraphQL input type in normal form. -/
inductive GT where
  | named (n : String) (nonNull : Bool)
  | list (item : GT) (nonNull : Bool)
  deriving Repr, DecidableEq, Inhabited

namespace GT
def nonNull : GT → Bool
  | .named _ b => b
  | .list _ b => b
def base : GT → String
  | .named n _ => n
  | .list t _ => t.base
def depth : GT → Nat
  | .named _ _ => 0
  | .list t _ => t.depth + 1
def isList : GT → Bool
  | .list _ _ => true
  | _ => false
end GT

def ofTypeRefAux : Bool → Gql.TypeRef → GT
  | nn, .named n => .named n nn
  | nn, .list t => .list (ofTypeRefAux false t) nn
  | _, .nonNull t => ofTypeRefAux true t

/-- `type_from_ast` (shape only) -/
def ofTypeRef (t : Gql.TypeRef) : GT := ofTypeRefAux false t

/-- an input field / a variable definition: name, type, already-coerced default -/
structure IField where
  name : String
  type : GT
  default : Option J := none
  deriving Inhabited

inductive IType where
  | scalar                          -- a custom scalar (parse_value = identity)
  | enum (values : List String)
  | input (fields : List IField)
  | output                          -- object / interface / union: not an input type
  deriving Inhabited

/-- the part of a schema that input coercion reads (`schema.type_map`, user types only;
    the five built-in scalars are fixed) -/
structure ISchema where
  types : List (String × IType)

def ISchema.get? (s : ISchema) (n : String) : Option IType :=
  match s.types.find? (·.1 == n) with
  | some p => some p.2
  | none => none

def findField (fs : List IField) (k : String) : Option IField := fs.find? (·.name == k)

/-! ### leaf coercion (`parse_value`) -/

def pow10 (e : Nat) : Int := ((10 ^ e : Nat) : Int)

/-- `int(x) == x` for the decimal `m * 10^-e` -/
def integral? (m : Int) (e : Nat) : Option Int :=
  if m % pow10 e == 0 then some (m / pow10 e) else none

def int32 (i : Int) : Bool := decide (-2147483648 ≤ i) && decide (i ≤ 2147483647)

def coerceInt : J → Option J
  | .num m e =>
    match integral? m e with
    | some i => if int32 i then some (.num i 0) else none
    | none => none
  | _ => none

def coerceFloat : J → Option J
  | .num m e => some (.num m e)
  | _ => none

def coerceString : J → Option J
  | .str s => some (.str s)
  | _ => none

def coerceBoolean : J → Option J
  | .bool b => some (.bool b)
  | _ => none

/-- decimal rendering of an integer (`str(int)`) -/
def intStr (i : Int) : String := if i < 0 then "-" ++ toString i.natAbs else toString i.natAbs

def coerceID : J → Option J
  | .str s => some (.str s)
  | .num m e =>
    match integral? m e with
    | some i => some (.str (intStr i))
    | none => none
  | _ => none

def builtinScalars : List String := ["Int", "Float", "String", "Boolean", "ID"]

/-- `coerce_input_value` on a *named* type for a value that is not `null` and not an object
    literal of an input object type (that case recurses and lives in `coerce`). -/
def coerceLeaf (s : ISchema) (n : String) (v : J) : Except Unit J :=
  let lift (o : Option J) : Except Unit J := match o with | some j => .ok j | none => .error ()
  match s.get? n with
  | some .scalar => .ok v
  | some (.enum vals) =>
    match v with
    | .str x => if vals.contains x then .ok (.str x) else .error ()
    | _ => .error ()
  | some (.input _) => .error ()          -- "Expected type … to be a mapping."
  | some .output => .error ()
  | none =>
    if n == "Int" then lift (coerceInt v)
    else if n == "Float" then lift (coerceFloat v)
    else if n == "String" then lift (coerceString v)
    else if n == "Boolean" then lift (coerceBoolean v)
    else if n == "ID" then lift (coerceID v)
    else .error ()

/-- "Lists accept a non-list value as a list of one", `d` levels deep. -/
def wrapN : Nat → J → J
  | 0, j => j
  | d + 1, j => .arr [wrapN d j]

/-- The second half of the input-object branch: walk the type's fields in order; a provided
    (already coerced) value is kept, an absent field takes its default or, if it is non-null
    without default, is an error. -/
def assemble : List IField → List (String × J) → Except Unit (List (String × J))
  | [], _ => .ok []
  | f :: fs, given =>
    match J.lookup f.name given with
    | some v =>
      match assemble fs given with
      | .ok rest => .ok ((f.name, v) :: rest)
      | .error e => .error e
    | none =>
      match f.default with
      | some d =>
        match assemble fs given with
        | .ok rest => .ok ((f.name, d) :: rest)
        | .error e => .error e
      | none =>
        if f.type.nonNull then .error ()
        else assemble fs given

mutual
  /-- `coerce_input_value(value, type)`. -/
  def coerce (s : ISchema) : GT → J → Except Unit J
    | t, .null => if t.nonNull then .error () else .ok .null
    | .list it _, .arr xs =>
      match coerceList s it xs with
      | .ok ys => .ok (.arr ys)
      | .error e => .error e
    | .named n _, .arr xs => coerceLeaf s n (.arr xs)
    | t, .obj kvs =>
      match s.get? t.base with
      | some (.input fs) =>
        match coerceKvs s fs kvs with
        | .ok given =>
          match assemble fs given with
          | .ok out => .ok (wrapN t.depth (.obj out))
          | .error e => .error e
        | .error e => .error e
      | _ =>
        match coerceLeaf s t.base (.obj kvs) with
        | .ok j => .ok (wrapN t.depth j)
        | .error e => .error e
    | t, .bool b =>
      match coerceLeaf s t.base (.bool b) with
      | .ok j => .ok (wrapN t.depth j)
      | .error e => .error e
    | t, .num m e =>
      match coerceLeaf s t.base (.num m e) with
      | .ok j => .ok (wrapN t.depth j)
      | .error e => .error e
    | t, .str x =>
      match coerceLeaf s t.base (.str x) with
      | .ok j => .ok (wrapN t.depth j)
      | .error e => .error e
  def coerceList (s : ISchema) (it : GT) : List J → Except Unit (List J)
    | [] => .ok []
    | x :: xs =>
      match coerce s it x, coerceList s it xs with
      | .ok y, .ok ys => .ok (y :: ys)
      | _, _ => .error ()
  /-- every provided key must be a field of the type; its value is coerced at the field's type -/
  def coerceKvs (s : ISchema) (fs : List IField) : List (String × J) → Except Unit (List (String × J))
    | [] => .ok []
    | (k, v) :: rest =>
      match findField fs k with
      | none => .error ()                -- "Field … is not defined by type …"
      | some f =>
        match coerce s f.type v, coerceKvs s fs rest with
        | .ok y, .ok ys => .ok ((k, y) :: ys)
        | _, _ => .error ()
end

/-- first half of `coerce_variable_values`: coerce every *provided* variable that is declared
    (undeclared inputs are ignored); explicit `null` for a non-null variable is an error
    (already covered by `coerce`). -/
def coerceGiven (s : ISchema) (defs : List IField) : List (String × J) → Except Unit (List (String × J))
  | [] => .ok []
  | (k, v) :: rest =>
    match findField defs k with
    | none => coerceGiven s defs rest
    | some d =>
      match coerce s d.type v, coerceGiven s defs rest with
      | .ok y, .ok ys => .ok ((k, y) :: ys)
      | _, _ => .error ()

/-- is the named type an input type of the schema? -/
def isInputType (s : ISchema) (n : String) : Bool :=
  match s.get? n with
  | some .output => false
  | some _ => true
  | none => builtinScalars.contains n

/-- `coerce_variable_values(schema, var_defs, inputs)`; `inputs` = the decoded `variables` object
    of the request. -/
def coerceVars (s : ISchema) (defs : List IField) (inputs : List (String × J)) : Except Unit (List (String × J)) :=
  if defs.all (fun d => isInputType s d.type.base) then
    match coerceGiven s defs inputs with
    | .ok given => assemble defs given
    | .error e => .error e
  else .error ()

end Ariadne.Coerce
