/-
  C14 — specification side for the documents the builder emits.  Core Lean only.

  * `selVars`, `docVars`: the variables used in a document (pre-order).
  * `resolveDoc`: the document with every `$variable` replaced by (declared type, bound value) —
    fails when a used variable has no definition or no value.
  * `intended`: what the caller's tree of field objects *says*: per field its name, alias, and the
    non-None arguments with their type and value.  `intendedExact` uses the schema's GraphQL name and
    exact argument type (the ghost data) instead of what the generator recorded.
  * finding triggers (decidable predicates on package × history × operation).
  * `validDoc`: a small validator for the builder's document shape against the schema IR.  It is a
    REFERENCE SEMANTICS of graphql-core's `validate` restricted to the rules that can fire on builder
    documents (FieldsOnCorrectType, KnownArgumentNames, ProvidedRequiredArguments, ScalarLeafs,
    KnownTypeNames, FragmentsOnCompositeTypes, PossibleFragmentSpreads, NoUndefinedVariables,
    NoUnusedVariables, UniqueVariableNames, VariablesAreInputTypes, VariablesInAllowedPosition — the
    last one read as *exact* type equality, which is what the property demands).  Not modelled:
    OverlappingFieldsCanBeMerged.  *Modelled, validated against graphql-core by harness/c14.py, not
    verified.*
-/
import AriadneModel.Model.CustomGen

namespace Ariadne.BuilderDoc
open Ariadne Ariadne.Builder Ariadne.CustomGen

/-! ### variables of a document -/

mutual
  def selVars : Sel → List String
    | .field _ _ args _ sels => args.map (·.2) ++ selVarsList sels
    | .frag _ sels => selVarsList sels
  def selVarsList : List Sel → List String
    | [] => []
    | s :: ss => selVars s ++ selVarsList ss
end

def docVars (d : Doc) : List String := selVarsList d.sels

/-! ### resolved documents -/

inductive RSel where
  | field (alias : Option String) (name : String) (args : List (String × String × J)) (hasSet : Bool) (sels : List RSel)
  | frag (ty : String) (sels : List RSel)

def lookupS {α : Type} (k : String) : List (String × α) → Option α
  | [] => none
  | (k', v) :: rest => if k' = k then some v else lookupS k rest

def resolveArgs (defs : List (String × String)) (vals : List (String × J)) :
    List (String × String) → Option (List (String × String × J))
  | [] => some []
  | (k, u) :: rest =>
    match lookupS u defs, lookupS u vals, resolveArgs defs vals rest with
    | some t, some v, some r => some ((k, t, v) :: r)
    | _, _, _ => none

mutual
  def resolveSel (defs : List (String × String)) (vals : List (String × J)) : Sel → Option RSel
    | .field al nm args hs sels =>
      match resolveArgs defs vals args, resolveSels defs vals sels with
      | some a, some s => some (.field al nm a hs s)
      | _, _ => none
    | .frag ty sels =>
      match resolveSels defs vals sels with
      | some s => some (.frag ty s)
      | none => none
  def resolveSels (defs : List (String × String)) (vals : List (String × J)) : List Sel → Option (List RSel)
    | [] => some []
    | s :: ss =>
      match resolveSel defs vals s, resolveSels defs vals ss with
      | some r, some rs => some (r :: rs)
      | _, _ => none
end

def resolveDoc (d : Doc) : Option (List RSel) := resolveSels d.varDefs d.values d.sels

/-! ### what the tree of field objects says -/

/-- a class-level object that nobody mutated: a bare leaf -/
def intendedRef (st : Store) (id : Nat) : RSel :=
  match st[id]? with
  | some (.obj r _ _) => .field (aliasOf r.alias) r.fieldName [] false []
  | _ => .field none "" [] false []

mutual
  def intended (st : Store) : Node → RSel
    | .obj r subs frags =>
      .field (aliasOf r.alias) r.fieldName (r.vars.map fun v => (v.key, v.ty, v.value))
        (!(subs.isEmpty && frags.isEmpty)) (intendedList st subs ++ intendedFrags st frags)
    | .ref id => intendedRef st id
  def intendedList (st : Store) : List Node → List RSel
    | [] => []
    | n :: ns => intended st n :: intendedList st ns
  def intendedFrags (st : Store) : List Frag → List RSel
    | [] => []
    | .mk ty ns :: fs => .frag ty (intendedList st ns) :: intendedFrags st fs
end

/-- same, but with the schema's GraphQL field name and exact argument type (ghost data) -/
def intendedRefExact (st : Store) (id : Nat) : RSel :=
  match st[id]? with
  | some (.obj r _ _) => .field (aliasOf r.alias) r.gqlName [] false []
  | _ => .field none "" [] false []

mutual
  def intendedExact (st : Store) : Node → RSel
    | .obj r subs frags =>
      .field (aliasOf r.alias) r.gqlName (r.vars.map fun v => (v.key, v.exactTy, v.value))
        (!(subs.isEmpty && frags.isEmpty)) (intendedExactList st subs ++ intendedExactFrags st frags)
    | .ref id => intendedRefExact st id
  def intendedExactList (st : Store) : List Node → List RSel
    | [] => []
    | n :: ns => intendedExact st n :: intendedExactList st ns
  def intendedExactFrags (st : Store) : List Frag → List RSel
    | [] => []
    | .mk ty ns :: fs => .frag ty (intendedExactList st ns) :: intendedExactFrags st fs
end

/-! ### finding triggers -/

/-- strip `.alias/.fields/.on` wrappers: the accessor an expression starts from -/
def exprBase : Expr → Expr
  | .alias e _ => exprBase e
  | .fields e _ => exprBase e
  | .on e _ _ => exprBase e
  | e => e

def exprIsAttr : Expr → Bool
  | .attr _ _ => true
  | _ => false

def exprIsWrapped : Expr → Bool
  | .alias _ _ => true
  | .fields _ _ => true
  | .on _ _ _ => true
  | _ => false

mutual
  /-- F4 (syntactic core): somewhere a mutator (`alias`, `on`, `fields`) is applied to a class-level object -/
  def mutatesShared : Expr → Bool
    | .attr _ _ => false
    | .call _ _ _ => false
    | .alias e _ => exprIsAttr (exprBase e) || mutatesShared e
    | .fields e cs => exprIsAttr (exprBase e) || mutatesShared e || mutatesSharedList cs
    | .on e _ cs => exprIsAttr (exprBase e) || mutatesShared e || mutatesSharedList cs
  def mutatesSharedList : List Expr → Bool
    | [] => false
    | e :: es => mutatesShared e || mutatesSharedList es
end

def opMutatesShared (op : Op) : Bool := mutatesSharedList op.fields

/- occurrences of class-level accessors: (class, attribute, is this occurrence mutated?) in evaluation order -/
/-- the receiver's own occurrence is the first one recorded for it -/
def markHead : List (String × String × Bool) → Bool → List (String × String × Bool)
  | (c, a, _) :: rest, true => (c, a, true) :: rest
  | l, _ => l

mutual
  def sharedOccs : Expr → List (String × String × Bool)
    | .attr c a => [(c, a, false)]
    | .call _ _ _ => []
    | .alias e _ => markHead (sharedOccs e) (exprIsAttr (exprBase e))
    | .fields e cs => markHead (sharedOccs e) (exprIsAttr (exprBase e)) ++ sharedOccsList cs
    | .on e _ cs => markHead (sharedOccs e) (exprIsAttr (exprBase e)) ++ sharedOccsList cs
  def sharedOccsList : List Expr → List (String × String × Bool)
    | [] => []
    | e :: es => sharedOccs e ++ sharedOccsList es
end

/-- F4 trigger: the operation uses a class-level accessor of which ANOTHER occurrence (earlier in the
    history, or elsewhere in the same operation) is mutated by `alias`/`on`. -/
def trigSharedMut (history : List Op) (op : Op) : Bool :=
  let hist := history.flatMap fun o => sharedOccsList o.fields
  let own := sharedOccsList op.fields
  own.zipIdx.any fun ((c, a, _), i) =>
    hist.any (fun (c', a', m) => m && c' == c && a' == a) ||
    own.zipIdx.any (fun ((c', a', m), j) => j != i && m && c' == c && a' == a)

mutual
  /-- F1 trigger: a non-None argument whose recorded type string is not the exact GraphQL type -/
  def trigListArg (p : Package) : Expr → Bool
    | .attr _ _ => false
    | .call c a kw =>
      match p.findClass c with
      | none => false
      | some cd =>
        match cd.findAcc a with
        | none => false
        | some acc => acc.args.any fun s => s.ty != s.exactTy && (match (lookupKw s.param kw).getD .null with | .null => false | _ => true)
    | .alias e _ => trigListArg p e
    | .fields e cs => trigListArg p e || trigListArgList p cs
    | .on e _ cs => trigListArg p e || trigListArgList p cs
  def trigListArgList (p : Package) : List Expr → Bool
    | [] => false
    | e :: es => trigListArg p e || trigListArgList p es
end

mutual
  /-- F3 trigger: an accessor whose `field_name` constant is not the GraphQL name -/
  def trigPyName (p : Package) : Expr → Bool
    | .attr c a =>
      match p.findClass c with
      | none => false
      | some cd =>
        match cd.findAcc a with
        | none => false
        | some acc => acc.fieldName != acc.gqlName
    | .call c a _ =>
      match p.findClass c with
      | none => false
      | some cd =>
        match cd.findAcc a with
        | none => false
        | some acc => acc.fieldName != acc.gqlName
    | .alias e _ => trigPyName p e
    | .fields e cs => trigPyName p e || trigPyNameList p cs
    | .on e _ cs => trigPyName p e || trigPyNameList p cs
  def trigPyNameList (p : Package) : List Expr → Bool
    | [] => false
    | e :: es => trigPyName p e || trigPyNameList p es
end

def kwNonNull (kw : List (String × J)) : Bool :=
  kw.any fun kv => match kv.2 with | .null => false | _ => true

mutual
  /-- REGION of the fixed finding F2 (no longer a trigger since /repo dfbc7ef; kept to measure how many
      generated operations lie in the region the theorem gained, and for the regression statements):
      a field at depth >= 3 (top-level field = depth 1; members of `.on(...)` count as
      children) carrying a non-None argument.  `d` = depth of the expression itself. -/
  def trigDeep (d : Nat) : Expr → Bool
    | .attr _ _ => false
    | .call _ _ kw => decide (3 ≤ d) && kwNonNull kw
    | .alias e _ => trigDeep d e
    | .fields e cs => trigDeep d e || trigDeepList (d + 1) cs
    | .on e _ cs => trigDeep d e || trigDeepList (d + 1) cs
  def trigDeepList (d : Nat) : List Expr → Bool
    | [] => false
    | e :: es => trigDeep d e || trigDeepList d es
end

/-- pairwise disjointness of the variable lists of the top-level selections -/
def crossClash : List Sel → Bool
  | [] => false
  | s :: ss => (selVars s).any (fun v => (selVarsList ss).contains v) || crossClash ss

/-- F5 trigger: two different top-level fields of the operation are given a common variable name
    (decided on the document the model produces for the operation in the given state). -/
def trigClash (r : Except Err Doc) : Bool :=
  match r with
  | .ok d => crossClash d.sels
  | .error _ => false

/-! ### validator for the builder's document shape -/

/-- the named type under the `!` / `[...]` wrappers of a type written in GraphQL syntax
    (on character lists, so that it evaluates in the kernel) -/
def baseChars : Nat → List Char → List Char
  | 0, cs => cs
  | fuel + 1, cs =>
    if cs.getLast? = some '!' then baseChars fuel cs.dropLast
    else if cs.head? = some '[' && cs.getLast? = some ']' then baseChars fuel (cs.drop 1).dropLast
    else cs

def baseTypeName (t : String) : String := String.ofList (baseChars t.length t.toList)

def isInputKind : Kind → Bool
  | .scalar | .enum | .input => true
  | _ => false

/-- the type string names an input type of the schema -/
def typeNameOK (s : Schema) (t : String) : Bool :=
  (s.find (baseTypeName t)).isSome && isInputKind (s.kindOf (baseTypeName t))

def isComposite : Kind → Bool
  | .object | .interface | .union => true
  | _ => false

/-- runtime object types a composite type can stand for -/
def possibleTypes (s : Schema) (t : String) : List String :=
  match s.find t with
  | none => []
  | some td =>
    match td.kind with
    | .object => [t]
    | .union => td.members
    | .interface => (s.types.filter fun o => o.kind == .object && o.interfaces.contains t).map (·.name)
    | _ => []

def findField (s : Schema) (parent : String) (name : String) : Option FieldDef :=
  match s.find parent with
  | none => none
  | some td =>
    match td.kind with
    | .object | .interface => td.fields.find? (·.name == name)
    | _ => none

/-- pairwise distinct (decidable, by recursion) -/
def allDistinct : List String → Bool
  | [] => true
  | x :: xs => !xs.contains x && allDistinct xs

def validArgs (f : FieldDef) (defs : List (String × String)) (args : List (String × String)) : Bool :=
  args.all (fun ku =>
    match f.args.find? (·.name == ku.1) with
    | none => false                                                     -- KnownArgumentNames
    | some a =>
      match lookupS ku.2 defs with
      | none => false                                                   -- NoUndefinedVariables
      | some t => t == a.ty.render)                                     -- exact type
  && f.args.all (fun a => !a.ty.isNonNull || args.any (·.1 == a.name))  -- ProvidedRequiredArguments
  && allDistinct (args.map (·.1))                                       -- UniqueArgumentNames

mutual
  def validSel (s : Schema) (defs : List (String × String)) (parent : String) : Sel → Bool
    | .field _ name args hasSet sels =>
      match findField s parent name with
      | none => false                                                   -- FieldsOnCorrectType
      | some f =>
        validArgs f defs args &&
        (if isComposite (s.kindOf f.ty.final) then hasSet && !sels.isEmpty && validSels s defs f.ty.final sels
         else !hasSet && sels.isEmpty)                                  -- ScalarLeafs
    | .frag ty sels =>
      isComposite (s.kindOf ty) && (s.find ty).isSome                   -- KnownTypeNames, FragmentsOnCompositeTypes
      && (possibleTypes s ty).any (fun t => (possibleTypes s parent).contains t)   -- PossibleFragmentSpreads
      && !sels.isEmpty && validSels s defs ty sels
  def validSels (s : Schema) (defs : List (String × String)) (parent : String) : List Sel → Bool
    | [] => true
    | x :: xs => validSel s defs parent x && validSels s defs parent xs
end

def rootType (s : Schema) (opType : String) : Option String :=
  if opType == "query" then s.query else if opType == "mutation" then s.mutation else none

def validDoc (s : Schema) (d : Doc) : Bool :=
  match rootType s d.opType with
  | none => false
  | some root =>
    let names := d.varDefs.map (·.1)
    allDistinct names                                                                       -- UniqueVariableNames
    && d.varDefs.all (fun nt => typeNameOK s nt.2)                                          -- VariablesAreInputTypes, KnownTypeNames
    && names.all (fun n => (docVars d).contains n)                                          -- NoUnusedVariables
    && !d.sels.isEmpty && validSels s d.varDefs root d.sels

end Ariadne.BuilderDoc

namespace Ariadne.BuilderDoc
open Ariadne Ariadne.Builder Ariadne.CustomGen

/-! ### the expression read locally: every accessor yields a FRESH object

`Cls.attr` denotes a copy of the class-level object as it is right after import; everything else is
`evalExpr` without a store.  This is the reference reading of a builder expression: what it says,
independently of what else was built in the process. -/

def freshOfShared (p : Package) (cls a : String) : Option Node :=
  match p.sharedId cls a with
  | some id => p.initStore[id]?
  | none => none

def ownCls : Node → Option String
  | .obj r _ _ => some r.cls
  | .ref _ => none

mutual
  def evalFresh (p : Package) : Expr → Except Err Node
    | .attr cls a =>
      match p.findClass cls with
      | none => .error .attribute
      | some c =>
        match c.findAcc a with
        | none => .error .attribute
        | some acc =>
          match acc.kind with
          | .method => .error (.internal "bound method used as a field")
          | .shared =>
            match freshOfShared p cls a with
            | some n => .ok n
            | none => .error (.internal "shared accessor without id")
    | .call cls a kw =>
      match p.findClass cls with
      | none => .error .attribute
      | some c =>
        match c.findAcc a with
        | none => .error .attribute
        | some acc =>
          match acc.kind with
          | .shared => .error .typeErr
          | .method =>
            match bindArgs acc.args kw with
            | .error e => .error e
            | .ok vars => .ok (mkNode acc vars)
    | .alias e al =>
      match evalFresh p e with
      | .error x => .error x
      | .ok n => if classHas p (·.hasAlias) (ownCls n) then .ok (setAlias al n) else .error .attribute
    | .fields e cs =>
      match evalFresh p e with
      | .error x => .error x
      | .ok n =>
        if classHas p (·.hasFields) (ownCls n) then
          match evalFreshList p cs with
          | .error x => .error x
          | .ok ns => .ok (extendSubs ns n)
        else .error .attribute
    | .on e ty cs =>
      match evalFresh p e with
      | .error x => .error x
      | .ok n =>
        if classHas p (·.hasOn) (ownCls n) then
          match evalFreshList p cs with
          | .error x => .error x
          | .ok ns => .ok (setFrag ty ns n)
        else .error .attribute
  def evalFreshList (p : Package) : List Expr → Except Err (List Node)
    | [] => .ok []
    | e :: es =>
      match evalFresh p e with
      | .error x => .error x
      | .ok n =>
        match evalFreshList p es with
        | .error x => .error x
        | .ok ns => .ok (n :: ns)
end

/-- what the operation says: per field its GraphQL name, alias, the non-None arguments with their exact
    GraphQL type and the caller's value, and its selections -/
def Intended (p : Package) (op : Op) : Option (List RSel) :=
  match evalFreshList p op.fields with
  | .ok ns => some (intendedExactList [] ns)
  | .error _ => none

/-! ### validity of a RESOLVED selection against the schema (the caller wrote a well-typed expression) -/

def validRArgs (s : Schema) (f : FieldDef) (args : List (String × String × J)) : Bool :=
  args.all (fun kt =>
    match f.args.find? (·.name == kt.1) with
    | none => false
    | some a => kt.2.1 == a.ty.render && typeNameOK s kt.2.1)
  && f.args.all (fun a => !a.ty.isNonNull || args.any (·.1 == a.name))
  && allDistinct (args.map (·.1))

mutual
  def validRSel (s : Schema) (parent : String) : RSel → Bool
    | .field _ name args hasSet sels =>
      match findField s parent name with
      | none => false
      | some f =>
        validRArgs s f args &&
        (if isComposite (s.kindOf f.ty.final) then hasSet && !sels.isEmpty && validRSels s f.ty.final sels
         else !hasSet && sels.isEmpty)
    | .frag ty sels =>
      isComposite (s.kindOf ty) && (s.find ty).isSome
      && (possibleTypes s ty).any (fun t => (possibleTypes s parent).contains t)
      && !sels.isEmpty && validRSels s ty sels
  def validRSels (s : Schema) (parent : String) : List RSel → Bool
    | [] => true
    | x :: xs => validRSel s parent x && validRSels s parent xs
end

/-- the operation is a well-typed selection on the schema's root type -/
def ValidExpr (s : Schema) (p : Package) (op : Op) : Bool :=
  match rootType s op.opType, Intended p op with
  | some root, some rs => !rs.isEmpty && validRSels s root rs
  | _, _ => false

/-! ### printing (only used to tell two concrete documents apart by a decidable comparison) -/

def showOpt : Option String → String
  | some a => a ++ ": "
  | none => ""

def showList (xs : List String) : String := String.intercalate " " xs

mutual
  def showJ : J → String
    | .null => "null"
    | .bool b => toString b
    | .num m e => toString m ++ "e-" ++ toString e
    | .str s => "\"" ++ s ++ "\""
    | .arr xs => "[" ++ showJs xs ++ "]"
    | .obj kvs => "{" ++ showKvs kvs ++ "}"
  def showJs : List J → String
    | [] => ""
    | x :: xs => showJ x ++ "," ++ showJs xs
  def showKvs : List (String × J) → String
    | [] => ""
    | (k, v) :: rest => k ++ ":" ++ showJ v ++ "," ++ showKvs rest
end

mutual
  def showSel : Sel → String
    | .field al nm args hs sels =>
      showOpt al ++ nm ++ "(" ++ showList (args.map fun a => a.1 ++ ": $" ++ a.2) ++ ")"
        ++ (if hs then " { " ++ showSels sels ++ "}" else "")
    | .frag ty sels => "... on " ++ ty ++ " { " ++ showSels sels ++ "}"
  def showSels : List Sel → String
    | [] => ""
    | s :: ss => showSel s ++ " " ++ showSels ss
end

mutual
  def showRSel : RSel → String
    | .field al nm args hs sels =>
      showOpt al ++ nm ++ "(" ++ showList (args.map fun a => a.1 ++ ": " ++ a.2.1 ++ " = " ++ showJ a.2.2) ++ ")"
        ++ (if hs then " { " ++ showRSels sels ++ "}" else "")
    | .frag ty sels => "... on " ++ ty ++ " { " ++ showRSels sels ++ "}"
  def showRSels : List RSel → String
    | [] => ""
    | s :: ss => showRSel s ++ " " ++ showRSels ss
end

def showDoc (d : Doc) : String :=
  d.opType ++ " " ++ d.name ++ "(" ++ showList (d.varDefs.map fun v => "$" ++ v.1 ++ ": " ++ v.2) ++ ") { "
    ++ showSels d.sels ++ "} " ++ showKvs d.values

end Ariadne.BuilderDoc
