/-
  Reference semantics of the pieces of CPython's `str` that the operation-string embedding of
  ariadne-codegen goes through (C02):

    * `str.splitlines()`                      (client.py `_generate_operation_str_assign`)
    * `repr(str)` as used by `ast.unparse` for an `ast.Constant` holding a `str`
    * `textwrap.indent(text, prefix)`         (utils.py `convert_to_multiline_string`)
    * evaluation of a non-raw triple-quoted string literal `"""…"""` by the Python tokenizer/compiler

  MODELLED, VALIDATED, NOT VERIFIED: this file is third-party semantics written down by hand; the
  correspondence run of C02 compares it with the real interpreter on every run
  (harness/c02.py: `pystr` observations).

  `env : Char → Bool` is `str.isprintable` for the non-ASCII characters of the text at hand (an
  environment parameter supplied by the harness; ASCII is decided here, and every non-ASCII white
  space / line separator is non-printable in every CPython, which is built in).  All theorems about
  this file hold for every `env`.

  Texts are `List Char` (one element per code point, like a Python `str`).  Core Lean only.
-/
namespace Ariadne.PyStr

/-- the separators of `str.splitlines` (besides the pair `\r\n`) -/
def isLineSep (c : Char) : Bool :=
  c == '\n' || c == '\r' || c == '\x0b' || c == '\x0c' || c == '\x1c' || c == '\x1d' || c == '\x1e'
    || c == '\u0085' || c == '\u2028' || c == '\u2029'

/-- `str.isspace` of one character = what `str.strip()` removes -/
def isWs (c : Char) : Bool :=
  c == ' ' || c == '\t' || c == '\n' || c == '\x0b' || c == '\x0c' || c == '\r'
    || c == '\x1c' || c == '\x1d' || c == '\x1e' || c == '\x1f'
    || c == '\u0085' || c == '\u00a0' || c == '\u1680'
    || (0x2000 ≤ c.toNat && c.toNat ≤ 0x200a)
    || c == '\u2028' || c == '\u2029' || c == '\u202f' || c == '\u205f' || c == '\u3000'

/-- `str.splitlines()` (keepends = False): a final line break does not open an empty last line;
    `\r\n` is one break. -/
def splitlines : List Char → List (List Char)
  | [] => []
  | '\r' :: '\n' :: cs => [] :: splitlines cs
  | c :: cs =>
    if isLineSep c then [] :: splitlines cs
    else
      match splitlines cs with
      | [] => [[c]]
      | l :: ls => (c :: l) :: ls

/-! ### `repr` of a `str` -/

/-- lower-case hexadecimal digit -/
def hexDigit (n : Nat) : Char := if n < 10 then Char.ofNat (48 + n) else Char.ofNat (87 + n)

def hex2 (n : Nat) : List Char := [hexDigit (n / 16 % 16), hexDigit (n % 16)]
def hex4 (n : Nat) : List Char := [hexDigit (n / 4096 % 16), hexDigit (n / 256 % 16), hexDigit (n / 16 % 16), hexDigit (n % 16)]
def hex8 (n : Nat) : List Char :=
  [hexDigit (n / 268435456 % 16), hexDigit (n / 16777216 % 16), hexDigit (n / 1048576 % 16), hexDigit (n / 65536 % 16),
   hexDigit (n / 4096 % 16), hexDigit (n / 256 % 16), hexDigit (n / 16 % 16), hexDigit (n % 16)]

/-- `Py_UNICODE_ISPRINTABLE`: ASCII is decided here; beyond ASCII the environment answers, except
    that white space and line separators are never printable. -/
def isPrintable (env : Char → Bool) (c : Char) : Bool :=
  if c.toNat < 128 then 0x20 ≤ c.toNat && c.toNat < 0x7f
  else !isWs c && env c

/-- one character of `unicode_repr` with quote character `quote` -/
def reprChar (env : Char → Bool) (quote : Char) (c : Char) : List Char :=
  if c == quote || c == '\\' then ['\\', c]
  else if c == '\t' then ['\\', 't']
  else if c == '\n' then ['\\', 'n']
  else if c == '\r' then ['\\', 'r']
  else if isPrintable env c then [c]
  else if c.toNat < 0x100 then '\\' :: 'x' :: hex2 c.toNat
  else if c.toNat < 0x10000 then '\\' :: 'u' :: hex4 c.toNat
  else '\\' :: 'U' :: hex8 c.toNat

/-- the quote `repr` picks: `"` only when the text contains `'` and no `"` -/
def reprQuote (s : List Char) : Char := if s.contains '\'' && !s.contains '"' then '"' else '\''

/-- `repr(s)` = what `ast.unparse` writes for `ast.Constant(s)` -/
def reprStr (env : Char → Bool) (s : List Char) : List Char :=
  let q := reprQuote s
  q :: (s.flatMap (reprChar env q) ++ [q])

/-! ### `textwrap.indent` -/

/-- `text.splitlines(True)` restricted to `\n` breaks (the texts this is applied to contain no other
    raw separator: every other one has been escaped by `repr`). -/
def splitKeep : List Char → List (List Char)
  | [] => []
  | c :: cs =>
    if c == '\n' then [c] :: splitKeep cs
    else
      match splitKeep cs with
      | [] => [[c]]
      | l :: ls => (c :: l) :: ls

/-- `textwrap.indent(text, prefix)`: the prefix goes in front of every line that does not consist
    solely of white space (`line.strip()` is non-empty). -/
def pyIndent (pfx : List Char) (t : List Char) : List Char :=
  (splitKeep t).flatMap fun l => if l.all isWs then l else pfx ++ l

/-! ### evaluation of a triple-quoted literal -/

def hexVal (c : Char) : Option Nat :=
  if '0' ≤ c ∧ c ≤ '9' then some (c.toNat - 48)
  else if 'a' ≤ c ∧ c ≤ 'f' then some (c.toNat - 87)
  else if 'A' ≤ c ∧ c ≤ 'F' then some (c.toNat - 55)
  else none

def hexVals : List Char → Option Nat
  | [] => some 0
  | cs => cs.foldlM (fun acc c => (hexVal c).map (acc * 16 + ·)) 0

def isOctal (c : Char) : Bool := '0' ≤ c && c ≤ '7'

/-- Body of a non-raw `"""` literal after the opening quotes: returns the value and what follows
    the closing quotes.  `none`: unterminated, a malformed `\x/\u/\U` escape (SyntaxError), or an
    escape outside this model (octal, `\N{…}`). -/
def evalBody : List Char → Option (List Char × List Char)
  | [] => none
  | '"' :: '"' :: '"' :: rest => some ([], rest)
  | '\\' :: [] => none
  -- backslash-newline is a line continuation; the source line ends were normalised to `\n` before
  | '\\' :: '\r' :: '\n' :: rest => evalBody rest
  | '\\' :: '\r' :: rest => evalBody rest
  | '\\' :: e :: rest =>
    if e == '\n' then evalBody rest                                    -- line continuation
    else if e == '\\' || e == '\'' || e == '"' then (evalBody rest).map fun (v, r) => (e :: v, r)
    else if e == 'n' then (evalBody rest).map fun (v, r) => ('\n' :: v, r)
    else if e == 't' then (evalBody rest).map fun (v, r) => ('\t' :: v, r)
    else if e == 'r' then (evalBody rest).map fun (v, r) => ('\r' :: v, r)
    else if e == 'a' then (evalBody rest).map fun (v, r) => ('\x07' :: v, r)
    else if e == 'b' then (evalBody rest).map fun (v, r) => ('\x08' :: v, r)
    else if e == 'f' then (evalBody rest).map fun (v, r) => ('\x0c' :: v, r)
    else if e == 'v' then (evalBody rest).map fun (v, r) => ('\x0b' :: v, r)
    else if e == 'x' then
      match rest with
      | a :: b :: r2 =>
        match hexVals [a, b] with
        | some n => (evalBody r2).map fun (v, r) => (Char.ofNat n :: v, r)
        | none => none
      | _ => none
    else if e == 'u' then
      match rest with
      | a :: b :: c2 :: d :: r2 =>
        match hexVals [a, b, c2, d] with
        | some n => (evalBody r2).map fun (v, r) => (Char.ofNat n :: v, r)
        | none => none
      | _ => none
    else if e == 'U' then
      match rest with
      | a :: b :: c2 :: d :: e2 :: f :: g :: h :: r2 =>
        match hexVals [a, b, c2, d, e2, f, g, h] with
        | some n => (evalBody r2).map fun (v, r) => (Char.ofNat n :: v, r)
        | none => none
      | _ => none
    else if isOctal e || e == 'N' then none                             -- outside this model
    else (evalBody rest).map fun (v, r) => ('\\' :: e :: v, r)          -- unknown escape: kept
  -- the tokenizer reads source lines with universal newlines: a raw CR or CRLF is a `\n`
  | '\r' :: '\n' :: rest => (evalBody rest).map fun (v, r) => ('\n' :: v, r)
  | '\r' :: rest => (evalBody rest).map fun (v, r) => ('\n' :: v, r)
  | c :: rest => (evalBody rest).map fun (v, r) => (c :: v, r)

/-- Value of a complete literal `"""…"""` (nothing may follow the closing quotes). -/
def evalTripleQuoted : List Char → Option (List Char)
  | '"' :: '"' :: '"' :: body =>
    match evalBody body with
    | some (v, []) => some v
    | _ => none
  | _ => none

end Ariadne.PyStr
