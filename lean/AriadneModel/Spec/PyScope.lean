/-
  Spec/PyScope.lean — `WellScoped : PackageIR → Prop`: what CPython's import of a generated package needs,
  as far as names are concerned (DESIGN.md §3 C04).  *Modelled, validated, not verified*: Python's grammar,
  the import system and pydantic's class construction are represented by nothing else; the agreement
  "the model's package is well scoped ⇔ the real package imports" is observed by harness/c04.py on every
  generated package (forked interpreter), never proved.

  A package is well scoped when, for every module the generator writes itself:
    importsResolve    every `from .m import n` that survives autoflake names a module of the package that defines `n`
    classesLoad       every base class and every name an annotation / default evaluates when a class statement
                      (or a method `def`) executes is a builtin, imported, or defined EARLIER in the module
    forwardRefsOK     every quoted forward reference is a name of the module namespace once the module body
                      has run (that is when the `model_rebuild()` calls execute) …
    rebuildsComplete  … and every class carrying one IS rebuilt (otherwise pydantic leaves it incomplete)
    paramsDistinct    the parameter names of every method are pairwise distinct (else `SyntaxError`)
    enumMembersOK     enum member names are legal for `enum.Enum` (`mro`, `_sunder_` names are not) and distinct
    identsOK          every identifier introduced is a Python identifier and no keyword (Model/Names.lean, C18)
    bindingsUnique    no name is bound twice at module level (import/import or import/definition)
  and `__all__` of `__init__` is the sorted list of the names it imports.

  Core Lean only.
-/
import AriadneModel.Model.Package
import AriadneModel.Model.PackageTriggers
import AriadneModel.Model.PackageValid

namespace Ariadne.Spec.PyScope
open Ariadne Ariadne.Package Ariadne.PackageTriggers

/-- builtins the generator's own output refers to (annotation names of `SIMPLE_TYPE_MAP` /
    `INPUT_SCALARS_MAP`, enum bases, `globals()` in default factories) plus the common container types a
    user may configure as a scalar's `type` -/
def builtins : List String := ["str", "int", "float", "bool", "bytes", "dict", "list", "object", "tuple", "set", "globals"]

def findModule (p : PackageIR) (modName : String) : Option ModuleIR := p.modules.find? fun m => m.file == pyFile modName

/-- the names `from .m import …` can take from a module (`none`: a user file, contents unknown) -/
def exported (m : ModuleIR) : Option (List String) :=
  if m.kind == .copied || m.kind == .custom then m.provides else some m.defines

def importsResolve (p : PackageIR) (m : ModuleIR) : Bool :=
  m.effectiveImports.all fun i =>
    if i.level == 0 then true
    else if i.level == 1 then
      match findModule p i.module with
      | none => false
      | some m' =>
        match exported m' with
        | none => true
        | some ns => i.names.all ns.contains
    else false

/-- names bound before the first class statement -/
def preBound (m : ModuleIR) : List String := importedNames m.effectiveImports ++ m.funcs

def classesLoadFrom : List String → List ClassIR → Bool
  | _, [] => true
  | bound, c :: rest =>
    (c.bases ++ c.uses).all (fun u => builtins.contains u || bound.contains u) && classesLoadFrom (c.name :: bound) rest

def classesLoad (m : ModuleIR) : Bool :=
  classesLoadFrom (preBound m) m.classes
  && m.methods.all fun f => f.uses.all fun u => builtins.contains u || (preBound m).contains u

def forwardRefsOK (m : ModuleIR) : Bool := m.classes.all fun c => c.fwd.all m.defines.contains

def rebuildsComplete (m : ModuleIR) : Bool :=
  (m.classes.all fun c => c.fwd.isEmpty || m.rebuilds.contains c.name)
  && m.rebuilds.all (m.classes.map (·.name)).contains

def paramsDistinct (m : ModuleIR) : Bool := m.methods.all fun f => !hasDup f.params

def enumMembersOK (m : ModuleIR) : Bool :=
  m.kind != .enums || m.classes.all fun c => !hasDup c.fields && c.fields.all fun f => !(f == "mro" || isSunder f)

def identsOK (m : ModuleIR) : Bool := (moduleIdents m).all identOK

def bindingsUnique (m : ModuleIR) : Bool :=
  !hasDup ((importBindings m).map (·.2.2) ++ m.funcs ++ m.classes.map (·.name))

def allOK (m : ModuleIR) : Bool :=
  m.kind != .init || m.all == initAll m.imports

/-- the named parts, per module -/
def parts (p : PackageIR) (m : ModuleIR) : List (String × Bool) :=
  [("importsResolve", importsResolve p m), ("classesLoad", classesLoad m), ("forwardRefsOK", forwardRefsOK m),
   ("rebuildsComplete", rebuildsComplete m), ("paramsDistinct", paramsDistinct m), ("enumMembersOK", enumMembersOK m),
   ("identsOK", identsOK m), ("bindingsUnique", bindingsUnique m), ("allOK", allOK m)]

def moduleOK (p : PackageIR) (m : ModuleIR) : Bool := !generated m || (parts p m).all (·.2)

def wellScopedB (p : PackageIR) : Bool := p.modules.all (moduleOK p)

def WellScoped (p : PackageIR) : Prop := wellScopedB p = true

instance (p : PackageIR) : Decidable (WellScoped p) := by unfold WellScoped; infer_instance

/-- the parts of `moduleOK` that are not finding triggers and not `allOK`: the surviving relative imports resolve,
    every name a class statement / method signature evaluates is bound earlier, forward references name something of the
    module, every `model_rebuild()` call names a class of the module.  Proved module kind by module kind in
    Properties/C04.lean (`enums_module_wellscoped` … `init_module_wellscoped`). -/
def residualParts (p : PackageIR) (m : ModuleIR) : Bool :=
  importsResolve p m && classesLoad m && forwardRefsOK m && m.rebuilds.all (m.classes.map (·.name)).contains

/-- the quoted forward references of the modules `ResultTypesGenerator` produces (operation modules, `fragments.py`) name
    classes of the module: false exactly inside the finding region `forwardRefDangling` (F25); proved to hold inside
    `PackageValid.leafNamesOK` (`forward_refs_resolve`).  The driver reports it for the evidence. -/
def openPart (m : ModuleIR) : Bool :=
  !(m.kind == .result || m.kind == .fragments) || forwardRefsOK m

/-- `Proved_04` as a Bool (evaluated by the driver on every case): when the model's own run on this input ends in an
    exception, it is a documented refusal.  This is the ONE open obligation: totality of the result-type and fragments
    generator models under validity (the two named hypotheses of `generate_total_partial`).  For a run that ends in a
    package nothing is left open. -/
def provedB (cfg : Config) (inp : Input) : Bool :=
  match (modelRun cfg inp).outcome with
  | .ok _ => true
  | .error e => documentedRefusal e

/-- `file:part` for every violated part (what the driver reports) -/
def violations (p : PackageIR) : List String :=
  p.modules.flatMap fun m =>
    if generated m then ((parts p m).filter (!·.2)).map fun q => m.file ++ ":" ++ q.1 else []

end Ariadne.Spec.PyScope
