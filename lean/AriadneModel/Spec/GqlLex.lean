/-
  A small reference lexer for GraphQL executable documents WITHOUT block strings (C02, stretch tier
  `indent_invariant`): punctuators, names, numbers (as lexemes), quoted strings (raw content, escapes
  not decoded), comments, ignored characters (space, tab, comma, BOM).

  MODELLED, VALIDATED, NOT VERIFIED: third-party semantics (graphql-core's `Lexer`) written down by hand
  and compared with the real lexer on every run (harness/c02.py, `lex` observations) — on the printed
  operations of the seeded documents, before and after re-indentation.

  The lexer is LINE-LOCAL by construction: outside block strings no GraphQL token spans a line break
  (a quoted string may not contain a raw line terminator, a comment ends at the line end), so the
  token list of a text is the concatenation of the token lists of its lines.  Texts are `List Char`.
  Core Lean only.
-/
import AriadneModel.Spec.PyStr

namespace Ariadne.GqlLex
open Ariadne.PyStr

inductive Tok where
  | punct (s : List Char)
  | name (s : List Char)
  | num (lexeme : List Char)
  | str (raw : List Char)
  | err
  deriving Repr, DecidableEq

def isDigit (c : Char) : Bool := '0' ≤ c && c ≤ '9'
def isNameStart (c : Char) : Bool := c == '_' || ('a' ≤ c && c ≤ 'z') || ('A' ≤ c && c ≤ 'Z')
def isNameCont (c : Char) : Bool := isNameStart c || isDigit c
def isIgnored (c : Char) : Bool := c == ' ' || c == '\t' || c == ',' || c == '\uFEFF'
def isPunct (c : Char) : Bool :=
  c == '!' || c == '$' || c == '&' || c == '(' || c == ')' || c == ':' || c == '=' || c == '@' || c == '['
    || c == ']' || c == '{' || c == '|' || c == '}'

/-- the rest of a quoted string up to its closing quote: (raw content, what follows) -/
def strBody : List Char → Option (List Char × List Char)
  | [] => none
  | '"' :: rest => some ([], rest)
  | '\\' :: c :: rest => (strBody rest).map fun (r, x) => ('\\' :: c :: r, x)
  | c :: rest => (strBody rest).map fun (r, x) => (c :: r, x)

/-- at least one digit, then the rest -/
def digits1 (l : List Char) : Option (List Char × List Char) :=
  let ds := l.takeWhile isDigit
  if ds.isEmpty then none else some (ds, l.dropWhile isDigit)

/-- IntValue / FloatValue: `-? (0 | [1-9][0-9]*) (. [0-9]+)? ([eE] [+-]? [0-9]+)?`, not followed by `.` or a name start;
    returns (lexeme, what follows) -/
def numTok (l : List Char) : Option (List Char × List Char) :=
  let (sign, l1) := match l with
    | '-' :: r => (['-'], r)
    | _ => ([], l)
  let intPart : Option (List Char × List Char) :=
    match l1 with
    | '0' :: r => (match r with
      | d :: _ => if isDigit d then none else some (['0'], r)
      | [] => some (['0'], r))
    | _ => digits1 l1
  match intPart with
  | none => none
  | some (ip, l2) =>
    let frac : Option (List Char × List Char) :=
      match l2 with
      | '.' :: r => (digits1 r).map fun (ds, r') => ('.' :: ds, r')
      | _ => some ([], l2)
    match frac with
    | none => none
    | some (fp, l3) =>
      let exp : Option (List Char × List Char) :=
        match l3 with
        | e :: r =>
          if e == 'e' || e == 'E' then
            match r with
            | sg :: r' =>
              if sg == '+' || sg == '-' then (digits1 r').map fun (ds, r'') => (e :: sg :: ds, r'')
              else (digits1 r).map fun (ds, r'') => (e :: ds, r'')
            | [] => none
          else some ([], l3)
        | [] => some ([], l3)
      match exp with
      | none => none
      | some (ep, l4) =>
        match l4 with
        | c :: _ => if c == '.' || isNameStart c then none else some (sign ++ ip ++ fp ++ ep, l4)
        | [] => some (sign ++ ip ++ fp ++ ep, l4)

/-- tokens of one line; `fuel` ≥ the length of the line -/
def lexF : Nat → List Char → List Tok
  | 0, _ => []
  | _, [] => []
  | f + 1, c :: rest =>
    if isIgnored c then lexF f rest
    else if c == '#' then []
    else if c == '.' then
      match rest with
      | '.' :: '.' :: r => .punct ['.', '.', '.'] :: lexF f r
      | _ => [.err]
    else if isPunct c then .punct [c] :: lexF f rest
    else if c == '"' then
      match strBody rest with
      | some (raw, r) => .str raw :: lexF f r
      | none => [.err]
    else if isNameStart c then .name (c :: rest.takeWhile isNameCont) :: lexF f (rest.dropWhile isNameCont)
    else if isDigit c || c == '-' then
      match numTok (c :: rest) with
      | some (lexeme, r) => .num lexeme :: lexF f r
      | none => [.err]
    else [.err]

def lexLine (l : List Char) : List Tok := lexF l.length l

/-- tokens of a text without block strings -/
def lexText (q : List Char) : List Tok := (splitlines q).flatMap lexLine

end Ariadne.GqlLex
