/-
  A small reference lexer for GraphQL executable documents WITHOUT block strings (C02, stretch tier
  `indent_invariant`): punctuators, names, numbers (as lexemes), quoted strings (raw content, escapes
  not decoded), comments, ignored characters (space, tab, comma, BOM).

  MODELLED, VALIDATED, NOT VERIFIED: third-party semantics (graphql-core's `Lexer`) written down by hand
  and compared with the real lexer on every run (harness/c02.py, `lex` observations) — on the printed
  operations of the seeded documents, before and after re-indentation.

  The lexer is LINE-LOCAL by construction: outside block strings no GraphQL token spans a line break
  (a quoted string may not contain a raw line terminator, a comment ends at the line end), so the
  token list of a text is the concatenation of the token lists of its lines.  Texts are `List Char`.
  Core Lean only.
-/
import AriadneModel.Spec.PyStr

namespace Ariadne.GqlLex
open Ariadne.PyStr

inductive Tok where
  | punct (s : List Char)
  | name (s : List Char)
  | num (lexeme : List Char)
  | str (raw : List Char)
  | err
  deriving Repr, DecidableEq

def isDigit (c : Char) : Bool := '0' ≤ c && c ≤ '9'
def isNameStart (c : Char) : Bool := c == '_' || ('a' ≤ c && c ≤ 'z') || ('A' ≤ c && c ≤ 'Z')
def isNameCont (c : Char) : Bool := isNameStart c || isDigit c
def isNumChar (c : Char) : Bool := isDigit c || c == '.' || c == 'e' || c == 'E' || c == '+' || c == '-'
def isIgnored (c : Char) : Bool := c == ' ' || c == '\t' || c == ',' || c == '\uFEFF'
def isPunct (c : Char) : Bool :=
  c == '!' || c == '$' || c == '&' || c == '(' || c == ')' || c == ':' || c == '=' || c == '@' || c == '['
    || c == ']' || c == '{' || c == '|' || c == '}'

/-- the rest of a quoted string up to its closing quote: (raw content, what follows) -/
def strBody : List Char → Option (List Char × List Char)
  | [] => none
  | '"' :: rest => some ([], rest)
  | '\\' :: c :: rest => (strBody rest).map fun (r, x) => ('\\' :: c :: r, x)
  | c :: rest => (strBody rest).map fun (r, x) => (c :: r, x)

/-- tokens of one line; `fuel` ≥ the length of the line -/
def lexF : Nat → List Char → List Tok
  | 0, _ => []
  | _, [] => []
  | f + 1, c :: rest =>
    if isIgnored c then lexF f rest
    else if c == '#' then []
    else if c == '.' then
      match rest with
      | '.' :: '.' :: r => .punct ['.', '.', '.'] :: lexF f r
      | _ => [.err]
    else if isPunct c then .punct [c] :: lexF f rest
    else if c == '"' then
      match strBody rest with
      | some (raw, r) => .str raw :: lexF f r
      | none => [.err]
    else if isNameStart c then .name (c :: rest.takeWhile isNameCont) :: lexF f (rest.dropWhile isNameCont)
    else if isDigit c || c == '-' then .num (c :: rest.takeWhile isNumChar) :: lexF f (rest.dropWhile isNumChar)
    else [.err]

def lexLine (l : List Char) : List Tok := lexF l.length l

/-- tokens of a text without block strings -/
def lexText (q : List Char) : List Tok := (splitlines q).flatMap lexLine

end Ariadne.GqlLex
