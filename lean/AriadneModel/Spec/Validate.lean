/-
  A small document validator (the structural core of the GraphQL validation rules the result-type
  theorems need): fields exist on their parent type, leaves have no sub-selection and composites
  have one, spread fragments exist, type conditions name composite types that can apply.
  graphql-core's full rule set stays the judge of validity in the harness (every generated case
  passes it); this predicate is the *decidable hypothesis* of the Lean statements and is validated
  against graphql-core by the correspondence (every accepted case must satisfy it).
  Core Lean only.
-/
import AriadneModel.Model.Gql
import AriadneModel.Generated.Tables

namespace Ariadne.Validate
open Ariadne Ariadne.Gql

def isComposite (S : Schema) (n : String) : Bool :=
  match S.kindOf? n with
  | some .object => true
  | some .interface => true
  | some .union => true
  | _ => false

/-- can a fragment on `cond` ever apply at a position of type `parent`? (PossibleFragmentSpreads) -/
def overlaps (S : Schema) (cond parent : String) : Bool :=
  let ps (n : String) : List String := match S.kindOf? n with
    | some .object => [n]
    | _ => S.possibleTypes n
  (ps cond).any (ps parent).contains

def validSel (S : Schema) (frags : List Fragment) : Nat → String → List Selection → Bool
  | 0, _, _ => false
  | fuel + 1, parent, sels =>
    !sels.isEmpty && sels.all fun s =>
      match s with
      | .field _ name _ _ sub =>
        if name == Tables.typenameFieldName then sub.isEmpty
        else match S.fieldOf? parent name with
          | none => false
          | some fd =>
            if isComposite S fd.type.base then validSel S frags fuel fd.type.base sub
            else sub.isEmpty
      | .inline on _ _ sub =>
        (match on with
          | none => validSel S frags fuel parent sub
          | some c => isComposite S c && overlaps S c parent && validSel S frags fuel c sub)
      | .spread n _ =>
        match findFragment? frags n with
        | none => false
        | some f => isComposite S f.on && overlaps S f.on parent

def rootOf (S : Schema) (o : Operation) : Option String :=
  match o.kind with
  | .query => S.query
  | .mutation => S.mutation
  | .subscription => S.subscription

def validOp (S : Schema) (frags : List Fragment) (fuel : Nat) (o : Operation) : Bool :=
  o.name.isSome && (match rootOf S o with
    | some r => validSel S frags fuel r o.sel
    | none => false)

def validDoc (S : Schema) (frags : List Fragment) (ops : List Operation) (fuel : Nat) : Bool :=
  ops.all (validOp S frags fuel) && frags.all (fun f => isComposite S f.on && validSel S frags fuel f.on f.sel)

end Ariadne.Validate
