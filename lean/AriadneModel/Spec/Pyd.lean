/-
  Reference semantics of pydantic (2.x, lax python mode, `populate_by_name=True`, extra keys
  ignored) for exactly the annotation language the result-type generator emits
  (`Ariadne.ResultTypes.Ann`, `ClassDecl`).  MODELLED, VALIDATED against the real library by the
  correspondence check (harness/c05.py: real generated classes vs `validate`/`dump` here on
  conformant and corrupted payloads), NOT VERIFIED.

  Third-party string parsers of pydantic-core (str -> int/float/bool in lax mode) are parameters
  (`Lax`); theorems hold for every instance, the drivers receive the instance as a table computed
  by the real library.

  Core Lean only.
-/
import AriadneModel.Model.ResultTypes

namespace Ariadne.Pyd
open Ariadne Ariadne.ResultTypes

/-- pydantic-core's lax string parsers (external; see header) -/
structure Lax where
  strInt : String → Option Int
  strFloat : String → Option (Int × Nat)
  strBool : String → Option Bool

/-- no string is accepted for a number/bool (what strict string handling would be) -/
def Lax.none : Lax := ⟨fun _ => .none, fun _ => .none, fun _ => .none⟩

/-- a validated Python value -/
inductive PV where
  | none
  | bool (b : Bool)
  | int (i : Int)
  | float (m : Int) (e : Nat)
  | str (s : String)
  | enum (cls member : String)
  | any (j : J)
  | list (xs : List PV)
  | model (cls : String) (fields : List (String × Option String × PV))   -- (python name, alias, value) of the SET fields
  deriving Inhabited

inductive VErr where
  | missing (field : String)
  | wrongType (expected : String)
  | tagNotFound
  | tagInvalid (tag : String)
  | noUnionMember
  | literal
  | unknownClass (n : String)
  | fuel
  deriving Repr

/-- what validation needs to know besides the annotation -/
structure Env where
  classes : List ClassDecl               -- every generated class reachable (operation module + fragments module)
  enums : List (String × List String)    -- enum class ↦ member names (generated enums: value = name)
  lax : Lax := Lax.none

def Env.class? (env : Env) (n : String) : Option ClassDecl := env.classes.find? (·.name == n)
def Env.enum? (env : Env) (n : String) : Option (List String) := (env.enums.find? (·.1 == n)).map (·.2)

/-- is `m * 10^(-e)` an integer? (pydantic accepts floats with zero fractional part for `int`) -/
def integral? (m : Int) (e : Nat) : Option Int :=
  if m % (10 ^ e : Nat) == 0 then some (m / (10 ^ e : Nat)) else .none

/-- scalar cells of the lax table -/
def validateInt (lax : Lax) : J → Except VErr PV
  | .num m e => match integral? m e with | some i => .ok (.int i) | .none => .error (.wrongType "int")
  | .bool b => .ok (.int (if b then 1 else 0))
  | .str s => match lax.strInt s with | some i => .ok (.int i) | .none => .error (.wrongType "int")
  | _ => .error (.wrongType "int")

def validateFloat (lax : Lax) : J → Except VErr PV
  | .num m e => .ok (.float m e)
  | .bool b => .ok (.float (if b then 1 else 0) 0)
  | .str s => match lax.strFloat s with | some (m, e) => .ok (.float m e) | .none => .error (.wrongType "float")
  | _ => .error (.wrongType "float")

def validateBool (lax : Lax) : J → Except VErr PV
  | .bool b => .ok (.bool b)
  | .num m e =>
    match integral? m e with
    | some i => if i = 0 then .ok (.bool false) else if i = 1 then .ok (.bool true) else .error (.wrongType "bool")
    | .none => .error (.wrongType "bool")
  | .str s => match lax.strBool s with | some b => .ok (.bool b) | .none => .error (.wrongType "bool")
  | _ => .error (.wrongType "bool")

def validateStr : J → Except VErr PV
  | .str s => .ok (.str s)
  | _ => .error (.wrongType "str")

/-- a plain name: builtin, `Any`, or a generated enum class (str-valued, value = member name) -/
def validateName (env : Env) (n : String) (j : J) : Except VErr PV :=
  if n == "str" then validateStr j
  else if n == "int" then validateInt env.lax j
  else if n == "float" then validateFloat env.lax j
  else if n == "bool" then validateBool env.lax j
  else if n == "Any" then .ok (.any j)
  else match env.enum? n with
    | some members =>
      match j with
      | .str s => if members.contains s then .ok (.enum n s) else .error (.wrongType n)
      | _ => .error (.wrongType n)
    | .none => .ok (.any j)     -- configured custom scalar types are outside this spec (C07): passed through

/-- does the declaration assign a value (`= None` or `= Field(...)`)? -/
def hasValue (f : FieldDecl) : Bool := f.alias.isSome || f.discriminator || f.defaultNone

/-- Python class-body semantics for a name annotated twice: the name keeps its first position in
    `__annotations__`, the LAST annotation wins, and the class attribute (default / `Field(...)`) is the
    last one that was assigned (a later bare annotation does not delete it). -/
def addDecl (acc : List FieldDecl) (g : FieldDecl) : List FieldDecl :=
  if acc.any (·.py == g.py) then
    acc.map fun f =>
      if f.py == g.py then
        (if hasValue g then { g with py := f.py } else { f with ann := g.ann })
      else f
  else acc ++ [g]

def mergeDup (fs : List FieldDecl) : List FieldDecl := fs.foldl addDecl []

/-- all fields of a class incl. inherited ones: bases first (left to right as Python's MRO would
    resolve single inheritance chains of generated classes), own declarations override by python name. -/
def allFields (env : Env) : Nat → String → List FieldDecl
  | 0, _ => []
  | fuel + 1, cn =>
    match env.class? cn with
    | .none => []
    | some c =>
      let inherited := c.bases.foldl (fun acc b =>
        let bf := allFields env fuel b
        acc.filter (fun f => !(bf.any (·.py == f.py))) ++ bf) []
      let own := mergeDup c.fields
      inherited.filter (fun f => !(own.any (·.py == f.py))) ++ own

/-- `typename__` literal values of a class (own or inherited) -/
def typenameLiteral (env : Env) (fuel : Nat) (cn : String) : Option (List String) :=
  match (allFields env fuel cn).find? (·.py == ResultTypes.typenameAlias) with
  | some f => match f.ann with
    | .literal vs => some vs
    | _ => .none
  | .none => .none

def annClassName? : Ann → Option String
  | .cls n => some n
  | _ => .none

/-- `Except`-map with first-error semantics (kept explicit so that proofs unfold it easily) -/
def mapE {α β ε} (f : α → Except ε β) : List α → Except ε (List β)
  | [] => .ok []
  | x :: xs =>
    match f x with
    | .error e => .error e
    | .ok y =>
      match mapE f xs with
      | .error e => .error e
      | .ok ys => .ok (y :: ys)

/-- first member that validates -/
def firstOk {α β ε} (f : α → Except ε β) (none : ε) : List α → Except ε β
  | [] => .error none
  | x :: xs =>
    match f x with
    | .ok y => .ok y
    | .error _ => firstOk f none xs

/-! The helpers below take the recursive validator `rec` as a parameter; `validate` ties the knot
    by structural recursion on the fuel (= nesting depth of annotation/class references). -/

/-- discriminated union: the tag is read from the input object under the discriminator's alias -/
def taggedWith (env : Env) (clsFuel : Nat) (rec : Ann → J → Except VErr PV) (as : List Ann) (j : J) : Except VErr PV :=
  match j with
  | .obj kvs =>
    match J.lookup ResultTypes.typenameField kvs with
    | some (.str tag) =>
      match as.find? (fun a => match annClassName? a with
          | some cn => ((typenameLiteral env clsFuel cn).getD []).contains tag
          | .none => false) with
      | some a => rec a j
      | .none => .error (.tagInvalid tag)
    | _ => .error .tagNotFound
  | _ => .error (.wrongType "model")

/-- one field of a model: by alias first, then (populate_by_name) by python name -/
def fieldWith (env : Env) (clsFuel : Nat) (rec : Ann → J → Except VErr PV) (kvs : List (String × J)) (f : FieldDecl) :
    Except VErr (Option (String × Option String × PV)) :=
  let found := match f.alias with
    | some a => match J.lookup a kvs with
      | some v => some v
      | .none => J.lookup f.py kvs
    | .none => J.lookup f.py kvs
  match found with
  | some v =>
    let r := if f.discriminator then
        (match f.ann with
         | .union as => taggedWith env clsFuel rec as v
         | a => rec a v)
      else rec f.ann v
    match r with
    | .ok pv => .ok (some (f.py, f.alias, pv))
    | .error e => .error e
  | .none => if f.defaultNone then .ok .none else .error (.missing (f.alias.getD f.py))

def modelWith (env : Env) (clsFuel : Nat) (rec : Ann → J → Except VErr PV) (cn : String) (j : J) : Except VErr PV :=
  match env.class? cn with
  | .none => .error (.unknownClass cn)
  | some _ =>
    match j with
    | .obj kvs =>
      match mapE (fieldWith env clsFuel rec kvs) (allFields env clsFuel cn) with
      | .ok fs => .ok (.model cn (fs.filterMap id))
      | .error e => .error e
    | _ => .error (.wrongType "model")

/-- number of classes + 1: enough fuel for every inheritance chain -/
def Env.clsFuel (env : Env) : Nat := env.classes.length + 1

def validate (env : Env) : Nat → Ann → J → Except VErr PV
  | 0, _, _ => .error .fuel
  | fuel + 1, a, j =>
    match a with
    | .name n => validateName env n j
    | .cls n => modelWith env env.clsFuel (validate env fuel) n j
    | .optional a => match j with
      | .null => .ok .none
      | _ => validate env fuel a j
    | .list a => match j with
      | .arr xs =>
        match mapE (validate env fuel a) xs with
        | .ok vs => .ok (.list vs)
        | .error e => .error e
      | _ => .error (.wrongType "list")
    | .literal vs => match j with
      | .str s => if vs.contains s then .ok (.str s) else .error .literal
      | _ => .error .literal
    | .before _ _ => .ok (.any j)          -- user parse function: outside this spec (C07)
    | .disc (.union as) => taggedWith env env.clsFuel (validate env fuel) as j
    | .disc a => validate env fuel a j
    -- smart-mode union: the first member that validates (exact for the generated classes, whose
    -- required `typename__` literals are pairwise disjoint)
    | .union as => firstOk (fun a => validate env fuel a j) .noUnionMember as

mutual
  /-- `model_dump(mode="json", by_alias=True, exclude_unset=True)` -/
  def dump : PV → J
    | .none => .null
    | .bool b => .bool b
    | .int i => .num i 0
    | .float m e => .num m e
    | .str s => .str s
    | .enum _ m => .str m
    | .any j => j
    | .list xs => .arr (dumpList xs)
    | .model _ fs => .obj (dumpFields fs)
  def dumpList : List PV → List J
    | [] => []
    | x :: xs => dump x :: dumpList xs
  def dumpFields : List (String × Option String × PV) → List (String × J)
    | [] => []
    | (py, alias, v) :: rest => (alias.getD py, dump v) :: dumpFields rest
end

end Ariadne.Pyd
