/-
  Reference semantics of THIRD-PARTY code: the first checks of graphql-core 3.2
  `build_client_schema(introspection, assume_valid=True)` — MODELLED, VALIDATED against the real
  function by harness/c19.py on every run, NOT VERIFIED.

      if not isinstance(introspection, dict) or not isinstance(introspection.get("__schema"), dict):
          raise TypeError("Invalid or incomplete introspection result. ...")
      schema_introspection = introspection["__schema"]
      type_map = {t["name"]: build_type(t) for t in schema_introspection["types"]}      # KeyError 'types'

  Only the top of the function is modelled; once `__schema.types` is a list the answer is
  `.proceeds` (what happens below is graphql-core's business and is not compared).
-/
import AriadneModel.Model.Json

namespace Ariadne.Spec.BuildClientSchema
open Ariadne

inductive Top where
  | typeError            -- `__schema` missing or not an object; `types` not iterable
  | keyError             -- `__schema` has no `types`
  | proceeds
  deriving Repr, DecidableEq

def top (d : List (String × J)) : Top :=
  match J.lookup "__schema" d with
  | some (.obj s) =>
    match J.lookup "types" s with
    | none => .keyError
    | some (.arr _) => .proceeds
    | some (.obj []) => .proceeds          -- iterating an empty dict
    | some (.str "") => .proceeds          -- iterating an empty string
    | some _ => .typeError                 -- None / numbers are not iterable; items of str/dict are not subscriptable by "name"
  | _ => .typeError

/-- `top` as a builder in the sense of `Introspect.schemaFromUrl` (the schema itself stays abstract). -/
def build (d : List (String × J)) : Except String Unit :=
  match top d with
  | .typeError => .error "TypeError"
  | .keyError => .error "KeyError"
  | .proceeds => .ok ()

end Ariadne.Spec.BuildClientSchema
