/-
  Reference semantics of pydantic 2.x for the two places where *user functions* are called on
  behalf of a custom scalar (property C07), with CALL LOGS:

    * validating a response value against `Annotated[T, BeforeValidator(parse)]` under any nesting
      of `Optional[...]`, `List[...]` and model classes (`validateLog`):
        - `Optional[X]` short-circuits `None` *before* the inner validator: no call on null;
        - `List[X]` validates every item, in order, and goes on after an item failed;
        - a model validates every declared field, in declaration order, looked up by alias;
        - a `BeforeValidator` that is not under an `Optional` is called with whatever arrives,
          `None` included;
    * dumping an input-model instance with `model_dump(by_alias=True, exclude_unset=True)` where a
      field is annotated `Annotated[T, PlainSerializer(serialize)]` (`dumpAnn`, `dumpFields`):
        - unset fields are skipped (at every depth);
        - `Optional[X]` short-circuits `None`;
        - `List[X]` serialises every item, in order;
        - a nested model instance is dumped by its own fields;
        - the serializer's return value replaces the leaf; anything it raises aborts the dump.

  MODELLED, VALIDATED against the real pydantic by the correspondence check (harness/c07.py:
  instrumented parse/serialize functions, `TypeAdapter` and generated classes), NOT VERIFIED.
  What a *successful* validation returns for a leaf (lax coercion table, the user's parse result)
  is not modelled here: `accept` is a parameter, only the calls and the order are specified.
  Shapes pydantic would only reach through values that its own validation rejects
  (a list where a leaf is declared, …) are explicit `unmodelled` errors of `dumpAnn`.

  Core Lean only.
-/
import AriadneModel.Model.ArgValues

namespace Ariadne.PydLog
open Ariadne Ariadne.Scalars Ariadne.ArgValues
open Ariadne.BaseClient (PV)

/-! ### validation side -/

structure VOut where
  calls : List ParseCall
  ok : Bool

/-- validation of a leaf: the only leaf that calls user code is `before` -/
def validateLeaf (accept : Leaf → J → Bool) (l : Leaf) (j : J) : VOut :=
  match l with
  | .before _ p => ⟨[⟨p, j⟩], accept l j⟩
  | _ => ⟨[], accept l j⟩

mutual
  def validateLog (accept : Leaf → J → Bool) : RAnn → J → VOut
    | .leaf l opt, j =>
      if j.isNull && opt then ⟨[], true⟩ else validateLeaf accept l j
    | .list item opt, j =>
      match j with
      | .null => ⟨[], opt⟩
      | .arr xs => validateItems accept item xs
      | _ => ⟨[], false⟩
    | .obj fields opt, j =>
      match j with
      | .null => ⟨[], opt⟩
      | .obj kvs => validateFields accept fields kvs
      | _ => ⟨[], false⟩
  def validateItems (accept : Leaf → J → Bool) (item : RAnn) : List J → VOut
    | [] => ⟨[], true⟩
    | x :: xs =>
      let a := validateLog accept item x
      let b := validateItems accept item xs
      ⟨a.calls ++ b.calls, a.ok && b.ok⟩
  def validateFields (accept : Leaf → J → Bool) : List (String × RAnn) → List (String × J) → VOut
    | [], _ => ⟨[], true⟩
    | (k, a) :: rest, kvs =>
      let b := validateFields accept rest kvs
      match J.lookup k kvs with
      | some v =>
        let r := validateLog accept a v
        ⟨r.calls ++ b.calls, r.ok && b.ok⟩
      | none => ⟨b.calls, false⟩          -- missing key (fields with a default are not modelled)
end

/-! ### dump side -/

/-- a leaf serializer: `PlainSerializer(f)` calls `f(value)`, every other leaf keeps the value -/
def serLeaf (fns : UserFns) (l : Leaf) (v : PV) : Except String (PV × List Call) :=
  match l with
  | .ser _ f =>
    match fns.apply f v with
    | .ok r => .ok (r, [⟨f, v⟩])
    | .error e => .error e
  | _ => .ok (v, [])

def unmodelled {α} : Except String α := .error "unmodelled"

mutual
  /-- `model_dump(by_alias=True, exclude_unset=True)` (python mode) of one field value under its
      annotation: the dumped value and the user-function calls made, in order -/
  def dumpAnn (fns : UserFns) : NAnn → AV → Except String (PV × List Call)
    | a, .none =>
      if a.opt then .ok (.none, [])
      else match a with
        | .leaf l _ => serLeaf fns l .none
        | .list _ _ => .ok (.none, [])
    | _, .unset => unmodelled
    | .list item _, .list xs =>
      match dumpItems fns item xs with
      | .ok (ys, calls) => .ok (.list ys, calls)
      | .error e => .error e
    | .leaf _ _, .list _ => unmodelled
    | .leaf l _, .model _ fields =>
      match l with
      | .ser _ _ => unmodelled
      | .before _ _ => unmodelled
      | _ =>
        match dumpFields fns fields with
        | .ok (kvs, calls) => .ok (.dict kvs, calls)
        | .error e => .error e
    | .list _ _, .model _ _ => unmodelled
    | .leaf l _, .bool b => serLeaf fns l (.bool b)
    | .leaf l _, .int i => serLeaf fns l (.num i 0)
    | .leaf l _, .float m e => serLeaf fns l (.num m e)
    | .leaf l _, .str s => serLeaf fns l (.str s)
    | .leaf l _, .enum m => serLeaf fns l (.str m)
    | .leaf l _, .custom _ j => serLeaf fns l (.leaf (some j))
    | .list _ _, _ => unmodelled
  def dumpItems (fns : UserFns) (item : NAnn) : List AV → Except String (List PV × List Call)
    | [] => .ok ([], [])
    | x :: xs =>
      match dumpAnn fns item x, dumpItems fns item xs with
      | .ok (y, c1), .ok (ys, c2) => .ok (y :: ys, c1 ++ c2)
      | .error e, _ => .error e
      | _, .error e => .error e
  def dumpFields (fns : UserFns) : List (FieldKey × AV) → Except String (List (String × PV) × List Call)
    | [] => .ok ([], [])
    | (fk, v) :: rest =>
      if v.isUnset then dumpFields fns rest
      else
        match dumpAnn fns fk.ann v, dumpFields fns rest with
        | .ok (y, c1), .ok (ys, c2) => .ok ((fk.key, y) :: ys, c1 ++ c2)
        | .error e, _ => .error e
        | _, .error e => .error e
end

end Ariadne.PydLog
