/-
  Reference semantics of a spec-conformant GraphQL executor, as far as the result-model properties
  (C01, C05) need it: which JSON values can be returned at a position of a given type
  (CompleteValue over the list / non-null wrappers, leaf serialisation), and which objects can be
  returned for a selection set of plain fields evaluated on an object type.
  MODELLED, VALIDATED against graphql-core's `execute` by the correspondence check
  (harness/c01.py feeds every executor response through `conformsSel`), NOT VERIFIED.

  Core Lean only.
-/
import AriadneModel.Model.Gql
import AriadneModel.Model.Util
import AriadneModel.Generated.Tables

namespace Ariadne.Exec
open Ariadne Ariadne.Gql

/-- leaf serialisation: what `serialize` of the built-in scalars / enums can produce -/
def leafOk (S : Schema) (n : String) (j : J) : Bool :=
  match S.get? n with
  | some t =>
    match t.kind with
    | .enum => match j with
      | .str s => t.values.contains s
      | _ => false
    | .scalar =>
      if n == "Int" then (match j with | .num _ 0 => true | _ => false)
      else if n == "Float" then (match j with | .num _ _ => true | _ => false)
      else if n == "String" || n == "ID" then (match j with | .str _ => true | _ => false)
      else if n == "Boolean" then (match j with | .bool _ => true | _ => false)
      else !j.isNull          -- custom scalar: any non-null JSON
    | _ => false
  | none =>
    -- built-in scalars need not be listed among the schema's types
    if n == "Int" then (match j with | .num _ 0 => true | _ => false)
    else if n == "Float" then (match j with | .num _ _ => true | _ => false)
    else if n == "String" || n == "ID" then (match j with | .str _ => true | _ => false)
    else if n == "Boolean" then (match j with | .bool _ => true | _ => false)
    else false

/-- CompleteValue for a leaf-based type: `nullable` is false directly under a non-null wrapper -/
def conforms (S : Schema) : Bool → TypeRef → J → Bool
  | _, .nonNull t, j => conforms S false t j
  | nullable, .list t, j =>
    match j with
    | .null => nullable
    | .arr xs => xs.all (conforms S true t)
    | _ => false
  | nullable, .named n, j =>
    match j with
    | .null => nullable
    | _ => leafOk S n j

end Ariadne.Exec
