/-
  Reference semantics of a spec-conformant GraphQL executor, as far as the result-model properties
  (C01, C05) need it: which JSON values can be returned at a position of a given type
  (CompleteValue over the list / non-null wrappers, leaf serialisation), and which objects can be
  returned for a selection set of plain fields evaluated on an object type.
  MODELLED, VALIDATED against graphql-core's `execute` by the correspondence check
  (harness/c01.py feeds every executor response through `conformsSel`), NOT VERIFIED.

  Core Lean only.
-/
import AriadneModel.Model.Gql
import AriadneModel.Model.Util
import AriadneModel.Generated.Tables

namespace Ariadne.Exec
open Ariadne Ariadne.Gql

/-- leaf serialisation: what `serialize` of the built-in scalars / enums can produce -/
def leafOk (S : Schema) (n : String) (j : J) : Bool :=
  match S.get? n with
  | some t =>
    match t.kind with
    | .enum => match j with
      | .str s => t.values.contains s
      | _ => false
    | .scalar =>
      if n == "Int" then (match j with | .num _ 0 => true | _ => false)
      else if n == "Float" then (match j with | .num _ _ => true | _ => false)
      else if n == "String" || n == "ID" then (match j with | .str _ => true | _ => false)
      else if n == "Boolean" then (match j with | .bool _ => true | _ => false)
      else !j.isNull          -- custom scalar: any non-null JSON
    | _ => false
  | none =>
    -- built-in scalars need not be listed among the schema's types
    if n == "Int" then (match j with | .num _ 0 => true | _ => false)
    else if n == "Float" then (match j with | .num _ _ => true | _ => false)
    else if n == "String" || n == "ID" then (match j with | .str _ => true | _ => false)
    else if n == "Boolean" then (match j with | .bool _ => true | _ => false)
    else false

/-- CompleteValue for a leaf-based type: `nullable` is false directly under a non-null wrapper -/
def conforms (S : Schema) : Bool → TypeRef → J → Bool
  | _, .nonNull t, j => conforms S false t j
  | nullable, .list t, j =>
    match j with
    | .null => nullable
    | .arr xs => xs.all (conforms S true t)
    | _ => false
  | nullable, .named n, j =>
    match j with
    | .null => nullable
    | _ => leafOk S n j


/-! ### Responses for selection sets (CollectFields + CompleteValue) -/

/-- one entry of CollectFields: response key, field name, the merged sub-selections, and whether
    every occurrence is conditional (`@skip`/`@include` on the field or on an enclosing fragment) -/
structure Collected where
  key : String
  name : String
  subs : List Selection
  conditional : Bool
  deriving Repr

def isConditional (dirs : List Directive) : Bool :=
  dirs.any fun d => d.name == Tables.includeDirectiveName || d.name == Tables.skipDirectiveName

/-- does a fragment with type condition `cond` apply to an object of runtime type `rt`? -/
def applies (S : Schema) (cond : Option String) (rt : String) : Bool :=
  match cond with
  | none => true
  | some c => c == rt || (S.possibleTypes c).contains rt

def addCollected (acc : List Collected) (c : Collected) : List Collected :=
  if acc.any (·.key == c.key) then
    acc.map fun x => if x.key == c.key then { x with subs := x.subs ++ c.subs, conditional := x.conditional && c.conditional } else x
  else acc ++ [c]

/-- CollectFields for an object of runtime type `rt`; `cond` = we are inside a conditional fragment -/
def collect (S : Schema) (frags : List Fragment) : Nat → String → Bool → List Selection → List Collected → List Collected
  | 0, _, _, _, acc => acc
  | fuel + 1, rt, cond, sels, acc =>
    sels.foldl (fun acc s =>
      match s with
      | .field alias name dirs _ sub =>
        addCollected acc { key := alias.getD name, name := name, subs := sub, conditional := cond || isConditional dirs }
      | .inline on dirs _ sub =>
        if applies S on rt then collect S frags fuel rt (cond || isConditional dirs) sub acc else acc
      | .spread n dirs =>
        match findFragment? frags n with
        | some f => if applies S (some f.on) rt then collect S frags fuel rt (cond || isConditional dirs) f.sel acc else acc
        | none => acc) acc

/-- the object types a value of (named) type `n` can have at run time -/
def runtimeTypes (S : Schema) (n : String) : List String :=
  match S.kindOf? n with
  | some .object => [n]
  | some .interface => S.possibleTypes n
  | some .union => S.possibleTypes n
  | _ => []

/-- CompleteValue over the list / non-null wrappers; `leafOrObj n v` judges a non-null value of the named type -/
def complete (leafOrObj : String → J → Bool) : TypeRef → Bool → J → Bool
  | .nonNull t, _, v => complete leafOrObj t false v
  | .list t, nullable, v =>
    match v with
    | .null => nullable
    | .arr xs => xs.all (complete leafOrObj t true)
    | _ => false
  | .named n, nullable, v =>
    match v with
    | .null => nullable
    | _ => leafOrObj n v

/-- Is `j` an object a conformant executor can return for the selection set `sels` evaluated on an
    object of runtime type `rt`?  (key order is not checked: JSON objects are unordered) -/
def respOK (S : Schema) (frags : List Fragment) : Nat → String → List Selection → J → Bool
  | 0, _, _, _ => false
  | fuel + 1, rt, sels, j =>
    match j with
    | .obj kvs =>
      let groups := collect S frags (fuel + 1) rt false sels []
      -- nothing but the collected keys
      kvs.all (fun (k, _) => groups.any (·.key == k))
      -- every collected key: present with a conformant value, or absent if conditional
      && groups.all (fun g =>
        match J.lookup g.key kvs with
        | none => g.conditional
        | some v =>
          if g.name == Tables.typenameFieldName then (match v with | .str s => s == rt | _ => false)
          else match S.fieldOf? rt g.name with
            | none => false
            | some fd =>
              complete (fun n v =>
                if g.subs.isEmpty then leafOk S n v
                else (runtimeTypes S n).any fun rt' => respOK S frags fuel rt' g.subs v) fd.type true v)
    | _ => false

end Ariadne.Exec
