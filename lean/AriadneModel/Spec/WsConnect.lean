/-
  Reference semantics of the one third-party call of the subscription path:
  `websockets.connect(uri, *, origin=…, subprotocols=…, additional_headers=…, …, **kwargs)`.
  Keyword arguments that are not parameters of `connect` itself are forwarded to
  `loop.create_connection(...)`, which rejects unknown names with `TypeError` when the connection
  is opened (`__aenter__`), before any byte is sent.

  `Tables.wsConnectAccepted` is extracted by harness/tables.py from the signatures of the
  *installed* websockets / asyncio on every run.  Modelled, validated, not verified: the loopback
  part of harness/c13.py calls the real `websockets.connect` against a real in-process server and
  checks that acceptance/rejection is what `accepts` says.

  Core Lean only.
-/
import AriadneModel.Generated.Tables
import AriadneModel.Model.WsClient

namespace Ariadne.WsConnect
open Ariadne Ariadne.WsClient

/-- the keyword names of a `ws_connect(url, subprotocols=…, origin=…, extra_headers=…, **kwargs)` call -/
def kwNames (a : ConnectArgs) : List String :=
  ["subprotocols", "origin", "extra_headers"] ++ a.kwargs.map (·.1)

/-- does the installed library accept these keyword names? -/
def acceptsNames (accepted : List String) (names : List String) : Bool :=
  names.all accepted.contains

def accepts (a : ConnectArgs) : Bool := acceptsNames Tables.wsConnectAccepted (kwNames a)

end Ariadne.WsConnect
