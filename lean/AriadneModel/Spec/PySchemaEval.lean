/-
  C16 — reference semantics: how CPython + graphql-core 3.2 evaluate a module of the shape the
  graphqlschema strategy emits (`SchemaGen.PyModuleIR`).

  MODELLED, VALIDATED, NOT VERIFIED: this file is a specification of third-party behaviour
  (CPython name resolution and evaluation order; graphql-core's constructors
  `GraphQLScalarType/ObjectType/InterfaceType/UnionType/EnumType/InputObjectType/EnumValue/Field/
  Argument/InputField/List/NonNull/Directive/Schema`, `typing.cast`, `typing.List`).  harness/c16.py
  validates it on every run: the really emitted files (and perturbed variants of them) are
  `exec`-ed, the resulting schema object — or the exception class — is compared with
  `evalSchemaModule` on the IR extracted from the same text.

  What is modelled:
  * every identifier is resolved through the module's name space: the `from … import …` bindings,
    then the type-map variable (bound by statement 1, visible to the lambdas, which run inside the
    `GraphQLSchema(...)` call of statement 2, and to statement 2 itself); an unbound name is a
    `NameError`, a name bound to the wrong kind of object a `TypeError`/`AttributeError`;
  * statement 1 builds the named type objects: eager keyword arguments are evaluated and checked
    (`assert_name`, reserved names, `description`/`specified_by_url`/`deprecation_reason` must be
    `None` or `str`), the `lambda:` thunks are stored unevaluated;
  * statement 2 evaluates the root types, `<tm>.values()`, the directives (eagerly, including
    their arguments) and the description, then `GraphQLSchema.__init__` forces every thunk of every
    type against the finished type map (errors inside a thunk are re-raised by graphql-core as
    `TypeError`, or `GraphQLError` when they are one) and rejects duplicate type names;
  * graphql-core's structural checks: field types are output types, argument / input-field types
    are input types, `interfaces` are interface types, union `types` are object types, no
    `NonNull(NonNull(_))`, `assert_name` / `assert_enum_value_name` on every dict key.
  Not modelled (answered `.unmodelled`, never silently): duplicate keys in a dict display, objects
  other than constants as default/enum values, an input-object keyword set applied to an object
  constructor.  The result lists the types in type-map-dict order; that graphql-core's type
  collection keeps the user's types in that order is Spec/GqlCollect.lean + `C16.type_map_order`
  (and the harness oracle checks it on the real objects).  Constants are taken at face value here:
  that the text `repr` writes for a constant denotes it again is Model/PyRepr.lean +
  Spec/PyLiteral.lean + `C16.literal_roundtrip` (formerly the assumed law `eval (repr c) = c`).
  When several errors coexist only the class of the first one in (approximate) evaluation order
  is meaningful.

  Core Lean only.
-/
import AriadneModel.Model.SchemaGen

namespace Ariadne.PySchemaEval
open Ariadne.Schema Ariadne.SchemaGen

inductive PyErr where
  | nameError (n : Name)
  | keyError (k : String)
  | typeError (msg : String)
  | graphQLError (msg : String)
  | attributeError (msg : String)
  | importError (module name : String)
  | unmodelled (what : String)
  deriving Repr

def PyErr.className : PyErr → String
  | .nameError _ => "NameError"
  | .keyError _ => "KeyError"
  | .typeError _ => "TypeError"
  | .graphQLError _ => "GraphQLError"
  | .attributeError _ => "AttributeError"
  | .importError .. => "ImportError"
  | .unmodelled _ => "unmodelled"

/-- The objects the emitted module can import. -/
inductive Builtin where
  | scalarT | objectT | interfaceT | unionT | enumT | inputT
  | enumValue | field | argument | inputField | list | nonNull | directive | schema
  | directiveLocation | namedType | undefined
  | std (gqlName : String)          -- GraphQLInt, … : the specified scalar *objects*
  | cast | typingList | typeMapAlias
  deriving Repr, DecidableEq

/-- `from graphql import <n>` -/
def graphqlExport (n : Name) : Option Builtin :=
  if n = "GraphQLScalarType" then some .scalarT
  else if n = "GraphQLObjectType" then some .objectT
  else if n = "GraphQLInterfaceType" then some .interfaceT
  else if n = "GraphQLUnionType" then some .unionT
  else if n = "GraphQLEnumType" then some .enumT
  else if n = "GraphQLInputObjectType" then some .inputT
  else if n = "GraphQLEnumValue" then some .enumValue
  else if n = "GraphQLField" then some .field
  else if n = "GraphQLArgument" then some .argument
  else if n = "GraphQLInputField" then some .inputField
  else if n = "GraphQLList" then some .list
  else if n = "GraphQLNonNull" then some .nonNull
  else if n = "GraphQLDirective" then some .directive
  else if n = "GraphQLSchema" then some .schema
  else if n = "DirectiveLocation" then some .directiveLocation
  else if n = "GraphQLNamedType" then some .namedType
  else if n = "Undefined" then some .undefined
  else (alookup n Tables.gqlStdScalarExports).map .std

def exportOf (module n : String) : Option Builtin :=
  if module = "graphql" then graphqlExport n
  else if module = "typing" then
    (if n = "cast" then some .cast else if n = "List" then some .typingList else none)
  else if module = "graphql.type.schema" then (if n = "TypeMap" then some .typeMapAlias else none)
  else none

inductive Binding where
  | builtin (b : Builtin)
  | typeMap
  | unbound
  deriving Repr, DecidableEq

abbrev Env := Name → Binding

def bindNames (module : String) : List Name → Except PyErr (List (Name × Builtin))
  | [] => .ok []
  | n :: rest =>
    match exportOf module n with
    | none => .error (.importError module n)
    | some b =>
      match bindNames module rest with
      | .error e => .error e
      | .ok bs => .ok ((n, b) :: bs)

def bindImports : List ImportE → Except PyErr (List (Name × Builtin))
  | [] => .ok []
  | i :: rest =>
    match bindNames i.module i.names with
    | .error e => .error e
    | .ok bs =>
      match bindImports rest with
      | .error e => .error e
      | .ok cs => .ok (bs ++ cs)

/-- later bindings shadow earlier ones -/
def lastBinding (n : Name) : List (Name × Builtin) → Option Builtin
  | [] => none
  | (k, b) :: rest =>
    match lastBinding n rest with
    | some b' => some b'
    | none => if k = n then some b else none

def envOfImports (bs : List (Name × Builtin)) : Env := fun n =>
  match lastBinding n bs with
  | some b => .builtin b
  | none => .unbound

/-! ### small helpers -/

@[simp] theorem bind_ok {ε α β : Type} (a : α) (f : α → Except ε β) : (Except.ok a >>= f) = f a := rfl
@[simp] theorem bind_error {ε α β : Type} (e : ε) (f : α → Except ε β) :
    ((Except.error e : Except ε α) >>= f) = Except.error e := rfl

def require (b : Bool) (e : PyErr) : Except PyErr Unit := if b then .ok () else .error e

@[simp] theorem require_true (e : PyErr) : require true e = .ok () := rfl

def nodupB : List String → Bool
  | [] => true
  | x :: xs => !(xs.contains x) && nodupB xs

def isNameStart (c : Char) : Bool := c.isAlpha || c = '_'
def isNameCont (c : Char) : Bool := c.isAlphanum || c = '_'

/-- graphql-core `assert_name` accepts exactly these -/
def validName (s : String) : Bool :=
  match s.toList with
  | [] => false
  | c :: cs => isNameStart c && cs.all isNameCont

/-- `assert_enum_value_name` -/
def validEnumValueName (s : String) : Bool :=
  validName s && !(s = "true" || s = "false" || s = "null")

/-- keys of an evaluated dict display that graphql-core runs `assert_name` over -/
def checkKeys (keys : List String) : Except PyErr Unit := do
  require (nodupB keys) (.unmodelled "duplicate key in a dict display")
  require (keys.all validName) (.graphQLError "Names must only contain [_a-zA-Z0-9] but …")

def callee (ρ : Env) (fn : Name) : Except PyErr Binding :=
  match ρ fn with
  | .unbound => .error (.nameError fn)
  | b => .ok b

/-- a keyword argument that must be `None` or a `str` (`description`, `deprecation_reason`, `specified_by_url`) -/
def evalOptStr (ρ : Env) : CExpr → Except PyErr (Option String)
  | .const .none => .ok none
  | .const (.str s) => .ok (some s)
  | .const _ => .error (.typeError "must be a string")
  | .name n =>
    match ρ n with
    | .unbound => .error (.nameError n)
    | _ => .error (.typeError "must be a string")

/-- `name=` -/
def evalNameStr (ρ : Env) : CExpr → Except PyErr String
  | .const (.str s) => .ok s
  | .const _ => .error (.typeError "Expected name to be a string.")
  | .name n =>
    match ρ n with
    | .unbound => .error (.nameError n)
    | _ => .error (.typeError "Expected name to be a string.")

/-- `is_repeatable=` -/
def evalBool (ρ : Env) : CExpr → Except PyErr Bool
  | .const (.bool b) => .ok b
  | .const _ => .error (.typeError "is_repeatable flag must be True or False.")
  | .name n =>
    match ρ n with
    | .unbound => .error (.nameError n)
    | _ => .error (.typeError "is_repeatable flag must be True or False.")

/-- `default_value=` -/
def evalDefault (ρ : Env) : CExpr → Except PyErr Default
  | .const v => .ok (.value v)
  | .name n =>
    match ρ n with
    | .unbound => .error (.nameError n)
    | .builtin .undefined => .ok .undefined
    | _ => .error (.unmodelled "default value is not a constant")

/-- `value=` of an enum value -/
def evalAny (ρ : Env) : CExpr → Except PyErr PyVal
  | .const v => .ok v
  | .name n =>
    match ρ n with
    | .unbound => .error (.nameError n)
    | _ => .error (.unmodelled "enum value is not a constant")

/-! ### type references -/

/-- class and `.name` of an object stored in the type map -/
abbrev Head := Kind × Name

/-- `<tm>["key"]` -/
def evalLookup (ρ : Env) (heads : List (String × Head)) (tm : Name) (key : String) : Except PyErr Head :=
  match ρ tm with
  | .unbound => .error (.nameError tm)
  | .typeMap =>
    match alookup key heads with
    | some h => .ok h
    | none => .error (.keyError key)
  | .builtin _ => .error (.typeError "subscripted object is not the type map")

/-- `cast(cls, <tm>["key"])` -/
def evalCast (ρ : Env) (heads : List (String × Head)) (fn cls tm : Name) (key : String) : Except PyErr Head := do
  let f ← callee ρ fn
  let _ ← callee ρ cls          -- evaluated (NameError when unbound), ignored by typing.cast
  let h ← evalLookup ρ heads tm key
  require (f == .builtin .cast) (.typeError "callee is not typing.cast")
  pure h

def evalTRef (ρ : Env) (heads : List (String × Head)) : TExpr → Except PyErr TypeRef
  | .name n =>
    match ρ n with
    | .unbound => .error (.nameError n)
    | .builtin (.std g) => .ok (.named g .scalar)
    | _ => .error (.typeError "not a GraphQL type")
  | .cast fn cls tm key => do
    let h ← evalCast ρ heads fn cls tm key
    pure (.named h.2 h.1)
  | .call fn a => do
    let f ← callee ρ fn
    let t ← evalTRef ρ heads a
    match f with
    | .builtin .list => pure (.list t)
    | .builtin .nonNull =>
      match t with
      | .nonNull _ => .error (.typeError "Can only create NonNull of a Nullable GraphQLType")
      | _ => pure (.nonNull t)
    | _ => .error (.typeError "callee is not a wrapping type")

/-! ### arguments, fields -/

/-- `GraphQLArgument(T, default_value=…, description=…, deprecation_reason=…)`;
    `expected` = the class the enclosing constructor insists on -/
def evalArg (ρ : Env) (heads : List (String × Head)) (expected : Builtin) (name : String) (a : ArgE) :
    Except PyErr ArgDef := do
  let f ← callee ρ a.ctor
  let t ← evalTRef ρ heads a.type
  let d ← evalDefault ρ a.default
  let desc ← evalOptStr ρ a.description
  let dep ← evalOptStr ρ a.deprecation
  require (f == .builtin expected) (.typeError "not the expected argument / input field class")
  require t.baseKind.isInput (.typeError "Argument type must be a GraphQL input type.")
  pure { name := name, type := t, default := d, description := desc, deprecation := dep }

def evalArgItems (ρ : Env) (heads : List (String × Head)) (expected : Builtin) :
    List (String × ArgE) → Except PyErr (List ArgDef)
  | [] => .ok []
  | (k, a) :: rest => do
    let x ← evalArg ρ heads expected k a
    let xs ← evalArgItems ρ heads expected rest
    pure (x :: xs)

/-- a dict display of arguments / input fields handed to a graphql-core constructor -/
def evalArgs (ρ : Env) (heads : List (String × Head)) (expected : Builtin) (items : List (String × ArgE)) :
    Except PyErr (List ArgDef) := do
  let xs ← evalArgItems ρ heads expected items
  checkKeys (items.map (·.1))
  pure xs

def evalField (ρ : Env) (heads : List (String × Head)) (name : String) (f : FieldE) : Except PyErr FieldDef := do
  let c ← callee ρ f.ctor
  let t ← evalTRef ρ heads f.type
  let as ← evalArgs ρ heads .argument f.args
  let desc ← evalOptStr ρ f.description
  let dep ← evalOptStr ρ f.deprecation
  require (c == .builtin .field) (.typeError "fields must be GraphQLField or output type objects")
  require t.baseKind.isOutput (.typeError "Field type must be an output type.")
  pure { name := name, type := t, args := as, description := desc, deprecation := dep }

def evalFieldItems (ρ : Env) (heads : List (String × Head)) : List (String × FieldE) → Except PyErr (List FieldDef)
  | [] => .ok []
  | (k, f) :: rest => do
    let x ← evalField ρ heads k f
    let xs ← evalFieldItems ρ heads rest
    pure (x :: xs)

def evalFields (ρ : Env) (heads : List (String × Head)) : FieldsE → Except PyErr (List FieldDef)
  | .emptyConst => .ok []
  | .thunk items => do
    let xs ← evalFieldItems ρ heads items
    checkKeys (items.map (·.1))
    pure xs

def evalInFields (ρ : Env) (heads : List (String × Head)) : InFieldsE → Except PyErr (List ArgDef)
  | .emptyConst => .ok []
  | .thunk items => evalArgs ρ heads .inputField items

def evalLookups (ρ : Env) (heads : List (String × Head)) (tm : Name) : List String → Except PyErr (List Head)
  | [] => .ok []
  | k :: rest => do
    let h ← evalLookup ρ heads tm k
    let hs ← evalLookups ρ heads tm rest
    pure (h :: hs)

/-- `interfaces=` / `types=`: `[]` or `lambda: cast(List[elemCls], [tm["k"], …])`, every element an
    instance of the class the constructor insists on (`want`) -/
def evalNames (ρ : Env) (heads : List (String × Head)) (want : Kind) : NamesE → Except PyErr (List Name)
  | .emptyConst => .ok []
  | .thunk castFn listName elemCls tm keys => do
    let c ← callee ρ castFn
    let l ← callee ρ listName
    let _ ← callee ρ elemCls      -- `List[x]` accepts any object as parameter (CPython 3.12); only an unbound name fails
    let hs ← evalLookups ρ heads tm keys
    require (c == .builtin .cast) (.typeError "callee is not typing.cast")
    require (l == .builtin .typingList) (.typeError "subscripted object is not typing.List")
    require (hs.all fun h => h.1 == want) (.typeError "must be specified as a collection of … instances")
    pure (hs.map (·.2))

/-! ### statement 1: the named type objects -/

/-- a named type object right after its constructor call: eager attributes evaluated, thunks stored -/
inductive TypeObj where
  | scalar (name : Name) (description specifiedBy : Option String)
  | composite (iface : Bool) (name : Name) (description : Option String) (interfaces : NamesE) (fields : FieldsE)
  | union (name : Name) (description : Option String) (types : NamesE)
  | enum (name : Name) (description : Option String) (values : List EnumValDef)
  | input (name : Name) (description : Option String) (fields : InFieldsE)
  deriving Repr

def TypeObj.head : TypeObj → Head
  | .scalar n _ _ => (.scalar, n)
  | .composite true n _ _ _ => (.interface, n)
  | .composite false n _ _ _ => (.object, n)
  | .union n _ _ => (.union, n)
  | .enum n _ _ => (.enum, n)
  | .input n _ _ => (.input, n)

/-- `GraphQLNamedType.__new__` (reserved names) and `__init__` (`assert_name`) -/
def checkTypeName (n : Name) : Except PyErr Unit := do
  require (!(Tables.gqlReservedTypes.contains n)) (.typeError "Redefinition of reserved type")
  require (validName n) (.graphQLError "Names must only contain [_a-zA-Z0-9] but …")

def evalEnumValue (ρ : Env) (name : String) (v : EnumValE) : Except PyErr EnumValDef := do
  let c ← callee ρ v.ctor
  let x ← evalAny ρ v.value
  let desc ← evalOptStr ρ v.description
  let dep ← evalOptStr ρ v.deprecation
  require (c == .builtin .enumValue) (.unmodelled "enum value that is not a GraphQLEnumValue")
  pure { name := name, value := x, description := desc, deprecation := dep }

def evalEnumValues (ρ : Env) : List (String × EnumValE) → Except PyErr (List EnumValDef)
  | [] => .ok []
  | (k, v) :: rest => do
    let x ← evalEnumValue ρ k v
    let xs ← evalEnumValues ρ rest
    pure (x :: xs)

def construct (ρ : Env) : TypeE → Except PyErr TypeObj
  | .scalar c n d u => do
    let f ← callee ρ c
    let n' ← evalNameStr ρ n
    let d' ← evalOptStr ρ d
    let u' ← evalOptStr ρ u
    require (f == .builtin .scalarT) (.typeError "unexpected keyword arguments for this constructor")
    checkTypeName n'
    pure (.scalar n' d' u')
  | .composite c n d is fs => do
    let f ← callee ρ c
    let n' ← evalNameStr ρ n
    let d' ← evalOptStr ρ d
    require (f == .builtin .objectT || f == .builtin .interfaceT)
      (.typeError "unexpected keyword arguments for this constructor")
    checkTypeName n'
    pure (.composite (f == .builtin .interfaceT) n' d' is fs)
  | .union c n d ts => do
    let f ← callee ρ c
    let n' ← evalNameStr ρ n
    let d' ← evalOptStr ρ d
    require (f == .builtin .unionT) (.typeError "unexpected keyword arguments for this constructor")
    checkTypeName n'
    pure (.union n' d' ts)
  | .enum c n d vs => do
    let f ← callee ρ c
    let n' ← evalNameStr ρ n
    let d' ← evalOptStr ρ d
    let vs' ← evalEnumValues ρ vs
    require (f == .builtin .enumT) (.typeError "unexpected keyword arguments for this constructor")
    checkTypeName n'
    require (nodupB (vs.map (·.1))) (.unmodelled "duplicate key in a dict display")
    require ((vs.map (·.1)).all validEnumValueName) (.graphQLError "invalid enum value name")
    pure (.enum n' d' vs')
  | .input c n d fs => do
    let f ← callee ρ c
    let n' ← evalNameStr ρ n
    let d' ← evalOptStr ρ d
    require (!(f == .builtin .objectT || f == .builtin .interfaceT))
      (.unmodelled "input-object keyword set applied to an object/interface constructor")
    require (f == .builtin .inputT) (.typeError "unexpected keyword arguments for this constructor")
    checkTypeName n'
    pure (.input n' d' fs)

def constructAll (ρ : Env) : List (String × TypeE) → Except PyErr (List (String × TypeObj))
  | [] => .ok []
  | (k, e) :: rest => do
    let o ← construct ρ e
    let os ← constructAll ρ rest
    pure ((k, o) :: os)

/-- statement 1: `<tm>: TypeMap = {"A": GraphQL…Type(...), …}` -/
def evalTypeMap (ρ : Env) (items : List (String × TypeE)) : Except PyErr (List (String × TypeObj)) := do
  let os ← constructAll ρ items
  require (nodupB (items.map (·.1))) (.unmodelled "duplicate key in a dict display")
  pure os

def headsOf (tmv : List (String × TypeObj)) : List (String × Head) := tmv.map fun p => (p.1, p.2.head)

/-! ### statement 2: the schema -/

/-- graphql-core re-raises whatever a thunk raised as TypeError (GraphQLError stays GraphQLError);
    what the model cannot evaluate stays marked -/
def wrapThunk {α : Type} : Except PyErr α → Except PyErr α
  | .ok a => .ok a
  | .error (.graphQLError m) => .error (.graphQLError m)
  | .error (.unmodelled m) => .error (.unmodelled m)
  | .error _ => .error (.typeError "… cannot be resolved.")

/-- forcing the thunks of one type (what `GraphQLSchema.__init__`'s type collection does) -/
def force (ρ : Env) (heads : List (String × Head)) : TypeObj → Except PyErr TypeDef
  | .scalar n d u => .ok (.scalar n d u)
  | .composite iface n d is fs => do
    let is' ← wrapThunk (evalNames ρ heads .interface is)
    let fs' ← wrapThunk (evalFields ρ heads fs)
    pure (if iface then .interface n d is' fs' else .object n d is' fs')
  | .union n d ts => do
    let ts' ← wrapThunk (evalNames ρ heads .object ts)
    pure (.union n d ts')
  | .enum n d vs => .ok (.enum n d vs)
  | .input n d fs => do
    let fs' ← wrapThunk (evalInFields ρ heads fs)
    pure (.input n d fs' false)            -- `is_one_of` keeps the constructor's default

def forceAll (ρ : Env) (heads : List (String × Head)) : List (String × TypeObj) → Except PyErr (List TypeDef)
  | [] => .ok []
  | (_, o) :: rest => do
    let t ← force ρ heads o
    let ts ← forceAll ρ heads rest
    pure (t :: ts)

def evalLocations (ρ : Env) : List (Name × Name) → Except PyErr (List String)
  | [] => .ok []
  | (obj, member) :: rest => do
    let o ← callee ρ obj
    require (o == .builtin .directiveLocation) (.attributeError "object has no such attribute")
    require (Tables.gqlDirectiveLocations.contains member) (.attributeError member)
    let ls ← evalLocations ρ rest
    pure (member :: ls)

def evalDirective (ρ : Env) (heads : List (String × Head)) (d : DirectiveE) : Except PyErr DirectiveDef := do
  let c ← callee ρ d.ctor
  let n ← evalNameStr ρ d.name
  let desc ← evalOptStr ρ d.description
  let rep ← evalBool ρ d.repeatable
  let locs ← evalLocations ρ d.locations
  let as ← match d.args with
    | none => pure []
    | some items => evalArgs ρ heads .argument items
  require (c == .builtin .directive) (.typeError "unexpected keyword arguments for this constructor")
  require (validName n) (.graphQLError "Names must only contain [_a-zA-Z0-9] but …")
  pure { name := n, description := desc, repeatable := rep, locations := locs, args := as }

def evalDirectives (ρ : Env) (heads : List (String × Head)) : List DirectiveE → Except PyErr (List DirectiveDef)
  | [] => .ok []
  | d :: rest => do
    let x ← evalDirective ρ heads d
    let xs ← evalDirectives ρ heads rest
    pure (x :: xs)

def evalRoot (ρ : Env) (heads : List (String × Head)) : RootE → Except PyErr (Option (Name × Kind))
  | .none => .ok none
  | .cast fn cls tm key => do
    let h ← evalCast ρ heads fn cls tm key
    pure (some (h.2, h.1))

/-- statement 2: `GraphQLSchema(query=…, mutation=…, subscription=…, types=<tm>.values(), directives=[…], description=…)` -/
def evalSchema (ρ : Env) (tmv : List (String × TypeObj)) (s : SchemaE) : Except PyErr SchemaIR := do
  let heads := headsOf tmv
  let c ← callee ρ s.ctor
  let q ← evalRoot ρ heads s.query
  let m ← evalRoot ρ heads s.mutation
  let sub ← evalRoot ρ heads s.subscription
  let tmb ← callee ρ s.typesTm
  require (tmb == .typeMap) (.attributeError "object has no attribute 'values'")
  let ds ← evalDirectives ρ heads s.directives
  let desc ← evalOptStr ρ s.description
  require (c == .builtin .schema) (.typeError "unexpected keyword arguments for this constructor")
  -- GraphQLSchema.__init__: collect the types (forces every thunk), then build `type_map`
  let ts ← forceAll ρ heads tmv
  require (nodupB (ts.map TypeDef.name)) (.typeError "Schema must contain uniquely named types")
  pure { types := ts, query := q, mutation := m, subscription := sub, directives := ds, description := desc }

/-- Execute the module and read the variable `sv` out of its name space. -/
def evalSchemaModule (m : PyModuleIR) (sv : Name) : Except PyErr SchemaIR := do
  let bs ← bindImports m.imports
  let ρ₁ : Env := envOfImports bs
  let tmv ← evalTypeMap ρ₁ m.typeMap
  let ρ₂ : Env := fun n => if n = m.tmName then .typeMap else ρ₁ n
  let _ ← callee ρ₂ m.tmAnn                      -- annotation of statement 1, evaluated after the store
  let S ← evalSchema ρ₂ tmv m.schema
  let _ ← if m.svAnn = m.svName then pure Binding.unbound else callee ρ₂ m.svAnn
  if sv = m.svName then pure S
  else if (ρ₂ sv) = .unbound then .error (.keyError sv)
  else .error (.typeError "the requested variable is not the schema")

/-- What the name `n` is bound to once the module has run. -/
inductive Final where
  | schema | typeMap | imported | unbound
  deriving Repr, DecidableEq

def finalBinding (m : PyModuleIR) (n : Name) : Final :=
  if n = m.svName then .schema
  else if n = m.tmName then .typeMap
  else if (m.imports.flatMap (·.names)).contains n then .imported
  else .unbound

end Ariadne.PySchemaEval
