/-
  Reference semantics of pydantic 2.x validation WITH CALL LOGS (property C07) for the annotation
  syntax of generated result classes that contain UNIONS of model classes
  (Model/ResultUnion.lean `PAnn`).  Extends Spec/PydLog.lean `validateLog` (no unions) by:

    * `Literal["A", "B"]`: accepts exactly the strings listed, calls nothing;
    * `Annotated[Union[A, B, …], Field(discriminator="typename__")]` (or the same on the field):
      a TAGGED union - the tag is read from the input object under the alias of the discriminator field
      (`__typename`), looked up among the `Literal` values of the members' `typename__` fields, and
      ONLY the member it selects is validated; an input that is not an object, has no string tag or a
      tag no member lists is rejected without any member being validated (no call);
    * a plain `Union[A, B, …]` of model classes (pydantic's default "smart" mode): EVERY member is
      validated against the input object, in order (validating a dict into a model is never an
      "exact" match, so no member ends the search early), and each member's model validates every
      one of its declared fields even after one of them failed - a `BeforeValidator(parse)` on a
      field that several members declare is therefore called once PER MEMBER;
    * `Optional[X]`: `None` is accepted before `X` is looked at; otherwise `X` validates;
    * a `BeforeValidator` that is not under an `Optional` is called with whatever arrives.

  MODELLED, VALIDATED against the real pydantic by the correspondence check (harness/c07.py
  `run_pydantic_unions`: dynamically built model classes with instrumented parse functions, tagged
  and plain unions under every wrapper nesting, conformant and corrupted values), NOT VERIFIED.
  Union members that are not model classes, and members without a `Literal` discriminator field
  (pydantic refuses to build such a class), are outside this specification: the generators never
  emit them (Model/ResultUnion.lean `rawAnn`).  What a successful validation returns is not
  modelled (`accept` is a parameter): only the calls, their order and acceptance.

  Core Lean only.
-/
import AriadneModel.Spec.PydLog
import AriadneModel.Model.ResultUnion

namespace Ariadne.PydUnionLog
open Ariadne Ariadne.Scalars Ariadne.PydLog Ariadne.ResultUnion

/-- the `Literal` values of the field aliased `__typename` of a member class -/
def findTag : PFlds → Option (List String)
  | .nil => none
  | .cons k a rest =>
    if k = typenameKey then (match a with | .literal vs => some vs | _ => none) else findTag rest

/-- results of the items of a list: every item is validated, in order, also after one failed -/
def collect : List VOut → VOut
  | [] => ⟨[], true⟩
  | r :: rs => let b := collect rs; ⟨r.calls ++ b.calls, r.ok && b.ok⟩

mutual
  def validateU (accept : Leaf → J → Bool) : PAnn → J → VOut
    | .leaf l, j => validateLeaf accept l j
    | .literal vs, j => ⟨[], match j with | .str s => vs.contains s | _ => false⟩
    | .optional a, j => if j.isNull then ⟨[], true⟩ else validateU accept a j
    | .list a, j =>
      match j with
      | .arr xs => collect (xs.map (validateU accept a))
      | _ => ⟨[], false⟩
    | .model fs, j =>
      match j with
      | .obj kvs => validateUFlds accept fs kvs
      | _ => ⟨[], false⟩
    | .union ms, j =>
      match j with
      | .obj kvs => validateUSmart accept ms kvs
      | _ => ⟨[], false⟩
    | .dunion ms, j =>
      match j with
      | .obj kvs =>
        (match J.lookup typenameKey kvs with
         | some (.str tag) => validateUTagged accept tag ms kvs
         | _ => ⟨[], false⟩)
      | _ => ⟨[], false⟩
  /-- a model validates every declared field, in declaration order, looked up by alias -/
  def validateUFlds (accept : Leaf → J → Bool) : PFlds → List (String × J) → VOut
    | .nil, _ => ⟨[], true⟩
    | .cons k a rest, kvs =>
      let b := validateUFlds accept rest kvs
      match J.lookup k kvs with
      | some v =>
        let r := validateU accept a v
        ⟨r.calls ++ b.calls, r.ok && b.ok⟩
      | none => ⟨b.calls, false⟩          -- missing key (fields with a default are not modelled)
  /-- smart mode over model classes: every member is tried -/
  def validateUSmart (accept : Leaf → J → Bool) : PMems → List (String × J) → VOut
    | .nil, _ => ⟨[], false⟩
    | .cons fs rest, kvs =>
      let a := validateUFlds accept fs kvs
      let b := validateUSmart accept rest kvs
      ⟨a.calls ++ b.calls, a.ok || b.ok⟩
  /-- tagged union: only the (first) member whose `Literal` lists the tag -/
  def validateUTagged (accept : Leaf → J → Bool) (tag : String) : PMems → List (String × J) → VOut
    | .nil, _ => ⟨[], false⟩
    | .cons fs rest, kvs =>
      if tagMatches tag (findTag fs) then validateUFlds accept fs kvs else validateUTagged accept tag rest kvs
end

end Ariadne.PydUnionLog
