/-
  Reference semantics of what pydantic 2 and CPython do with a GENERATED INPUT CLASS
  (`Spec.Pyd.construct` of DESIGN.md §3 C06): building an instance from a dict by alias or by Python
  name (`populate_by_name=True`, extra keys ignored, lax python mode), `default` / `default_factory`
  (defaults are NOT validated: `validate_default` is off), evaluation of the emitted default
  expressions, `model_dump(by_alias=True, exclude_unset=True)`.
  MODELLED, VALIDATED against the real library on really generated classes (harness/c06.py), NOT
  VERIFIED.  The lax string parsers of pydantic-core and the acceptance of a configured custom
  scalar's Python type are parameters (`Lax`, `accCustom`); the theorems hold for every instance.
  (Spec/Pyd.lean is the twin for result classes; the scalar cells agree with its table.)

  `validate` is a structural recursion on the VALUE; an object is processed in two passes (first the
  provided keys, then the class's fields) so that no fuel is needed.  Defaults are data of the
  environment (`FieldSpec.default`): `mkEnv` evaluates the emitted expressions — a `default_factory`
  that calls `globals()[T].model_validate({...})` needs the classes of the previous round.

  Core Lean only.
-/
import AriadneModel.Model.Json
import AriadneModel.Model.InputField
import AriadneModel.Spec.CoerceInput

namespace Ariadne.PydInput
open Ariadne
open Ariadne.InputGen (PyExpr TypeDef)
open Ariadne.InputField (Ann)

/-- pydantic-core's lax string parsers (external) -/
structure Lax where
  strInt : String → Option Int
  strFloat : String → Option (Int × Nat)
  strBool : String → Option Bool

def Lax.none : Lax := ⟨fun _ => .none, fun _ => .none, fun _ => .none⟩

/-- a Python value -/
inductive PV where
  | none
  | bool (b : Bool)
  | num (m : Int) (e : Nat)
  | str (s : String)
  | enum (cls member value : String)
  | list (xs : List PV)
  | dict (kvs : List (String × PV))
  | model (cls : String) (fields : List (String × PV)) (set : List String)   -- (python name, value) of ALL fields; names of the SET ones
  | fieldInfo                                                               -- a `pydantic.fields.FieldInfo` (finding C06-F4)
  deriving Inhabited

inductive EvalErr where
  | syntaxError (name : String)        -- `E.class`, `.FOO`: the module does not compile
  | attributeError (name : String)     -- `In2.B`
  | nameError (name : String)
  | keyError (key : String)            -- `globals()[""]`
  | validation                         -- `model_validate` raised
  | notData
  | badFloat (lexeme : String)
  | fuel
  deriving Repr, DecidableEq

inductive VErr where
  | missing (field : String)
  | wrongType (expected : String)
  | unknownClass (n : String)
  | defaultRaised (e : EvalErr)
  | importError
  deriving Repr, DecidableEq

structure FieldSpec where
  py : String
  alias : Option String
  ann : Ann
  default : Option (Except EvalErr PV)     -- `none` = required; the evaluated default otherwise

def FieldSpec.key (f : FieldSpec) : String := f.alias.getD f.py

structure ClassSpec where
  name : String
  fields : List FieldSpec

structure Env where
  classes : List ClassSpec
  enums : List (String × List (String × String))    -- enum class ↦ (python member name, value)
  accCustom : String → J → Bool                      -- does the Python type `ty` accept this value?
  lax : Lax
  broken : Bool := false                             -- the module does not import (SyntaxError / NameError at class creation)

def Env.class? (env : Env) (n : String) : Option ClassSpec := env.classes.find? (·.name == n)
def Env.enum? (env : Env) (n : String) : Option (List (String × String)) := (env.enums.find? (·.1 == n)).map (·.2)

/-! ### values -/

mutual
  def ofJ : J → PV
    | .null => .none
    | .bool b => .bool b
    | .num m e => .num m e
    | .str s => .str s
    | .arr xs => .list (ofJList xs)
    | .obj kvs => .dict (ofJKvs kvs)
  def ofJList : List J → List PV
    | [] => []
    | x :: xs => ofJ x :: ofJList xs
  def ofJKvs : List (String × J) → List (String × PV)
    | [] => []
    | (k, v) :: rest => (k, ofJ v) :: ofJKvs rest
end

mutual
  /-- plain data back to JSON (`none` for anything that is not plain data) -/
  def toJ? : PV → Option J
    | .none => some .null
    | .bool b => some (.bool b)
    | .num m e => some (.num m e)
    | .str s => some (.str s)
    | .enum _ _ v => some (.str v)
    | .list xs => (toJList? xs).map .arr
    | .dict kvs => (toJKvs? kvs).map .obj
    | .model _ _ _ => Option.none
    | .fieldInfo => Option.none
  def toJList? : List PV → Option (List J)
    | [] => some []
    | x :: xs => match toJ? x, toJList? xs with | some y, some ys => some (y :: ys) | _, _ => Option.none
  def toJKvs? : List (String × PV) → Option (List (String × J))
    | [] => some []
    | (k, v) :: rest => match toJ? v, toJKvs? rest with | some y, some ys => some ((k, y) :: ys) | _, _ => Option.none
end

/-! ### annotations -/

/-- the annotation below its `Optional[...]` wrappers -/
def core : Ann → Ann
  | .optional a => core a
  | a => a

def isOptional : Ann → Bool
  | .optional _ => true
  | _ => false

/-! ### scalar cells (pydantic 2 lax python mode) -/

def validateInt (lax : Lax) : J → Except VErr PV
  | .num m e => match CoerceInput.integral? m e with | some i => .ok (.num i 0) | .none => .error (.wrongType "int")
  | .bool b => .ok (.num (if b then 1 else 0) 0)
  | .str s => match lax.strInt s with | some i => .ok (.num i 0) | .none => .error (.wrongType "int")
  | _ => .error (.wrongType "int")

def validateFloat (lax : Lax) : J → Except VErr PV
  | .num m e => .ok (.num m e)
  | .bool b => .ok (.num (if b then 1 else 0) 0)
  | .str s => match lax.strFloat s with | some (m, e) => .ok (.num m e) | .none => .error (.wrongType "float")
  | _ => .error (.wrongType "float")

def validateBool (lax : Lax) : J → Except VErr PV
  | .bool b => .ok (.bool b)
  | .num m e =>
    match CoerceInput.integral? m e with
    | some 0 => .ok (.bool false)
    | some 1 => .ok (.bool true)
    | _ => .error (.wrongType "bool")
  | .str s => match lax.strBool s with | some b => .ok (.bool b) | .none => .error (.wrongType "bool")
  | _ => .error (.wrongType "bool")

def validateStr : J → Except VErr PV
  | .str s => .ok (.str s)
  | _ => .error (.wrongType "str")

/-- a `str`-Enum: only the value of a member -/
def validateEnum (cls : String) (members : List (String × String)) : J → Except VErr PV
  | .str s => match members.find? (·.2 == s) with | some (py, v) => .ok (.enum cls py v) | .none => .error (.wrongType cls)
  | _ => .error (.wrongType cls)

/-- a non-null value against a type NAME (`int`, `Any`, an enum class, `Upload`, a configured type) -/
def validateName (env : Env) (n : String) (v : J) : Except VErr PV :=
  match env.enum? n with
  | some members => validateEnum n members v
  | .none =>
    if n == "Any" then .ok (ofJ v)
    else if n == "int" then validateInt env.lax v
    else if n == "float" then validateFloat env.lax v
    else if n == "bool" then validateBool env.lax v
    else if n == "str" then validateStr v
    else if env.accCustom n v then .ok (ofJ v) else .error (.wrongType n)

/-- a non-null value that meets a core annotation without recursion into the value -/
def validateLeaf (env : Env) (c : Ann) (v : J) : Except VErr PV :=
  match c with
  | .name n => validateName env n v
  | .annotated ty _ => validateName env ty v
  | .list _ => .error (.wrongType "list")
  | .fwd n => .error (.wrongType n)
  | .optional _ => .error (.wrongType "optional")     -- unreachable: `core` never returns optional

/-- `None` against an annotation -/
def validateNull (a : Ann) : Except VErr PV :=
  if isOptional a then .ok .none
  else match core a with
    | .name "Any" => .ok .none
    | _ => .error (.wrongType "not None")

def findByKey (fs : List FieldSpec) (k : String) : Option FieldSpec := fs.find? (·.key == k)
def findByName (fs : List FieldSpec) (k : String) : Option FieldSpec := fs.find? (·.py == k)

def lookupPV (k : String) : List (String × PV) → Option PV
  | [] => .none
  | (k', v) :: rest => if k' = k then some v else lookupPV k rest

/-- second pass: the class's fields in order; validated value, else default, else missing -/
def finish : List FieldSpec → List (String × PV) → Except VErr (List (String × PV))
  | [], _ => .ok []
  | f :: fs, vals =>
    match finish fs vals with
    | .error e => .error e
    | .ok rest =>
      match lookupPV f.py vals with
      | some pv => .ok ((f.py, pv) :: rest)
      | .none =>
        match f.default with
        | some (.ok d) => .ok ((f.py, d) :: rest)
        | some (.error e) => .error (.defaultRaised e)
        | .none => .error (.missing f.key)

/-- a `default_factory` (or default) that raises for a field that is not provided: the exception
    leaves `model_validate` at once, before the collected validation errors are reported -/
def defaultFailure : List FieldSpec → List (String × J) → Option EvalErr
  | [], _ => .none
  | f :: fs, kvs =>
    if !J.hasKey f.key kvs && !J.hasKey f.py kvs then
      match f.default with
      | some (.error e) => some e
      | _ => defaultFailure fs kvs
    else defaultFailure fs kvs

mutual
  /-- pydantic validation of a JSON-like Python value against an annotation -/
  def validate (env : Env) : Ann → J → Except VErr PV
    | a, .null => validateNull a
    | a, .arr xs =>
      match core a with
      | .list item =>
        match validateList env item xs with
        | .ok ys => .ok (.list ys)
        | .error e => .error e
      | c => validateLeaf env c (.arr xs)
    | a, .obj kvs =>
      match core a with
      | .fwd cls =>
        match env.class? cls with
        | some c =>
          match defaultFailure c.fields kvs with
          | some e => .error (.defaultRaised e)
          | .none =>
            match validateKvs env c.fields kvs kvs with
            | .ok vals =>
              match finish c.fields vals with
              | .ok fields => .ok (.model cls fields (vals.map (·.1)))
              | .error e => .error e
            | .error e => .error e
        | .none => .error (.unknownClass cls)
      | c => validateLeaf env c (.obj kvs)
    | a, v => validateLeaf env (core a) v
  def validateList (env : Env) : Ann → List J → Except VErr (List PV)
    | _, [] => .ok []
    | a, x :: xs =>
      match validate env a x with
      | .error e => .error e
      | .ok y =>
        match validateList env a xs with
        | .error e => .error e
        | .ok ys => .ok (y :: ys)
  /-- first pass over the provided keys: a key is looked up as validation alias first, then
      (populate_by_name) as attribute name — the latter only counts when the alias is not provided
      too; other keys are ignored.  Result: (python name, validated value) in key order. -/
  def validateKvs (env : Env) (fs : List FieldSpec) (all : List (String × J)) :
      List (String × J) → Except VErr (List (String × PV))
    | [] => .ok []
    | (k, v) :: rest =>
      match findByKey fs k with
      | some f =>
        match validate env f.ann v with
        | .error e => .error e
        | .ok pv =>
          match validateKvs env fs all rest with
          | .error e => .error e
          | .ok out => .ok ((f.py, pv) :: out)
      | .none =>
        match findByName fs k with
        | some f =>
          if J.hasKey f.key all then validateKvs env fs all rest
          else
            match validate env f.ann v with
            | .error e => .error e
            | .ok pv =>
              match validateKvs env fs all rest with
              | .error e => .error e
              | .ok out => .ok ((f.py, pv) :: out)
        | .none => validateKvs env fs all rest
end

/-- `Cls.model_validate(d)` / `Cls(**d)` in the imported module -/
def construct (env : Env) (cls : String) (d : J) : Except VErr PV :=
  if env.broken then .error .importError else validate env (.fwd cls) d

/-! ### evaluation of the emitted default expressions -/

/-- `"E.A"` ↦ `("E", "A")` (the text before the last dot, the text after it) -/
def splitName (s : String) : String × String :=
  let cs := s.toList
  let after := (cs.reverse.takeWhile (· != '.')).reverse
  let before := (cs.reverse.dropWhile (· != '.')).drop 1 |>.reverse
  (String.ofList before, String.ofList after)

def nameSyntaxError (s : String) : Bool :=
  let (cls, member) := splitName s
  cls == "" || Tables.kwlist.contains member

mutual
  /-- does the expression contain something that is not Python (`E.class`, `.FOO`)? -/
  def hasSyntaxError : PyExpr → Bool
    | .name s => nameSyntaxError s
    | .list xs => anySyntaxError xs
    | .dict kvs => anySyntaxErrorKv kvs
    | .fieldFactory b => hasSyntaxError b
    | .fieldFactoryModel _ a => hasSyntaxError a
    | _ => false
  def anySyntaxError : List PyExpr → Bool
    | [] => false
    | x :: xs => hasSyntaxError x || anySyntaxError xs
  def anySyntaxErrorKv : List (String × PyExpr) → Bool
    | [] => false
    | (_, v) :: rest => hasSyntaxError v || anySyntaxErrorKv rest
end

/-- `E.A` in the namespace of `input_types.py` -/
def evalName (env : Env) (s : String) : Except EvalErr PV :=
  if nameSyntaxError s then .error (.syntaxError s) else
  let (cls, member) := splitName s
  match env.enum? cls with
  | some members =>
    match members.find? (·.1 == member) with
    | some (py, v) => .ok (.enum cls py v)
    | .none => .error (.attributeError s)
  | .none =>
    match env.class? cls with
    | some _ => .error (.attributeError s)      -- a pydantic model class has no such attribute
    | .none => .error (.nameError cls)

mutual
  /-- evaluation of an emitted expression; a nested `Field(...)` call is just a `FieldInfo` object -/
  def evalExpr (env : Env) : PyExpr → Except EvalErr PV
    | .none => .ok .none
    | .int v => .ok (.num v 0)
    | .float x => match CoerceInput.parseFloat x with | some (m, e) => .ok (.num m e) | .none => .error (.badFloat x)
    | .str s => .ok (.str s)
    | .bool b => .ok (.bool b)
    | .name s => evalName env s
    | .list xs => match evalList env xs with | .ok ys => .ok (.list ys) | .error e => .error e
    | .dict kvs => match evalKvs env kvs with | .ok ys => .ok (.dict ys) | .error e => .error e
    | .fieldFactory _ => .ok .fieldInfo
    | .fieldFactoryModel _ _ => .ok .fieldInfo
  def evalList (env : Env) : List PyExpr → Except EvalErr (List PV)
    | [] => .ok []
    | x :: xs =>
      match evalExpr env x with
      | .error e => .error e
      | .ok y => match evalList env xs with | .error e => .error e | .ok ys => .ok (y :: ys)
  def evalKvs (env : Env) : List (String × PyExpr) → Except EvalErr (List (String × PV))
    | [] => .ok []
    | (k, v) :: rest =>
      match evalExpr env v with
      | .error e => .error e
      | .ok y => match evalKvs env rest with | .error e => .error e | .ok ys => .ok ((k, y) :: ys)
end

/-- the value an instance gets for a field that was not provided: a plain default is the
    evaluated expression (not validated); `default_factory=lambda: body` evaluates the body;
    `default_factory=lambda: globals()[T].model_validate(arg)` validates `arg` with class `T` of
    `prev` (the environment of the previous round) -/
def evalDefault (prev : Env) : PyExpr → Except EvalErr PV
  | .fieldFactory body => evalExpr prev body
  | .fieldFactoryModel t arg =>
    match evalExpr prev arg with
    | .error e => .error e
    | .ok a =>
      match prev.class? t with
      | .none => .error (.keyError t)
      | some _ =>
        match toJ? a with
        | .none => .error .notData
        | some j =>
          match validate prev (.fwd t) j with
          | .ok m => .ok m
          | .error _ => .error .validation
  | e => evalExpr prev e

/-! ### the environment of a generated module -/

def specOf (prev : Env) (d : InputField.FieldDecl) : FieldSpec :=
  ⟨d.py, d.value.alias, d.ann, d.value.default.map (evalDefault prev)⟩

def classSpecOf (prev : Env) (c : InputField.ClassDecl) : ClassSpec :=
  ⟨c.name, (c.fields.filterMap id).map (specOf prev)⟩

def enumsOf (defs : List TypeDef) : List (String × List (String × String)) :=
  (InputGen.enumResults defs).map fun e => (e.name, e.members)

/-- is the default evaluated when the class body runs (anything but a `default_factory`)? -/
def plainDefault? (d : InputField.FieldDecl) : Option PyExpr :=
  match d.value.default with
  | some (.fieldFactory _) => .none
  | some (.fieldFactoryModel _ _) => .none
  | other => other

def declBroken (env0 : Env) (d : InputField.FieldDecl) : Bool :=
  (match d.value.default with | some e => hasSyntaxError e | .none => false)
  || (match plainDefault? d with
      | some e => match evalExpr env0 e with | .ok _ => false | .error _ => true
      | .none => false)

def iterEnv (acc : String → J → Bool) (lax : Lax) (decls : List InputField.ClassDecl)
    (enums : List (String × List (String × String))) : Nat → Env
  | 0 => ⟨decls.map fun c => ⟨c.name, []⟩, enums, acc, lax, false⟩
  | k + 1 =>
    let prev := iterEnv acc lax decls enums k
    ⟨decls.map (classSpecOf prev), enums, acc, lax, false⟩

/-- the imported `input_types` module (generator output for `defs` under `cfg`) -/
def mkEnv (cfg : InputField.Cfg) (defs : List TypeDef) (acc : String → J → Bool) (lax : Lax) : Env :=
  let decls := InputField.classes cfg defs
  let enums := enumsOf defs
  let env := iterEnv acc lax decls enums (defs.length + 2)
  let parsingError := decls.any fun c => c.fields.any Option.isNone
  let broken := parsingError || decls.any fun c => (c.fields.filterMap id).any (declBroken env)
  { env with broken := broken }

/-! ### reading back -/

def aliasOf (env : Env) (cls py : String) : String :=
  match env.class? cls with
  | some c => match c.fields.find? (·.py == py) with | some f => f.key | .none => py
  | .none => py

def numEq (m : Int) (e : Nat) (m' : Int) (e' : Nat) : Bool :=
  m * ((10 ^ e' : Nat) : Int) == m' * ((10 ^ e : Nat) : Int)

mutual
  /-- is the Python value "equal to" the coerced GraphQL value?  Numbers compare numerically, an
      enum member by its name, a model instance field by field where a key that is absent from the
      coerced dict must read `None` -/
  def pvMatches (env : Env) : PV → J → Bool
    | .none, .null => true
    | .bool b, .bool b' => b == b'
    | .num m e, .num m' e' => numEq m e m' e'
    | .str s, .str s' => s == s'
    | .enum _ _ v, .str s => v == s
    | .list xs, .arr ys => listMatches env xs ys
    | .dict kvs, .obj jkvs => kvs.length == jkvs.length && dictMatches env kvs jkvs
    | .model cls fields _, .obj jkvs =>
      fieldsMatch env cls fields jkvs && jkvs.all (fun kv => fields.any (fun f => aliasOf env cls f.1 == kv.1))
    | _, _ => false
  def listMatches (env : Env) : List PV → List J → Bool
    | [], [] => true
    | x :: xs, y :: ys => pvMatches env x y && listMatches env xs ys
    | _, _ => false
  def dictMatches (env : Env) : List (String × PV) → List (String × J) → Bool
    | [], _ => true
    | (k, v) :: rest, jkvs =>
      (match J.lookup k jkvs with | some j => pvMatches env v j | .none => false) && dictMatches env rest jkvs
  def fieldsMatch (env : Env) (cls : String) : List (String × PV) → List (String × J) → Bool
    | [], _ => true
    | (py, v) :: rest, jkvs =>
      (match J.lookup (aliasOf env cls py) jkvs with
       | some j => pvMatches env v j
       | .none => match v with | .none => true | _ => false) && fieldsMatch env cls rest jkvs
end

mutual
  /-- `model_dump(by_alias=True, exclude_unset=True)` (serializers of custom scalars: C07) -/
  def dump (env : Env) : PV → J
    | .none => .null
    | .bool b => .bool b
    | .num m e => .num m e
    | .str s => .str s
    | .enum _ _ v => .str v
    | .list xs => .arr (dumpList env xs)
    | .dict kvs => .obj (dumpKvs env kvs)
    | .model cls fields set => .obj (dumpFields env cls set fields)
    | .fieldInfo => .str "<FieldInfo>"
  def dumpList (env : Env) : List PV → List J
    | [] => []
    | x :: xs => dump env x :: dumpList env xs
  def dumpKvs (env : Env) : List (String × PV) → List (String × J)
    | [] => []
    | (k, v) :: rest => (k, dump env v) :: dumpKvs env rest
  def dumpFields (env : Env) (cls : String) (set : List String) : List (String × PV) → List (String × J)
    | [] => []
    | (py, v) :: rest =>
      if set.contains py then (aliasOf env cls py, dump env v) :: dumpFields env cls set rest
      else dumpFields env cls set rest
end

/-- attribute access on an instance -/
def attr (pv : PV) (py : String) : Option PV :=
  match pv with
  | .model _ fields _ => lookupPV py fields
  | _ => .none

end Ariadne.PydInput
