/-
  Reference semantics of the two pieces of CPython that a generated client method relies on before
  anything is sent (property C03):

    * compiling `def f(self, p1, …, pn, **kw)`: duplicate parameter names (the `**` parameter
      included) are a `SyntaxError: duplicate argument 'x' in function definition` — raised when the
      module is imported, so nothing of the client class exists;
    * calling the bound method with keyword arguments only, `client.f(**given)`:
        - a keyword equal to the first parameter (`self`) is
          `TypeError: got multiple values for argument 'self'`,
        - a parameter without default that is not given is
          `TypeError: missing … required positional argument`,
        - a parameter with default that is not given takes the default,
        - keywords that name no parameter are collected by `**kw`.

    * private-name mangling: inside a class body an identifier `__spam` (two leading underscores,
      not ending in two underscores) is compiled as `_Class__spam` (class name without its leading
      underscores; no mangling when the class name is all underscores).  A *parameter* so named can
      therefore not be passed by the keyword the signature shows.

  MODELLED, VALIDATED against CPython by the correspondence check (harness/c03.py compiles and
  calls real functions with the same signatures), NOT VERIFIED.  Generic in the value type.
  Core Lean only.
-/
namespace Ariadne.PyCall

inductive PyErr where
  | syntaxError (msg : String)
  | typeError (msg : String)
  | raised (msg : String)         -- an exception raised by user code called from the body
  deriving Repr, DecidableEq, Inhabited

structure Param where
  name : String
  hasDefault : Bool
  deriving Repr, DecidableEq, Inhabited

def startsWith2 : List Char → Bool
  | '_' :: '_' :: _ => true
  | _ => false

/-- is `name` subject to private-name mangling? -/
def isMangled (name : String) : Bool :=
  startsWith2 name.toList && !startsWith2 name.toList.reverse

/-- the identifier the compiler actually uses for `name` inside `class cls` -/
def mangle (cls name : String) : String :=
  let c := cls.toList.dropWhile (· == '_')
  if isMangled name && !c.isEmpty then "_" ++ String.ofList c ++ name else name

/-- first repeated element of a list, if any -/
def firstDup : List String → Option String
  | [] => none
  | x :: xs => if xs.contains x then some x else firstDup xs

/-- compile-time check of a `def` with parameters `self :: params` and `**kwarg` -/
def checkDef (self : String) (params : List Param) (kwarg : String) : Except PyErr Unit :=
  match firstDup (self :: params.map (·.name) ++ [kwarg]) with
  | some x => .error (.syntaxError s!"duplicate argument '{x}' in function definition")
  | none => .ok ()

def lookup {α} (k : String) : List (String × α) → Option α
  | [] => none
  | (k', v) :: rest => if k' == k then some v else lookup k rest

/-- the local namespace after binding: one entry per parameter, in parameter order -/
def bindParams {α} (dflt : α) (given : List (String × α)) : List Param → Except PyErr (List (String × α))
  | [] => .ok []
  | p :: ps =>
    match lookup p.name given with
    | some v =>
      match bindParams dflt given ps with
      | .ok env => .ok ((p.name, v) :: env)
      | .error e => .error e
    | none =>
      if p.hasDefault then
        match bindParams dflt given ps with
        | .ok env => .ok ((p.name, dflt) :: env)
        | .error e => .error e
      else .error (.typeError s!"missing 1 required positional argument: '{p.name}'")

/-- `obj.f(**given)` for `def f(self, *params, **kwarg)`; every default is the same object `dflt`
    (the generated methods only use `UNSET`).  Returns the parameter bindings and the extra keywords. -/
def bindCall {α} (self : String) (params : List Param) (dflt : α) (given : List (String × α)) :
    Except PyErr (List (String × α) × List (String × α)) :=
  if (given.map (·.1)).contains self then .error (.typeError s!"got multiple values for argument '{self}'")
  else
    match bindParams dflt given params with
    | .ok env => .ok (env, given.filter (fun kv => !(params.map (·.name)).contains kv.1))
    | .error e => .error e

end Ariadne.PyCall
