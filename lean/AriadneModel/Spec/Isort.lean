/-
  Spec/Isort.lean — reference semantics of the part of `isort.code` (default configuration, as called
  by `ariadne_codegen.utils.ast_to_str`) that decides the ORDER OF NAMES inside one
  `from m import a, b, c` statement, and the summary of an import block that the rest of the
  formatter pipeline is assumed to depend on.

  MODELLED, VALIDATED AGAINST THE REAL LIBRARY (harness/c10.py, observations `isort-names`,
  `isort-summary`), NOT VERIFIED.  Core Lean only.

  isort (9.x, defaults `force_sort_within_sections=False`, `order_by_type=True`, `case_sensitive=False`,
  `sort_order="natural"`):

      from_imports = sorted(from_imports, key=lambda k: _natural_keys(module_key(k, config, True, False)))
      module_key(name, sub_imports=True) = "B" + prefix + name.lower()
          prefix = "A" if name.isupper() and len(name) > 1 else "B" if name[0:1].isupper() else "C"
      _natural_keys(text) = [int(c) if c.isdigit() else c for c in re.split(r"(\d+)", text)]

  `sorted` is stable and the names of one statement are de-duplicated (first occurrence wins)
  before; names imported from the same module by several statements are merged in source order.
  Hence two DISTINCT names with the same key (`FooBar`/`Foobar`, `F01`/`F1`) come out in source order.

  The natural key is a list alternating str / int chunks; it is encoded here as a `List Nat`
  (characters of a str chunk shifted by 1 and terminated by 0, an int chunk as one number), which
  orders exactly like Python's list comparison of such keys because equal prefixes keep the chunk
  boundaries aligned.
-/
import AriadneModel.Model.Order

namespace Ariadne.Isort
open Ariadne.Order

def isUpperA (c : Char) : Bool := 'A' ≤ c && c ≤ 'Z'
def isLowerA (c : Char) : Bool := 'a' ≤ c && c ≤ 'z'
def isDigitA (c : Char) : Bool := '0' ≤ c && c ≤ '9'
def lowerA (c : Char) : Char := if isUpperA c then Char.ofNat (c.toNat + 32) else c

/-- `str.isupper()` on ASCII identifiers: at least one cased character and no lower-case one -/
def pyIsUpper (cs : List Char) : Bool := cs.any isUpperA && !cs.any isLowerA

def typePrefix (cs : List Char) : Char :=
  if pyIsUpper cs && cs.length > 1 then 'A'
  else match cs with
    | c :: _ => if isUpperA c then 'B' else 'C'
    | [] => 'C'

/-- encoded `_natural_keys`: str chunk ↦ (code + 1)* 0, digit run ↦ its value.
    `num = some v`: inside a digit run whose value so far is `v`. -/
def natKeyAux : Option Nat → List Char → List Nat
  | none, [] => [0]
  | some v, [] => [v, 0]          -- re.split leaves a trailing '' chunk after a final digit run
  | none, c :: cs =>
    if isDigitA c then 0 :: natKeyAux (some (c.toNat - 48)) cs
    else (c.toNat + 1) :: natKeyAux none cs
  | some v, c :: cs =>
    if isDigitA c then natKeyAux (some (v * 10 + (c.toNat - 48))) cs
    else v :: (c.toNat + 1) :: natKeyAux none cs

def natKey (cs : List Char) : List Nat := natKeyAux none cs

/-- sort key of an imported NAME -/
def nameKey (n : Name) : List Nat :=
  let cs := n.toList
  natKey ('B' :: typePrefix cs :: cs.map lowerA)

/-- sort key of a from-import MODULE (`level` dots + name): `"._fragments"`-style rewrite, lower-cased -/
def modKey (level : Nat) (m : String) : List Nat :=
  let cs := m.toList.map lowerA
  natKey ('B' :: (if level = 0 then cs else List.replicate level '.' ++ '_' :: cs))

def nameLe (a b : Name) : Bool := lexLe Nat.ble (nameKey a) (nameKey b)

def dedupFirst : List Name → List Name
  | [] => []
  | x :: xs => x :: (dedupFirst xs).filter (· != x)

/-- order of the names of one `from m import …` after isort -/
def isortNames (ns : List Name) : List Name := sortBy nameLe (dedupFirst ns)

/-- canonical spelling of a from-import module: dots ++ name -/
def modStr (s : ImportFrom) : String := String.ofList (List.replicate s.level '.') ++ s.module

def namesOf (m : String) (stmts : List ImportFrom) : List Name :=
  (stmts.filter (fun s => modStr s == m)).flatMap (·.names)

/-- What the formatter pipeline `black ∘ isort ∘ autoflake` is ASSUMED to see of an import block
    (validated, observation `isort-summary`): for every imported module (listed here in a canonical,
    model-internal order) the names that survive autoflake (`keep`), de-duplicated and stably sorted by key.
    The order of the *statements* in the formatted text is isort's business (sections, module keys):
    it is a function of this summary as long as no two distinct modules share a module key. -/
abbrev Summary := List (String × List Name)

def summary (keep : Name → Bool) (stmts : List ImportFrom) : Summary :=
  let mods := pySorted (dedupFirst (stmts.map modStr))
  mods.map (fun m => (m, isortNames ((namesOf m stmts).filter keep)))

/-- trigger of finding C10-F2: two distinct names imported from one module tie on isort's key -/
def nameTie (ns : List Name) : Bool :=
  ns.any (fun a => ns.any (fun b => a != b && nameKey a == nameKey b))

def summaryTie (stmts : List ImportFrom) : Bool :=
  (dedupFirst (stmts.map modStr)).any (fun m => nameTie (namesOf m stmts))

/-- two distinct modules of one block tie on isort's module key (statement order then follows the source) -/
def moduleTie (stmts : List ImportFrom) : Bool :=
  stmts.any (fun a => stmts.any (fun b => modStr a != modStr b && modKey a.level a.module == modKey b.level b.module))

end Ariadne.Isort
