/-
  C14 — specification side for builder programs with Python variables (Model/BuilderLet.lean).
  Core Lean only.

  * `VarInfo`: per variable, the variables rendered whenever its object is rendered (with multiplicity,
    transitively) and whether the object's tree carries a non-None argument.
  * `trigOwnedReuse` (finding C14-F6): one operation renders twice an object kept in a variable whose tree
    carries an argument.  Every rendering hands out a new variable name but the object remembers only the
    names of its LAST rendering (`formatted_variables` is one dict per object), so `get_formatted_variables`
    declares only those: the other use refers to an undeclared variable.
-/
import AriadneModel.Spec.BuilderDoc
import AriadneModel.Model.BuilderLet

namespace Ariadne.BuilderDoc
open Ariadne Ariadne.Builder Ariadne.CustomGen

structure VarInfo where
  name : String
  uses : List String      -- variables rendered (transitively) when this variable's object is rendered
  hasArg : Bool           -- the object's tree (variables inside it included) carries a non-None argument

def infoFind (x : String) : List VarInfo → Option VarInfo
  | [] => none
  | i :: rest => if i.name = x then some i else infoFind x rest

mutual
  /-- variables rendered by one `to_ast` of the expression's object, in order, with multiplicity -/
  def usesP (info : List VarInfo) : PExpr → List String
    | .var y =>
      match infoFind y info with
      | some i => y :: i.uses
      | none => [y]
    | .attr _ _ => []
    | .call _ _ _ => []
    | .alias e _ => usesP info e
    | .fields e cs => usesP info e ++ usesPList info cs
    | .on e _ cs => usesP info e ++ usesPList info cs
  def usesPList (info : List VarInfo) : List PExpr → List String
    | [] => []
    | e :: es => usesP info e ++ usesPList info es
end

mutual
  def hasArgP (info : List VarInfo) : PExpr → Bool
    | .var y =>
      match infoFind y info with
      | some i => i.hasArg
      | none => false
    | .attr _ _ => false
    | .call _ _ kw => kwNonNull kw
    | .alias e _ => hasArgP info e
    | .fields e cs => hasArgP info e || hasArgPList info cs
    | .on e _ cs => hasArgP info e || hasArgPList info cs
  def hasArgPList (info : List VarInfo) : List PExpr → Bool
    | [] => false
    | e :: es => hasArgP info e || hasArgPList info es
end

def infoLets : List (String × PExpr) → List VarInfo → List VarInfo
  | [], info => info
  | (x, e) :: rest, info => infoLets rest ({ name := x, uses := usesP info e, hasArg := hasArgP info e } :: info)

/-- F6 trigger (`info` = what is known about the variables after the operation's own assignments) -/
def trigOwnedReuseFields (info : List VarInfo) (fields : List PExpr) : Bool :=
  let occ := usesPList info fields
  occ.any fun x =>
    decide (2 ≤ occ.count x) &&
    (match infoFind x info with
     | some i => i.hasArg
     | none => false)

def trigOwnedReuse (info : List VarInfo) (op : POp) : Bool :=
  trigOwnedReuseFields (infoLets op.lets info) op.fields

end Ariadne.BuilderDoc
