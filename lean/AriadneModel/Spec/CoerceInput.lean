/-
  Reference semantics of GraphQL input coercion as graphql-core 3.2 implements it:
    `coerce`      = `graphql.utilities.coerce_input_value`   (Python value against an input type)
    `coerceLit`   = `graphql.utilities.value_from_ast`       (const literal against an input type;
                    this is how `GraphQLInputField.default_value` of an SDL-built schema is computed)
  MODELLED, VALIDATED against the real library by harness/c06.py (accept/reject and the coerced
  value, on canonical and on corrupted values / literals), NOT VERIFIED.

  A schema as coercion sees it (`CSchema`) carries for every input field its already coerced
  `default_value`, exactly like graphql-core's schema object does; `mkSchema` computes those from the
  literals by iterating `coerceLit` (a default may contain an object literal of another input type,
  whose own defaults are needed; graphql-core rejects cycles).

  Both functions are structural recursions on the VALUE (no fuel): the wrappers of the type are
  peeled by `unNN` / `listDepth`, because for a non-list value a list type coerces the value as a
  single item (`[coerce item_type value]`), which re-enters with the same value.

  Core Lean only.
-/
import AriadneModel.Model.Json
import AriadneModel.Model.InputGen

namespace Ariadne.CoerceInput
open Ariadne
open Ariadne.InputGen (TypeRef Lit)

inductive CErr where
  | nullForNonNull
  | badScalar (n : String)
  | badEnum
  | notObject
  | unknownField (k : String)
  | missing (k : String)
  | unknownType (n : String)
  | notInputType (n : String)
  | badDefault (k : String)
  | badFloat (lexeme : String)
  deriving Repr, DecidableEq

structure CField where
  name : String
  type : TypeRef
  default : Option (Except CErr J)     -- `default_value` (coerced); `none` = Undefined

inductive CType where
  | scalar (name : String)             -- a custom scalar (default parse_value / parse_literal)
  | enum (name : String) (values : List String)
  | input (name : String) (fields : List CField)

def CType.name : CType → String
  | .scalar n => n
  | .enum n _ => n
  | .input n _ => n

structure CSchema where
  types : List CType

def CSchema.find? (s : CSchema) (n : String) : Option CType := s.types.find? (·.name == n)

/-! ### type wrappers -/

def unNN : TypeRef → TypeRef
  | .nonNull t => unNN t
  | t => t

/-- number of list wrappers -/
def listDepth : TypeRef → Nat
  | .named _ => 0
  | .list t => listDepth t + 1
  | .nonNull t => listDepth t

/-- wrap a value in `k` singleton lists (coercion of a single item to a list, `k` levels) -/
def nest : Nat → J → J
  | 0, j => j
  | k + 1, j => .arr [nest k j]

def nestE (k : Nat) : Except CErr J → Except CErr J
  | .ok j => .ok (nest k j)
  | .error e => .error e

/-! ### numbers -/

def integral? (m : Int) (e : Nat) : Option Int :=
  if m % ((10 ^ e : Nat) : Int) == 0 then some (m / ((10 ^ e : Nat) : Int)) else none

def inInt32 (i : Int) : Bool := decide (-2147483648 ≤ i) && decide (i ≤ 2147483647)

/-! ### leaves: `type_.parse_value(input_value)` -/

/-- the five specified scalars; `none` = not a specified scalar -/
def coerceBuiltin (n : String) (v : J) : Option (Except CErr J) :=
  if n == "Int" then
    some (match v with
      | .num m e => match integral? m e with
        | some i => if inInt32 i then .ok (.num i 0) else .error (.badScalar n)
        | none => .error (.badScalar n)
      | _ => .error (.badScalar n))
  else if n == "Float" then
    some (match v with
      | .num m e => .ok (.num m e)
      | _ => .error (.badScalar n))
  else if n == "String" then
    some (match v with
      | .str s => .ok (.str s)
      | _ => .error (.badScalar n))
  else if n == "Boolean" then
    some (match v with
      | .bool b => .ok (.bool b)
      | _ => .error (.badScalar n))
  else if n == "ID" then
    some (match v with
      | .str s => .ok (.str s)
      | .num m e => match integral? m e with
        | some i => .ok (.str (toString i))
        | none => .error (.badScalar n)
      | _ => .error (.badScalar n))
  else none

/-- a non-null value that is not a dict (or a dict, for scalars) against a named type -/
def coerceLeaf (s : CSchema) (n : String) (v : J) : Except CErr J :=
  match coerceBuiltin n v with
  | some r => r
  | none =>
    match s.find? n with
    | some (.scalar _) => .ok v
    | some (.enum _ vals) =>
      match v with
      | .str x => if vals.contains x then .ok (.str x) else .error .badEnum
      | _ => .error .badEnum
    | some (.input _ _) => .error .notObject
    | none => .error (.unknownType n)

/-- second pass over an input object: fields in definition order; provided value, else default,
    else required-ness -/
def finish : List CField → List (String × J) → Except CErr (List (String × J))
  | [], _ => .ok []
  | f :: fs, cs =>
    match finish fs cs with
    | .error e => .error e
    | .ok rest =>
      match J.lookup f.name cs with
      | some c => .ok ((f.name, c) :: rest)
      | none =>
        match f.default with
        | some (.ok d) => .ok ((f.name, d) :: rest)
        | some (.error _) => .error (.badDefault f.name)
        | none => if f.type.isNonNull then .error (.missing f.name) else .ok rest

mutual
  /-- `coerce_input_value(input_value, type_)` -/
  def coerce (s : CSchema) : TypeRef → J → Except CErr J
    | t, .null => if t.isNonNull then .error .nullForNonNull else .ok .null
    | t, .arr xs =>
      match unNN t with
      | .list it =>
        match coerceList s it xs with
        | .ok ys => .ok (.arr ys)
        | .error e => .error e
      | .named n => coerceLeaf s n (.arr xs)
      | .nonNull _ => .error (.unknownType "")       -- unreachable: unNN never returns nonNull
    | t, .obj kvs =>
      nestE (listDepth t)
        (match s.find? t.base with
         | some (.input _ fs) =>
           match coerceKvs s fs kvs with
           | .ok cs =>
             match finish fs cs with
             | .ok out => .ok (.obj out)
             | .error e => .error e
           | .error e => .error e
         | _ => coerceLeaf s t.base (.obj kvs))
    | t, v => nestE (listDepth t) (coerceLeaf s t.base v)
  def coerceList (s : CSchema) : TypeRef → List J → Except CErr (List J)
    | _, [] => .ok []
    | t, x :: xs =>
      match coerce s t x with
      | .error e => .error e
      | .ok y =>
        match coerceList s t xs with
        | .error e => .error e
        | .ok ys => .ok (y :: ys)
  /-- first pass over the provided keys: unknown keys are an error -/
  def coerceKvs (s : CSchema) (fs : List CField) : List (String × J) → Except CErr (List (String × J))
    | [] => .ok []
    | (k, v) :: rest =>
      match fs.find? (·.name == k) with
      | none => .error (.unknownField k)
      | some f =>
        match coerce s f.type v with
        | .error e => .error e
        | .ok c =>
          match coerceKvs s fs rest with
          | .error e => .error e
          | .ok cs => .ok ((k, c) :: cs)
end

/-! ### literals: `value_from_ast` -/

def digitVal (c : Char) : Option Nat :=
  if '0' ≤ c ∧ c ≤ '9' then some (c.toNat - '0'.toNat) else none

def digitsVal : List Char → Nat → Option Nat
  | [], acc => some acc
  | c :: cs, acc =>
    match digitVal c with
    | some d => digitsVal cs (acc * 10 + d)
    | none => none

/-- GraphQL float lexeme `-?int(.frac)?([eE][+-]?digits)?` as the decimal `m * 10^(-e)` -/
def parseFloat (lexeme : String) : Option (Int × Nat) :=
  let cs := lexeme.toList
  let (neg, cs) := match cs with | '-' :: r => (true, r) | r => (false, r)
  let mant := cs.takeWhile (fun c => c != 'e' && c != 'E')
  let expo := (cs.dropWhile (fun c => c != 'e' && c != 'E')).drop 1
  let ip := mant.takeWhile (· != '.')
  let fp := (mant.dropWhile (· != '.')).drop 1
  if ip.isEmpty then none else
  match digitsVal (ip ++ fp) 0 with
  | none => none
  | some m =>
    let (eneg, ecs) := match expo with | '-' :: r => (true, r) | '+' :: r => (false, r) | r => (false, r)
    match digitsVal ecs 0 with
    | none => none
    | some x =>
      let mI : Int := if neg then -(m : Int) else (m : Int)
      let fl := fp.length
      if eneg then some (mI, fl + x)
      else if x ≤ fl then some (mI, fl - x)
      else some (mI * ((10 ^ (x - fl) : Nat) : Int), 0)

mutual
  /-- `value_from_ast_untyped` (the default `parse_literal` of a custom scalar) -/
  def untyped : Lit → Except CErr J
    | .int v => .ok (.num v 0)
    | .float x => match parseFloat x with | some (m, e) => .ok (.num m e) | none => .error (.badFloat x)
    | .str s => .ok (.str s)
    | .bool b => .ok (.bool b)
    | .null => .ok .null
    | .enum v => .ok (.str v)
    | .list xs => match untypedList xs with | .ok ys => .ok (.arr ys) | .error e => .error e
    | .obj kvs => match untypedKvs kvs with | .ok ys => .ok (.obj ys) | .error e => .error e
  def untypedList : List Lit → Except CErr (List J)
    | [] => .ok []
    | x :: xs =>
      match untyped x with
      | .error e => .error e
      | .ok y => match untypedList xs with | .error e => .error e | .ok ys => .ok (y :: ys)
  def untypedKvs : List (String × Lit) → Except CErr (List (String × J))
    | [] => .ok []
    | (k, v) :: rest =>
      match untyped v with
      | .error e => .error e
      | .ok y => match untypedKvs rest with | .error e => .error e | .ok ys => .ok ((k, y) :: ys)
end

/-- `parse_literal` of the specified scalars -/
def litBuiltin (n : String) (l : Lit) : Option (Except CErr J) :=
  if n == "Int" then
    some (match l with
      | .int v => if inInt32 v then .ok (.num v 0) else .error (.badScalar n)
      | _ => .error (.badScalar n))
  else if n == "Float" then
    some (match l with
      | .int v => .ok (.num v 0)
      | .float x => match parseFloat x with | some (m, e) => .ok (.num m e) | none => .error (.badFloat x)
      | _ => .error (.badScalar n))
  else if n == "String" then
    some (match l with
      | .str s => .ok (.str s)
      | _ => .error (.badScalar n))
  else if n == "Boolean" then
    some (match l with
      | .bool b => .ok (.bool b)
      | _ => .error (.badScalar n))
  else if n == "ID" then
    some (match l with
      | .str s => .ok (.str s)
      | .int v => .ok (.str (toString v))
      | _ => .error (.badScalar n))
  else none

/-- a non-null, non-object literal (or an object literal, for scalars) against a named type -/
def litLeaf (s : CSchema) (n : String) (l : Lit) : Except CErr J :=
  match litBuiltin n l with
  | some r => r
  | none =>
    match s.find? n with
    | some (.scalar _) => untyped l
    | some (.enum _ vals) =>
      match l with
      | .enum x => if vals.contains x then .ok (.str x) else .error .badEnum
      | _ => .error .badEnum
    | some (.input _ _) => .error .notObject
    | none => .error (.unknownType n)

mutual
  /-- `value_from_ast(value_node, type_)` for const literals; `.error` = invalid (Undefined) -/
  def coerceLit (s : CSchema) : TypeRef → Lit → Except CErr J
    | t, .null => if t.isNonNull then .error .nullForNonNull else .ok .null
    | t, .list xs =>
      match unNN t with
      | .list it =>
        match coerceLits s it xs with
        | .ok ys => .ok (.arr ys)
        | .error e => .error e
      | .named n => litLeaf s n (.list xs)
      | .nonNull _ => .error (.unknownType "")
    | t, .obj kvs =>
      nestE (listDepth t)
        (match s.find? t.base with
         | some (.input _ fs) =>
           -- unknown keys of the literal are ignored by value_from_ast
           match coerceLitKvs s fs kvs with
           | .ok cs =>
             match finish fs cs with
             | .ok out => .ok (.obj out)
             | .error e => .error e
           | .error e => .error e
         | _ => litLeaf s t.base (.obj kvs))
    | t, l => nestE (listDepth t) (litLeaf s t.base l)
  def coerceLits (s : CSchema) : TypeRef → List Lit → Except CErr (List J)
    | _, [] => .ok []
    | t, x :: xs =>
      match coerceLit s t x with
      | .error e => .error e
      | .ok y =>
        match coerceLits s t xs with
        | .error e => .error e
        | .ok ys => .ok (y :: ys)
  def coerceLitKvs (s : CSchema) (fs : List CField) : List (String × Lit) → Except CErr (List (String × J))
    | [] => .ok []
    | (k, v) :: rest =>
      match fs.find? (·.name == k) with
      | none => coerceLitKvs s fs rest
      | some f =>
        match coerceLit s f.type v with
        | .error e => .error e
        | .ok c =>
          match coerceLitKvs s fs rest with
          | .error e => .error e
          | .ok cs => .ok ((k, c) :: cs)
end

/-! ### building the coercion schema from the definitions (`default_value` of every input field) -/

/-- one round: defaults are coerced against the previous round's schema -/
def stepField (prev : CSchema) (f : InputGen.InputField) : CField :=
  ⟨f.name, f.type,
    match f.default with
    | none => none
    | some lit =>
      match coerceLit prev f.type lit with
      | .ok d => some (.ok d)
      | .error _ => none⟩      -- an invalid default literal is `Undefined`: graphql-core treats the field as having no default

def stepType (prev : CSchema) : InputGen.TypeDef → Option CType
  | .enum n vs => some (.enum n vs)
  | .input n fs => some (.input n (fs.map (stepField prev)))
  | .scalar n => some (.scalar n)
  | .composite _ => none

def stepSchema (prev : CSchema) (defs : List InputGen.TypeDef) : CSchema := ⟨defs.filterMap (stepType prev)⟩

def iterSchema (defs : List InputGen.TypeDef) : Nat → CSchema
  | 0 => ⟨[]⟩
  | k + 1 => stepSchema (iterSchema defs k) defs

/-- the schema graphql-core builds: enough rounds for every acyclic nesting of defaults -/
def mkSchema (defs : List InputGen.TypeDef) : CSchema := iterSchema defs (defs.length + 2)

end Ariadne.CoerceInput
