/-
  C16 — reference semantics: what CPython makes of the TEXT of a literal expression (the part of
  the language `ast.unparse` writes for `ast.Constant`, and black re-writes): `None`, `True`,
  `False`, decimal integers, decimal floats, an optional leading `-`, single-line string literals
  in either quote with the escapes `\\ \' \" \n \r \t \a \b \f \v \xHH \uHHHH \UHHHHHHHH`, list
  displays and dict displays with string keys, white space and line breaks between tokens, an
  optional trailing comma.

  MODELLED, VALIDATED, NOT VERIFIED: a specification of CPython's tokenizer + evaluation for this
  sub-language.  harness/c16.py validates it on every run: every maximal literal expression of every
  really written file (after autoflake / isort / black), the `ast.unparse` text of every constant and
  random constants are read by `readLiteral` (driver op "read") and compared with the value CPython
  gives the same text.  Anything outside the sub-language (string prefixes, triple quotes, implicit
  concatenation, octal / named escapes, underscores or upper-case `E` in numbers, tuples, sets,
  operators, comments) is answered `none` — never a value.

  The reader is a one-pass automaton over the characters (total, structurally recursive): a stack
  of open displays, and a mode (between tokens / inside a bare word or number / inside a string /
  after a backslash / inside a hex escape).  A float is returned as its text (`PyVal.float`).

  Core Lean only.
-/
import AriadneModel.Model.PyRepr
import AriadneModel.Model.SchemaGen

namespace Ariadne.PyLiteral
open Ariadne.Schema Ariadne.PyRepr Ariadne.SchemaGen

/-- an open display and what it expects next -/
inductive Frame where
  | listV (acc : List PyVal)                              -- after `[` or `,`: a value or `]`
  | listS (acc : List PyVal)                              -- after a value: `,` or `]`
  | dictK (acc : List (String × PyVal))                   -- after `{` or `,`: a key or `}`
  | dictC (acc : List (String × PyVal)) (k : String)      -- after a key: `:`
  | dictV (acc : List (String × PyVal)) (k : String)      -- after `:`: a value
  | dictS (acc : List (String × PyVal))                   -- after a value: `,` or `}`
  deriving Inhabited

inductive Mode where
  | idle
  | atom (acc : List Char)                                -- bare word / number, reversed
  | str (q : Char) (acc : List Char)                      -- inside a string literal, decoded so far (reversed)
  | esc (q : Char) (acc : List Char)                      -- after a backslash
  | hex (q : Char) (acc : List Char) (k : Nat) (v : Nat)  -- `k` hex digits still to come, value so far
  deriving Inhabited

structure St where
  stack : List Frame
  res : Option PyVal          -- the finished top-level value
  mode : Mode
  deriving Inhabited

def init : St := ⟨[], none, .idle⟩

/-- a finished value goes to whoever waits for one -/
def deliver (v : PyVal) (S : List Frame) (res : Option PyVal) : Option St :=
  match S with
  | [] => match res with
    | none => some ⟨[], some v, .idle⟩
    | some _ => none                                       -- two expressions
  | .listV acc :: r => some ⟨.listS (v :: acc) :: r, res, .idle⟩
  | .dictK acc :: r => match v with
    | .str k => some ⟨.dictC acc k :: r, res, .idle⟩
    | _ => none                                            -- non-string key: outside the sub-language
  | .dictV acc k :: r => some ⟨.dictS ((k, v) :: acc) :: r, res, .idle⟩
  | _ => none                                              -- a value where a separator is expected

inductive Num where
  | int (n : Nat)
  | float (text : List Char)

/-- CPython rejects a decimal integer with a leading zero unless all its digits are zero -/
def leadingZeroOK : List Char → Bool
  | '0' :: rest => rest.all (· = '0')
  | _ => true

/-- an unsigned number token -/
def decodeNum (cs : List Char) : Option Num :=
  if cs ≠ [] ∧ cs.all Char.isDigit = true then
    (if leadingZeroOK cs then some (.int (Nat.ofDigitChars 10 cs 0)) else none)
  else if floatTok cs then some (.float cs)
  else none

/-- after a leading `-` -/
def decodeNeg (ds : List Char) : Option PyVal :=
  match decodeNum ds with
  | some (.int n) => some (.int (-(Int.ofNat n)))
  | some (.float t) => some (.float (String.ofList ('-' :: t)))
  | none => none

def decodePos (cs : List Char) : Option PyVal :=
  match decodeNum cs with
  | some (.int n) => some (.int (Int.ofNat n))
  | some (.float t) => some (.float (String.ofList t))
  | none =>
    if cs = ['N', 'o', 'n', 'e'] then some .none
    else if cs = ['T', 'r', 'u', 'e'] then some (.bool true)
    else if cs = ['F', 'a', 'l', 's', 'e'] then some (.bool false)
    else none

/-- a bare word or number: `None`, `True`, `False`, `[-]digits`, `[-]float` -/
def decodeAtom (cs : List Char) : Option PyVal :=
  match cs with
  | [] => none
  | c :: ds => if c = '-' then decodeNeg ds else decodePos (c :: ds)

def hexVal (c : Char) : Option Nat :=
  if c.isDigit then some (c.toNat - 48)
  else if 'a'.toNat ≤ c.toNat ∧ c.toNat ≤ 'f'.toNat then some (c.toNat - 87)
  else if 'A'.toNat ≤ c.toNat ∧ c.toNat ≤ 'F'.toNat then some (c.toNat - 55)
  else none

def isSpace (c : Char) : Bool := c = ' ' || c = '\n' || c = '\t' || c = '\r'

/-- one character between tokens -/
def stepIdle (S : List Frame) (res : Option PyVal) (c : Char) : Option St :=
  if isSpace c then some ⟨S, res, .idle⟩
  else if c = '[' then some ⟨.listV [] :: S, res, .idle⟩
  else if c = '{' then some ⟨.dictK [] :: S, res, .idle⟩
  else if c = ']' then
    match S with
    | .listV acc :: r => deliver (.list acc.reverse) r res
    | .listS acc :: r => deliver (.list acc.reverse) r res
    | _ => none
  else if c = '}' then
    match S with
    | .dictK acc :: r => deliver (.dict acc.reverse) r res
    | .dictS acc :: r => deliver (.dict acc.reverse) r res
    | _ => none
  else if c = ',' then
    match S with
    | .listS acc :: r => some ⟨.listV acc :: r, res, .idle⟩
    | .dictS acc :: r => some ⟨.dictK acc :: r, res, .idle⟩
    | _ => none
  else if c = ':' then
    match S with
    | .dictC acc k :: r => some ⟨.dictV acc k :: r, res, .idle⟩
    | _ => none
  else if c = '\'' ∨ c = '"' then some ⟨S, res, .str c []⟩
  else if atomChar c then some ⟨S, res, .atom [c]⟩
  else none

/-- the character after a backslash -/
def stepEsc (S : List Frame) (res : Option PyVal) (q : Char) (acc : List Char) (c : Char) : Option St :=
  if c = '\\' ∨ c = '\'' ∨ c = '"' then some ⟨S, res, .str q (c :: acc)⟩
  else if c = 'n' then some ⟨S, res, .str q ('\n' :: acc)⟩
  else if c = 't' then some ⟨S, res, .str q ('\t' :: acc)⟩
  else if c = 'r' then some ⟨S, res, .str q ('\r' :: acc)⟩
  else if c = 'a' then some ⟨S, res, .str q (Char.ofNat 7 :: acc)⟩
  else if c = 'b' then some ⟨S, res, .str q (Char.ofNat 8 :: acc)⟩
  else if c = 'f' then some ⟨S, res, .str q (Char.ofNat 12 :: acc)⟩
  else if c = 'v' then some ⟨S, res, .str q (Char.ofNat 11 :: acc)⟩
  else if c = 'x' then some ⟨S, res, .hex q acc 2 0⟩
  else if c = 'u' then some ⟨S, res, .hex q acc 4 0⟩
  else if c = 'U' then some ⟨S, res, .hex q acc 8 0⟩
  else none                                                -- octal, \N{..}, line continuation, unknown escapes

def step (st : St) (c : Char) : Option St :=
  match st.mode with
  | .idle => stepIdle st.stack st.res c
  | .atom acc =>
    if atomChar c then some ⟨st.stack, st.res, .atom (c :: acc)⟩
    else match decodeAtom acc.reverse with
      | none => none
      | some v => match deliver v st.stack st.res with
        | none => none
        | some st' => stepIdle st'.stack st'.res c
  | .str q acc =>
    if c = q then deliver (.str (String.ofList acc.reverse)) st.stack st.res
    else if c = '\\' then some ⟨st.stack, st.res, .esc q acc⟩
    else if c = '\n' then none                              -- unterminated single-line string
    else some ⟨st.stack, st.res, .str q (c :: acc)⟩
  | .esc q acc => stepEsc st.stack st.res q acc c
  | .hex q acc k v =>
    match hexVal c with
    | none => none
    | some d =>
      match k with
      | 0 => none
      | 1 => if (v * 16 + d).isValidChar then some ⟨st.stack, st.res, .str q (Char.ofNat (v * 16 + d) :: acc)⟩ else none
      | k + 2 => some ⟨st.stack, st.res, .hex q acc (k + 1) (v * 16 + d)⟩

def run (st : St) : List Char → Option St
  | [] => some st
  | c :: cs => match step st c with
    | none => none
    | some st' => run st' cs

def finish (st : St) : Option PyVal :=
  match st.stack, st.mode with
  | [], .idle => st.res
  | _, _ => none

/-- the value of a literal expression given as text (`none`: outside the modelled sub-language).
    A line break is appended so that a trailing number / word token is closed. -/
def readLiteral (cs : List Char) : Option PyVal :=
  match run init (cs ++ ['\n']) with
  | none => none
  | some st => finish st

/-! ### constant positions of the emitted module (`default_value=…`, `description=…`, …) -/

/-- the text `ast.unparse` writes for what `generate_constant(x)` returned: `repr(x)`; graphql-core's
    `Undefined` has the bare word as its `repr` -/
def renderCExpr (printable : Char → Bool) : CExpr → List Char
  | .const v => reprPV printable v
  | .name n => n.toList

def isIdentStart (c : Char) : Bool := c.isAlpha || c = '_'
def isIdentChar (c : Char) : Bool := c.isAlphanum || c = '_'

/-- an ASCII identifier -/
def isIdent : List Char → Bool
  | [] => false
  | c :: cs => isIdentStart c && cs.all isIdentChar

/-- what CPython makes of the text in a constant position: a literal denotes its value, a bare
    identifier (other than the keyword constants, which are literals) is a NAME the module's name
    space has to resolve -/
def readCExpr (cs : List Char) : Option CExpr :=
  match readLiteral cs with
  | some v => some (.const v)
  | none => if isIdent cs then some (.name (String.ofList cs)) else none

end Ariadne.PyLiteral
