/-
  Vocabulary of the graphql-transport-ws protocol, *independent of /repo*: the message-type names
  are the protocol's literals (https://github.com/enisdenjo/graphql-ws/blob/master/PROTOCOL.md),
  not the values of the client's enum.  `Properties/C13.lean` proves that the extracted enum tables
  resolve to exactly these (`types_resolve`), so a changed enum value breaks a proof.

  `letter` classifies a server frame into the alphabet of property C13
  {ack, next, ping, pong, complete, error, non-JSON, unknown type, missing type, next without data};
  frames the property does not talk about are `clientMsg` (a client-to-server type echoed by the
  server: known type, nothing to do) or `outside` (DESIGN.md §3.0: JSON that is not an object,
  `payload` of the wrong JSON kind, an `error` payload that is present and not a list of error objects,
  a `type` that is a non-empty list/object).

  The finding-trigger predicates of C13 are defined here (decidable, computable) so that the driver
  can print them and the harness can compare them with its own classifier.

  Reference vocabulary: modelled, validated (harness/c13.py compares `letter` and the triggers with
  its Python twin on every generated input), not verified.  Core Lean only.
-/
import AriadneModel.Model.WsClient

namespace Ariadne.GqlWs
open Ariadne Ariadne.WsClient

/-- the subprotocol token of the WebSocket handshake -/
def subprotocol : String := "graphql-transport-ws"

/-- the protocol's message types -/
def proto : Types :=
  { init := "connection_init", ack := "connection_ack", ping := "ping", pong := "pong",
    subscribe := "subscribe", next := "next", error := "error", complete := "complete",
    values := ["connection_init", "connection_ack", "ping", "pong", "subscribe", "next", "error",
               "complete"] }

/-- a spec-shaped error entry: an object carrying a `message` -/
def errShaped : J → Bool
  | .obj kvs => (J.lookup "message" kvs).isSome
  | _ => false

inductive Letter where
  | ack
  | next (d : J)
  | ping
  | pong
  | complete
  | error (es : List J)     -- payload = a list of error objects
  | nonJson
  | unknownType
  | missingType
  | nextNoData
  | clientMsg               -- `connection_init` / `subscribe` sent by the server (known type, ignored)
  | outside                 -- not in the property's alphabet
  deriving Repr

def letter : Frame → Letter
  | .text _ => .nonJson
  | .badBytes => .nonJson
  | .json (.obj kvs) =>
    match J.lookup "type" kvs with
    | none => .missingType
    | some .null => .missingType
    | some (.str s) =>
      if s = "connection_ack" then .ack
      else if s = "next" then
        match J.lookup "payload" kvs with
        | none => .nextNoData
        | some (.obj pk) =>
          match J.lookup "data" pk with
          | some d => .next d
          | none => .nextNoData
        | some _ => .outside
      else if s = "ping" then .ping
      else if s = "pong" then .pong
      else if s = "complete" then .complete
      else if s = "error" then
        match J.lookup "payload" kvs with
        | some (.arr es) => if es.all errShaped then .error es else .outside
        | none => .error []          -- an `error` message without payload is still the error letter: no entries
        | _ => .outside
      else if s = "connection_init" then .clientMsg
      else if s = "subscribe" then .clientMsg
      else .unknownType
    | some (.arr (_ :: _)) => .outside
    | some (.obj (_ :: _)) => .outside
    | some _ => .unknownType
  | .json _ => .outside

def Letter.name : Letter → String
  | .ack => "ack" | .next _ => "next" | .ping => "ping" | .pong => "pong" | .complete => "complete"
  | .error _ => "error" | .nonJson => "nonJson" | .unknownType => "unknownType"
  | .missingType => "missingType" | .nextNoData => "nextNoData" | .clientMsg => "clientMsg"
  | .outside => "outside"

def Letter.isAck : Letter → Bool
  | .ack => true
  | _ => false

/-- after the handshake: letters that leave the subscription running -/
def Letter.continues : Letter → Bool
  | .ack | .next _ | .ping | .pong | .clientMsg => true
  | _ => false

def Letter.isPing : Letter → Bool
  | .ping => true
  | _ => false

/-- the data of a `next` frame -/
def Letter.nextData : Letter → Option J
  | .next d => some d
  | _ => none

/-- the data of a `next` frame when it is truthy in Python's sense -/
def Letter.truthyNextData : Letter → Option J
  | .next d => if d.truthy then some d else none
  | _ => none

def Letter.falsyNext : Letter → Bool
  | .next d => !d.truthy
  | _ => false

def continuesF (f : Frame) : Bool := (letter f).continues

/-- the frames the subscription consumes and survives -/
def prefixUntilTerminal (fs : List Frame) : List Frame := fs.takeWhile continuesF

/-- the first frame that ends the subscription, if any -/
def firstTerminal (fs : List Frame) : Option Frame := (fs.dropWhile continuesF).head?

def isBadBytes : Frame → Bool
  | .badBytes => true
  | _ => false

/-- The frames the streaming loop is handed once the subscribe message went out: connect is
    attempted and the first frame is the ack.  (Deliberately a function of the configuration and
    the frames alone: whether `json.dumps` accepts the variables is the subject of another finding,
    C13-F4, and repairing that one must not move inputs out of the regions of C13-F2 / C13-F3.) -/
def streamed (cfg : Cfg) (_vars : Option (List (String × PV))) : List Frame → Option (List Frame)
  | [] => none
  | f :: fs =>
    if J.hasKey "subprotocols" cfg.kwargs then none
    else if !(letter f).isAck then none
    else some fs

/-! ### Wire-level vocabulary used by the C13 statements -/

def pingF (f : Frame) : Bool := (letter f).isPing

/-- number of pings the subscription consumes -/
def pingCount (fs : List Frame) : Nat := (prefixUntilTerminal fs).countP pingF

/-- the frames the streaming loop is handed: the continuing prefix and the first terminal frame -/
def consumed (fs : List Frame) : List Frame := prefixUntilTerminal fs ++ (firstTerminal fs).toList

/-- deliveries and sends only (no yields, no close): the wire-level interleaving -/
def Ev.isIO : Ev → Bool
  | .recv _ => true
  | .send _ => true
  | _ => false

/-- the wire-level interleaving the protocol demands for one consumed frame -/
def ioOf (f : Frame) : List Ev := if pingF f then [.recv f, .send .pong] else [.recv f]

/-! ### Finding triggers (one per open finding of findings.d/C13.json) -/

/-- C13-F2: a `next` frame whose data is falsy is consumed by the streaming loop. -/
def trigFalsyNextData (cfg : Cfg) (vars : Option (List (String × PV))) (frames : List Frame) : Bool :=
  match streamed cfg vars frames with
  | some fs => (prefixUntilTerminal fs).any (fun f => (letter f).falsyNext)
  | none => false

/-- C13-F3: a binary frame that is not valid UTF-8 is handed to `_handle_ws_message`
    (as the first frame, or as the frame that ends the streaming loop). -/
def trigBinaryNotUtf8 (cfg : Cfg) (vars : Option (List (String × PV))) (frames : List Frame) : Bool :=
  if J.hasKey "subprotocols" cfg.kwargs then false
  else match frames with
    | [] => false
    | f :: _ =>
      isBadBytes f ||
        (match streamed cfg vars frames with
         | some fs => match firstTerminal fs with
           | some x => isBadBytes x
           | none => false
         | none => false)

/-! ### The reading of "variables" (DESIGN.md §3.0) and the trigger of C13-F4

  What a generated subscription method can put into `variables`: JSON scalars, lists, enum members
  (str subclasses: JSON strings), generated input models, raw dicts (an `Any` scalar), `UNSET` at the
  top level only - and custom scalars whose python `type` pydantic serialises by itself (README
  "Example with type supported by pydantic": `datetime`), at the top level, in lists and in fields of
  input models.  `json.dumps` without `default=` takes none of the latter. -/

mutual
  /-- JSON-native data, possibly with pydantic-serialisable foreign leaves (what a python-mode
      `model_dump` / a raw dict can hold) -/
  def plainPF : PV → Bool
    | .null => true
    | .bool _ => true
    | .num _ _ => true
    | .str _ => true
    | .foreign j => j.isSome
    | .list xs => plainPFList xs
    | .dict kvs => plainPFKvs kvs
    | .unset => false
    | .model _ => false
    | .modelPy _ => false
  def plainPFList : List PV → Bool
    | [] => true
    | x :: xs => plainPF x && plainPFList xs
  def plainPFKvs : List (String × PV) → Bool
    | [] => true
    | (_, x) :: xs => plainPF x && plainPFKvs xs
end

mutual
  /-- a value inside the reading: models where `_convert_value` reaches them (top level, lists) -/
  def readable : PV → Bool
    | .null => true
    | .bool _ => true
    | .num _ _ => true
    | .str _ => true
    | .foreign j => j.isSome
    | .model _ => true
    | .modelPy kvs => plainPFKvs kvs
    | .list xs => readableList xs
    | .dict kvs => plainPFKvs kvs
    | .unset => false
  def readableList : List PV → Bool
    | [] => true
    | x :: xs => readable x && readableList xs
end

def readableTop : List (String × PV) → Bool
  | [] => true
  | (_, .unset) :: rest => readableTop rest
  | (_, v) :: rest => readable v && readableTop rest

def readableVars : Option (List (String × PV)) → Bool
  | none => true
  | some kvs => readableTop kvs

mutual
  /-- some leaf is a foreign object -/
  def hasForeign : PV → Bool
    | .foreign _ => true
    | .list xs => hasForeignList xs
    | .dict kvs => hasForeignKvs kvs
    | .modelPy kvs => hasForeignKvs kvs
    | _ => false
  def hasForeignList : List PV → Bool
    | [] => false
    | x :: xs => hasForeign x || hasForeignList xs
  def hasForeignKvs : List (String × PV) → Bool
    | [] => false
    | (_, x) :: xs => hasForeign x || hasForeignKvs xs
end

def hasForeignVars : Option (List (String × PV)) → Bool
  | none => false
  | some kvs => hasForeignKvs kvs

/-- C13-F4: the handshake gets as far as `_send_subscribe` and the variables - inside the reading -
    hold a value only `default=to_jsonable_python` could serialise: `json.dumps` raises `TypeError`,
    no subscribe is sent (the HTTP path sends the same variables). -/
def trigVarsNeedJsonableDefault (cfg : Cfg) (vars : Option (List (String × PV))) (frames : List Frame) : Bool :=
  if J.hasKey "subprotocols" cfg.kwargs then false
  else match frames with
    | [] => false
    | f :: _ => (letter f).isAck && readableVars vars && hasForeignVars vars

/-- C13-F1: `ws_connect` is called with the keyword `extra_headers` (true of every call that gets
    as far as connecting: `merged_kwargs["extra_headers"] = headers` is unconditional). -/
def trigExtraHeadersKwarg (cfg : Cfg) : Bool := !(J.hasKey "subprotocols" cfg.kwargs)

end Ariadne.GqlWs
