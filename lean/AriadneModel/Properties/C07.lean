/-
  C07 — Custom scalars are parsed and serialised exactly once per occurrence.

  Statements + final proofs.  Models: Model/Scalars.lean (`ScalarData`, both annotation generators,
  `generate_scalar_imports`), Model/ResultAnn.lean (result annotations over response shapes),
  Model/ResultUnion.lean (result annotations over shapes WITH ABSTRACT POSITIONS: `Union[...]` of member classes,
  `annotate_nested_unions` and the field-level discriminator modelled on annotation syntax; the scalar imports of a
  result module), Model/InputFields.lean (input-class annotations), Model/Arguments.lean (`_get_dict_value`,
  `_used_custom_scalars`), Model/ClientImports.lean (the scalar imports of client.py),
  Model/ArgSend.lean (the emitted method), Model/ArgValues.lean (`serCalls`: the calls a value is
  entitled to), Model/InputImports.lean (the scalar imports of the `input_types.py` module for every
  `include_all_inputs` / `types_to_include`, over C09's class filter `Prune.filterInputDefs`).  Reference semantics of
  pydantic WITH CALL LOGS: Spec/PydLog.lean, and Spec/PydUnionLog.lean for tagged / plain unions of model classes
  (modelled, validated against the real library with instrumented parse/serialize functions, not verified).

  Reading decision (DESIGN.md §3.0): "once per occurrence" counts calls per non-null leaf of the
  VALUE, not per annotation (at an abstract position: per leaf of the member the object belongs to, not per member class).

  The property is FALSE as written for top-level arguments (`C07_full_false`):
    C07-F1 `trigSerializeNullable`  `variables = {"d": serialize(d)}` is unconditional → called with None / UNSET
    C07-F2 `trigSerializeList`      a list-typed top-level variable gets ONE `serialize(list)`
    C07-F3 `trigImportKeyDotted`    deprecated `import` key + dotted name → `from m import a.b.C` (not Python)
  Outside the triggers it is proved (`C07_partial`); the result side (`parse_once`, and `parse_once_abs` over abstract
  positions: `unions_all_discriminated`) and input-model fields (`serialize_once_fields`) hold for every wrapper nesting;
  "every needed import is emitted" is proved module by module: `imports_cover` (one scalar), `inputs_imports_cover`
  (input_types.py), `results_imports_cover` (result modules), `client_imports_cover` (client.py).

  Not proved here (correspondence / oracle only): result classes that inherit fields from fragment classes of
  fragments.py and the imports of fragments.py; fields with `@skip` / `@include` (default `None`); which classes and
  `Literal` values an abstract position gets (C01's subject: the shape carries them); the composition of
  `request_calls_present` with the whole `send`; autoflake / isort / black and the import of the emitted modules.
-/
import AriadneModel.Model.ResultAnn
import AriadneModel.Model.InputImports
import AriadneModel.Proofs.ArgCalls
import AriadneModel.Proofs.Prune
import AriadneModel.Proofs.C07Union
import AriadneModel.Proofs.C07Client
import AriadneModel.Properties.C03

set_option linter.unusedSimpArgs false
set_option linter.unusedVariables false

namespace Ariadne.C07
open Ariadne Ariadne.Scalars Ariadne.ResultAnn Ariadne.PydLog Ariadne.ArgValues Ariadne.Coerce Ariadne.ArgSend
open Ariadne.Arguments Ariadne.ArgFindings Ariadne.ArgProofs
open Ariadne.BaseClient (PV)
open Ariadne.ResultUnion Ariadne.PydUnionLog Ariadne.C07Union

/-! ## 1. Results: `parse` exactly once per non-null occurrence, never on null -/

mutual
/-- `parse_once`: for every response shape (any nesting of Optional / List / objects) and every
    conformant value, validation calls `parse` on exactly the non-null custom-scalar occurrences,
    each once, in order. -/
theorem parse_once (accept : Leaf → J → Bool) (cfg : ScalarCfg) (t : RT) (j : J) (h : conforms t j = true) :
    (validateLog accept (annOfR cfg t) j).calls = occurrences cfg t j := by
  cases t with
  | custom sc nn =>
    simp only [annOfR, validateLog, occurrences]
    by_cases hn : j.isNull = true
    · have hnn : nn = false := by
        simp only [conforms, hn, Bool.true_and, Bool.not_eq_true'] at h
        exact h
      simp [hn, hnn]
    · have hn' : j.isNull = false := by simpa using hn
      simp only [hn', Bool.false_and, Bool.false_eq_true, if_false]
      cases lookupScalar cfg sc with
      | none => simp [validateLeaf]
      | some d => cases hp : d.parseName <;> simp [validateLeaf, resultLeaf, hp]
  | plain py nn =>
    simp only [annOfR, validateLog, occurrences]
    by_cases hn : (j.isNull && !nn) = true <;> simp [hn, validateLeaf]
  | list it nn =>
    cases j with
    | arr xs =>
      simp only [annOfR, validateLog, occurrences]
      simp only [conforms, List.all_eq_true] at h
      induction xs with
      | nil => simp [validateItems]
      | cons x xs ih =>
        have h1 := parse_once accept cfg it x (h x List.mem_cons_self)
        have h2 := ih (fun y hy => h y (List.mem_cons_of_mem _ hy))
        simp [validateItems, h1, h2]
    | null => simp [annOfR, validateLog, occurrences]
    | _ => simp [conforms] at h
  | obj fs nn =>
    cases j with
    | obj kvs =>
      simp only [annOfR, validateLog, occurrences]
      exact parse_once_fields accept cfg fs kvs (by simpa [conforms] using h)
    | null => simp [annOfR, validateLog, occurrences]
    | _ => simp [conforms] at h
theorem parse_once_fields (accept : Leaf → J → Bool) (cfg : ScalarCfg) (fs : List (String × RT)) (kvs : List (String × J))
    (h : conformsFields fs kvs = true) :
    (validateFields accept (annOfFields cfg fs) kvs).calls = occurrencesFields cfg fs kvs := by
  cases fs with
  | nil => simp [annOfFields, validateFields, occurrencesFields]
  | cons p rest =>
    obtain ⟨k, t⟩ := p
    simp only [conformsFields, Bool.and_eq_true] at h
    have h2 := parse_once_fields accept cfg rest kvs h.2
    cases hl : J.lookup k kvs with
    | none => simp [hl] at h
    | some v =>
      have h1 := parse_once accept cfg t v (by simpa [hl] using h.1)
      simp [annOfFields, validateFields, occurrencesFields, hl, h1, h2]
end

mutual
/-- no occurrence is null (with `parse_once`: `parse` is never called on null) -/
theorem occurrences_non_null (cfg : ScalarCfg) (t : RT) (j : J) : ∀ c ∈ occurrences cfg t j, c.raw.isNull = false := by
  cases t with
  | custom sc nn =>
    intro c hc
    simp only [occurrences] at hc
    by_cases hn : j.isNull = true
    · simp [hn] at hc
    · simp only [hn, Bool.false_eq_true, if_false] at hc
      cases hl : lookupScalar cfg sc with
      | none => simp [hl] at hc
      | some d =>
        cases hp : d.parseName with
        | none => simp [hl, hp] at hc
        | some p => simp [hl, hp] at hc; subst hc; simpa using hn
  | plain py nn => intro c hc; simp [occurrences] at hc
  | list it nn =>
    intro c hc
    cases j with
    | arr xs =>
      simp only [occurrences, List.mem_flatten, List.mem_map] at hc
      obtain ⟨l, ⟨x, _, rfl⟩, hcl⟩ := hc
      exact occurrences_non_null cfg it x c hcl
    | _ => simp [occurrences] at hc
  | obj fs nn =>
    intro c hc
    cases j with
    | obj kvs => simp only [occurrences] at hc; exact occurrencesFields_non_null cfg fs kvs c hc
    | _ => simp [occurrences] at hc
theorem occurrencesFields_non_null (cfg : ScalarCfg) (fs : List (String × RT)) (kvs : List (String × J)) :
    ∀ c ∈ occurrencesFields cfg fs kvs, c.raw.isNull = false := by
  cases fs with
  | nil => intro c hc; simp [occurrencesFields] at hc
  | cons p rest =>
    obtain ⟨k, t⟩ := p
    intro c hc
    simp only [occurrencesFields, List.mem_append] at hc
    rcases hc with hc | hc
    · cases hl : J.lookup k kvs with
      | none => simp [hl] at hc
      | some v => rw [hl] at hc; exact occurrences_non_null cfg t v c hc
    · exact occurrencesFields_non_null cfg rest kvs c hc
end

/-- `parse` is never called on null -/
theorem parse_never_null (accept : Leaf → J → Bool) (cfg : ScalarCfg) (t : RT) (j : J) (h : conforms t j = true) :
    ∀ c ∈ (validateLog accept (annOfR cfg t) j).calls, c.raw.isNull = false := by
  rw [parse_once accept cfg t j h]; exact occurrences_non_null cfg t j

/-! ## 1b. Results over ABSTRACT positions: unions of member classes, under any nesting of Optional / List

  An interface / union field resolved with inline fragments (or fragments on subtypes) becomes
  `Union["…A", "…B", …]` of classes that each declare the fields selected on the interface level - a custom
  scalar selected there stands in EVERY member class.  pydantic validates a plain union of model classes by
  trying every member (Spec/PydUnionLog.lean), which would call `parse` once per member; with
  `Field(discriminator="typename__")` only the member named by `__typename` is validated.  Whether `parse` is
  called once therefore depends on WHERE the generator puts the discriminator: `annotate_nested_unions`
  (walks the slice through every wrapper) and the field-level keyword (a union at the top).
  Model/ResultUnion.lean models that pipeline on annotation syntax; the theorems below hold for every shape. -/

/-- `unions_all_discriminated`: for every shape - any nesting of `Optional[…]` / `List[…]` above an abstract
    position, abstract positions inside member classes, … - the generator's pipeline (`rawAnn`, then
    `annotate_nested_unions` on the slice, then the field-level discriminator) emits the annotation in which EVERY
    union is a tagged union, and no plain `Union[…]` is left anywhere (at any depth, member classes included). -/
theorem unions_all_discriminated (cfg : ScalarCfg) (t : RTU) :
    annField cfg t = finalAnn cfg t ∧ hasPlainUnion (annField cfg t) = false := by
  have h : annField cfg t = finalAnn cfg t := top_final cfg t
  exact ⟨h, by rw [h]; exact final_no_plain_union cfg t⟩

/-- the walk alone (a slice: what stands below the outer wrapper of a field) -/
theorem nested_walk_discriminates (cfg : ScalarCfg) (t : RTU) :
    annotateNested (rawAnn cfg t) = finalAnn cfg t := nested_final cfg t

/-- `parse_once_abs`: for every response shape WITH abstract positions and every conformant value, validation of
    the emitted annotation calls `parse` on exactly the non-null custom-scalar occurrences of the member each object
    belongs to, each once, in order - never once per member class. -/
theorem parse_once_abs (accept : Leaf → J → Bool) (cfg : ScalarCfg) (t : RTU) (j : J) (h : conformsU t j = true) :
    (validateU accept (annField cfg t) j).calls = occurrencesU cfg t j := by
  rw [(unions_all_discriminated cfg t).1]
  exact parse_once_final accept cfg t j h

/-- … and never on null -/
theorem parse_never_null_abs (accept : Leaf → J → Bool) (cfg : ScalarCfg) (t : RTU) (j : J) (h : conformsU t j = true) :
    ∀ c ∈ (validateU accept (annField cfg t) j).calls, c.raw.isNull = false := by
  rw [parse_once_abs accept cfg t j h]; exact occurrencesU_non_null cfg t j

/-- shapes without abstract positions (section 1) are the special case `ofRT`: same conformant values, same
    occurrences; so `parse_once_abs` restates `parse_once` there -/
theorem abs_extends_plain (cfg : ScalarCfg) (t : RT) (j : J) :
    conformsU (ofRT t) j = conforms t j ∧ occurrencesU cfg (ofRT t) j = occurrences cfg t j :=
  ⟨conformsU_ofRT t j, occurrencesU_ofRT cfg t j⟩

/-- non-vacuity: `animals: [Animal]!` (nullable items) with `stamp: ScA!` selected on the interface and
    `... on Cat { c }`; a conformant value with a `Cat`, a null and a `Bird` -/
def exAnimal : Flds := .cons "__typename" (.tag ["Animal", "Bird"]) (.cons "stamp" (.custom "ScA" true) .nil)
def exCat : Flds := .cons "__typename" (.tag ["Cat"]) (.cons "stamp" (.custom "ScA" true) (.cons "c" (.custom "ScA" false) .nil))
def exAnimals : RTU := .list (.abs (.cons exAnimal (.cons exCat .nil)) false) true
def exAnimalsValue : J := .arr [.obj [("__typename", .str "Cat"), ("stamp", .str "t1"), ("c", .null)], .null,
  .obj [("__typename", .str "Bird"), ("stamp", .str "t2")]]
example : conformsU exAnimals exAnimalsValue = true := by decide
example : (occurrencesU [("ScA", C03.scaData)] exAnimals exAnimalsValue).length = 2 := by decide
example : ((validateU (fun _ _ => true) (annField [("ScA", C03.scaData)] exAnimals) exAnimalsValue).calls.map (·.fn)) =
    ((occurrencesU [("ScA", C03.scaData)] exAnimals exAnimalsValue).map (·.fn)) := by decide

/-- why the discriminator matters: on the annotation BEFORE the walk (what a walk that stops at `Optional` would
    leave inside the list) the same value makes pydantic call `parse` once per member class: 4 calls for 2 occurrences -/
theorem plain_union_overcalls :
    (validateU (fun _ _ => true) (rawAnn [("ScA", C03.scaData)] exAnimals) exAnimalsValue).calls.length = 4 := by decide

/-! ## 2. Input-model fields: `serialize` exactly once per set, non-None leaf, at any depth -/

/-- `serialize_once_fields`: dumping an input-model instance calls `serialize` exactly on its set,
    non-None custom-scalar leaves (list items and nested instances included), each once, in order. -/
theorem serialize_once_fields (cfg : Cfg) (fns : UserFns) (hy : Hyp cfg fns) (n : String) (nn : Bool) (cls : String)
    (fields : List (FieldKey × AV)) (ht : hasType cfg (.named n nn) (.model cls fields) = true) :
    ∃ kvs calls, dumpFields fns fields = .ok (kvs, calls) ∧ calls = serCallsFields cfg fields := by
  obtain ⟨kvs, calls, hd, hc, _⟩ := model_Good cfg fns hy n nn cls fields ht
  exact ⟨kvs, calls, hd, hc⟩

mutual
/-- the calls a value is entitled to never have `None` / `UNSET` as argument: always a scalar value -/
theorem serCalls_scalar_args (cfg : Cfg) (v : AV) : ∀ c ∈ serCalls cfg v, ∃ j, c.arg = .leaf (some j) := by
  cases v with
  | custom sc j =>
    intro c hc
    simp only [serCalls] at hc
    cases hs : cfg.serializeOf sc with
    | none => simp [hs] at hc
    | some f => simp [hs] at hc; subst hc; exact ⟨j, rfl⟩
  | list xs => intro c hc; simp only [serCalls] at hc; exact serCallsList_scalar_args cfg xs c hc
  | model cls fields => intro c hc; simp only [serCalls] at hc; exact serCallsFields_scalar_args cfg fields c hc
  | _ => intro c hc; simp [serCalls] at hc
theorem serCallsList_scalar_args (cfg : Cfg) (xs : List AV) : ∀ c ∈ serCallsList cfg xs, ∃ j, c.arg = .leaf (some j) := by
  cases xs with
  | nil => intro c hc; simp [serCallsList] at hc
  | cons x xs =>
    intro c hc
    simp only [serCallsList, List.mem_append] at hc
    rcases hc with hc | hc
    · exact serCalls_scalar_args cfg x c hc
    · exact serCallsList_scalar_args cfg xs c hc
theorem serCallsFields_scalar_args (cfg : Cfg) (fields : List (FieldKey × AV)) :
    ∀ c ∈ serCallsFields cfg fields, ∃ j, c.arg = .leaf (some j) := by
  cases fields with
  | nil => intro c hc; simp [serCallsFields] at hc
  | cons p rest =>
    obtain ⟨fk, v⟩ := p
    intro c hc
    simp only [serCallsFields, List.mem_append] at hc
    rcases hc with hc | hc
    · exact serCalls_scalar_args cfg v c hc
    · exact serCallsFields_scalar_args cfg rest c hc
end

/-! ## 3. Type-only and unconfigured scalars -/

/-- `type_only_roundtrip`: a scalar configured with only a (pydantic-native) type gets the bare
    type name in results, in input classes and in the signature; no user function stands anywhere,
    so the value round-trips through pydantic's own handling of that type. -/
theorem type_only_roundtrip (d : ScalarData) (hp : truthy? d.parse = none) (hs : truthy? d.serialize = none) :
    resultLeaf d = .name d.typeName ∧ inputLeaf d = .name d.typeName ∧
    (∀ (env : Env) (sc py : String), lookupScalar env.scalars sc = some d → dictValue env py (.custom sc) = .name py) := by
  refine ⟨by simp [resultLeaf, ScalarData.parseName, hp], by simp [inputLeaf, ScalarData.serializeName, hs], ?_⟩
  intro env sc py hl
  simp [dictValue, hl, ScalarData.serializeName, hs]

/-- `unconfigured_passthrough`: a scalar that is not configured is `Any` everywhere; a response
    value reaches user code unchanged without any call, an argument travels unchanged. -/
theorem unconfigured_passthrough (cfg : ScalarCfg) (sc : String) (nn : Bool) (h : lookupScalar cfg sc = none) :
    annOfR cfg (.custom sc nn) = .leaf (.name "Any") (!nn) ∧
    (∀ accept j, (validateLog accept (annOfR cfg (.custom sc nn)) j).calls = []) ∧
    (∀ (env : Env) py, env.scalars = cfg → env.kind sc = some .scalar →
        parseNamed env sc (!nn) = .ok (.leaf (.name ((Util.lookupStr sc Tables.inputScalarsMap).getD "Any")) (!nn), .plain) ∧
        dictValue env py .plain = .name py) ∧
    (∀ fns opt j, dumpAnn fns (.leaf (.name "Any") opt) (.custom sc j) = .ok (.leaf (some j), [])) := by
  refine ⟨by simp [annOfR, h], ?_, ?_, ?_⟩
  · intro accept j
    simp only [annOfR, h, validateLog]
    by_cases hn : (j.isNull && !nn) = true <;> simp [hn, validateLeaf]
  · intro env py he hk
    subst he
    exact ⟨by simp [parseNamed, hk, h], rfl⟩
  · intro fns opt j; simp [dumpAnn, serLeaf]

/-! ## 4. Imports -/

/-- the names the emitted annotations / calls of a scalar refer to -/
def usedNames (d : ScalarData) : List String :=
  d.typeName :: (d.parseName.toList ++ d.serializeName.toList)

theorem mem_dottedImports (x : String) (l : List String) (hx : x ∈ l) (hd : hasDot x = true) :
    objectName x ∈ boundNames (dottedImports l) := by
  induction l with
  | nil => cases hx
  | cons y l ih =>
    simp only [List.mem_cons] at hx
    by_cases hy : hasDot y = true
    · simp only [dottedImports, hy, if_true, boundNames, List.map_cons, List.flatten_cons, List.mem_append]
      rcases hx with hx | hx
      · subst hx; left; simp
      · right; exact ih hx
    · simp only [dottedImports, hy]
      rcases hx with hx | hx
      · subst hx; exact absurd hd hy
      · exact ih hx

/-- `imports_cover`: every name an emitted annotation or call uses is bound by an emitted import,
    unless it is an undotted name without the `import` key (then it has to be a builtin such as
    `int`, `str`: nothing is imported for it by design). -/
theorem imports_cover (d : ScalarData) :
    ∀ x ∈ d.namesToImport,
      objectName x ∈ boundNames (scalarImports d) ∨ (hasDot x = false ∧ truthy? d.import_ = none) := by
  intro x hx
  by_cases hd : hasDot x = true
  · left
    simp only [scalarImports, boundNames, List.map_append, List.flatten_append, List.mem_append]
    right
    exact mem_dottedImports x _ hx hd
  · have hd' : hasDot x = false := by simpa using hd
    cases hi : truthy? d.import_ with
    | none => right; exact ⟨hd', rfl⟩
    | some m =>
      left
      have hne : d.namesToImport.isEmpty = false := by
        cases hl : d.namesToImport with
        | nil => rw [hl] at hx; cases hx
        | cons a b => rfl
      simp only [scalarImports, hi, hne, boundNames, List.map_append, List.flatten_append, List.mem_append]
      left
      simp [objectName, hd', hx]

/-- … and `usedNames` are exactly the object names of `names_to_import` -/
theorem usedNames_from_imports (d : ScalarData) (ht : truthy? (some d.type_) = some d.type_) :
    ∀ n ∈ usedNames d, ∃ x ∈ d.namesToImport, objectName x = n := by
  intro n hn
  simp only [usedNames, List.mem_cons, List.mem_append, Option.mem_toList] at hn
  rcases hn with hn | hn | hn
  · exact ⟨d.type_, by simp [ScalarData.namesToImport, ht], hn.symm⟩
  · simp only [ScalarData.parseName, Option.map_eq_some_iff] at hn
    obtain ⟨p, hp, rfl⟩ := hn
    exact ⟨p, by simp [ScalarData.namesToImport, hp], rfl⟩
  · simp only [ScalarData.serializeName, Option.map_eq_some_iff] at hn
    obtain ⟨p, hp, rfl⟩ := hn
    exact ⟨p, by simp [ScalarData.namesToImport, hp], rfl⟩

/-- every emitted `from … import name` is Python iff the finding trigger C07-F3 is off -/
def importsWellFormed (d : ScalarData) : Bool := (scalarImports d).all (fun i => i.names.all (fun n => !hasDot n))

theorem afterLastDot_nodot (l : List Char) : (afterLastDot l).contains '.' = false := by
  induction l with
  | nil => rfl
  | cons c cs ih =>
    by_cases hc : cs.contains '.' = true
    · simp only [afterLastDot, hc, if_true]; exact ih
    · have hc' : cs.contains '.' = false := by simpa using hc
      by_cases hd : (c == '.') = true
      · simp only [afterLastDot, hc', Bool.false_eq_true, if_false, hd, if_true]
      · have hd' : (c == '.') = false := by simpa using hd
        have hd'' : ('.' == c) = false := by
          simp only [beq_eq_false_iff_ne, ne_eq] at hd' ⊢; exact fun e => hd' e.symm
        simp only [afterLastDot, hc', Bool.false_eq_true, if_false, hd', List.contains_cons, hd'', Bool.false_or]

theorem objectName_nodot (x : String) : hasDot (objectName x) = false := by
  by_cases hx : hasDot x = true
  · have hx' : x.toList.contains '.' = true := hx
    simp only [objectName, hasDot, hx', if_true, String.toList_ofList]
    exact afterLastDot_nodot x.toList
  · simp only [objectName, hx]; simpa using hx

theorem dottedImports_wellformed (l : List String) :
    (dottedImports l).all (fun i => i.names.all (fun n => !hasDot n)) = true := by
  induction l with
  | nil => rfl
  | cons y l ih =>
    by_cases hy : hasDot y = true
    · simp [dottedImports, hy, ih, objectName_nodot]
    · simp [dottedImports, hy, ih]

theorem imports_wellformed_iff (d : ScalarData) (hne : d.namesToImport ≠ []) :
    importsWellFormed d = true ↔ trigImportKeyDotted d = false := by
  have hd := dottedImports_wellformed d.namesToImport
  cases hi : truthy? d.import_ with
  | none => simp [importsWellFormed, scalarImports, hi, trigImportKeyDotted, hd]
  | some m =>
    have hemp : d.namesToImport.isEmpty = false := by
      cases hl : d.namesToImport with
      | nil => exact absurd hl hne
      | cons a b => rfl
    simp only [importsWellFormed, scalarImports, hi, hemp, List.all_append, Bool.and_eq_true, hd, and_true,
      trigImportKeyDotted, Option.isSome_some, Bool.true_and]
    simp [List.all_eq_true, List.any_eq_false]

/-! ## 4b. The `input_types.py` module: the scalar imports cover every input class, whichever are emitted -/

section InputsModule
open Ariadne.InputImports Ariadne.InputFields

/-- a non-empty `field_type` is the base name of the type; when it names a scalar, that scalar is configured -/
theorem fieldType_spec (cfg : ScalarCfg) (kind : String → TKind) (t : GT) (h : fieldType cfg kind t ≠ "") :
    fieldType cfg kind t = baseName t ∧ (kind (baseName t) = .scalar → (lookupScalar cfg (baseName t)).isSome = true) := by
  induction t with
  | named n nn =>
    simp only [fieldType, baseName] at h ⊢
    unfold namedFieldType at h ⊢
    cases hk : kind n with
    | scalar =>
      simp only [hk] at h ⊢
      cases hb : Util.lookupStr n Tables.inputScalarsMap with
      | some py => simp [hb] at h
      | none =>
        cases hl : lookupScalar cfg n with
        | none => simp [hb, hl] at h
        | some d => simp [hb, hl]
    | input => simp
    | enum => simp
    | other => simp [hk] at h
  | list it nn ih => simpa [fieldType, baseName] using ih (by simpa [fieldType] using h)

/-- the field type of a field whose base type is a configured, non-built-in scalar is that scalar -/
theorem fieldType_of_configured (cfg : ScalarCfg) (kind : String → TKind) (t : GT) (d : ScalarData)
    (hk : kind (baseName t) = .scalar) (hb : Util.lookupStr (baseName t) Tables.inputScalarsMap = none)
    (hd : lookupScalar cfg (baseName t) = some d) : fieldType cfg kind t = baseName t := by
  induction t with
  | named n nn => simp only [baseName] at hk hb hd; simp [fieldType, baseName, namedFieldType, hk, hb, hd]
  | list it nn ih => simpa [fieldType, baseName] using ih hk hb hd

/-- everything `_save_dependencies` appended to `_used_scalars` is a key of `custom_scalars` -/
theorem usedScalars_configured (s : ISchema) (cfg : ScalarCfg) :
    ∀ sc ∈ usedScalars (inputDefsOf s cfg), (lookupScalar cfg sc).isSome = true := by
  intro sc hsc
  simp only [usedScalars, List.mem_flatMap, inputDefsOf, List.mem_filterMap] at hsc
  obtain ⟨dfn, ⟨p, _, hp⟩, hin⟩ := hsc
  cases hp2 : p.2 with
  | input fs =>
    simp only [hp2, Option.some.injEq] at hp
    subst hp
    simp only [scalarRefs, List.mem_filterMap] at hin
    obtain ⟨r, ⟨f, _, hr⟩, hrs⟩ := hin
    cases r with
    | scalar n =>
      simp only [Option.some.injEq] at hrs
      subst hrs
      unfold refOf at hr
      by_cases he : (fieldType cfg (kindOf s) f.type == "") = true
      · simp [he] at hr
      · simp only [he, Bool.false_eq_true, if_false] at hr
        have hne : fieldType cfg (kindOf s) f.type ≠ "" := by simpa using he
        obtain ⟨h1, h2⟩ := fieldType_spec cfg (kindOf s) f.type hne
        cases hk : kindOf s (fieldType cfg (kindOf s) f.type) with
        | scalar =>
          simp only [hk, Option.some.injEq, Prune.Ref.scalar.injEq] at hr
          rw [← hr, h1]; exact h2 (by rw [← h1]; exact hk)
        | input => simp [hk] at hr
        | enum => simp [hk] at hr
        | other => simp [hk] at hr
    | input n => simp at hrs
    | enum n => simp at hrs
  | scalar => simp [hp2] at hp
  | enum vs => simp [hp2] at hp
  | output => simp [hp2] at hp

theorem scalarImportsOf_total (cfg : ScalarCfg) :
    ∀ l : List String, (∀ sc ∈ l, (lookupScalar cfg sc).isSome = true) → ∃ is, scalarImportsOf cfg l = .ok is := by
  intro l
  induction l with
  | nil => intro _; exact ⟨[], rfl⟩
  | cons sc rest ih =>
    intro h
    obtain ⟨is, his⟩ := ih (fun x hx => h x (List.mem_cons_of_mem _ hx))
    have hsc := h sc List.mem_cons_self
    cases hl : lookupScalar cfg sc with
    | none => simp [hl] at hsc
    | some d => exact ⟨scalarImports d ++ is, by simp [scalarImportsOf, hl, his]⟩

theorem scalarImportsOf_mem (cfg : ScalarCfg) :
    ∀ (l : List String) (is : List Import), scalarImportsOf cfg l = .ok is →
      ∀ sc ∈ l, ∀ d, lookupScalar cfg sc = some d → ∀ i ∈ scalarImports d, i ∈ is := by
  intro l
  induction l with
  | nil => intro is _ sc hsc; cases hsc
  | cons a rest ih =>
    intro is h sc hsc d hd i hi
    simp only [scalarImportsOf] at h
    cases hl : lookupScalar cfg a with
    | none => simp [hl] at h
    | some da =>
      cases hr : scalarImportsOf cfg rest with
      | error e => simp [hl, hr] at h
      | ok is' =>
        simp only [hl, hr, Except.ok.injEq] at h
        subst h
        rcases List.mem_cons.mp hsc with he | he
        · subst he
          rw [hl] at hd; cases hd
          exact List.mem_append_left _ hi
        · exact List.mem_append_right _ (ih is' hr sc he d hd i hi)

/-- `generate` never fails: no `KeyError` on `custom_scalars[...]`, no runaway recursion, for every
    schema, configuration and `types_to_include` -/
theorem inputs_generate_total (s : ISchema) (cfg : ScalarCfg) (roots : Option (List String)) :
    ∃ m, InputImports.generate s cfg roots = .ok m := by
  obtain ⟨is, his⟩ := scalarImportsOf_total cfg _ (usedScalars_configured s cfg)
  cases roots with
  | none =>
    exact ⟨⟨(inputDefsOf s cfg).map (·.name), usedScalars (inputDefsOf s cfg), is⟩,
      by simp [InputImports.generate, Prune.filterInputDefs, his]⟩
  | some rs =>
    obtain ⟨l, hl, _⟩ := Prune.typesNames_spec (inputDefsOf s cfg) rs
    exact ⟨⟨((inputDefsOf s cfg).filter (fun c => decide (c.name ∈ l))).map (·.name), usedScalars (inputDefsOf s cfg), is⟩,
      by simp [InputImports.generate, Prune.filterInputDefs, hl, his]⟩

/-- every emitted class is an input type of the schema -/
theorem emitted_classes_are_inputs (s : ISchema) (cfg : ScalarCfg) (roots : Option (List String)) (m : InputsModule)
    (h : InputImports.generate s cfg roots = .ok m) : ∀ c ∈ m.classes, ∃ fs, (c, IType.input fs) ∈ s.types := by
  intro c hc
  have hsub : ∀ cds, Prune.filterInputDefs (inputDefsOf s cfg) roots = some cds → ∀ x ∈ cds, x ∈ inputDefsOf s cfg := by
    intro cds hcds x hx
    cases roots with
    | none => simp only [Prune.filterInputDefs, Option.some.injEq] at hcds; subst hcds; exact hx
    | some rs =>
      simp only [Prune.filterInputDefs, Option.map_eq_some_iff] at hcds
      obtain ⟨ns, _, rfl⟩ := hcds
      exact (List.mem_filter.mp hx).1
  unfold InputImports.generate at h
  cases hf : Prune.filterInputDefs (inputDefsOf s cfg) roots with
  | none => simp [hf] at h
  | some cds =>
    cases hi : scalarImportsOf cfg (usedScalars (inputDefsOf s cfg)) with
    | error e => simp [hf, hi] at h
    | ok is =>
      simp only [hf, hi, Except.ok.injEq] at h
      subst h
      simp only [List.mem_map] at hc
      obtain ⟨dfn, hd, rfl⟩ := hc
      have := hsub cds hf dfn hd
      simp only [inputDefsOf, List.mem_filterMap] at this
      obtain ⟨p, hp, hp2⟩ := this
      cases hq : p.2 with
      | input fs => simp only [hq, Option.some.injEq] at hp2; subst hp2; exact ⟨fs, by rw [← hq]; exact hp⟩
      | scalar => simp [hq] at hp2
      | enum vs => simp [hq] at hp2
      | output => simp [hq] at hp2

/-- `inputs_imports_cover`: for every `types_to_include` (hence both values of `include_all_inputs`),
    every input type `n` of the schema (by `emitted_classes_are_inputs`: every emitted class, the
    directly requested ones and the ones pulled in by the dependency closure alike) and every field of
    it whose base type is a configured custom scalar `d`: the field's annotation leaf is
    `generate_input_scalar_annotation(d)`, every import `generate_scalar_imports(d)` makes is in the
    module, and every name the annotation uses is bound by the module's imports (or is an undotted
    name configured without the `import` key: a builtin such as `str`, by design). -/
theorem inputs_imports_cover (s : ISchema) (cfg : ScalarCfg) (roots : Option (List String)) (m : InputsModule)
    (h : InputImports.generate s cfg roots = .ok m)
    (n : String) (fs : List IField) (hn : (n, IType.input fs) ∈ s.types) (f : IField) (hf : f ∈ fs) (d : ScalarData)
    (hk : kindOf s (baseName f.type) = .scalar) (hb : Util.lookupStr (baseName f.type) Tables.inputScalarsMap = none)
    (hd : lookupScalar cfg (baseName f.type) = some d) (hne : baseName f.type ≠ "")
    (ht : truthy? (some d.type_) = some d.type_) :
    namedLeaf cfg (kindOf s) (baseName f.type) = inputLeaf d ∧
    (∀ i ∈ scalarImports d, i ∈ m.scalarImports) ∧
    (∀ x ∈ (inputLeaf d).uses, ∃ y ∈ d.namesToImport, objectName y = x ∧
        (x ∈ boundNames m.scalarImports ∨ (hasDot y = false ∧ truthy? d.import_ = none))) := by
  have himp : ∀ i ∈ scalarImports d, i ∈ m.scalarImports := by
    have hft := fieldType_of_configured cfg (kindOf s) f.type d hk hb hd
    have hmem : baseName f.type ∈ usedScalars (inputDefsOf s cfg) := by
      simp only [usedScalars, List.mem_flatMap]
      refine ⟨{ name := n, fields := fs.filterMap (fun f => refOf (kindOf s) (fieldType cfg (kindOf s) f.type)) }, ?_, ?_⟩
      · simp only [inputDefsOf, List.mem_filterMap]
        exact ⟨(n, IType.input fs), hn, rfl⟩
      · simp only [scalarRefs, List.mem_filterMap]
        refine ⟨.scalar (baseName f.type), ⟨f, hf, ?_⟩, rfl⟩
        have hne' : (baseName f.type == "") = false := by simpa using hne
        simp [refOf, hft, hne', hk]
    unfold InputImports.generate at h
    cases hfl : Prune.filterInputDefs (inputDefsOf s cfg) roots with
    | none => simp [hfl] at h
    | some cds =>
      cases hi : scalarImportsOf cfg (usedScalars (inputDefsOf s cfg)) with
      | error e => simp [hfl, hi] at h
      | ok is =>
        simp only [hfl, hi, Except.ok.injEq] at h
        subst h
        exact scalarImportsOf_mem cfg _ is hi _ hmem d hd
  refine ⟨by simp [namedLeaf, hk, hb, hd], himp, ?_⟩
  intro x hx
  have hu : x ∈ usedNames d := by
    simp only [inputLeaf] at hx
    cases hs : d.serializeName with
    | none => simp [hs, Leaf.uses] at hx; simp [usedNames, hx]
    | some fn =>
      simp only [hs, Leaf.uses, List.mem_cons, List.not_mem_nil, or_false] at hx
      rcases hx with hx | hx <;> simp [usedNames, hx, hs]
  obtain ⟨y, hy, hyx⟩ := usedNames_from_imports d ht x hu
  refine ⟨y, hy, hyx, ?_⟩
  rcases imports_cover d y hy with hbd | hnd
  · left
    rw [← hyx]
    simp only [boundNames, List.mem_flatten, List.mem_map] at hbd ⊢
    obtain ⟨l, ⟨i, hi, rfl⟩, hl⟩ := hbd
    exact ⟨i.names, ⟨i, himp i hi, rfl⟩, hl⟩
  · right; exact hnd

/-- non-vacuity: `Order.line: Line`, `Line.price: Money` with `Money` configured by dotted paths; only
    `Order` is requested, `Line` is emitted through the closure and its scalar's imports are there -/
def exSchema : ISchema := ⟨[("Money", .scalar), ("Order", .input [⟨"line", .named "Line" true, none⟩]),
  ("Line", .input [⟨"price", .named "Money" true, none⟩]), ("Audit", .input [⟨"at", .named "Money" false, none⟩])]⟩
def exScalars : ScalarCfg := [("Money", { type_ := ".money.Money", serialize := some ".money.ser" })]
example : (match InputImports.generate exSchema exScalars (some ["Order"]) with
    | .ok m => decide (m = ⟨["Order", "Line"], ["Money", "Money"],
        [⟨".money", ["Money"]⟩, ⟨".money", ["ser"]⟩, ⟨".money", ["Money"]⟩, ⟨".money", ["ser"]⟩]⟩)
    | .error _ => false) = true := by decide

end InputsModule

/-! ## 4c. Result modules: the scalar imports cover every custom-scalar position of the module's classes -/

section ResultsModule

/-- `_add_enums_scalars_fragments_imports` never fails: no `KeyError` on `custom_scalars[...]`, for every shape -/
theorem results_imports_total (cfg : ScalarCfg) (t : RTU) : ∃ is, resultImports cfg t = .ok is :=
  importsOfNames_total cfg _ (usedScalarsU_configured cfg t)

/-- `results_imports_cover`: for every shape (abstract positions, member classes, lists at any depth) every leaf of
    the emitted annotation, classes entered, is either a plain name (`.name py`: a built-in / enum position, or
    `Any` for an unconfigured scalar) or `generate_result_scalar_annotation(d)` of a configured scalar `d` all of whose
    imports are in the module, and then every name the leaf uses is bound by the module's imports (or is an undotted
    name configured without the `import` key: a builtin such as `str`, by design). -/
theorem results_imports_cover (cfg : ScalarCfg) (t : RTU) (is : List Import) (h : resultImports cfg t = .ok is) :
    ∀ l ∈ leavesOf (annField cfg t),
      (∃ py, l = .name py) ∨
      (∃ sc d, lookupScalar cfg sc = some d ∧ l = resultLeaf d ∧ (∀ i ∈ scalarImports d, i ∈ is) ∧
        (truthy? (some d.type_) = some d.type_ →
          ∀ x ∈ l.uses, ∃ y ∈ d.namesToImport, objectName y = x ∧
            (x ∈ boundNames is ∨ (hasDot y = false ∧ truthy? d.import_ = none)))) := by
  intro l hl
  rw [(unions_all_discriminated cfg t).1] at hl
  rcases leaves_origin cfg t l hl with ⟨sc, hsc, d, hd, he⟩ | hp
  · right
    have himp : ∀ i ∈ scalarImports d, i ∈ is := importsOfNames_mem cfg _ is h sc hsc d hd
    refine ⟨sc, d, hd, he, himp, ?_⟩
    intro ht x hx
    have hu : x ∈ usedNames d := by
      subst he
      simp only [resultLeaf] at hx
      cases hs : d.parseName with
      | none => simp [hs, Leaf.uses] at hx; simp [usedNames, hx]
      | some fn =>
        simp only [hs, Leaf.uses, List.mem_cons, List.not_mem_nil, or_false] at hx
        rcases hx with hx | hx <;> simp [usedNames, hx, hs]
    obtain ⟨y, hy, hyx⟩ := usedNames_from_imports d ht x hu
    refine ⟨y, hy, hyx, ?_⟩
    rcases imports_cover d y hy with hbd | hnd
    · left
      rw [← hyx]
      simp only [boundNames, List.mem_flatten, List.mem_map] at hbd ⊢
      obtain ⟨l', ⟨i, hi, rfl⟩, hl'⟩ := hbd
      exact ⟨i.names, ⟨i, himp i hi, rfl⟩, hl'⟩
    · right; exact hnd
  · left; exact hp

/-- non-vacuity: the member classes of `exAnimals` with a builtin type and a module-qualified parse function
    (`type = "int"`, `parse = ".custom_scalars.parse_stamp"`): the import of `parse_stamp` is there -/
example : (match resultImports [("ScA", { type_ := "int", parse := some ".custom_scalars.parse_stamp" })] exAnimals with
    | .ok is => decide (is = [⟨".custom_scalars", ["parse_stamp"]⟩, ⟨".custom_scalars", ["parse_stamp"]⟩, ⟨".custom_scalars", ["parse_stamp"]⟩])
    | .error _ => false) = true := by decide

end ResultsModule

/-! ## 4d. client.py: the scalar imports cover every operation variable of a custom-scalar type -/

section ClientModule
open Ariadne.ClientImports Ariadne.C07Client

/-- the names the annotations / calls of a configured scalar use are bound by ANY import list that holds
    `generate_scalar_imports(d)` (or are undotted names configured without the `import` key) -/
theorem names_bound_of_imports (d : ScalarData) (is : List Import) (himp : ∀ i ∈ scalarImports d, i ∈ is)
    (ht : truthy? (some d.type_) = some d.type_) :
    ∀ x ∈ usedNames d, ∃ y ∈ d.namesToImport, objectName y = x ∧
      (x ∈ boundNames is ∨ (hasDot y = false ∧ truthy? d.import_ = none)) := by
  intro x hu
  obtain ⟨y, hy, hyx⟩ := usedNames_from_imports d ht x hu
  refine ⟨y, hy, hyx, ?_⟩
  rcases imports_cover d y hy with hbd | hnd
  · left
    rw [← hyx]
    simp only [boundNames, List.mem_flatten, List.mem_map] at hbd ⊢
    obtain ⟨l', ⟨i, hi, rfl⟩, hl'⟩ := hbd
    exact ⟨i.names, ⟨i, himp i hi, rfl⟩, hl'⟩
  · right; exact hnd

/-- non-vacuity: the documented configuration shape (dotted type, parse, serialize) -/
example : (∀ i ∈ scalarImports C03.scaData, i ∈ scalarImports C03.scaData ++ []) ∧
    truthy? (some C03.scaData.type_) = some C03.scaData.type_ := ⟨fun i hi => by simpa using hi, by decide⟩

/-- `ClientGenerator.generate` never fails on `custom_scalars[...]`: whatever operations `add_method` saw -/
theorem client_imports_total (env : Env) (ops : List (List VarDef)) (st' : Arguments.St)
    (h : generateAll env ops {} = .ok st') : ∃ is, clientScalarImports env.scalars st'.usedScalars = .ok is :=
  importsOfNames_total env.scalars _ (generateAll_configured env ops {} st' h (by intro sc hsc; cases hsc))

/-- `client_imports_cover`: for every list of operations, every operation and every variable of it whose base type
    is a configured custom scalar `d` (under any list / non-null wrappers): the parameter's annotation names
    `d.type_name`, the `variables` dict holds `serialize(py)` exactly when `serialize` is configured, every import
    `generate_scalar_imports(d)` makes is in the module, and every name used is bound by the module's imports (or is an
    undotted name configured without the `import` key). -/
theorem client_imports_cover (env : Env) (ops : List (List VarDef)) (st' : Arguments.St) (is : List Import)
    (h : generateAll env ops {} = .ok st') (hi : clientScalarImports env.scalars st'.usedScalars = .ok is) :
    ∀ defs ∈ ops, ∀ its, items env defs = .ok its → ∀ i ∈ its, ∀ sc, i.use = .custom sc →
      ∃ d, lookupScalar env.scalars sc = some d ∧ baseLeaf i.arg.ann = .name d.typeName ∧
        i.value = (match d.serializeName with | some f => .call f i.arg.py | none => .name i.arg.py) ∧
        (∀ im ∈ scalarImports d, im ∈ is) ∧
        (truthy? (some d.type_) = some d.type_ →
          ∀ x ∈ usedNames d, ∃ y ∈ d.namesToImport, objectName y = x ∧
            (x ∈ boundNames is ∨ (hasDot y = false ∧ truthy? d.import_ = none))) := by
  intro defs hd its hits i hmem sc hu
  obtain ⟨v, _, hv⟩ := items_mem env defs its hits i hmem
  obtain ⟨d, hl, hb, hval⟩ := item_custom env v i sc hv hu
  have hin : sc ∈ st'.usedScalars := generateAll_mem env ops {} st' h defs hd its hits i hmem sc hu
  have himp : ∀ im ∈ scalarImports d, im ∈ is := importsOfNames_mem env.scalars _ is hi sc hin d hl
  exact ⟨d, hl, hb, hval, himp, fun ht => names_bound_of_imports d is himp ht⟩

/-- non-vacuity: two operations; `$when: [Stamp!]` with `type = "int"`, `serialize = ".custom_scalars.serialize_stamp"` -/
def exStampData : ScalarData := { type_ := "int", serialize := some ".custom_scalars.serialize_stamp" }
def exClientKind (n : String) : Option Gql.Kind := if n = "Stamp" then some Gql.Kind.scalar else none
def exClientEnv : Env := { kind := exClientKind, scalars := [("Stamp", exStampData)] }
example : (match generateAll exClientEnv [[], [⟨"when", .list (.nonNull (.named "Stamp"))⟩]] {} with
    | .ok st => decide (st.usedScalars = ["Stamp"]) &&
        (match clientScalarImports exClientEnv.scalars st.usedScalars with
         | .ok is => decide (is = [⟨".custom_scalars", ["serialize_stamp"]⟩])
         | .error _ => false)
    | .error _ => false) = true := by decide

end ClientModule

/-! ## 5. Top-level arguments: the property as written is false -/

/-- C07 for the arguments of one call: `serialize` is called exactly once per non-null
    occurrence (as a multiset: the calls of the request are a permutation of the entitled ones),
    hence never for None and never for an omitted argument. -/
def SerializedOnce (cfg : Cfg) (fns : UserFns) (async : Bool) (opName opText : String)
    (defs : List VarDecl) (a : List AV) : Prop :=
  ∃ req, send (envOf cfg) fns async opName opText defs a = .ok req ∧ req.calls.Perm (serCallsList cfg a)

/-- every needed import is emitted (as Python) -/
def ImportsOK (cfg : Cfg) : Prop := ∀ p ∈ cfg.scalars, importsWellFormed p.2 = true

/-- C07 at full strength (argument side + imports; the result side is `parse_once`, which holds
    unconditionally): for every operation, every schema-valid call and every scalar configuration. -/
def C07_full : Prop :=
  ∀ (cfg : Cfg) (fns : UserFns) (async : Bool) (opName opText : String) (defs : List VarDecl) (a : List AV),
    C03.Valid_03 cfg fns defs → argsValid cfg (C03.idefs defs) a = true →
      SerializedOnce cfg fns async opName opText defs a ∧ ImportsOK cfg

/-- one trigger per open finding of findings.d/C07.json; the other name triggers are C03's
    findings (the method cannot be called at all there) -/
def Supported_07 (cfg : Cfg) (defs : List VarDecl) : Prop :=
  C03.Supported_03 cfg defs ∧ ¬ (cfg.scalars.any (fun p => trigImportKeyDotted p.2) = true)   -- C07-F3

instance (cfg : Cfg) (defs : List VarDecl) : Decidable (Supported_07 cfg defs) := by
  unfold Supported_07; infer_instance

theorem C07_partial (cfg : Cfg) (fns : UserFns) (async : Bool) (opName opText : String)
    (defs : List VarDecl) (a : List AV) (hv : C03.Valid_03 cfg fns defs) (hs : Supported_07 cfg defs)
    (hne : ∀ p ∈ cfg.scalars, p.2.namesToImport ≠ [])
    (ha : argsValid cfg (C03.idefs defs) a = true) :
    SerializedOnce cfg fns async opName opText defs a ∧ ImportsOK cfg := by
  refine ⟨?_, ?_⟩
  · exact send_calls cfg fns hv.hyp defs a opName opText "Client" async hv.inputTypes hv.varNames
      ((C03.supported_iff cfg defs).mp hs.1) ha
  · intro p hp
    rw [imports_wellformed_iff p.2 (hne p hp)]
    have := hs.2
    simp only [List.any_eq_true, not_exists, not_and, Bool.not_eq_true] at this
    exact this p hp

/-- executable form of `SerializedOnce` (count and arguments of the calls), to evaluate witnesses -/
def callArgKind : PV → String
  | .none => "None"
  | .unset => "UNSET"
  | .list _ => "list"
  | .leaf _ => "scalar"
  | _ => "other"

theorem perm_kinds {l1 l2 : List Call} (h : l1.Perm l2) :
    (l1.map (fun c => callArgKind c.arg)).Perm (l2.map (fun c => callArgKind c.arg)) := h.map _

/-- under `SerializedOnce` every call has a scalar value as argument -/
theorem serializedOnce_scalar_args {cfg : Cfg} {fns : UserFns} {async : Bool} {opName opText : String}
    {defs : List VarDecl} {a : List AV} (h : SerializedOnce cfg fns async opName opText defs a) :
    ∃ req, send (envOf cfg) fns async opName opText defs a = .ok req ∧
      ∀ c ∈ req.calls, callArgKind c.arg = "scalar" ∧ req.calls.length = (serCallsList cfg a).length := by
  obtain ⟨req, h1, h2⟩ := h
  refine ⟨req, h1, fun c hc => ⟨?_, h2.length_eq⟩⟩
  obtain ⟨j, hj⟩ := serCallsList_scalar_args cfg a c (h2.mem_iff.mp hc)
  simp [hj, callArgKind]

def badCallsB (cfg : Cfg) (fns : UserFns) (async : Bool) (opName opText : String) (defs : List VarDecl) (a : List AV) : Bool :=
  match send (envOf cfg) fns async opName opText defs a with
  | .ok req => req.calls.any (fun c => callArgKind c.arg != "scalar") || req.calls.length != (serCallsList cfg a).length
  | .error _ => true

theorem not_bad_of_once {cfg : Cfg} {fns : UserFns} {async : Bool} {opName opText : String}
    {defs : List VarDecl} {a : List AV} (h : SerializedOnce cfg fns async opName opText defs a) :
    badCallsB cfg fns async opName opText defs a = false := by
  obtain ⟨req, h1, h2⟩ := serializedOnce_scalar_args h
  simp only [badCallsB, h1, Bool.or_eq_false_iff, List.any_eq_false, bne_iff_ne, ne_eq, Decidable.not_not]
  refine ⟨fun c hc => by simpa using (h2 c hc).1, ?_⟩
  cases hq : req.calls with
  | nil =>
    obtain ⟨r, hr1, hr2⟩ := h
    rw [h1] at hr1; cases hr1
    have := hr2.length_eq; rw [hq] at this; simpa using this
  | cons c cs => have := (h2 c (by rw [hq]; simp)).2; rw [hq] at this; simpa using this

/-- C07-F1: an omitted / None nullable custom-scalar argument: serialize(UNSET), serialize(None) -/
theorem F1_witness_fails : ¬ SerializedOnce C03.scaCfg C03.wFns true "Q" "query Q" C03.f5Defs [.unset] :=
  fun h => absurd (not_bad_of_once h) (by decide)
theorem F1_none_witness_fails : ¬ SerializedOnce C03.scaCfg C03.wFns true "Q" "query Q" C03.f5Defs [.none] :=
  fun h => absurd (not_bad_of_once h) (by decide)

/-- C07-F2: one serialize(list) for a list of two scalars -/
theorem F2_witness_fails : ¬ SerializedOnce C03.scaCfg C03.wFns true "Q" "query Q" C03.f7Defs C03.f7Args :=
  fun h => absurd (not_bad_of_once h) (by decide)

/-- C07-F3: `import` key together with a dotted path -/
def f3Data : ScalarData :=
  { type_ := ".custom_scalars.TA", serialize := some "serialize_a", parse := some "parse_a", import_ := some ".custom_scalars" }
theorem F3_witness_fails : importsWellFormed f3Data = false ∧ trigImportKeyDotted f3Data = true := by decide

example : argsValid C03.scaCfg (C03.idefs C03.f5Defs) [.unset] = true ∧
    trigSerializeNullable (envOf C03.scaCfg) (C03.vdefs C03.f5Defs) = true := by decide
example : argsValid C03.scaCfg (C03.idefs C03.f7Defs) C03.f7Args = true ∧
    trigSerializeList (envOf C03.scaCfg) (C03.vdefs C03.f7Defs) = true := by decide

theorem C07_full_false : ¬ C07_full := by
  intro h
  have hv : C03.Valid_03 C03.scaCfg C03.wFns C03.f5Defs := ⟨C03.sca_hyp, by decide, by decide⟩
  exact F1_witness_fails (h C03.scaCfg C03.wFns true "Q" "query Q" C03.f5Defs [.unset] hv (by decide)).1

/-! ### 5b. The C07-F1 region, value by value: a nullable serialised variable with a PRESENT value is fine

  `trigSerializeNullable` (shared with C03) is a predicate on the variable *definitions*: `C07_partial`
  says nothing about an operation that declares `$d: Scalar` even when the caller passes a value.
  On the call-log components of a request (`dictCalls`: the calls of the `variables` dict literal,
  `dumpP`: the calls of the dumps of the arguments - what `send` returns as `req.calls` wherever it
  succeeds, `send_calls`) the region is narrowed to the VALUES on which the unchanged code really
  fails: a serialised scalar variable may be nullable as long as the value passed is a present scalar
  value - truthy or falsy alike: the model has no notion of truthiness, `serialize` is called
  unconditionally.  (The composition with `send` over the larger region would need `callMethod_ok` /
  `dict_coerces` of Proofs/ArgDeliver.lean re-proved for the value-level condition: not done; the
  whole-request call log is tied to the real packages there by the `serialize-log` correspondence.) -/

def isCustomValue : AV → Bool
  | .custom _ _ => true
  | _ => false

/-- value-level form of the serialize triggers: a variable whose scalar has `serialize` is not a
    list and is either `Scalar!` or carries a present scalar value -/
def serTopOKV (cfg : Cfg) : List IField → List AV → Bool
  | d :: ds, v :: vs =>
    (match cfg.serOfType d.type with
     | some _ => !d.type.isList && (d.type.nonNull || isCustomValue v)
     | none => true) && serTopOKV cfg ds vs
  | _, _ => true

theorem serTopOKV_of_serTopOK (cfg : Cfg) (ds : List IField) (vs : List AV) (h : serTopOK cfg ds = true) :
    serTopOKV cfg ds vs = true := by
  induction ds generalizing vs with
  | nil => simp [serTopOKV]
  | cons d ds ih =>
    cases vs with
    | nil => simp [serTopOKV]
    | cons v vs =>
      simp only [serTopOK, Bool.and_eq_true] at h
      simp only [serTopOKV, Bool.and_eq_true]
      refine ⟨?_, ih vs h.2⟩
      cases hser : cfg.serOfType d.type with
      | none => rfl
      | some f =>
        have h1 := h.1
        rw [hser] at h1
        simp only [Bool.and_eq_true, Bool.not_eq_true'] at h1
        simp [h1.1, h1.2]

/-- per argument, value-level: dict part + dump part = the entitled calls -/
theorem arg_calls_present (cfg : Cfg) (fns : UserFns) (hy : Hyp cfg fns) (d : IField) (v : AV)
    (hv : (v.isUnset = true ∧ d.type.nonNull = false) ∨ hasType cfg d.type v = true)
    (hs : (match cfg.serOfType d.type with
           | some _ => !d.type.isList && (d.type.nonNull || isCustomValue v)
           | none => true) = true) :
    dictPart cfg d v ++ (if v.isUnset then [] else argCalls fns v) = serCalls cfg v := by
  cases hser : cfg.serOfType d.type with
  | none => exact arg_calls cfg fns hy d v hv (by simp [hser])
  | some f =>
    rw [hser] at hs
    simp only [Bool.and_eq_true, Bool.not_eq_true', Bool.or_eq_true] at hs
    rcases hs.2 with hnn | hc
    · exact arg_calls cfg fns hy d v hv (by simp [hser, hnn, hs.1])
    · cases v with
      | custom sc j =>
        rcases hv with ⟨hu, _⟩ | ht
        · simp [AV.isUnset] at hu
        · cases hty : d.type with
          | list it nn => have := hs.1; rw [hty] at this; simp [GT.isList] at this
          | named n nn =>
            rw [hty] at ht hser
            have hl : leafOK cfg n (.custom sc j) = true := by simpa [hasType] using ht
            simp only [leafOK, Bool.and_eq_true, beq_iff_eq] at hl
            obtain ⟨⟨e, _⟩, _⟩ := hl
            subst e
            have hsc' := isScalar_of_serOfType cfg _ f hser
            have hsc'' : cfg.isScalar sc = true := by simpa [GT.base] using hsc'
            have hsc : cfg.serializeOf sc = some f := by simpa [Cfg.serOfType, GT.base, hsc''] using hser
            simp [serCalls, hsc, argCalls, objOf, AV.isUnset, dictPart, hty, hser]
      | _ => simp [isCustomValue] at hc

/-- `request_calls_present`: for every schema-valid assignment in which each serialised scalar
    variable is `Scalar!` or carries a present value (nullable variables included), the calls of the
    dict literal together with the calls of the dumps are a permutation of one call per non-null
    occurrence - whatever the values are (nothing depends on their truthiness). -/
theorem request_calls_present (cfg : Cfg) (fns : UserFns) (hy : Hyp cfg fns) (ds : List IField) (vs : List AV)
    (hv : argsValid cfg ds vs = true) (hs : serTopOKV cfg ds vs = true) :
    (dictCalls cfg ds vs ++ dumpP fns vs).Perm (serCallsList cfg vs) := by
  induction ds generalizing vs with
  | nil => cases vs <;> simp [argsValid] at hv; simp [dictCalls, dumpP, serCallsList]
  | cons d ds ih =>
    cases vs with
    | nil => simp [argsValid] at hv
    | cons v vs =>
      have hz := (argsValid_zip cfg (d :: ds) (v :: vs) hv).2 (d, v) (by simp)
      simp only [argsValid, Bool.and_eq_true] at hv
      simp only [serTopOKV, Bool.and_eq_true] at hs
      have ih' := ih vs hv.2 hs.2
      have ha := arg_calls_present cfg fns hy d v hz hs.1
      simp only [dictCalls, dumpP, serCallsList]
      refine (perm_interleave _ _ _ _).trans ?_
      rw [ha]
      exact List.Perm.append_left _ ih'

/-- non-vacuity: the C07-F1 witness definitions (`$a: ScA`, nullable) with a present value are inside the region,
    with `None` / omitted they are not -/
example : serTopOKV C03.scaCfg (C03.idefs C03.f5Defs) [.custom "ScA" (.str "")] = true ∧
    argsValid C03.scaCfg (C03.idefs C03.f5Defs) [.custom "ScA" (.str "")] = true ∧
    serTopOK C03.scaCfg (C03.idefs C03.f5Defs) = false ∧
    serTopOKV C03.scaCfg (C03.idefs C03.f5Defs) [.none] = false ∧
    serTopOKV C03.scaCfg (C03.idefs C03.f5Defs) [.unset] = false := by decide

/-! ## 6. Non-vacuity -/

example : Supported_07 C03.exCfg C03.exDefs ∧ argsValid C03.exCfg (C03.idefs C03.exDefs) C03.exArgs = true := by decide
example : badCallsB C03.exCfg C03.wFns false "Q" "query Q" C03.exDefs C03.exArgs = false := by decide
example : (serCallsList C03.exCfg C03.exArgs).length = 2 := by decide
example : conforms (.obj [("a", .list (.custom "ScA" false) true), ("b", .custom "ScA" true)] true)
    (.obj [("a", .arr [.str "x", .null, .num 3 0]), ("b", .arr [.null])]) = true := by decide
example : (occurrences [("ScA", C03.scaData)] (.obj [("a", .list (.custom "ScA" false) true), ("b", .custom "ScA" true)] true)
    (.obj [("a", .arr [.str "x", .null, .num 3 0]), ("b", .arr [.null])])).length = 3 := by decide

end Ariadne.C07
